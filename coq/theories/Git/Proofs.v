(* Proofs about M-GIT (Git/Model.v): specifications of the Git sub-commands on the states xvc's
   automation produces, the invariant of one automation call under the fixed control flow, and the
   lemmas behind Props/C15.v.  Trees are compared path by path ([teq]); no axioms. *)
From Coq Require Import List Bool NArith Lia.
From XV Require Import Base.Amap Gen.GitignoreInitial Git.Model.
Import ListNotations.

(* ---- boolean equalities ------------------------------------------------------------------- *)
Lemma list_eqb_spec {A : Type} (e : A -> A -> bool) :
  (forall a b, reflect (a = b) (e a b)) -> forall a b, reflect (a = b) (list_eqb e a b).
Proof.
  intros He a. induction a as [|x a IH]; intros [|y b]; cbn [list_eqb]; try (constructor; congruence).
  destruct (He x y) as [->|Hn]; cbn [andb].
  - destruct (IH b) as [->|Hn]; constructor; congruence.
  - constructor; congruence.
Qed.
Lemma comp_eqb_spec a b : reflect (a = b) (comp_eqb a b).
Proof. apply list_eqb_spec, Neqb_spec. Qed.
Lemma path_eqb_spec a b : reflect (a = b) (path_eqb a b).
Proof. apply list_eqb_spec, comp_eqb_spec. Qed.
Lemma blob_eqb_spec a b : reflect (a = b) (blob_eqb a b).
Proof. apply list_eqb_spec, Neqb_spec. Qed.
Lemma name_eqb_spec a b : reflect (a = b) (name_eqb a b).
Proof. apply list_eqb_spec, Neqb_spec. Qed.
Lemma oblob_eqb_spec a b : reflect (a = b) (oblob_eqb a b).
Proof.
  destruct a as [x|], b as [y|]; cbn [oblob_eqb]; try (constructor; congruence).
  destruct (blob_eqb_spec x y); constructor; congruence.
Qed.
Lemma path_eqb_refl p : path_eqb p p = true.
Proof. destruct (path_eqb_spec p p); congruence. Qed.
Lemma blob_eqb_refl p : blob_eqb p p = true.
Proof. destruct (blob_eqb_spec p p); congruence. Qed.
Lemma oblob_eqb_refl p : oblob_eqb p p = true.
Proof. destruct (oblob_eqb_spec p p); congruence. Qed.
Lemma name_eqb_refl p : name_eqb p p = true.
Proof. destruct (name_eqb_spec p p); congruence. Qed.
Lemma oblob_eqb_true a b : oblob_eqb a b = true -> a = b.
Proof. destruct (oblob_eqb_spec a b); congruence. Qed.
Lemma oblob_eqb_false a b : oblob_eqb a b = false -> a <> b.
Proof. destruct (oblob_eqb_spec a b); congruence. Qed.
Lemma oblob_neq a b : a <> b -> oblob_eqb a b = false.
Proof. destruct (oblob_eqb_spec a b); congruence. Qed.

(* ---- trees -------------------------------------------------------------------------------- *)
Lemma mem_spec p ps : mem p ps = true <-> In p ps.
Proof.
  unfold mem. rewrite existsb_exists. split.
  - intros [x [Hi He]]. destruct (path_eqb_spec p x); [subst; auto|discriminate].
  - intros Hi. exists p. split; [auto|apply path_eqb_refl].
Qed.
Lemma mem_false p ps : mem p ps = false <-> ~ In p ps.
Proof. rewrite <- mem_spec. destruct (mem p ps); split; congruence. Qed.

Lemma tget_tset t p v q : tget (tset t p v) q = if path_eqb p q then v else tget t q.
Proof.
  unfold tget, tset. destruct v as [b|].
  - cbn [get]. destruct (path_eqb_spec p q) as [->|Hn]; [reflexivity|].
    apply (@get_del_other _ _ path_eqb path_eqb_spec); auto.
  - rewrite (@get_del _ _ path_eqb path_eqb_spec). destruct (path_eqb p q); reflexivity.
Qed.

Lemma tget_upd ps : forall t f q, tget (upd t ps f) q = if mem q ps then f q else tget t q.
Proof.
  induction ps as [|p r IH]; intros t f q; cbn [upd]; [reflexivity|].
  rewrite IH. unfold mem. cbn [existsb]. fold (mem q r).
  destruct (mem q r); [now rewrite orb_true_r|]. rewrite orb_false_r.
  rewrite tget_tset. destruct (path_eqb_spec p q) as [->|Hn].
  - now rewrite path_eqb_refl.
  - destruct (path_eqb_spec q p); [congruence|reflexivity].
Qed.

Lemma tget_notin t p : ~ In p (tkeys t) -> tget t p = None.
Proof. apply (@notin_get_None _ _ path_eqb path_eqb_spec). Qed.
Lemma tget_some_in t p b : tget t p = Some b -> In p (tkeys t).
Proof.
  intros H. destruct (in_dec (fun a b => match path_eqb_spec a b with ReflectT _ e => left e | ReflectF _ n => right n end) p (tkeys t)) as [Hi|Hn]; auto.
  rewrite tget_notin in H by auto. discriminate.
Qed.

Definition teq (a b : tree) : Prop := forall p, tget a p = tget b p.

Lemma tree_eqb_teq a b : tree_eqb a b = true <-> teq a b.
Proof.
  unfold tree_eqb. rewrite forallb_forall. split.
  - intros H p. destruct (tget a p) as [x|] eqn:Ea.
    + rewrite <- Ea. apply oblob_eqb_true, H, in_or_app. left. eapply tget_some_in; eauto.
    + destruct (tget b p) as [y|] eqn:Eb; [|reflexivity].
      rewrite <- Ea, <- Eb. apply oblob_eqb_true, H, in_or_app. right. eapply tget_some_in; eauto.
  - intros H p _. rewrite (H p). apply oblob_eqb_refl.
Qed.
Lemma tree_eqb_nteq a b p : tget a p <> tget b p -> tree_eqb a b = false.
Proof.
  intros Hn. destruct (tree_eqb a b) eqn:E; [|reflexivity].
  apply tree_eqb_teq in E. elim Hn. apply E.
Qed.

Lemma existsb_false {A} (f : A -> bool) l : (forall x, In x l -> f x = false) -> existsb f l = false.
Proof.
  intros H. destruct (existsb f l) eqn:E; [|reflexivity].
  apply existsb_exists in E. destruct E as [x [Hi Hf]]. rewrite H in Hf; auto.
Qed.
Lemma is_nil_filter {A} (f : A -> bool) l : is_nil (filter f l) = true <-> forall x, In x l -> f x = false.
Proof.
  induction l as [|a l IH]; cbn [filter].
  - split; [intros _ x []|reflexivity].
  - destruct (f a) eqn:Ea; cbn [is_nil].
    + split; [discriminate|]. intros H. rewrite H in Ea; [discriminate|now left].
    + rewrite IH. split.
      * intros H x [<-|Hi]; auto.
      * intros H x Hi. apply H. now right.
Qed.
Lemma is_nil_true {A} (l : list A) : is_nil l = true -> l = [].
Proof. destruct l; [reflexivity|discriminate]. Qed.

(* ---- staged paths ------------------------------------------------------------------------- *)
Lemma staged_b_keys g p : staged_b g p = true -> In p (tkeys (head_tree g) ++ tkeys (g_index g)).
Proof.
  unfold staged_b. intros H. apply negb_true_iff, oblob_eqb_false in H.
  apply in_or_app.
  destruct (tget (head_tree g) p) eqn:E1; [left; eapply tget_some_in; eauto|].
  destruct (tget (g_index g) p) eqn:E2; [right; eapply tget_some_in; eauto|congruence].
Qed.
Lemma diff_cached_nil g : is_nil (diff_cached g) = true <-> forall p, staged_b g p = false.
Proof.
  unfold diff_cached. rewrite is_nil_filter. split.
  - intros H p. destruct (staged_b g p) eqn:E; [|reflexivity].
    rewrite <- E. apply H. now apply staged_b_keys.
  - intros H p _. apply H.
Qed.
Lemma mem_diff_cached g p : mem p (diff_cached g) = staged_b g p.
Proof.
  destruct (staged_b g p) eqn:E.
  - apply mem_spec. unfold diff_cached. apply filter_In. split; [now apply staged_b_keys|exact E].
  - apply mem_false. unfold diff_cached. rewrite filter_In. intros [_ H]. congruence.
Qed.
Lemma staged_b_false g p : staged_b g p = false <-> tget (head_tree g) p = tget (g_index g) p.
Proof.
  unfold staged_b. rewrite negb_false_iff. split; [apply oblob_eqb_true|intros ->; apply oblob_eqb_refl].
Qed.

(* ---- frames -------------------------------------------------------------------------------- *)
Definition frame (g g' : git) : Prop :=
  g_head g' = g_head g /\ g_branches g' = g_branches g /\ g_tags g' = g_tags g /\ g_log g' = g_log g.
Lemma frame_refl g : frame g g.
Proof. repeat split. Qed.
Lemma frame_trans a b c : frame a b -> frame b c -> frame a c.
Proof. unfold frame. intros (A1 & A2 & A3 & A4) (B1 & B2 & B3 & B4). repeat split; congruence. Qed.
Lemma frame_head_id g g' : frame g g' -> head_id g' = head_id g.
Proof. intros (A1 & A2 & A3 & A4). unfold head_id. now rewrite A1, A2. Qed.
Lemma frame_head_tree g g' : frame g g' -> head_tree g' = head_tree g.
Proof. intros F. unfold head_tree. rewrite (frame_head_id _ _ F). destruct F as (_ & _ & _ & ->). reflexivity. Qed.
Lemma frame_head_branch g g' : frame g g' -> head_branch g' = head_branch g.
Proof. intros (A1 & _). unfold head_branch. now rewrite A1. Qed.
Lemma frame_other_branches g g' : frame g g' -> other_branches g' = other_branches g.
Proof. intros (A1 & A2 & _). unfold other_branches. now rewrite A1, A2. Qed.

(* ---- stash push --staged ------------------------------------------------------------------- *)
Lemma push_frame g ok g1 : stash_push_staged g = (ok, g1) -> frame g g1.
Proof.
  unfold stash_push_staged. destruct (head_id g); [|intros [= _ <-]; apply frame_refl].
  destruct (is_nil (diff_cached g)); [intros [= _ <-]; apply frame_refl|].
  match goal with |- context [if ?c then _ else _] => destruct c end; intros [= _ <-]; repeat split.
Qed.

Lemma unapply_o_same h i : h <> i -> unapply_o h i i = Some h.
Proof.
  destruct h as [x|], i as [y|]; cbn [unapply_o]; intros Hn.
  - unfold unapply. destruct (blob_eqb_spec x y); [congruence|]. now rewrite blob_eqb_refl.
  - reflexivity.
  - now rewrite oblob_eqb_refl.
  - congruence.
Qed.

Definition stash_of (g : git) : stash_entry :=
  {| s_base := head_tree g; s_index := g_index g; s_wt := g_index g |}.

Lemma push_good g :
  head_id g <> None -> is_nil (diff_cached g) = false ->
  (forall p, staged_b g p = true -> tget (g_index g) p = tget (g_wt g) p) ->
  exists g1, stash_push_staged g = (true, g1) /\ frame g g1 /\
    g_stash g1 = stash_of g :: g_stash g /\ g_index g1 = head_tree g /\
    (forall p, tget (g_wt g1) p = if staged_b g p then tget (head_tree g) p else tget (g_wt g) p).
Proof.
  intros Hh Hnil Hinv. unfold stash_push_staged.
  destruct (head_id g) as [i|]; [|congruence]. rewrite Hnil.
  assert (Hall : forall p, staged_b g p = true ->
            unapply_o (tget (head_tree g) p) (tget (g_index g) p) (tget (g_wt g) p) = Some (tget (head_tree g) p)).
  { intros p Hs. rewrite <- (Hinv p Hs). apply unapply_o_same.
    unfold staged_b in Hs. apply negb_true_iff in Hs. now apply oblob_eqb_false. }
  match goal with |- context [if ?c then _ else _] => assert (Hc : c = true) end.
  { apply forallb_forall. intros p Hin. rewrite Hall; [reflexivity|].
    rewrite <- mem_diff_cached. now apply mem_spec. }
  rewrite Hc. eexists. split; [reflexivity|]. split; [repeat split|]. split; [reflexivity|]. split; [reflexivity|].
  intros p. cbn [g_wt set_index set_wt set_stash]. rewrite tget_upd, mem_diff_cached.
  destruct (staged_b g p) eqn:Es; [|reflexivity]. now rewrite Hall.
Qed.

(* ---- stash pop --index --------------------------------------------------------------------- *)
Lemma pop_frame g : match stash_pop_index g with Done g1 | Failed g1 => frame g g1 | Dirty => True end.
Proof.
  unfold stash_pop_index. destruct (g_stash g) as [|e rest]; [apply frame_refl|].
  cbv zeta.
  repeat match goal with |- context [if ?c then _ else _] => destruct c end; try apply frame_refl; repeat split.
Qed.

Lemma apply_o_same b c : apply_o b b c = Some c.
Proof.
  unfold apply_o. destruct b as [x|], c as [z|]; cbn [unapply_o]; try reflexivity.
  - unfold unapply. now rewrite blob_eqb_refl.
  - now rewrite blob_eqb_refl.
Qed.
Lemma apply_o_diff b j : b <> j -> apply_o b j b = Some j.
Proof. intros H. unfold apply_o. apply unapply_o_same. congruence. Qed.

Lemma wt_uptodate_refl o : wt_uptodate o o = true.
Proof. destruct o; cbn [wt_uptodate]; [apply oblob_eqb_refl|reflexivity]. Qed.
Lemma pop_path_keep ig o x w : pop_path ig o x o w = PKeep.
Proof. unfold pop_path. now rewrite oblob_eqb_refl. Qed.
Lemma pop_path_take ig o y : o <> y -> pop_path ig o o y o = PTake y.
Proof.
  intros H. unfold pop_path, wt_ok.
  rewrite (oblob_neq y o) by congruence. rewrite (oblob_neq _ _ H), oblob_eqb_refl, wt_uptodate_refl. reflexivity.
Qed.

Lemma pop_good g e rest :
  g_stash g = e :: rest -> s_wt e = s_index e ->
  (exists p0, tget (s_base e) p0 <> tget (s_index e) p0) ->
  (forall p, tget (s_base e) p <> tget (s_index e) p ->
             tget (g_index g) p = tget (s_base e) p /\ tget (g_wt g) p = tget (s_base e) p) ->
  teq (g_index g) (head_tree g) ->
  exists g3, stash_pop_index g = Done g3 /\ frame g g3 /\ g_stash g3 = rest /\
    (forall p, tget (g_index g3) p = if oblob_eqb (tget (s_base e) p) (tget (s_index e) p) then tget (g_index g) p else tget (s_index e) p) /\
    (forall p, tget (g_wt g3) p = if oblob_eqb (tget (s_base e) p) (tget (s_index e) p) then tget (g_wt g) p else tget (s_index e) p).
Proof.
  intros Hst Hwi [p0 Hp0] Hstg Hc. unfold stash_pop_index. rewrite Hst. cbv zeta. rewrite Hwi.
  set (ks := tkeys (s_base e) ++ tkeys (s_index e) ++ tkeys (s_index e) ++ tkeys (g_index g)).
  assert (Hb : tree_eqb (s_base e) (s_index e) = false) by (eapply tree_eqb_nteq; eauto).
  assert (Hci : tree_eqb (g_index g) (s_index e) = false).
  { apply tree_eqb_nteq with p0. destruct (Hstg p0 Hp0) as [-> _]. exact Hp0. }
  rewrite Hb, Hci. cbn [orb negb andb].
  assert (Hip : forall p, apply_o (tget (s_base e) p) (tget (s_index e) p) (tget (g_index g) p)
                = Some (if oblob_eqb (tget (s_base e) p) (tget (s_index e) p) then tget (g_index g) p else tget (s_index e) p)).
  { intros p. destruct (oblob_eqb_spec (tget (s_base e) p) (tget (s_index e) p)) as [E|N].
    - rewrite E. apply apply_o_same.
    - destruct (Hstg p N) as [-> _]. now apply apply_o_diff. }
  assert (Hpm : forall p, pop_path (ignored p) (tget (s_base e) p) (tget (g_index g) p) (tget (s_index e) p) (tget (g_wt g) p)
                = if oblob_eqb (tget (s_base e) p) (tget (s_index e) p) then PKeep else PTake (tget (s_index e) p)).
  { intros p. destruct (oblob_eqb_spec (tget (s_base e) p) (tget (s_index e) p)) as [E|N].
    - rewrite <- E. apply pop_path_keep.
    - destruct (Hstg p N) as [-> ->]. now apply pop_path_take. }
  assert (H1 : forallb (fun p => is_some (apply_o (tget (s_base e) p) (tget (s_index e) p) (tget (g_index g) p))) ks = true).
  { apply forallb_forall. intros p _. now rewrite Hip. }
  rewrite H1. cbn [negb].
  assert (H2 : tree_eqb (g_index g) (head_tree g) = true) by now apply tree_eqb_teq.
  rewrite H2. cbn [negb].
  rewrite existsb_false.
  2:{ intros p _. rewrite Hpm. now destruct (oblob_eqb _ _). }
  rewrite existsb_false.
  2:{ intros p _. rewrite Hpm. now destruct (oblob_eqb _ _). }
  rewrite existsb_false.
  2:{ intros p _. rewrite Hpm, Hip. destruct (oblob_eqb (tget (s_base e) p) (tget (s_index e) p)); [|reflexivity].
      cbn [get_or]. now rewrite oblob_eqb_refl. }
  cbn [andb].
  assert (Hout : forall p, mem p ks = false -> oblob_eqb (tget (s_base e) p) (tget (s_index e) p) = true).
  { intros p Hm. apply mem_false in Hm. unfold ks in Hm. rewrite !in_app_iff in Hm.
    rewrite !tget_notin by tauto. reflexivity. }
  eexists. split; [reflexivity|]. split; [repeat split|]. split; [reflexivity|]. split.
  - intros p. cbn [g_index set_stash set_index set_wt]. rewrite tget_upd.
    destruct (mem p ks) eqn:Em.
    + now rewrite Hip.
    + now rewrite (Hout p Em).
  - intros p. cbn [g_wt set_stash set_index set_wt]. rewrite tget_upd.
    destruct (mem p ks) eqn:Em.
    + rewrite Hpm. now destruct (oblob_eqb _ _).
    + now rewrite (Hout p Em).
Qed.

(* ---- git add ------------------------------------------------------------------------------- *)
Lemma add_change_spec g p : add_change g p = true ->
  managed p = true /\ tget (g_wt g) p <> tget (g_index g) p.
Proof.
  unfold add_change. rewrite !andb_true_iff, negb_true_iff. intros [[Hm Hd] _].
  split; [exact Hm|now apply oblob_eqb_false].
Qed.
Lemma mem_add_changes g p : mem p (add_changes g) = add_change g p.
Proof.
  destruct (add_change g p) eqn:E.
  - apply mem_spec. unfold add_changes. apply filter_In. split; [|exact E].
    apply add_change_spec in E. destruct E as [_ Hd]. apply in_or_app.
    destruct (tget (g_wt g) p) eqn:E1; [left; eapply tget_some_in; eauto|].
    destruct (tget (g_index g) p) eqn:E2; [right; eapply tget_some_in; eauto|congruence].
  - apply mem_false. unfold add_changes. rewrite filter_In. intros [_ H]. congruence.
Qed.

Lemma git_add_spec g ok out g1 : git_add g = (ok, out, g1) ->
  frame g g1 /\ g_wt g1 = g_wt g /\ g_stash g1 = g_stash g /\
  (out = [] -> g_index g1 = g_index g) /\
  (forall p, tget (g_index g1) p = if mem p out then tget (g_wt g) p else tget (g_index g) p) /\
  (forall p, mem p out = true -> add_change g p = true) /\
  (ok = true -> out = add_changes g).
Proof.
  unfold git_add. destruct (pathspecs_match g); intros [= <- <- <-].
  - split; [repeat split|]. split; [reflexivity|]. split; [reflexivity|]. split.
    + intros E. cbn [g_index set_index]. now rewrite E.
    + split; [intros p; cbn [g_index set_index]; apply tget_upd|].
      split; [intros p; now rewrite mem_add_changes|reflexivity].
  - split; [apply frame_refl|]. repeat split; try reflexivity; try discriminate.
Qed.

(* ---- git commit ---------------------------------------------------------------------------- *)
Lemma find_commit_head c l : find_commit (c :: l) (c_id c) = Some c.
Proof. cbn [find_commit]. now rewrite N.eqb_refl. Qed.

Lemma bget_aput m n i n' : bget (aput m n i) n' = if name_eqb n n' then Some i else bget m n'.
Proof.
  unfold bget, aput. cbn [get]. destruct (name_eqb_spec n n') as [->|Hn]; [reflexivity|].
  apply (@get_del_other _ _ name_eqb name_eqb_spec); auto.
Qed.
Lemma bget_del m n n' : bget (del name_eqb m n) n' = if name_eqb n n' then None else bget m n'.
Proof. apply (@get_del _ _ name_eqb name_eqb_spec). Qed.

Lemma git_commit_spec g ok g1 : git_commit g = (ok, g1) ->
  g_index g1 = g_index g /\ g_wt g1 = g_wt g /\ g_stash g1 = g_stash g /\ g_tags g1 = g_tags g /\
  (ok = false -> g1 = g /\ teq (g_index g) (head_tree g)) /\
  (ok = true -> head_tree g1 = g_index g /\ head_branch g1 = head_branch g /\
     (forall n, bget (other_branches g1) n = bget (other_branches g) n) /\
     (forall n, head_branch g <> Some n -> bget (g_branches g1) n = bget (g_branches g) n) /\
     exists c, g_log g1 = c :: g_log g /\ c_tree c = g_index g /\ c_parent c = head_id g).
Proof.
  unfold git_commit. destruct (tree_eqb (g_index g) (head_tree g)) eqn:Et.
  - intros [= <- <-]. repeat split; try discriminate. now apply tree_eqb_teq.
  - destruct (g_head g) as [b|i] eqn:Eh; intros [= <- <-]; cbn [g_index g_wt g_stash g_tags set_log set_branches set_head];
      (split; [reflexivity|]); (split; [reflexivity|]); (split; [reflexivity|]); (split; [reflexivity|]);
      (split; [discriminate|]); intros _.
    + split.
      { unfold head_tree, head_id. cbn [g_head g_branches g_log set_log set_branches].
        rewrite Eh, bget_aput, name_eqb_refl. unfold tree_of.
        match goal with |- context [find_commit (?c :: ?l) ?i] => change i with (c_id c); rewrite find_commit_head end.
        reflexivity. }
      split; [unfold head_branch; cbn [g_head set_log set_branches]; now rewrite Eh|].
      split.
      { intros n. unfold other_branches. cbn [g_head g_branches set_log set_branches]. rewrite Eh.
        rewrite !bget_del, bget_aput. destruct (name_eqb b n); reflexivity. }
      split.
      { intros n Hn. cbn [g_branches set_log set_branches]. rewrite bget_aput.
        destruct (name_eqb_spec b n) as [->|]; [|reflexivity]. unfold head_branch in Hn. rewrite Eh in Hn. congruence. }
      eexists. split; [reflexivity|]. split; reflexivity.
    + split.
      { unfold head_tree, head_id. cbn [g_head g_branches g_log set_log set_head]. unfold tree_of.
        match goal with |- context [find_commit (?c :: ?l) ?i] => change i with (c_id c); rewrite find_commit_head end.
        reflexivity. }
      split; [unfold head_branch; cbn [g_head set_log set_head]; now rewrite Eh|].
      split; [intros n; unfold other_branches; cbn [g_head g_branches set_log set_head]; now rewrite Eh|].
      split; [reflexivity|].
      eexists. split; [reflexivity|]. split; reflexivity.
Qed.

(* ---- git checkout -b ----------------------------------------------------------------------- *)
Lemma checkout_b_spec b g ok g1 : checkout_b b g = (ok, g1) ->
  g_index g1 = g_index g /\ g_wt g1 = g_wt g /\ g_stash g1 = g_stash g /\ g_tags g1 = g_tags g /\ g_log g1 = g_log g /\
  (ok = false -> g1 = g) /\
  (ok = true -> head_id g1 = head_id g /\ head_branch g1 = Some b /\
                forall n, n <> b -> bget (g_branches g1) n = bget (g_branches g) n).
Proof.
  unfold checkout_b. destruct (bget (g_branches g) b) eqn:Eb; intros [= <- <-].
  - repeat split; discriminate.
  - cbn [g_index g_wt g_stash g_tags g_log set_head set_branches].
    repeat (split; [reflexivity|]). split; [discriminate|]. intros _. split; [|split; [reflexivity|]].
    + unfold head_id at 1. cbn [g_head g_branches set_head set_branches].
      destruct (head_id g) as [i|] eqn:Eh.
      * unfold bget. cbn [get]. now rewrite name_eqb_refl.
      * exact Eb.
    + intros n Hn. cbn [g_branches set_head set_branches]. destruct (head_id g); [|reflexivity].
      unfold bget. cbn [get]. destruct (name_eqb_spec b n); [congruence|reflexivity].
Qed.

(* ---- what the theorems say ----------------------------------------------------------------- *)
(* commits put on top of a log differ from their parents on managed paths only *)
Fixpoint ext_ok (new old : list commit) : Prop :=
  match new with
  | [] => True
  | c :: r => ext_ok r old /\
              forall p, managed p = false -> tget (c_tree c) p = tget (tree_of (r ++ old) (c_parent c)) p
  end.
Definition new_commits_managed_only (g g' : git) : Prop :=
  exists new, g_log g' = new ++ g_log g /\ ext_ok new (g_log g).

(* refs: tags never change; without --to-branch the current branch stays and no other branch moves;
   with --to-branch b nothing but b changes *)
Definition refs_rel (tb : option name) (g g' : git) : Prop :=
  g_tags g' = g_tags g /\
  match tb with
  | None => head_branch g' = head_branch g /\ forall n, bget (other_branches g') n = bget (other_branches g) n
  | Some b => forall n, n <> b -> bget (g_branches g') n = bget (g_branches g) n
  end.

Lemma ext_ok_app n2 n1 old : ext_ok n1 old -> ext_ok n2 (n1 ++ old) -> ext_ok (n2 ++ n1) old.
Proof.
  intros H1. induction n2 as [|c r IH]; cbn [ext_ok app]; [auto|].
  intros [Hr Hc]. split; [auto|]. intros p Hp. rewrite <- app_assoc. auto.
Qed.
Lemma ncmo_refl g : new_commits_managed_only g g.
Proof. exists []. split; [reflexivity|exact I]. Qed.
Lemma ncmo_trans a b c : new_commits_managed_only a b -> new_commits_managed_only b c -> new_commits_managed_only a c.
Proof.
  intros [n1 [E1 O1]] [n2 [E2 O2]]. exists (n2 ++ n1). split.
  - rewrite E2, E1. apply app_assoc.
  - apply ext_ok_app; [exact O1|]. now rewrite <- E1.
Qed.
Lemma ncmo_log a b : g_log b = g_log a -> new_commits_managed_only a b.
Proof. intros E. exists []. split; [exact E|exact I]. Qed.

Lemma refs_rel_refl tb g : refs_rel tb g g.
Proof. split; [reflexivity|]. destruct tb; [reflexivity|split; reflexivity]. Qed.
Lemma refs_rel_trans tb a b c : refs_rel tb a b -> refs_rel tb b c -> refs_rel tb a c.
Proof.
  intros [T1 R1] [T2 R2]. split; [congruence|]. destruct tb as [n|].
  - intros m Hm. rewrite R2, R1; auto.
  - destruct R1 as [B1 O1], R2 as [B2 O2]. split; [congruence|]. intros m. now rewrite O2, O1.
Qed.
Lemma refs_rel_frame tb a b : frame a b -> refs_rel tb a b.
Proof.
  intros F. split; [apply F|]. destruct tb.
  - intros m _. destruct F as (_ & -> & _). reflexivity.
  - split; [now apply frame_head_branch|]. intros m. now rewrite (frame_other_branches _ _ F).
Qed.

(* ---- add + commit -------------------------------------------------------------------------- *)
Definition add_commit (t1 : trace) (g1 : git) : bool * bool * git * trace :=
  match git_add g1 with
  | (false, _, g2) => (false, false, g2, t1 ++ [GAddVerbose])
  | (true, out, g2) =>
      if is_nil out then (true, false, g2, t1 ++ [GAddVerbose])
      else
        match git_commit g2 with
        | (true, g3) => (true, true, g3, t1 ++ [GAddVerbose; GCommit])
        | (false, g3) => (false, false, g3, t1 ++ [GAddVerbose; GCommit])
        end
  end.
Lemma add_and_commit_unfold tb g :
  add_and_commit tb g =
  match tb with
  | Some b => let '(ok, g') := checkout_b b g in
              if negb ok then (false, false, g', [GCheckoutB b]) else add_commit [GCheckoutB b] g'
  | None => add_commit [] g
  end.
Proof.
  unfold add_and_commit, add_commit. destruct tb as [b|]; [|reflexivity].
  destruct (checkout_b b g) as [[|] g']; reflexivity.
Qed.

Definition commit_refs (g g' : git) : Prop :=
  g_tags g' = g_tags g /\ head_branch g' = head_branch g /\
  (forall n, bget (other_branches g') n = bget (other_branches g) n) /\
  (forall n, head_branch g <> Some n -> bget (g_branches g') n = bget (g_branches g) n).
Lemma commit_refs_frame g g' : frame g g' -> commit_refs g g'.
Proof.
  intros F. split; [apply F|]. split; [now apply frame_head_branch|]. split.
  - intros n. now rewrite (frame_other_branches _ _ F).
  - intros n _. destruct F as (_ & -> & _). reflexivity.
Qed.

Lemma add_change_ext g g' p : g_index g' = g_index g -> g_wt g' = g_wt g -> add_change g' p = add_change g p.
Proof. intros E1 E2. unfold add_change. now rewrite E1, E2. Qed.

Lemma add_commit_spec t1 g ok fin g2 t :
  teq (g_index g) (head_tree g) ->
  add_commit t1 g = (ok, fin, g2, t) ->
  g_wt g2 = g_wt g /\ g_stash g2 = g_stash g /\ commit_refs g g2 /\ new_commits_managed_only g g2 /\
  teq (g_index g2) (head_tree g2) /\
  (forall p, tget (g_index g2) p = tget (g_index g) p \/
             (add_change g p = true /\ tget (g_index g2) p = tget (g_wt g) p)) /\
  ((forall p, add_change g p = false) -> g_log g2 = g_log g /\ g_index g2 = g_index g).
Proof.
  intros Hih. unfold add_commit.
  destruct (git_add g) as [[oka out] ga] eqn:Ea.
  destruct (git_add_spec _ _ _ _ Ea) as (Fa & Wa & Sa & Onil & Ia & Ma & Oa).
  assert (Hidx : forall p, tget (g_index ga) p = tget (g_index g) p \/
                           (add_change g p = true /\ tget (g_index ga) p = tget (g_wt g) p)).
  { intros p. rewrite Ia. destruct (mem p out) eqn:Em; [right; split; [now apply Ma|reflexivity]|now left]. }
  assert (Hclean : (forall p, add_change g p = false) -> out = []).
  { intros Hc. destruct out as [|p r]; [reflexivity|]. exfalso.
    assert (Hm : mem p (p :: r) = true) by (apply mem_spec; now left).
    apply Ma in Hm. now rewrite Hc in Hm. }
  assert (Hnone : g_wt ga = g_wt g /\ g_stash ga = g_stash g /\ commit_refs g ga /\ new_commits_managed_only g ga).
  { split; [exact Wa|]. split; [exact Sa|]. split.
    - split; [apply Fa|]. split; [now apply frame_head_branch|]. split.
      + intros n. now rewrite (frame_other_branches _ _ Fa).
      + intros n _. destruct Fa as (_ & -> & _). reflexivity.
    - apply ncmo_log. apply Fa. }
  destruct oka.
  2:{ intros [= <- <- <- <-]. destruct Hnone as (A & B & C & D). split; [exact A|]. split; [exact B|]. split; [exact C|]. split; [exact D|].
      split.
      - intros p. rewrite (frame_head_tree _ _ Fa).
        assert (E : out = []).
        { unfold git_add in Ea. destruct (pathspecs_match g); [discriminate|]. now injection Ea as <- _. }
        rewrite (Onil E). apply Hih.
      - split; [exact Hidx|]. intros Hc. split; [apply Fa|]. apply Onil. auto. }
  destruct (is_nil out) eqn:En.
  { intros [= <- <- <- <-]. destruct Hnone as (A & B & C & D). split; [exact A|]. split; [exact B|]. split; [exact C|]. split; [exact D|].
    apply is_nil_true in En. split.
    - intros p. rewrite (frame_head_tree _ _ Fa), (Onil En). apply Hih.
    - split; [exact Hidx|]. intros _. split; [apply Fa|]. now apply Onil. }
  destruct (git_commit ga) as [okc gc] eqn:Ec.
  destruct (git_commit_spec _ _ _ Ec) as (Ic & Wc & Sc & Tc & Cf & Ct).
  assert (Hne : ~ (forall p, add_change g p = false)).
  { intros Hc. rewrite (Hclean Hc) in En. discriminate. }
  destruct okc; intros [= <- <- <- <-].
  - destruct (Ct eq_refl) as (Ht & Hb & Hob & Hbr & c & Hl & Hct & Hcp).
    split; [congruence|]. split; [congruence|]. split.
    { split; [destruct Fa as (_ & _ & T & _); congruence|]. split; [rewrite Hb; now apply frame_head_branch|].
      split.
      - intros n. rewrite Hob. now rewrite (frame_other_branches _ _ Fa).
      - intros n Hn. rewrite Hbr.
        + destruct Fa as (_ & -> & _). reflexivity.
        + now rewrite (frame_head_branch _ _ Fa). }
    split.
    { exists [c]. split.
      - rewrite Hl. destruct Fa as (_ & _ & _ & ->). reflexivity.
      - cbn [ext_ok app]. split; [exact I|]. intros p Hp. rewrite Hct, Hcp.
        rewrite (frame_head_id _ _ Fa). fold (head_tree g).
        destruct (Hidx p) as [E|[Hac _]].
        + rewrite E. apply Hih.
        + apply add_change_spec in Hac. destruct Hac as [Hm _]. congruence. }
    split; [intros p; now rewrite Ht, Ic|].
    split; [intros p; rewrite Ic; apply Hidx|]. intros Hc. now elim Hne.
  - destruct (Cf eq_refl) as [-> Hteq]. destruct Hnone as (A & B & C & D).
    split; [exact A|]. split; [exact B|]. split; [exact C|]. split; [exact D|].
    split; [exact Hteq|]. split; [exact Hidx|]. intros Hc. now elim Hne.
Qed.

Lemma aac_spec tb g ok fin g2 t :
  teq (g_index g) (head_tree g) ->
  add_and_commit tb g = (ok, fin, g2, t) ->
  g_wt g2 = g_wt g /\ g_stash g2 = g_stash g /\ refs_rel tb g g2 /\ new_commits_managed_only g g2 /\
  teq (g_index g2) (head_tree g2) /\
  (forall p, tget (g_index g2) p = tget (g_index g) p \/
             (add_change g p = true /\ tget (g_index g2) p = tget (g_wt g) p)) /\
  ((forall p, add_change g p = false) -> g_log g2 = g_log g /\ g_index g2 = g_index g).
Proof.
  intros Hih. rewrite add_and_commit_unfold. destruct tb as [b|].
  - destruct (checkout_b b g) as [okb gb] eqn:Eb.
    destruct (checkout_b_spec _ _ _ _ Eb) as (Ib & Wb & Sb & Tb & Lb & Cf & Ct).
    destruct okb; cbn [negb].
    + destruct (Ct eq_refl) as (Hid & Hhb & Hbr). intros Hac.
      assert (Hht : head_tree gb = head_tree g) by (unfold head_tree; now rewrite Hid, Lb).
      apply add_commit_spec in Hac.
      2:{ intros p. now rewrite Ib, Hht. }
      destruct Hac as (A & B & (C1 & C2 & C3 & C4) & D & E & F & G).
      split; [congruence|]. split; [congruence|]. split.
      { split; [congruence|]. intros n Hn. rewrite C4; [now apply Hbr|]. rewrite Hhb. congruence. }
      split.
      { destruct D as [new [D1 D2]]. exists new. now rewrite <- Lb. }
      split; [exact E|]. split.
      { intros p. rewrite <- Ib, <- Wb, <- (add_change_ext g gb p Ib Wb). apply F. }
      intros Hc. rewrite <- Lb, <- Ib. apply G. intros p. rewrite (add_change_ext g gb p Ib Wb). apply Hc.
    + intros [= <- <- <- <-]. rewrite (Cf eq_refl).
      split; [reflexivity|]. split; [reflexivity|]. split; [apply refs_rel_refl|]. split; [apply ncmo_refl|].
      split; [exact Hih|]. split; [now left|]. intros _. split; reflexivity.
  - intros Hac. apply add_commit_spec in Hac; [|exact Hih].
    destruct Hac as (A & B & (C1 & C2 & C3 & C4) & D & E & F & G).
    split; [exact A|]. split; [exact B|]. split; [split; [exact C1|split; [exact C2|exact C3]]|].
    split; [exact D|]. split; [exact E|]. split; [exact F|exact G].
Qed.

(* ---- one automation call under the fixed control flow ---------------------------------------- *)
(* what the class predicate gives: a staged path has no unstaged change (and is not written by the command) *)
Definition Inv (g : git) (ts : list path) : Prop :=
  forall p, staged_b g p = true -> tget (g_index g) p = tget (g_wt g) p /\ mem p ts = false.

Definition managed_clean (g : git) : Prop :=
  forall p, managed p = true -> tget (g_wt g) p = tget (g_index g) p.
Lemma managed_clean_ext g g' : g_wt g' = g_wt g -> g_index g' = g_index g -> managed_clean g -> managed_clean g'.
Proof. intros E1 E2 H p Hp. rewrite E1, E2. now apply H. Qed.

Definition call_rel (tb : option name) (g g' : git) : Prop :=
  teq (g_wt g') (g_wt g) /\
  (forall p, managed p = false -> tget (g_index g') p = tget (g_index g) p) /\
  (forall p, managed p = false -> tget (head_tree g') p = tget (head_tree g) p) /\
  (forall p, staged_b g' p = true -> staged_b g p = true /\ tget (g_index g') p = tget (g_index g) p) /\
  g_stash g' = g_stash g /\ refs_rel tb g g' /\ new_commits_managed_only g g' /\
  (managed_clean g -> g_log g' = g_log g /\ teq (g_index g') (g_index g)).

Lemma call_rel_refl tb g : call_rel tb g g.
Proof.
  split; [intros p; reflexivity|]. split; [reflexivity|]. split; [reflexivity|]. split; [auto|].
  split; [reflexivity|]. split; [apply refs_rel_refl|]. split; [apply ncmo_refl|]. intros _. split; [reflexivity|intros p; reflexivity].
Qed.

Lemma is_nil_false_ex {A} (l : list A) : is_nil l = false -> exists x, In x l.
Proof. destruct l as [|x r]; [discriminate|]. intros _. exists x. now left. Qed.

Lemma staged_b_neq g p : staged_b g p = negb (oblob_eqb (tget (head_tree g) p) (tget (g_index g) p)).
Proof. reflexivity. Qed.

Lemma auto_commit_ok tb g ok g' t :
  (forall p, staged_b g p = true -> tget (g_index g) p = tget (g_wt g) p) ->
  git_auto_commit true tb g = (ok, g', t) -> call_rel tb g g'.
Proof.
  intros Hinv. unfold git_auto_commit, stash_user_staged_files.
  destruct (is_nil (diff_cached g)) eqn:Hnil.
  - (* nothing staged *)
    assert (Hns : forall p, staged_b g p = false) by now apply diff_cached_nil.
    assert (Hih : teq (g_index g) (head_tree g)) by (intros p; symmetry; now apply staged_b_false).
    destruct (add_and_commit tb g) as [[[ok1 fin] g2] t2] eqn:Ea. cbn [andb].
    intros [= <- <- <-].
    destruct (aac_spec _ _ _ _ _ _ Hih Ea) as (A & B & C & D & E & F & G).
    split; [intros p; now rewrite A|]. split.
    { intros p Hp. destruct (F p) as [->|[Hac _]]; [reflexivity|]. apply add_change_spec in Hac. destruct Hac; congruence. }
    split.
    { intros p Hp. rewrite <- (E p), <- (Hih p). destruct (F p) as [->|[Hac _]]; [reflexivity|].
      apply add_change_spec in Hac. destruct Hac; congruence. }
    split.
    { intros p Hs. assert (Hf : staged_b g2 p = false) by (apply staged_b_false; symmetry; apply E). congruence. }
    split; [exact B|]. split; [exact C|]. split; [exact D|].
    intros Hc. destruct G as [G1 G2].
    { intros p. destruct (add_change g p) eqn:Hac; [|reflexivity]. apply add_change_spec in Hac.
      destruct Hac as [Hm Hd]. elim Hd. now apply Hc. }
    split; [exact G1|]. intros p. now rewrite G2.
  - (* something staged: stash, add + commit, pop *)
    destruct (head_id g) as [hid|] eqn:Ehid.
    2:{ unfold stash_push_staged. rewrite Ehid. intros [= <- <- <-]. apply call_rel_refl. }
    destruct (push_good g) as (g1 & Ep & F1 & S1 & I1 & W1); [congruence|exact Hnil|exact Hinv|].
    rewrite Ep.
    assert (Hih1 : teq (g_index g1) (head_tree g1)).
    { intros p. now rewrite I1, (frame_head_tree _ _ F1). }
    destruct (add_and_commit tb g1) as [[[ok1 fin] g2] t2] eqn:Ea. cbn [andb orb].
    destruct (aac_spec _ _ _ _ _ _ Hih1 Ea) as (A & B & C & D & E & F & G).
    assert (Hst : forall p, tget (head_tree g) p <> tget (g_index g) p -> staged_b g p = true).
    { intros p Hn. rewrite staged_b_neq. now rewrite (oblob_neq _ _ Hn). }
    assert (Hnoadd : forall p, staged_b g p = true -> add_change g1 p = false).
    { intros p Hs. destruct (add_change g1 p) eqn:Hac; [|reflexivity]. apply add_change_spec in Hac.
      destruct Hac as [_ Hd]. elim Hd. now rewrite W1, Hs, I1. }
    destruct (pop_good g2 (stash_of g) (g_stash g)) as (g3 & Epop & F3 & S3 & I3 & W3).
    { now rewrite B, S1. }
    { reflexivity. }
    { apply is_nil_false_ex in Hnil. destruct Hnil as [p0 Hp0]. exists p0. cbn [stash_of s_base s_index].
      apply mem_spec in Hp0. rewrite mem_diff_cached, staged_b_neq in Hp0.
      apply negb_true_iff in Hp0. now apply oblob_eqb_false. }
    { cbn [stash_of s_base s_index]. intros p Hn. specialize (Hst p Hn). split.
      - destruct (F p) as [->|[Hac _]]; [now rewrite I1|]. now rewrite (Hnoadd p Hst) in Hac.
      - now rewrite A, W1, Hst. }
    { exact E. }
    unfold unstash. rewrite Epop. intros [= <- <- <-].
    cbn [stash_of s_base s_index] in I3, W3.
    assert (Hht3 : head_tree g3 = head_tree g2) by now apply frame_head_tree.
    assert (Hht1 : head_tree g1 = head_tree g) by now apply frame_head_tree.
    assert (Hun : forall p, managed p = false -> tget (g_index g2) p = tget (head_tree g) p).
    { intros p Hp. destruct (F p) as [->|[Hac _]]; [now rewrite I1|]. apply add_change_spec in Hac. destruct Hac; congruence. }
    split.
    { intros p. rewrite W3, A, W1, staged_b_neq.
      destruct (oblob_eqb (tget (head_tree g) p) (tget (g_index g) p)) eqn:Eq; cbn [negb]; [reflexivity|].
      apply Hinv. now rewrite staged_b_neq, Eq. }
    split.
    { intros p Hp. rewrite I3.
      destruct (oblob_eqb_spec (tget (head_tree g) p) (tget (g_index g) p)) as [Eq|Nq]; [|reflexivity].
      now rewrite Hun. }
    split.
    { intros p Hp. rewrite Hht3, <- (E p). now apply Hun. }
    split.
    { intros p Hs. rewrite staged_b_neq, Hht3, I3 in Hs.
      destruct (oblob_eqb_spec (tget (head_tree g) p) (tget (g_index g) p)) as [Eq|Nq].
      - rewrite (E p), oblob_eqb_refl in Hs. discriminate.
      - split; [now apply Hst|]. rewrite I3. now rewrite (oblob_neq _ _ Nq). }
    split; [exact S3|].
    split.
    { apply refs_rel_trans with g1; [now apply refs_rel_frame|].
      apply refs_rel_trans with g2; [exact C|now apply refs_rel_frame]. }
    split.
    { apply ncmo_trans with g1; [apply ncmo_log; apply F1|].
      apply ncmo_trans with g2; [exact D|apply ncmo_log; apply F3]. }
    intros Hc. destruct G as [G1 G2].
    { intros p. destruct (add_change g1 p) eqn:Hac; [|reflexivity]. apply add_change_spec in Hac.
      destruct Hac as [Hm Hd]. elim Hd. rewrite W1, I1.
      destruct (staged_b g p) eqn:Es; [reflexivity|]. rewrite (Hc p Hm). symmetry. now apply staged_b_false. }
    split.
    { destruct F3 as (_ & _ & _ & ->). rewrite G1. apply F1. }
    intros p. rewrite I3, G2, I1.
    destruct (oblob_eqb_spec (tget (head_tree g) p) (tget (g_index g) p)) as [Eq|Nq]; [exact Eq|reflexivity].
Qed.

(* ---- the repaired flow (P24): commit limited by pathspecs, no stash ----------------------------- *)
Lemma mem_commit_paths g p : mem p (commit_paths g) = true -> managed p = true.
Proof. intros H. apply mem_spec in H. unfold commit_paths in H. apply filter_In in H. apply H. Qed.

Lemma git_commit_only_spec g ok g1 : git_commit_only g = (ok, g1) ->
  g_wt g1 = g_wt g /\ g_stash g1 = g_stash g /\ g_tags g1 = g_tags g /\
  (ok = false -> g1 = g) /\
  (forall p, tget (g_index g1) p = tget (g_index g) p \/
             (ok = true /\ managed p = true /\ tget (g_index g1) p = tget (g_wt g) p)) /\
  (ok = true ->
     (forall p, tget (head_tree g1) p = if mem p (commit_paths g) then tget (g_wt g) p else tget (head_tree g) p) /\
     head_branch g1 = head_branch g /\
     (forall n, bget (other_branches g1) n = bget (other_branches g) n) /\
     (forall n, head_branch g <> Some n -> bget (g_branches g1) n = bget (g_branches g) n) /\
     exists c, g_log g1 = c :: g_log g /\ c_parent c = head_id g /\
               forall p, managed p = false -> tget (c_tree c) p = tget (head_tree g) p).
Proof.
  unfold git_commit_only. destruct (commit_pathspecs_match g).
  2:{ intros [= <- <-]. split; [reflexivity|]. split; [reflexivity|]. split; [reflexivity|]. split; [reflexivity|].
      split; [intros p; now left|discriminate]. }
  set (ps := commit_paths g).
  set (gT := set_index g (upd (head_tree g) ps (tget (g_wt g)))).
  destruct (git_commit gT) as [okc gc] eqn:Ec.
  destruct (git_commit_spec _ _ _ Ec) as (Ic & Wc & Sc & Tc & Cf & Ct).
  destruct okc; intros [= <- <-].
  2:{ split; [reflexivity|]. split; [reflexivity|]. split; [reflexivity|]. split; [reflexivity|].
      split; [intros p; now left|discriminate]. }
  destruct (Ct eq_refl) as (Ht & Hb & Hob & Hbr & c & Hl & Hct & Hcp).
  cbn [g_wt g_stash g_tags g_index set_index].
  split; [exact Wc|]. split; [exact Sc|]. split; [exact Tc|]. split; [discriminate|]. split.
  { intros p. rewrite tget_upd. destruct (mem p ps) eqn:Em; [right|now left].
    split; [reflexivity|]. split; [exact (mem_commit_paths g p Em)|reflexivity]. }
  intros _.
  assert (Hht : head_tree (set_index gc (upd (g_index g) ps (tget (g_wt g)))) = head_tree gc) by reflexivity.
  split.
  { intros p. rewrite Hht, Ht. unfold gT. cbn [g_index set_index]. apply tget_upd. }
  split; [exact Hb|]. split; [exact Hob|]. split; [exact Hbr|].
  exists c. split; [exact Hl|]. split; [exact Hcp|].
  intros p Hp. rewrite Hct. unfold gT. cbn [g_index set_index]. rewrite tget_upd.
  destruct (mem p ps) eqn:Em; [|reflexivity]. apply (mem_commit_paths g) in Em. congruence.
Qed.

(* one automation call of the repaired flow: for EVERY state *)
Definition call_rel24 (tb : option name) (g g' : git) : Prop :=
  g_wt g' = g_wt g /\ g_stash g' = g_stash g /\
  (forall p, managed p = false -> tget (g_index g') p = tget (g_index g) p) /\
  (forall p, managed p = false -> tget (head_tree g') p = tget (head_tree g) p) /\
  refs_rel tb g g' /\ new_commits_managed_only g g' /\
  (managed_clean g -> g_log g' = g_log g /\ g_index g' = g_index g).

Lemma add_commit_only_ok g ok g' t t1 :
  match git_add g with
  | (false, _, g2) => (false, g2, t1 ++ [GAddVerbose])
  | (true, out, g2) =>
      if is_nil out then (true, g2, t1 ++ [GAddVerbose])
      else match git_commit_only g2 with (okc, g3) => (okc, g3, t1 ++ [GAddVerbose; GCommitOnly]) end
  end = (ok, g', t) ->
  g_wt g' = g_wt g /\ g_stash g' = g_stash g /\
  (forall p, managed p = false -> tget (g_index g') p = tget (g_index g) p) /\
  (forall p, managed p = false -> tget (head_tree g') p = tget (head_tree g) p) /\
  commit_refs g g' /\ new_commits_managed_only g g' /\
  (managed_clean g -> g_log g' = g_log g /\ g_index g' = g_index g).
Proof.
  destruct (git_add g) as [[oka out] ga] eqn:Ea.
  destruct (git_add_spec _ _ _ _ Ea) as (Fa & Wa & Sa & Onil & Ia & Ma & Oa).
  assert (Hidx : forall p, managed p = false -> tget (g_index ga) p = tget (g_index g) p).
  { intros p Hp. rewrite Ia. destruct (mem p out) eqn:Em; [|reflexivity].
    apply Ma, add_change_spec in Em. destruct Em; congruence. }
  assert (Hclean : managed_clean g -> out = []).
  { intros Hc. destruct out as [|p r]; [reflexivity|]. exfalso.
    assert (Hm : mem p (p :: r) = true) by (apply mem_spec; now left).
    apply Ma, add_change_spec in Hm. destruct Hm as [Hm Hd]. apply Hd. now apply Hc. }
  assert (Hnone : g_wt ga = g_wt g /\ g_stash ga = g_stash g /\
            (forall p, managed p = false -> tget (g_index ga) p = tget (g_index g) p) /\
            (forall p, managed p = false -> tget (head_tree ga) p = tget (head_tree g) p) /\
            commit_refs g ga /\ new_commits_managed_only g ga /\
            (managed_clean g -> g_log ga = g_log g /\ g_index ga = g_index g)).
  { split; [exact Wa|]. split; [exact Sa|]. split; [exact Hidx|].
    split; [intros p _; now rewrite (frame_head_tree _ _ Fa)|].
    split; [now apply commit_refs_frame|]. split; [apply ncmo_log; apply Fa|].
    intros Hc. split; [apply Fa|]. apply Onil. now apply Hclean. }
  destruct oka; [|intros [= <- <- <-]; exact Hnone].
  destruct (is_nil out) eqn:En; [intros [= <- <- <-]; exact Hnone|].
  destruct (git_commit_only ga) as [okc gc] eqn:Ec. intros [= <- <- <-].
  destruct (git_commit_only_spec _ _ _ Ec) as (Wc & Sc & Tc & Cf & Ic & Ct).
  destruct okc.
  2:{ rewrite (Cf eq_refl). exact Hnone. }
  destruct (Ct eq_refl) as (Ht & Hb & Hob & Hbr & c & Hl & Hcp & Hct).
  split; [congruence|]. split; [congruence|]. split.
  { intros p Hp. destruct (Ic p) as [->|(_ & Hm & _)]; [now apply Hidx|congruence]. }
  split.
  { intros p Hp. rewrite Ht. destruct (mem p (commit_paths ga)) eqn:Em.
    - apply mem_commit_paths in Em. congruence.
    - now rewrite (frame_head_tree _ _ Fa). }
  split.
  { split; [destruct Fa as (_ & _ & T & _); congruence|]. split; [rewrite Hb; now apply frame_head_branch|].
    split.
    - intros n. rewrite Hob. now rewrite (frame_other_branches _ _ Fa).
    - intros n Hn. rewrite Hbr.
      + destruct Fa as (_ & -> & _). reflexivity.
      + now rewrite (frame_head_branch _ _ Fa). }
  split.
  { exists [c]. split.
    - rewrite Hl. destruct Fa as (_ & _ & _ & ->). reflexivity.
    - cbn [ext_ok app]. split; [exact I|]. intros p Hp. rewrite (Hct p Hp), Hcp.
      rewrite (frame_head_id _ _ Fa). fold (head_tree g). now rewrite (frame_head_tree _ _ Fa). }
  intros Hc. rewrite (Hclean Hc) in En. discriminate.
Qed.

Lemma auto_commit_only_ok tb g ok g' t :
  git_auto_commit_only tb g = (ok, g', t) -> call_rel24 tb g g'.
Proof.
  unfold git_auto_commit_only. destruct tb as [b|].
  - destruct (checkout_b b g) as [okb gb] eqn:Eb.
    destruct (checkout_b_spec _ _ _ _ Eb) as (Ib & Wb & Sb & Tb & Lb & Cf & Ct).
    destruct okb; cbn [negb].
    + destruct (Ct eq_refl) as (Hid & Hhb & Hbr). intros Hac.
      assert (Hht : head_tree gb = head_tree g) by (unfold head_tree; now rewrite Hid, Lb).
      apply add_commit_only_ok in Hac.
      destruct Hac as (A & B & C & D & (C1 & C2 & C3 & C4) & E & F).
      split; [congruence|]. split; [congruence|].
      split; [intros p Hp; rewrite (C p Hp); now rewrite Ib|].
      split; [intros p Hp; rewrite (D p Hp); now rewrite Hht|].
      split.
      { split; [congruence|]. intros n Hn. rewrite C4; [now apply Hbr|]. rewrite Hhb. congruence. }
      split.
      { destruct E as [new [E1 E2]]. exists new. now rewrite <- Lb. }
      intros Hc. rewrite <- Lb, <- Ib. apply F. now apply (managed_clean_ext g).
    + intros [= <- <- <-]. rewrite (Cf eq_refl).
      split; [reflexivity|]. split; [reflexivity|]. split; [reflexivity|]. split; [reflexivity|].
      split; [apply refs_rel_refl|]. split; [apply ncmo_refl|]. intros _. split; reflexivity.
  - cbn [negb]. intros Hac. apply add_commit_only_ok in Hac.
    destruct Hac as (A & B & C & D & (C1 & C2 & C3 & C4) & E & F).
    split; [exact A|]. split; [exact B|]. split; [exact C|]. split; [exact D|].
    split; [split; [exact C1|split; [exact C2|exact C3]]|]. split; [exact E|exact F].
Qed.

(* ---- the user's view ------------------------------------------------------------------------ *)
Definition same_user_view (tb : option name) (g g' : git) : Prop :=
  (forall p, uv_index g' p = uv_index g p) /\ (forall p, uv_wt g' p = uv_wt g p) /\
  (forall p, uv_head g' p = uv_head g p) /\ g_stash g' = g_stash g /\ refs_rel tb g g'.
Definition view_rel (tb : option name) (g g' : git) : Prop :=
  same_user_view tb g g' /\ new_commits_managed_only g g'.

Lemma view_rel_refl tb g : view_rel tb g g.
Proof. split; [|apply ncmo_refl]. repeat (split; [reflexivity|]). apply refs_rel_refl. Qed.
Lemma view_rel_trans tb a b c : view_rel tb a b -> view_rel tb b c -> view_rel tb a c.
Proof.
  intros [(A1 & A2 & A3 & A4 & A5) A6] [(B1 & B2 & B3 & B4 & B5) B6]. split; [|eapply ncmo_trans; eauto].
  split; [intros p; now rewrite B1|]. split; [intros p; now rewrite B2|]. split; [intros p; now rewrite B3|].
  split; [congruence|]. eapply refs_rel_trans; eauto.
Qed.
Lemma call_rel_view tb g g' : call_rel tb g g' -> view_rel tb g g'.
Proof.
  intros (A & B & C & D & E & F & G & H). split; [|exact G].
  split; [intros p; unfold uv_index; destruct (managed p) eqn:Em; [reflexivity|now apply B]|].
  split; [intros p; unfold uv_wt; destruct (managed p); [reflexivity|apply A]|].
  split; [intros p; unfold uv_head; destruct (managed p) eqn:Em; [reflexivity|now apply C]|].
  split; [exact E|exact F].
Qed.

(* the record [user_view] of the model is this view, path by path *)
Lemma tget_unmanaged_part t p : tget (unmanaged_part t) p = if managed p then None else tget t p.
Proof.
  unfold tget, unmanaged_part. induction t as [|[q b] r IH]; cbn [filter get fst]; [now destruct (managed p)|].
  destruct (managed q) eqn:Eq; cbn [negb get].
  - rewrite IH. destruct (path_eqb_spec q p) as [->|]; [now rewrite Eq|reflexivity].
  - destruct (path_eqb_spec q p) as [->|]; [now rewrite Eq|exact IH].
Qed.
Lemma user_view_pointwise g p :
  tget (v_index (user_view g)) p = uv_index g p /\ tget (v_wt (user_view g)) p = uv_wt g p /\
  tget (v_headtree (user_view g)) p = uv_head g p.
Proof. unfold user_view, uv_index, uv_wt, uv_head. cbn [v_index v_wt v_headtree]. now rewrite !tget_unmanaged_part. Qed.

(* ---- what a command writes ------------------------------------------------------------------ *)
Lemma tget_fold_tset d : forall w p, ~ In p (map fst d) ->
  tget (fold_left (fun w pv => tset w (fst pv) (snd pv)) d w) p = tget w p.
Proof.
  induction d as [|[q v] r IH]; intros w p Hn; cbn [fold_left]; [reflexivity|].
  cbn [map fst In] in Hn. rewrite IH by tauto. cbn [fst snd]. rewrite tget_tset.
  destruct (path_eqb_spec q p); [subst; tauto|reflexivity].
Qed.
Lemma apply_delta_spec d g :
  frame g (apply_delta d g) /\ g_index (apply_delta d g) = g_index g /\ g_stash (apply_delta d g) = g_stash g /\
  forall p, ~ In p (map fst d) -> tget (g_wt (apply_delta d g)) p = tget (g_wt g) p.
Proof.
  unfold apply_delta. split; [repeat split|]. split; [reflexivity|]. split; [reflexivity|].
  intros p Hn. cbn [g_wt set_wt]. now apply tget_fold_tset.
Qed.
Lemma delta_managed_in d p : delta_managed d = true -> In p (map fst d) -> managed p = true.
Proof.
  unfold delta_managed. rewrite forallb_forall. intros H Hi. apply in_map_iff in Hi.
  destruct Hi as [pv [<- Hi]]. now apply H.
Qed.
Lemma apply_delta_view tb d g : delta_managed d = true -> view_rel tb g (apply_delta d g).
Proof.
  intros Hd. destruct (apply_delta_spec d g) as (F & I & S & W).
  split; [|apply ncmo_log; apply F].
  split; [intros p; unfold uv_index; now rewrite I|].
  split.
  { intros p. unfold uv_wt. destruct (managed p) eqn:Em; [reflexivity|]. apply W.
    intros Hi. rewrite (delta_managed_in _ _ Hd Hi) in Em. discriminate. }
  split; [intros p; unfold uv_head; now rewrite (frame_head_tree _ _ F)|].
  split; [exact S|now apply refs_rel_frame].
Qed.
Lemma staged_b_ext g g' p : head_tree g' = head_tree g -> g_index g' = g_index g -> staged_b g' p = staged_b g p.
Proof. intros E1 E2. unfold staged_b. now rewrite E1, E2. Qed.
Lemma apply_delta_inv d g ts :
  (forall p, In p (map fst d) -> mem p ts = true) -> Inv g ts -> Inv (apply_delta d g) ts.
Proof.
  intros Hts Hinv p Hs. destruct (apply_delta_spec d g) as (F & I & S & W).
  rewrite (staged_b_ext g _ p (frame_head_tree _ _ F) I) in Hs. destruct (Hinv p Hs) as [E M].
  split; [|exact M]. rewrite I, W; [exact E|]. intros Hi. rewrite (Hts p Hi) in M. discriminate.
Qed.

(* ---- handle_git_automation, the calls of one invocation -------------------------------------- *)
Definition flow_ok (s : settings) : Prop := fixed_P24 s = true \/ fixed_P20 s = true.
Definition J (s : settings) (g : git) (ts : list path) : Prop :=
  if use_git s && auto_commit s && negb (fixed_P24 s) then Inv g ts else True.

Lemma call_rel24_view tb g g' : call_rel24 tb g g' -> view_rel tb g g'.
Proof.
  intros (A & B & C & D & E & F & G). split; [|exact F].
  split; [intros p; unfold uv_index; destruct (managed p) eqn:Em; [reflexivity|now apply C]|].
  split; [intros p; unfold uv_wt; now rewrite A|].
  split; [intros p; unfold uv_head; destruct (managed p) eqn:Em; [reflexivity|now apply D]|].
  split; [exact B|exact E].
Qed.

Lemma handle_ok s g ts ok g' t :
  flow_ok s -> J s g ts -> handle_git_automation s g = (ok, g', t) ->
  view_rel (to_branch s) g g' /\ J s g' ts /\ (managed_clean g -> g_log g' = g_log g /\ managed_clean g').
Proof.
  intros Hfx Hj. unfold handle_git_automation, J in *.
  destruct (use_git s); [|intros [= <- <- <-]; split; [apply view_rel_refl|split; [exact I|auto]]].
  destruct (auto_commit s); cbn [andb] in *.
  - destruct (fixed_P24 s) eqn:E24; cbn [negb] in *.
    + intros Hac. apply auto_commit_only_ok in Hac.
      split; [now apply call_rel24_view|]. split; [exact I|].
      destruct Hac as (A & B & C & D & E & F & G). intros Hc. destruct (G Hc) as [G1 G2].
      split; [exact G1|]. now apply (managed_clean_ext g).
    + assert (Hfx20 : fixed_P20 s = true) by (destruct Hfx as [H|H]; [congruence|exact H]).
      rewrite Hfx20. intros Hac. apply auto_commit_ok in Hac; [|intros p Hs; now apply Hj].
      split; [now apply call_rel_view|]. destruct Hac as (A & B & C & D & E & F & G & H). split.
      * intros p Hs. destruct (D p Hs) as [Hs0 Ei]. destruct (Hj p Hs0) as [Ew M]. split; [|exact M].
        now rewrite Ei, (A p).
      * intros Hc. destruct (H Hc) as [H1 H2]. split; [exact H1|]. intros p Hp. now rewrite (A p), (H2 p), (Hc p Hp).
  - destruct (auto_stage s).
    + unfold git_auto_stage. destruct (git_add g) as [[ok1 out] g1] eqn:Ea. intros [= <- <- <-].
      destruct (git_add_spec _ _ _ _ Ea) as (Fa & Wa & Sa & Onil & Ia & Ma & Oa).
      split; [|split; [exact I|]].
      * split; [|apply ncmo_log; apply Fa].
        split.
        { intros p. unfold uv_index. destruct (managed p) eqn:Em; [reflexivity|]. rewrite Ia.
          destruct (mem p out) eqn:Emem; [|reflexivity]. apply Ma, add_change_spec in Emem. destruct Emem; congruence. }
        split; [intros p; unfold uv_wt; now rewrite Wa|].
        split; [intros p; unfold uv_head; now rewrite (frame_head_tree _ _ Fa)|].
        split; [exact Sa|now apply refs_rel_frame].
      * intros Hc. split; [apply Fa|]. intros p Hp. rewrite Wa, Ia.
        destruct (mem p out) eqn:Emem; [reflexivity|now apply Hc].
    + intros [= <- <- <-]. split; [apply view_rel_refl|split; [exact I|auto]].
Qed.

Lemma J_apply_delta s d g ts : (forall p, In p (map fst d) -> mem p ts = true) -> J s g ts -> J s (apply_delta d g) ts.
Proof. unfold J. destruct (use_git s && auto_commit s && negb (fixed_P24 s)); [apply apply_delta_inv|auto]. Qed.

Lemma run_calls_ok s ts : flow_ok s -> forall cs k g st g' t,
  J s g ts ->
  (forall d b, In (d, b) cs -> delta_managed d = true /\ forall p, In p (map fst d) -> mem p ts = true) ->
  run_calls s cs k g = (st, g', t) -> view_rel (to_branch s) g g'.
Proof.
  intros Hfx cs. induction cs as [|[d b] r IH]; intros k g st g' t Hj Hcs; cbn [run_calls].
  - intros [= _ <- _]. apply view_rel_refl.
  - destruct (Hcs d b (or_introl eq_refl)) as [Hdm Hdt].
    assert (Hcs' : forall d b, In (d, b) r -> delta_managed d = true /\ forall p, In p (map fst d) -> mem p ts = true).
    { intros d0 b0 Hi. apply (Hcs d0 b0). now right. }
    assert (Hj1 := J_apply_delta s d g ts Hdt Hj).
    assert (Hv1 := apply_delta_view (to_branch s) d g Hdm).
    destruct b.
    + destruct (handle_git_automation s (apply_delta d g)) as [[ok g2] t2] eqn:Eh.
      destruct (handle_ok _ _ _ _ _ _ Hfx Hj1 Eh) as (Hv2 & Hj2 & _).
      destruct ok.
      * destruct (run_calls s r (S k) g2) as [[st3 g3] t3] eqn:Er. intros [= _ <- _].
        eapply view_rel_trans; [exact Hv1|]. eapply view_rel_trans; [exact Hv2|]. eapply IH; eauto.
      * intros [= _ <- _]. eapply view_rel_trans; eauto.
    + intros Er. eapply view_rel_trans; [exact Hv1|]. eapply IH; eauto.
Qed.


Lemma run_calls_readonly s ts : flow_ok s -> forall cs k g st g' t,
  J s g ts -> managed_clean g -> (forall d b, In (d, b) cs -> d = []) ->
  run_calls s cs k g = (st, g', t) -> g_log g' = g_log g.
Proof.
  intros Hfx cs. induction cs as [|[d b] r IH]; intros k g st g' t Hj Hc Hcs; cbn [run_calls].
  - now intros [= _ <- _].
  - rewrite (Hcs d b (or_introl eq_refl)). change (apply_delta [] g) with (set_wt g (g_wt g)).
    assert (Hj1 : J s (set_wt g (g_wt g)) ts) by (apply (J_apply_delta s [] g ts); [intros p []|exact Hj]).
    assert (Hc1 : managed_clean (set_wt g (g_wt g))) by (apply (managed_clean_ext g); [reflexivity|reflexivity|exact Hc]).
    assert (Hcs' : forall d b, In (d, b) r -> d = []) by (intros d0 b0 Hi; apply (Hcs d0 b0); now right).
    destruct b.
    + destruct (handle_git_automation s (set_wt g (g_wt g))) as [[ok g2] t2] eqn:Eh.
      destruct (handle_ok _ _ _ _ _ _ Hfx Hj1 Eh) as (_ & Hj2 & Hcl). destruct (Hcl Hc1) as [Hl2 Hc2].
      destruct ok.
      * destruct (run_calls s r (S k) g2) as [[st3 g3] t3] eqn:Er. intros [= _ <- _].
        rewrite (IH _ _ _ _ _ Hj2 Hc2 Hcs' Er). exact Hl2.
      * intros [= _ <- _]. exact Hl2.
    + intros Er. now rewrite (IH _ _ _ _ _ Hj1 Hc1 Hcs' Er).
Qed.

(* ---- the class predicate -------------------------------------------------------------------- *)
Lemma existsb_false_inv {A} (f : A -> bool) l x : existsb f l = false -> In x l -> f x = false.
Proof.
  intros H Hi. destruct (f x) eqn:E; [|reflexivity].
  assert (existsb f l = true) by (apply existsb_exists; eauto). congruence.
Qed.
Lemma known_at_inv g ts : known_at g ts = false -> Inv g ts.
Proof.
  unfold known_at. intros H p Hs.
  assert (Hf := existsb_false_inv _ _ p H (staged_b_keys g p Hs)). cbn beta in Hf.
  rewrite Hs in Hf. cbn [andb] in Hf. apply orb_false_iff in Hf. destruct Hf as [H1 H2].
  split; [|exact H2]. apply negb_false_iff in H1. now apply oblob_eqb_true.
Qed.

Lemma calls_deltas s c d b : In (d, b) (calls s c) -> d = c_delta c \/ d = c_delta2 c \/ d = [].
Proof.
  unfold calls. destruct (c_kind c); cbn [In]; intros H;
    repeat match goal with
           | H : _ \/ _ |- _ => destruct H
           | H : (_, _) = (_, _) |- _ => inversion H; clear H
           | H : False |- _ => destruct H
           end; auto.
Qed.

(* ---- the property theorems ------------------------------------------------------------------- *)
Lemma J_of_class s c g : Known_class s c g = false -> J s g (touched c).
Proof.
  unfold Known_class, J. intros Hk.
  destruct (use_git s && auto_commit s && negb (fixed_P24 s)) eqn:E; [|exact I].
  apply andb_true_iff in E. destruct E as [_ E]. rewrite E in Hk. cbn [andb] in Hk. now apply known_at_inv.
Qed.

Lemma dispatch_view_lemma s c g :
  flow_ok s -> from_ref s = None ->
  delta_managed (c_delta c) = true -> delta_managed (c_delta2 c) = true ->
  Known_class s c g = false ->
  view_rel (to_branch s) g (snd (fst (dispatch s c g))).
Proof.
  intros Hfx Hfr Hd1 Hd2 Hk. unfold dispatch. rewrite Hfr. cbn [negb].
  destruct (c_ok c); cbn [negb].
  2:{ cbn [fst snd]. now apply apply_delta_view. }
  destruct (run_calls s (calls s c) 0 g) as [[st g1] t1] eqn:Er. cbn [fst snd].
  eapply (run_calls_ok s (touched c) Hfx); [| |exact Er].
  - now apply J_of_class.
  - intros d b Hi. apply calls_deltas in Hi. unfold touched.
    destruct Hi as [-> | [-> | -> ]].
    + split; [exact Hd1|]. intros p Hp. apply mem_spec, in_or_app. now left.
    + split; [exact Hd2|]. intros p Hp. apply mem_spec, in_or_app. now right.
    + split; [reflexivity|intros p []].
Qed.

(* the class is empty under the repaired flow, so there the statement holds for every state *)
Lemma known_class_fixed s c g : fixed_P24 s = true -> Known_class s c g = false.
Proof. unfold Known_class. now intros ->. Qed.
Lemma dispatch_view_fixed_lemma s c g :
  fixed_P24 s = true -> from_ref s = None ->
  delta_managed (c_delta c) = true -> delta_managed (c_delta2 c) = true ->
  view_rel (to_branch s) g (snd (fst (dispatch s c g))).
Proof.
  intros H24 Hfr Hd1 Hd2. apply dispatch_view_lemma; auto; [now left|now apply known_class_fixed].
Qed.

Lemma dispatch_readonly_lemma s c g :
  flow_ok s -> from_ref s = None -> c_delta c = [] -> c_delta2 c = [] ->
  managed_clean g -> Known_class s c g = false ->
  g_log (snd (fst (dispatch s c g))) = g_log g.
Proof.
  intros Hfx Hfr Hd1 Hd2 Hc Hk. unfold dispatch. rewrite Hfr. cbn [negb].
  destruct (c_ok c); cbn [negb].
  2:{ cbn [fst snd]. apply (apply_delta_spec (c_delta c) g). }
  destruct (run_calls s (calls s c) 0 g) as [[st g1] t1] eqn:Er. cbn [fst snd].
  eapply (run_calls_readonly s (touched c) Hfx); [|exact Hc| |exact Er].
  - now apply J_of_class.
  - intros d b Hi. apply calls_deltas in Hi. destruct Hi as [-> | [-> | -> ]]; auto.
Qed.

(* ---- refs, for every Git state and both control flows ---------------------------------------- *)
Lemma add_commit_refs t1 g ok fin g2 t : add_commit t1 g = (ok, fin, g2, t) -> commit_refs g g2.
Proof.
  unfold add_commit. destruct (git_add g) as [[oka out] ga] eqn:Ea.
  destruct (git_add_spec _ _ _ _ Ea) as (Fa & _).
  destruct oka; [|intros [= _ _ <- _]; now apply commit_refs_frame].
  destruct (is_nil out); [intros [= _ _ <- _]; now apply commit_refs_frame|].
  destruct (git_commit ga) as [okc gc] eqn:Ec.
  destruct (git_commit_spec _ _ _ Ec) as (Ic & Wc & Sc & Tc & Cf & Ct).
  destruct okc; intros [= _ _ <- _].
  - destruct (Ct eq_refl) as (Ht & Hb & Hob & Hbr & _).
    split; [destruct Fa as (_ & _ & T & _); congruence|]. split; [rewrite Hb; now apply frame_head_branch|].
    split.
    + intros n. rewrite Hob. now rewrite (frame_other_branches _ _ Fa).
    + intros n Hn. rewrite Hbr.
      * destruct Fa as (_ & -> & _). reflexivity.
      * now rewrite (frame_head_branch _ _ Fa).
  - destruct (Cf eq_refl) as [-> _]. now apply commit_refs_frame.
Qed.
Lemma aac_refs tb g ok fin g2 t : add_and_commit tb g = (ok, fin, g2, t) -> refs_rel tb g g2.
Proof.
  rewrite add_and_commit_unfold. destruct tb as [b|].
  - destruct (checkout_b b g) as [okb gb] eqn:Eb.
    destruct (checkout_b_spec _ _ _ _ Eb) as (Ib & Wb & Sb & Tb & Lb & Cf & Ct).
    destruct okb; cbn [negb].
    + destruct (Ct eq_refl) as (Hid & Hhb & Hbr). intros Hac. apply add_commit_refs in Hac.
      destruct Hac as (C1 & C2 & C3 & C4). split; [congruence|].
      intros n Hn. rewrite C4; [now apply Hbr|]. rewrite Hhb. congruence.
    + intros [= _ _ <- _]. rewrite (Cf eq_refl). apply refs_rel_refl.
  - intros Hac. apply add_commit_refs in Hac. destruct Hac as (C1 & C2 & C3 & C4).
    split; [exact C1|split; [exact C2|exact C3]].
Qed.
Lemma unstash_frame g ok g' t : unstash g = (ok, g', t) -> frame g g'.
Proof.
  unfold unstash. assert (H := pop_frame g). destruct (stash_pop_index g); intros [= _ <- _]; [exact H|exact H|apply frame_refl].
Qed.
Lemma susf_frame g r g1 t : stash_user_staged_files g = (r, g1, t) -> frame g g1.
Proof.
  unfold stash_user_staged_files. destruct (is_nil (diff_cached g)); [intros [= _ <- _]; apply frame_refl|].
  destruct (stash_push_staged g) as [[|] g2] eqn:Ep; intros [= _ <- _]; eapply push_frame; eauto.
Qed.
Lemma auto_commit_refs fx tb g ok g' t : git_auto_commit fx tb g = (ok, g', t) -> refs_rel tb g g'.
Proof.
  unfold git_auto_commit. destruct (stash_user_staged_files g) as [[r g1] t1] eqn:Es.
  assert (F1 := susf_frame _ _ _ _ Es).
  destruct r as [stashed|]; [|intros [= _ <- _]; now apply refs_rel_frame].
  destruct (add_and_commit tb g1) as [[[ok1 fin] g2] t2] eqn:Ea.
  assert (R2 := aac_refs _ _ _ _ _ _ Ea).
  destruct (stashed && (fx || fin)).
  - destruct (unstash g2) as [[okp g3] t3] eqn:Eu. intros [= _ <- _].
    apply refs_rel_trans with g1; [now apply refs_rel_frame|].
    apply refs_rel_trans with g2; [exact R2|]. apply refs_rel_frame. eapply unstash_frame; eauto.
  - intros [= _ <- _]. apply refs_rel_trans with g1; [now apply refs_rel_frame|exact R2].
Qed.
Lemma handle_refs s g ok g' t : handle_git_automation s g = (ok, g', t) -> refs_rel (to_branch s) g g'.
Proof.
  unfold handle_git_automation. destruct (use_git s); [|intros [= _ <- _]; apply refs_rel_refl].
  destruct (auto_commit s).
  { destruct (fixed_P24 s); [|apply auto_commit_refs].
    intros Hac. apply auto_commit_only_ok in Hac. apply Hac. }
  destruct (auto_stage s); [|intros [= _ <- _]; apply refs_rel_refl].
  unfold git_auto_stage. destruct (git_add g) as [[ok1 out] g1] eqn:Ea. intros [= _ <- _].
  apply refs_rel_frame. apply (git_add_spec _ _ _ _ Ea).
Qed.
Lemma run_calls_refs s : forall cs k g st g' t, run_calls s cs k g = (st, g', t) -> refs_rel (to_branch s) g g'.
Proof.
  intros cs. induction cs as [|[d b] r IH]; intros k g st g' t; cbn [run_calls].
  - intros [= _ <- _]. apply refs_rel_refl.
  - assert (F := proj1 (apply_delta_spec d g)). destruct b.
    + destruct (handle_git_automation s (apply_delta d g)) as [[ok g2] t2] eqn:Eh.
      assert (R := handle_refs _ _ _ _ _ Eh). destruct ok.
      * destruct (run_calls s r (S k) g2) as [[st3 g3] t3] eqn:Er. intros [= _ <- _].
        apply refs_rel_trans with (apply_delta d g); [now apply refs_rel_frame|].
        apply refs_rel_trans with g2; [exact R|]. eapply IH; eauto.
      * intros [= _ <- _]. apply refs_rel_trans with (apply_delta d g); [now apply refs_rel_frame|exact R].
    + intros Er. apply refs_rel_trans with (apply_delta d g); [now apply refs_rel_frame|]. eapply IH; eauto.
Qed.
Lemma dispatch_refs_lemma s c g :
  from_ref s = None -> refs_rel (to_branch s) g (snd (fst (dispatch s c g))).
Proof.
  intros Hfr. unfold dispatch. rewrite Hfr. cbn [negb]. destruct (c_ok c); cbn [negb].
  2:{ cbn [fst snd]. apply refs_rel_frame. apply (apply_delta_spec (c_delta c) g). }
  destruct (run_calls s (calls s c) 0 g) as [[st g1] t1] eqn:Er. cbn [fst snd].
  eapply run_calls_refs; eauto.
Qed.

(* no automation at all: --skip-git, or git.use_git = false, or neither auto_commit nor auto_stage *)
Lemma run_calls_off s : (skip_git s = true \/ use_git s = false \/ (auto_commit s = false /\ auto_stage s = false)) ->
  forall cs k g st g' t, (forall d b, In (d, b) cs -> b = negb (skip_git s)) ->
  run_calls s cs k g = (st, g', t) ->
  g_index g' = g_index g /\ g_stash g' = g_stash g /\ frame g g' /\ t = [].
Proof.
  intros Hoff cs. induction cs as [|[d b] r IH]; intros k g st g' t Hb; cbn [run_calls].
  - intros [= _ <- <-]. repeat split.
  - destruct (apply_delta_spec d g) as (F & I & Sd & _).
    assert (Hb' : forall d b, In (d, b) r -> b = negb (skip_git s)) by (intros d0 b0 Hi; apply (Hb d0 b0); now right).
    rewrite (Hb d b (or_introl eq_refl)).
    destruct (skip_git s) eqn:Esk; cbn [negb].
    + intros Er. destruct (IH _ _ _ _ _ Hb' Er) as (A & B & C & D).
      split; [congruence|]. split; [congruence|]. split; [apply frame_trans with (apply_delta d g); assumption|exact D].
    + assert (Hh : handle_git_automation s (apply_delta d g) = (true, apply_delta d g, [])).
      { unfold handle_git_automation. destruct Hoff as [H|[H|[H1 H2]]]; [discriminate|now rewrite H|].
        rewrite H1, H2. now destruct (use_git s). }
      rewrite Hh. destruct (run_calls s r (S k) (apply_delta d g)) as [[st3 g3] t3] eqn:Er. intros [= _ <- <-].
      destruct (IH _ _ _ _ _ Hb' Er) as (A & B & C & D).
      split; [congruence|]. split; [congruence|]. split; [apply frame_trans with (apply_delta d g); assumption|now rewrite D].
Qed.

Lemma dispatch_off_lemma s c g :
  from_ref s = None -> c_kind c = KOther ->
  (skip_git s = true \/ use_git s = false \/ (auto_commit s = false /\ auto_stage s = false)) ->
  g_index (snd (fst (dispatch s c g))) = g_index g /\ g_stash (snd (fst (dispatch s c g))) = g_stash g /\
  frame g (snd (fst (dispatch s c g))) /\ snd (dispatch s c g) = [].
Proof.
  intros Hfr Hk Hoff. unfold dispatch. rewrite Hfr. cbn [negb]. destruct (c_ok c); cbn [negb].
  2:{ cbn [fst snd]. destruct (apply_delta_spec (c_delta c) g) as (F & I & Sd & _). repeat split; auto; apply F. }
  destruct (run_calls s (calls s c) 0 g) as [[st g1] t1] eqn:Er. cbn [fst snd app].
  eapply (run_calls_off s Hoff); [|exact Er].
  unfold calls. rewrite Hk. cbn [In]. intros d b [H|[H|[]]]; now inversion H.
Qed.

(* boolean twins, for concrete states *)
Definition managed_clean_b (g : git) : bool :=
  forallb (fun p => negb (managed p) || oblob_eqb (tget (g_wt g) p) (tget (g_index g) p))
          (tkeys (g_wt g) ++ tkeys (g_index g)).
Lemma managed_clean_b_ok g : managed_clean_b g = true -> managed_clean g.
Proof.
  unfold managed_clean_b. rewrite forallb_forall. intros H p Hp.
  destruct (tget (g_wt g) p) as [x|] eqn:E1.
  - assert (Hi : In p (tkeys (g_wt g) ++ tkeys (g_index g))) by (apply in_or_app; left; eapply tget_some_in; eauto).
    specialize (H p Hi). rewrite Hp, E1 in H. cbn [negb orb] in H. now apply oblob_eqb_true in H.
  - destruct (tget (g_index g) p) as [y|] eqn:E2; [|reflexivity].
    assert (Hi : In p (tkeys (g_wt g) ++ tkeys (g_index g))) by (apply in_or_app; right; eapply tget_some_in; eauto).
    specialize (H p Hi). rewrite Hp, E1, E2 in H. cbn [negb orb oblob_eqb] in H. discriminate.
Qed.

(* ---- read-only commands, for EVERY Git state -------------------------------------------------- *)
Lemma pop_done_spec g e rest g3 :
  g_stash g = e :: rest -> stash_pop_index g = Done g3 ->
  frame g g3 /\ g_stash g3 = rest /\
  (forall p, tget (g_wt g3) p =
     match pop_path (ignored p) (tget (s_base e) p) (tget (g_index g) p) (tget (s_wt e) p) (tget (g_wt g) p) with
     | PTake v => v | _ => tget (g_wt g) p end) /\
  (negb (tree_eqb (s_base e) (s_index e) || tree_eqb (g_index g) (s_index e)) = true ->
   forall p, tget (g_index g3) p =
     get_or (apply_o (tget (s_base e) p) (tget (s_index e) p) (tget (g_index g) p)) (tget (g_index g) p)).
Proof.
  intros Hst. unfold stash_pop_index. rewrite Hst. cbv zeta.
  set (ks := tkeys (s_base e) ++ tkeys (s_index e) ++ tkeys (s_wt e) ++ tkeys (g_index g)).
  assert (Hout : forall p, mem p ks = false ->
            tget (s_base e) p = None /\ tget (s_index e) p = None /\ tget (s_wt e) p = None /\ tget (g_index g) p = None).
  { intros p Hm. apply mem_false in Hm. unfold ks in Hm. rewrite !in_app_iff in Hm.
    rewrite !tget_notin by tauto. auto. }
  destruct (negb (tree_eqb (s_base e) (s_index e) || tree_eqb (g_index g) (s_index e))) eqn:Ehi; cbn [andb].
  - destruct (negb (forallb _ ks)); [discriminate|].
    destruct (negb (tree_eqb (g_index g) (head_tree g))); [discriminate|].
    destruct (existsb _ ks); [discriminate|]. destruct (existsb _ ks); [discriminate|].
    destruct (existsb _ ks); [discriminate|].
    intros [= <-]. split; [repeat split|]. split; [reflexivity|]. split.
    + intros p. cbn [g_wt set_stash set_index set_wt]. rewrite tget_upd.
      destruct (mem p ks) eqn:Em; [reflexivity|]. destruct (Hout p Em) as (-> & _ & -> & ->). reflexivity.
    + intros _ p. cbn [g_index set_stash set_index set_wt]. rewrite tget_upd.
      destruct (mem p ks) eqn:Em; [reflexivity|]. destruct (Hout p Em) as (-> & -> & _ & ->). reflexivity.
  - destruct (existsb _ ks); [discriminate|]. destruct (existsb _ ks); [discriminate|].
    intros [= <-]. split; [repeat split|]. split; [reflexivity|]. split; [|discriminate].
    intros p. cbn [g_wt set_stash set_index set_wt]. rewrite tget_upd.
    destruct (mem p ks) eqn:Em; [reflexivity|]. destruct (Hout p Em) as (-> & _ & -> & ->). reflexivity.
Qed.

Lemma push_spec g ok g1 : stash_push_staged g = (ok, g1) -> is_nil (diff_cached g) = false -> ok = true ->
  g_stash g1 = stash_of g :: g_stash g /\ g_index g1 = head_tree g /\
  (forall p, tget (g_wt g1) p =
     if staged_b g p then get_or (unapply_o (tget (head_tree g) p) (tget (g_index g) p) (tget (g_wt g) p)) (tget (g_wt g) p)
     else tget (g_wt g) p) /\
  (forall p, staged_b g p = true ->
     is_some (unapply_o (tget (head_tree g) p) (tget (g_index g) p) (tget (g_wt g) p)) = true).
Proof.
  unfold stash_push_staged. destruct (head_id g); [|intros [= <- _] _; discriminate].
  intros H Hnil. rewrite Hnil in H. revert H.
  match goal with |- context [if ?c then _ else _] => destruct c eqn:Ef end; [|intros [= <- _]; discriminate].
  intros [= _ <-] _. split; [reflexivity|]. split; [reflexivity|]. split.
  - intros p. cbn [g_wt set_index set_wt set_stash]. now rewrite tget_upd, mem_diff_cached.
  - intros p Hs. rewrite forallb_forall in Ef. apply Ef. rewrite <- mem_diff_cached in Hs. now apply mem_spec.
Qed.

Lemma is_some_get_or {A} (o : option A) d v : o = Some v -> get_or o d = v.
Proof. now intros ->. Qed.

Lemma auto_commit_clean tb g ok g' t :
  managed_clean g -> git_auto_commit true tb g = (ok, g', t) ->
  g_log g' = g_log g /\ (ok = true -> managed_clean g').
Proof.
  intros Hc. unfold git_auto_commit, stash_user_staged_files.
  destruct (is_nil (diff_cached g)) eqn:Hnil.
  - assert (Hns : forall p, staged_b g p = false) by now apply diff_cached_nil.
    assert (Hih : teq (g_index g) (head_tree g)) by (intros p; symmetry; now apply staged_b_false).
    destruct (add_and_commit tb g) as [[[ok1 fin] g2] t2] eqn:Ea. cbn [andb]. intros [= <- <- <-].
    destruct (aac_spec _ _ _ _ _ _ Hih Ea) as (A & B & C & D & E & F & G).
    destruct G as [G1 G2].
    { intros p. destruct (add_change g p) eqn:Hac; [|reflexivity]. apply add_change_spec in Hac.
      destruct Hac as [Hm Hd]. elim Hd. now apply Hc. }
    split; [exact G1|]. intros _. now apply (managed_clean_ext g).
  - destruct (stash_push_staged g) as [okp g1] eqn:Ep. assert (F1 := push_frame _ _ _ Ep).
    destruct okp; [|intros [= <- <- <-]; split; [apply F1|discriminate]].
    destruct (push_spec _ _ _ Ep Hnil eq_refl) as (S1 & I1 & W1 & U1).
    assert (Hm1 : forall p, managed p = true -> tget (g_wt g1) p = tget (head_tree g) p).
    { intros p Hp. rewrite W1. destruct (staged_b g p) eqn:Es.
      - apply is_some_get_or. rewrite (Hc p Hp). apply unapply_o_same.
        rewrite staged_b_neq in Es. apply negb_true_iff in Es. now apply oblob_eqb_false.
      - rewrite (Hc p Hp). symmetry. now apply staged_b_false. }
    assert (Hih1 : teq (g_index g1) (head_tree g1)).
    { intros p. now rewrite I1, (frame_head_tree _ _ F1). }
    destruct (add_and_commit tb g1) as [[[ok1 fin] g2] t2] eqn:Ea. cbn [andb orb].
    destruct (aac_spec _ _ _ _ _ _ Hih1 Ea) as (A & B & C & D & E & F & G).
    destruct G as [G1 G2].
    { intros p. destruct (add_change g1 p) eqn:Hac; [|reflexivity]. apply add_change_spec in Hac.
      destruct Hac as [Hm Hd]. elim Hd. now rewrite I1, (Hm1 p Hm). }
    unfold unstash. assert (F3 := pop_frame g2).
    destruct (stash_pop_index g2) as [g3|g3|] eqn:Epop; intros [= <- <- <-].
    + split; [destruct F3 as (_ & _ & _ & ->); rewrite G1; apply F1|]. intros _.
      assert (Hst2 : g_stash g2 = stash_of g :: g_stash g) by now rewrite B, S1.
      destruct (pop_done_spec _ _ _ _ Hst2 Epop) as (_ & _ & W3 & I3).
      cbn [stash_of s_base s_index s_wt] in W3, I3. rewrite G2, I1 in W3, I3.
      assert (Hhi : negb (tree_eqb (head_tree g) (g_index g) || tree_eqb (head_tree g) (g_index g)) = true).
      { apply is_nil_false_ex in Hnil. destruct Hnil as [p0 Hp0]. apply mem_spec in Hp0.
        rewrite mem_diff_cached, staged_b_neq in Hp0. apply negb_true_iff, oblob_eqb_false in Hp0.
        now rewrite (tree_eqb_nteq _ _ p0 Hp0). }
      specialize (I3 Hhi). intros p Hp. rewrite W3, I3, A, (Hm1 p Hp).
      destruct (oblob_eqb_spec (tget (head_tree g) p) (tget (g_index g) p)) as [Eq|Nq].
      * rewrite <- Eq, pop_path_keep, apply_o_same. reflexivity.
      * rewrite (pop_path_take _ _ _ Nq), (apply_o_diff _ _ Nq). reflexivity.
    + split; [destruct F3 as (_ & _ & _ & ->); rewrite G1; apply F1|]. rewrite andb_false_r. discriminate.
    + split; [rewrite G1; apply F1|]. rewrite andb_false_r. discriminate.
Qed.

Lemma handle_clean s g ok g' t :
  flow_ok s -> managed_clean g -> handle_git_automation s g = (ok, g', t) ->
  g_log g' = g_log g /\ (ok = true -> managed_clean g').
Proof.
  intros Hfx Hc. unfold handle_git_automation.
  destruct (use_git s); [|intros [= <- <- <-]; auto].
  destruct (auto_commit s).
  { destruct (fixed_P24 s) eqn:E24.
    - intros Hac. apply auto_commit_only_ok in Hac. destruct Hac as (A & B & C & D & E & F & G).
      destruct (G Hc) as [G1 G2]. split; [exact G1|]. intros _. now apply (managed_clean_ext g).
    - assert (Hfx20 : fixed_P20 s = true) by (destruct Hfx as [H|H]; [congruence|exact H]).
      rewrite Hfx20. now apply auto_commit_clean. }
  destruct (auto_stage s); [|intros [= <- <- <-]; auto].
  unfold git_auto_stage. destruct (git_add g) as [[ok1 out] g1] eqn:Ea. intros [= <- <- <-].
  destruct (git_add_spec _ _ _ _ Ea) as (Fa & Wa & Sa & Onil & Ia & Ma & Oa).
  split; [apply Fa|]. intros _ p Hp. rewrite Wa, Ia. destruct (mem p out); [reflexivity|now apply Hc].
Qed.

Lemma run_calls_readonly_all s : flow_ok s -> forall cs k g st g' t,
  managed_clean g -> (forall d b, In (d, b) cs -> d = []) ->
  run_calls s cs k g = (st, g', t) -> g_log g' = g_log g.
Proof.
  intros Hfx cs. induction cs as [|[d b] r IH]; intros k g st g' t Hc Hcs; cbn [run_calls].
  - now intros [= _ <- _].
  - rewrite (Hcs d b (or_introl eq_refl)). change (apply_delta [] g) with (set_wt g (g_wt g)).
    assert (Hc1 : managed_clean (set_wt g (g_wt g))) by (apply (managed_clean_ext g); [reflexivity|reflexivity|exact Hc]).
    assert (Hcs' : forall d b, In (d, b) r -> d = []) by (intros d0 b0 Hi; apply (Hcs d0 b0); now right).
    destruct b.
    + destruct (handle_git_automation s (set_wt g (g_wt g))) as [[ok g2] t2] eqn:Eh.
      destruct (handle_clean _ _ _ _ _ Hfx Hc1 Eh) as (Hl2 & Hc2).
      destruct ok.
      * destruct (run_calls s r (S k) g2) as [[st3 g3] t3] eqn:Er. intros [= _ <- _].
        rewrite (IH _ _ _ _ _ (Hc2 eq_refl) Hcs' Er). exact Hl2.
      * intros [= _ <- _]. exact Hl2.
    + intros Er. now rewrite (IH _ _ _ _ _ Hc1 Hcs' Er).
Qed.

Lemma dispatch_readonly_all_lemma s c g :
  flow_ok s -> from_ref s = None -> c_delta c = [] -> c_delta2 c = [] -> managed_clean g ->
  g_log (snd (fst (dispatch s c g))) = g_log g.
Proof.
  intros Hfx Hfr Hd1 Hd2 Hc. unfold dispatch. rewrite Hfr. cbn [negb].
  destruct (c_ok c); cbn [negb].
  2:{ cbn [fst snd]. apply (apply_delta_spec (c_delta c) g). }
  destruct (run_calls s (calls s c) 0 g) as [[st g1] t1] eqn:Er. cbn [fst snd].
  eapply (run_calls_readonly_all s Hfx); [exact Hc| |exact Er].
  intros d b Hi. apply calls_deltas in Hi. destruct Hi as [-> | [-> | -> ]]; auto.
Qed.

(* ---- the repaired flow never touches work tree or stash --------------------------------------- *)
Lemma handle_wt24 s g ok g' t :
  fixed_P24 s = true -> handle_git_automation s g = (ok, g', t) -> g_wt g' = g_wt g /\ g_stash g' = g_stash g.
Proof.
  intros H24. unfold handle_git_automation. rewrite H24.
  destruct (use_git s); [|intros [= _ <- _]; auto].
  destruct (auto_commit s).
  { intros Hac. apply auto_commit_only_ok in Hac. destruct Hac as (A & B & _). auto. }
  destruct (auto_stage s); [|intros [= _ <- _]; auto].
  unfold git_auto_stage. destruct (git_add g) as [[ok1 out] g1] eqn:Ea. intros [= _ <- _].
  destruct (git_add_spec _ _ _ _ Ea) as (_ & Wa & Sa & _). auto.
Qed.
Lemma run_calls_wt24 s : fixed_P24 s = true -> forall cs k g st g' t,
  run_calls s cs k g = (st, g', t) ->
  g_stash g' = g_stash g /\
  forall p, (forall d b, In (d, b) cs -> ~ In p (map fst d)) -> tget (g_wt g') p = tget (g_wt g) p.
Proof.
  intros H24 cs. induction cs as [|[d b] r IH]; intros k g st g' t; cbn [run_calls].
  - intros [= _ <- _]. auto.
  - destruct (apply_delta_spec d g) as (_ & _ & Sd & Wd).
    assert (Hp : forall p, (forall d0 b0, In (d0, b0) ((d, b) :: r) -> ~ In p (map fst d0)) ->
                 tget (g_wt (apply_delta d g)) p = tget (g_wt g) p /\ (forall d0 b0, In (d0, b0) r -> ~ In p (map fst d0))).
    { intros p H. split; [apply Wd, (H d b); now left|]. intros d0 b0 Hi. apply (H d0 b0). now right. }
    destruct b.
    + destruct (handle_git_automation s (apply_delta d g)) as [[ok g2] t2] eqn:Eh.
      destruct (handle_wt24 _ _ _ _ _ H24 Eh) as [W2 S2]. destruct ok.
      * destruct (run_calls s r (S k) g2) as [[st3 g3] t3] eqn:Er. intros [= _ <- _].
        destruct (IH _ _ _ _ _ Er) as [S3 W3]. split; [congruence|].
        intros p H. destruct (Hp p H) as [E1 E2]. now rewrite (W3 p E2), W2.
      * intros [= _ <- _]. split; [congruence|]. intros p H. destruct (Hp p H) as [E1 _]. now rewrite W2.
    + intros Er. destruct (IH _ _ _ _ _ Er) as [S3 W3]. split; [congruence|].
      intros p H. destruct (Hp p H) as [E1 E2]. now rewrite (W3 p E2).
Qed.
Lemma dispatch_wt24_lemma s c g :
  fixed_P24 s = true -> from_ref s = None ->
  g_stash (snd (fst (dispatch s c g))) = g_stash g /\
  forall p, ~ In p (touched c) -> tget (g_wt (snd (fst (dispatch s c g)))) p = tget (g_wt g) p.
Proof.
  intros H24 Hfr. unfold dispatch. rewrite Hfr. cbn [negb]. destruct (c_ok c); cbn [negb].
  2:{ cbn [fst snd]. destruct (apply_delta_spec (c_delta c) g) as (_ & _ & Sd & Wd). split; [exact Sd|].
      intros p Hn. apply Wd. intros Hi. apply Hn. unfold touched. apply in_or_app. now left. }
  destruct (run_calls s (calls s c) 0 g) as [[st g1] t1] eqn:Er. cbn [fst snd].
  destruct (run_calls_wt24 s H24 _ _ _ _ _ _ Er) as [S1 W1]. split; [exact S1|].
  intros p Hn. apply W1. intros d b Hi Hin. apply Hn. unfold touched. apply calls_deltas in Hi.
  destruct Hi as [-> | [-> | -> ]]; [apply in_or_app; now left|apply in_or_app; now right|destruct Hin].
Qed.

(* ---- --from-ref under the repaired flow: a plain `git checkout` ---------------------------------- *)
(* what `git checkout <ref>` does to one path: it keeps index entry and file (the path is the same in both
   commits, or the index already has the target's version), or the path had no local change (index = HEAD;
   the file is what the index says, or missing, or an ignored untracked file) and gets the target's version *)
Definition carried (H T I W I' W' : option blob) (ig : bool) : Prop :=
  (I' = I /\ W' = W /\ (H = T \/ I = T)) \/
  (I = H /\ H <> T /\ I' = T /\ W' = T /\ (wt_uptodate I W = true \/ (ig = true /\ I = None))).

Lemma checkout_ref_spec r g ok g1 : checkout_ref r g = (ok, g1) ->
  g_stash g1 = g_stash g /\ g_branches g1 = g_branches g /\ g_tags g1 = g_tags g /\ g_log g1 = g_log g /\
  (ok = false -> g1 = g) /\
  (ok = true -> exists h' i, resolve g r = Some (h', i) /\ g_head g1 = h' /\
     forall p, carried (tget (head_tree g) p) (tget (tree_of (g_log g) (Some i)) p)
                       (tget (g_index g) p) (tget (g_wt g) p) (tget (g_index g1) p) (tget (g_wt g1) p) (ignored p)).
Proof.
  unfold checkout_ref. destruct (resolve g r) as [[h' i]|] eqn:Er.
  2:{ intros [= <- <-]. do 4 (split; [reflexivity|]). split; [reflexivity|discriminate]. }
  cbv zeta.
  set (H := head_tree g). set (T := tree_of (g_log g) (Some i)). set (ks := tkeys H ++ tkeys T).
  match goal with |- context [existsb ?f ks] => destruct (existsb f ks) eqn:Ex end.
  { intros [= <- <-]. do 4 (split; [reflexivity|]). split; [reflexivity|discriminate]. }
  intros [= <- <-]. cbn [g_stash g_branches g_tags g_log g_head g_index g_wt set_head set_index set_wt].
  do 4 (split; [reflexivity|]). split; [discriminate|]. intros _.
  exists h', i. split; [reflexivity|]. split; [reflexivity|]. intros p. rewrite !tget_upd.
  destruct (mem p ks) eqn:Em.
  2:{ left. split; [reflexivity|]. split; [reflexivity|]. left.
      apply mem_false in Em. unfold ks in Em. rewrite in_app_iff in Em. rewrite !tget_notin by tauto. reflexivity. }
  assert (Hnr := existsb_false_inv _ _ p Ex (proj1 (mem_spec p ks) Em)). cbn beta in Hnr.
  revert Hnr. unfold checkout_path.
  destruct (oblob_eqb_spec (tget H p) (tget T p)) as [Eht|Nht]; [intros _; left; auto|].
  destruct (negb (is_some (tget (g_index g) p)) && negb (is_some (tget T p)) && is_some (tget (g_wt g) p) && negb (ignored p));
    [discriminate|].
  destruct (oblob_eqb_spec (tget (g_index g) p) (tget T p)) as [Eit|Nit]; [intros _; left; auto|].
  destruct (oblob_eqb_spec (tget (g_index g) p) (tget H p)) as [Eih|Nih]; [|discriminate].
  destruct (tget (g_index g) p) as [ib|] eqn:Ei.
  - destruct (wt_uptodate (Some ib) (tget (g_wt g) p)) eqn:Eu; [|discriminate]. intros _. right.
    split; [exact Eih|]. split; [exact Nht|]. split; [reflexivity|]. split; [reflexivity|]. now left.
  - destruct (tget (g_wt g) p) as [wb|] eqn:Ew.
    + destruct (ignored p) eqn:Eig; [|discriminate]. intros _. right.
      split; [exact Eih|]. split; [exact Nht|]. split; [reflexivity|]. split; [reflexivity|]. right. auto.
    + cbn [wt_uptodate]. intros _. right. split; [exact Eih|]. split; [exact Nht|]. split; [reflexivity|]. split; [reflexivity|]. now left.
Qed.

Lemma run_calls_status s : forall cs k g st g' t, run_calls s cs k g = (st, g', t) -> st <> SFromRefFailed.
Proof.
  intros cs. induction cs as [|[d b] r IH]; intros k g st g' t; cbn [run_calls].
  - intros [= <- _ _]. discriminate.
  - destruct b; [|apply IH].
    destruct (handle_git_automation s (apply_delta d g)) as [[[|] g2] t2].
    + destruct (run_calls s r (S k) g2) as [[st3 g3] t3] eqn:Er. intros [= <- _ _]. eapply IH; eauto.
    + intros [= <- _ _]. discriminate.
Qed.
Lemma dispatch_from_ref24_lemma s c g r :
  fixed_P24 s = true -> from_ref s = Some r ->
  match checkout_ref r g with
  | (false, _) => dispatch s c g = (SFromRefFailed, g, [GCheckout r])
  | (true, g1) => fst (fst (dispatch s c g)) <> SFromRefFailed /\ g_stash g1 = g_stash g /\
                  exists t, snd (dispatch s c g) = GCheckout r :: t
  end.
Proof.
  intros H24 Hfr. unfold dispatch. rewrite Hfr, H24. unfold git_checkout_ref_plain.
  destruct (checkout_ref r g) as [[|] g1] eqn:Ec; cbn [negb].
  2:{ destruct (checkout_ref_spec _ _ _ _ Ec) as (_ & _ & _ & _ & Cf & _). now rewrite (Cf eq_refl). }
  destruct (checkout_ref_spec _ _ _ _ Ec) as (S1 & _).
  destruct (c_ok c); cbn [negb fst snd].
  - destruct (run_calls s (calls s c) 0 g1) as [[st g2] t2] eqn:Er. cbn [fst snd app].
    split; [eapply run_calls_status; eauto|]. split; [exact S1|]. eexists. reflexivity.
  - split; [discriminate|]. split; [exact S1|]. exists []. reflexivity.
Qed.
