(* M-GIT: executable model of the part of Git that xvc drives (core/src/util/git.rs) and of xvc's
   Git automation on top of it.  NO proofs here (Git/Proofs.v); everything is total, computable and
   extractable.

   Git state: trees are association lists path -> blob (first binding wins; [tget] is the only
   observation).  A blob is a list of "regions" (N): files used in the validation against real git
   consist of far-apart one-line regions, so that git's hunk-wise patch application and 3-way merge
   are region-wise on them ([unapply], [merge3]); for arbitrary blobs the model takes the whole-file
   shortcut first (equal blobs) and is otherwise region-wise on equal lengths / conflict on
   different lengths.

   Sub-commands (each with its failure modes), semantics validated against real git 2.39.5 by
   vlib/c15.py (gitmodel vs git):
     diff --name-only --cached        [diff_cached]
     stash push --staged              [stash_push_staged]   fails on an unborn branch; saves the
                                       entry FIRST and then reverse-applies the staged patch to the
                                       work tree (atomic), which fails when a staged path also has a
                                       conflicting unstaged change
     checkout -b <b>                  [checkout_b]          fails when the branch exists
     checkout <ref>                   [checkout_ref]        two-way merge, refuses to overwrite local changes
     add [--verbose] <.xvc> '*.gitignore' '*.xvcignore'   [git_add]   honours the root .gitignore
                                       written by xvc init (Gen/GitignoreInitial.v); fails when a pathspec matches nothing
     commit -m <msg>                  [git_commit]          fails when there is nothing to commit
     commit -m <msg> -- <.xvc> '*.gitignore' '*.xvcignore'   [git_commit_only]   (`git commit --only`) a temporary
                                       index = HEAD with the work-tree state of every path of HEAD or the index
                                       that matches a pathspec; commits it; the same paths are updated in the real
                                       index, every other index entry stays; fails when a pathspec matches nothing
                                       in HEAD and index, and when the new tree is the tree of HEAD
     stash pop --index                [stash_pop_index]     index patch, then 3-way merge into index +
                                       work tree, refuses to overwrite local changes (all or nothing);
                                       with an index to restore and anything staged it resets the index
                                       to HEAD and refuses
   Quirks found by the validation and modelled: `stash push --staged` with nothing staged exits 1 unless
   the tree is clean; ignored untracked files are expendable for pop and checkout; checkout refuses when a
   staged deletion leaves an untracked file the target lacks; the non-glob pathspec of `git add` only has
   to exist. *)
From Coq Require Import List Bool NArith.
From XV Require Import Base.Amap Gen.GitignoreInitial.
Import ListNotations.

(* ---- paths, blobs, trees ------------------------------------------------------------------- *)
Definition comp := list N.          (* a path component: bytes *)
Definition path := list comp.
Definition blob := list N.          (* region values *)
Definition name := list N.          (* branch / tag names *)

Fixpoint list_eqb {A : Type} (e : A -> A -> bool) (a b : list A) : bool :=
  match a, b with
  | [], [] => true
  | x :: a', y :: b' => e x y && list_eqb e a' b'
  | _, _ => false
  end.
Definition comp_eqb : comp -> comp -> bool := list_eqb N.eqb.
Definition path_eqb : path -> path -> bool := list_eqb comp_eqb.
Definition blob_eqb : blob -> blob -> bool := list_eqb N.eqb.
Definition name_eqb : name -> name -> bool := list_eqb N.eqb.
Definition oblob_eqb (a b : option blob) : bool :=
  match a, b with
  | None, None => true
  | Some x, Some y => blob_eqb x y
  | _, _ => false
  end.
Definition is_some {A : Type} (o : option A) : bool := match o with Some _ => true | None => false end.
Definition is_nil {A : Type} (l : list A) : bool := match l with [] => true | _ => false end.

Definition tree := list (path * blob).
Definition tget (t : tree) (p : path) : option blob := get path_eqb t p.
Definition tset (t : tree) (p : path) (v : option blob) : tree :=
  match v with
  | None => del path_eqb t p
  | Some b => (p, b) :: del path_eqb t p
  end.
(* bulk update: every path of [ps] gets the value [f] assigns to it *)
Fixpoint upd (t : tree) (ps : list path) (f : path -> option blob) : tree :=
  match ps with
  | [] => t
  | p :: r => upd (tset t p (f p)) r f
  end.
Definition tkeys (t : tree) : list path := keys t.
Definition mem (p : path) (ps : list path) : bool := existsb (path_eqb p) ps.
Definition tree_eqb (a b : tree) : bool :=
  forallb (fun p => oblob_eqb (tget a p) (tget b p)) (tkeys a ++ tkeys b).

(* ---- which paths xvc manages: the pathspecs of its `git add` ------------------------------- *)
Fixpoint last_comp (p : path) : option comp :=
  match p with
  | [] => None
  | [c] => Some c
  | _ :: r => last_comp r
  end.
Definition has_suffix (s c : list N) : bool :=
  Nat.leb (length s) (length c) && list_eqb N.eqb s (skipn (length c - length s) c).
(* <root>/.xvc : everything below the xvc directory *)
Definition under_xvc (p : path) : bool :=
  match p with
  | c :: _ => comp_eqb c xvc_dir_name
  | [] => false
  end.
(* '*<suffix>' : git pathspecs match the whole path string with fnmatch without FNM_PATHNAME, so
   `*` also crosses `/`: the path ends with the suffix (the suffixes contain no `/`) *)
Definition suffix_spec (s : list N) (p : path) : bool :=
  match last_comp p with
  | Some c => has_suffix s c
  | None => false
  end.
Definition managed (p : path) : bool :=
  under_xvc p || existsb (fun s => suffix_spec s p) add_suffixes.

(* ---- the root .gitignore written by xvc init ---------------------------------------------- *)
Definition seg_match (s : seg) (c : comp) : bool :=
  match s with
  | SLit l => comp_eqb l c
  | SStar => true
  end.
Fixpoint segs_match (ss : list seg) (p : path) : bool :=
  match ss, p with
  | [], [] => true
  | s :: ss', c :: p' => seg_match s c && segs_match ss' p'
  | _, _ => false
  end.
Definition pat_match (pt : ipat) (p : path) (is_dir : bool) : bool :=
  (negb (ip_dir pt) || is_dir) && segs_match (ip_segs pt) p.
(* last matching pattern wins *)
Fixpoint last_match (pats : list ipat) (p : path) (is_dir : bool) (acc : option bool) : option bool :=
  match pats with
  | [] => acc
  | pt :: r => last_match r p is_dir (if pat_match pt p is_dir then Some (negb (ip_neg pt)) else acc)
  end.
Definition excluded_here (p : path) (is_dir : bool) : bool :=
  match last_match gitignore_initial p is_dir None with
  | Some true => true
  | _ => false
  end.
(* a file is ignored iff it, or one of the directories above it, is excluded *)
Fixpoint ignored_from (pre rest : path) : bool :=
  match rest with
  | [] => false
  | [c] => excluded_here (pre ++ [c]) false
  | c :: r => excluded_here (pre ++ [c]) true || ignored_from (pre ++ [c]) r
  end.
Definition ignored (p : path) : bool := ignored_from [] p.

(* ---- region-wise patches and merges ------------------------------------------------------- *)
(* revert the change a -> b on c, region by region *)
Fixpoint regions_unapply (a b c : blob) : option blob :=
  match a, b, c with
  | [], [], [] => Some []
  | x :: a', y :: b', z :: c' =>
      match regions_unapply a' b' c' with
      | Some t => if N.eqb x y then Some (z :: t) else if N.eqb z y then Some (x :: t) else None
      | None => None
      end
  | _, _, _ => None
  end.
Definition unapply (a b c : blob) : option blob :=
  if blob_eqb a b then Some c else if blob_eqb c b then Some a else regions_unapply a b c.
(* on optional blobs (None = the path does not exist); result None = the patch does not apply *)
Definition unapply_o (a b c : option blob) : option (option blob) :=
  match a, b with
  | None, None => Some c
  | None, Some y => if oblob_eqb c (Some y) then Some None else None        (* revert a creation *)
  | Some x, None => match c with None => Some (Some x) | Some _ => None end (* revert a deletion *)
  | Some x, Some y =>
      match c with
      | Some z => match unapply x y z with Some r => Some (Some r) | None => None end
      | None => if blob_eqb x y then Some None else None
      end
  end.
(* apply the change a -> b to c *)
Definition apply_o (a b c : option blob) : option (option blob) := unapply_o b a c.

Fixpoint regions_merge3 (o x y : blob) : option blob :=
  match o, x, y with
  | [], [], [] => Some []
  | a :: o', b :: x', c :: y' =>
      match regions_merge3 o' x' y' with
      | Some t => if N.eqb b a then Some (c :: t) else if N.eqb c a then Some (b :: t)
                  else if N.eqb b c then Some (b :: t) else None
      | None => None
      end
  | _, _, _ => None
  end.
Definition merge3 (o x y : blob) : option blob :=
  if blob_eqb x o then Some y else if blob_eqb y o then Some x else if blob_eqb x y then Some x
  else regions_merge3 o x y.

(* ---- Git state ---------------------------------------------------------------------------- *)
Record commit := { c_id : N; c_parent : option N; c_tree : tree }.
Record stash_entry := { s_base : tree; s_index : tree; s_wt : tree }.
Inductive headref := OnBranch (b : name) | Detached (c : N).
Record git := {
  g_head : headref;
  g_branches : list (name * N);
  g_tags : list (name * N);
  g_index : tree;
  g_wt : tree;
  g_stash : list stash_entry;
  g_log : list commit          (* newest first *)
}.

Definition set_head (g : git) (h : headref) : git :=
  {| g_head := h; g_branches := g_branches g; g_tags := g_tags g; g_index := g_index g;
     g_wt := g_wt g; g_stash := g_stash g; g_log := g_log g |}.
Definition set_branches (g : git) (b : list (name * N)) : git :=
  {| g_head := g_head g; g_branches := b; g_tags := g_tags g; g_index := g_index g;
     g_wt := g_wt g; g_stash := g_stash g; g_log := g_log g |}.
Definition set_index (g : git) (i : tree) : git :=
  {| g_head := g_head g; g_branches := g_branches g; g_tags := g_tags g; g_index := i;
     g_wt := g_wt g; g_stash := g_stash g; g_log := g_log g |}.
Definition set_wt (g : git) (w : tree) : git :=
  {| g_head := g_head g; g_branches := g_branches g; g_tags := g_tags g; g_index := g_index g;
     g_wt := w; g_stash := g_stash g; g_log := g_log g |}.
Definition set_stash (g : git) (s : list stash_entry) : git :=
  {| g_head := g_head g; g_branches := g_branches g; g_tags := g_tags g; g_index := g_index g;
     g_wt := g_wt g; g_stash := s; g_log := g_log g |}.
Definition set_log (g : git) (l : list commit) : git :=
  {| g_head := g_head g; g_branches := g_branches g; g_tags := g_tags g; g_index := g_index g;
     g_wt := g_wt g; g_stash := g_stash g; g_log := l |}.

Definition bget (m : list (name * N)) (n : name) : option N := get name_eqb m n.
Definition head_id (g : git) : option N :=
  match g_head g with
  | OnBranch b => bget (g_branches g) b
  | Detached c => Some c
  end.
Fixpoint find_commit (l : list commit) (i : N) : option commit :=
  match l with
  | [] => None
  | c :: r => if N.eqb (c_id c) i then Some c else find_commit r i
  end.
Definition tree_of (l : list commit) (i : option N) : tree :=
  match i with
  | Some i => match find_commit l i with Some c => c_tree c | None => [] end
  | None => []
  end.
Definition head_tree (g : git) : tree := tree_of (g_log g) (head_id g).
Definition head_branch (g : git) : option name :=
  match g_head g with OnBranch b => Some b | Detached _ => None end.
Fixpoint max_id (l : list commit) : N :=
  match l with
  | [] => 0%N
  | c :: r => N.max (c_id c) (max_id r)
  end.
Definition fresh_id (l : list commit) : N := N.succ (max_id l).

(* ---- the sub-commands ---------------------------------------------------------------------- *)
Definition staged_b (g : git) (p : path) : bool :=
  negb (oblob_eqb (tget (head_tree g) p) (tget (g_index g) p)).
(* git diff --name-only --cached (possibly with repetitions; the driver prints it as a set) *)
Definition diff_cached (g : git) : list path :=
  filter (staged_b g) (tkeys (head_tree g) ++ tkeys (g_index g)).

Definition get_or {A : Type} (o : option A) (d : A) : A := match o with Some x => x | None => d end.

(* git stash push --staged *)
Definition stash_push_staged (g : git) : bool * git :=
  match head_id g with
  | None => (false, g)                              (* "You do not have the initial commit yet" *)
  | Some _ =>
      let H := head_tree g in
      let I := g_index g in
      let W := g_wt g in
      let st := diff_cached g in
      if is_nil st then                             (* "No local changes to save" (0) / "No staged changes" (1) *)
        (negb (existsb (fun p => negb (oblob_eqb (tget W p) (tget I p))) (tkeys I)), g)
      else
        let g1 := set_stash g ({| s_base := H; s_index := I; s_wt := I |} :: g_stash g) in
        if forallb (fun p => is_some (unapply_o (tget H p) (tget I p) (tget W p))) st
        then (true, set_index (set_wt g1 (upd W st (fun p => get_or (unapply_o (tget H p) (tget I p) (tget W p)) (tget W p)))) H)
        else (false, g1)                            (* "Cannot remove worktree changes": entry saved, nothing else touched *)
  end.

(* git checkout -b <b> *)
Definition checkout_b (b : name) (g : git) : bool * git :=
  match bget (g_branches g) b with
  | Some _ => (false, g)                            (* "a branch named 'b' already exists" *)
  | None =>
      let br := match head_id g with Some i => (b, i) :: g_branches g | None => g_branches g end in
      (true, set_head (set_branches g br) (OnBranch b))
  end.

(* git add [--verbose] <xvc dir> '*<suffix>'... ; the list is the verbose output (paths added or removed) *)
Definition add_change (g : git) (p : path) : bool :=
  managed p && negb (oblob_eqb (tget (g_wt g) p) (tget (g_index g) p))
  && (is_some (tget (g_index g) p) || negb (ignored p)).
Definition add_changes (g : git) : list path :=
  filter (add_change g) (tkeys (g_wt g) ++ tkeys (g_index g)).
Definition pathspecs_match (g : git) : bool :=
  let ps := filter (fun p => is_some (tget (g_index g) p) || negb (ignored p)) (tkeys (g_wt g) ++ tkeys (g_index g)) in
  (* the directory pathspec has no wildcard: it only has to exist (even with nothing but ignored files in
     it); the `*<suffix>` pathspecs are globs and must match a file that is tracked or not ignored *)
  existsb under_xvc (tkeys (g_wt g) ++ tkeys (g_index g)) && forallb (fun s => existsb (suffix_spec s) ps) add_suffixes.
Definition git_add (g : git) : bool * list path * git :=
  if pathspecs_match g then
    let ch := add_changes g in
    (true, ch, set_index g (upd (g_index g) ch (tget (g_wt g))))
  else (false, [], g).                              (* "pathspec ... did not match any files" *)

(* git commit -m <msg> *)
Definition aput (m : list (name * N)) (n : name) (i : N) : list (name * N) := (n, i) :: del name_eqb m n.
Definition git_commit (g : git) : bool * git :=
  if tree_eqb (g_index g) (head_tree g) then (false, g)       (* "nothing to commit" *)
  else
    let c := {| c_id := fresh_id (g_log g); c_parent := head_id g; c_tree := g_index g |} in
    let g1 := set_log g (c :: g_log g) in
    match g_head g with
    | OnBranch b => (true, set_branches g1 (aput (g_branches g) b (c_id c)))
    | Detached _ => (true, set_head g1 (Detached (c_id c)))
    end.

(* git commit -m <msg> -- <xvc dir> '*<suffix>'... : with pathspecs `git commit` is `git commit --only`.
   The pathspecs select among the paths of the index and of HEAD (not among untracked files); a temporary
   index is read from HEAD, every selected path gets its work-tree state there (added, or removed when the
   file is gone) and the same is done in the real index; the temporary index is committed; on failure
   ("did not match any file(s) known to git", "nothing to commit") nothing is changed. *)
Definition commit_paths (g : git) : list path :=
  filter managed (tkeys (head_tree g) ++ tkeys (g_index g)).
Definition commit_pathspecs_match (g : git) : bool :=
  let ks := tkeys (head_tree g) ++ tkeys (g_index g) in
  existsb under_xvc ks && forallb (fun s => existsb (suffix_spec s) ks) add_suffixes.
Definition git_commit_only (g : git) : bool * git :=
  if commit_pathspecs_match g then
    let ps := commit_paths g in
    match git_commit (set_index g (upd (head_tree g) ps (tget (g_wt g)))) with
    | (true, g1) => (true, set_index g1 (upd (g_index g) ps (tget (g_wt g))))
    | (false, _) => (false, g)                      (* "nothing to commit" / "no changes added to commit" *)
    end
  else (false, g).                                  (* "pathspec ... did not match any file(s) known to git" *)

(* git stash pop --index *)
Inductive pmerge := PKeep | PTake (v : option blob) | PRefuse | PConflict.
Definition wt_uptodate (x w : option blob) : bool :=
  match w with
  | None => true                    (* a file missing from the work tree has nothing to lose *)
  | Some _ => oblob_eqb w x         (* otherwise it must be what the index says; an untracked file is in the way *)
  end.
(* [ig]: the path is ignored; an ignored file that is not in the index is expendable (overwritten silently) *)
Definition wt_ok (ig : bool) (x w : option blob) : bool := wt_uptodate x w || (ig && negb (is_some x)).
Definition pop_path (ig : bool) (o x y w : option blob) : pmerge :=
  if oblob_eqb y o then PKeep                               (* the stash did not change the path *)
  else if oblob_eqb x y then PKeep                          (* same change already there *)
  else if oblob_eqb x o then (if wt_ok ig x w then PTake y else PRefuse)
  else match o, x, y with
       | Some ob, Some xb, Some yb =>
           if wt_ok ig x w then
             match merge3 ob xb yb with Some m => PTake (Some m) | None => PConflict end
           else PRefuse
       | _, _, _ => PConflict        (* modify/delete, add/add: exit 1; depending on the work tree git refuses
                                        cleanly or leaves conflicts -- both are [Dirty] (state not modelled) *)
       end.
Inductive outcome := Done (g : git) | Failed (g : git) | Dirty.   (* Dirty: exit 1, resulting state not modelled *)

Definition stash_pop_index (g : git) : outcome :=
  match g_stash g with
  | [] => Failed g                                           (* "No stash entries found" *)
  | e :: rest =>
      let c := g_index g in
      let W := g_wt g in
      let ks := tkeys (s_base e) ++ tkeys (s_index e) ++ tkeys (s_wt e) ++ tkeys c in
      let has_index := negb (tree_eqb (s_base e) (s_index e) || tree_eqb c (s_index e)) in
      let ipatch := fun p => apply_o (tget (s_base e) p) (tget (s_index e) p) (tget c p) in
      if has_index && negb (forallb (fun p => is_some (ipatch p)) ks) then Failed g   (* "conflicts in index" *)
      else if has_index && negb (tree_eqb c (head_tree g)) then Failed (set_index g (head_tree g))
           (* with an index to restore, git saves the patched index tree and runs `git reset`; the merge then
              refuses because the index no longer is the tree it started from ("Your local changes ... would
              be overwritten by merge", "Index was not unstashed"): what was staged is now unstaged *)
      else
        let pm := fun p => pop_path (ignored p) (tget (s_base e) p) (tget c p) (tget (s_wt e) p) (tget W p) in
        if existsb (fun p => match pm p with PRefuse => true | _ => false end) ks then Failed g
        else if existsb (fun p => match pm p with PConflict => true | _ => false end) ks then Dirty
        else if has_index && existsb (fun p => match pm p with
                                               | PKeep => negb (oblob_eqb (get_or (ipatch p) (tget c p)) (tget c p))
                                                          && is_some (tget W p) && negb (oblob_eqb (tget W p) (tget c p))
                                               | _ => false
                                               end) ks then Dirty
             (* the merge went through, but restoring the stashed index trips over a path the merge left alone
                whose work-tree file differs from the index ("Entry ... not uptodate. Cannot merge"): exit 1 with
                a half-applied state that is not modelled *)
        else
          let W' := upd W ks (fun p => match pm p with PTake v => v | _ => tget W p end) in
          let I' := if has_index then upd c ks (fun p => get_or (ipatch p) (tget c p))
                    else upd c ks (fun p => match pm p, tget c p with
                                            | PTake v, None => v         (* files added by the stash stay staged *)
                                            | _, _ => tget c p
                                            end) in
          Done (set_stash (set_index (set_wt g W') I') rest)
  end.

(* git checkout <ref> *)
Inductive refarg := RName (n : name) | RId (c : N).
Definition resolve (g : git) (r : refarg) : option (headref * N) :=
  match r with
  | RName n =>
      match bget (g_branches g) n with
      | Some i => Some (OnBranch n, i)
      | None => match bget (g_tags g) n with Some i => Some (Detached i, i) | None => None end
      end
  | RId c => match find_commit (g_log g) c with Some _ => Some (Detached c, c) | None => None end
  end.
Inductive cpath := CKeep | CSet (v : option blob) | CRefuse.
Definition checkout_path (ig : bool) (h t i w : option blob) : cpath :=
  if oblob_eqb h t then CKeep                   (* same in both commits: local changes are carried over *)
  else if negb (is_some i) && negb (is_some t) && is_some w && negb ig then CRefuse
                                                (* staged deletion, an untracked file of that name, the target
                                                   lacks the path: "untracked working tree files would be removed" *)
  else if oblob_eqb i t then CKeep              (* the index already has the target version *)
  else if oblob_eqb i h then
    (match i, w with
     | None, Some _ => if ig then CSet t else CRefuse   (* untracked file would be overwritten (ignored: expendable) *)
     | _, _ => if wt_uptodate i w then CSet t else CRefuse
     end)
  else CRefuse.                                 (* staged change on a path that differs between the commits *)
Definition checkout_ref (r : refarg) (g : git) : bool * git :=
  match resolve g r with
  | None => (false, g)                          (* "pathspec did not match" *)
  | Some (h', i) =>
      let H := head_tree g in
      let T := tree_of (g_log g) (Some i) in
      let ks := tkeys H ++ tkeys T in
      let cp := fun p => checkout_path (ignored p) (tget H p) (tget T p) (tget (g_index g) p) (tget (g_wt g) p) in
      if existsb (fun p => match cp p with CRefuse => true | _ => false end) ks then (false, g)
      else
        let I' := upd (g_index g) ks (fun p => match cp p with CSet v => v | _ => tget (g_index g) p end) in
        let W' := upd (g_wt g) ks (fun p => match cp p with CSet v => v | _ => tget (g_wt g) p end) in
        (true, set_head (set_index (set_wt g W') I') h')
  end.

(* ---- xvc's automation: core/src/util/git.rs ------------------------------------------------ *)
Inductive gitcmd :=
| GDiffCached | GStashPushStaged | GCheckoutB (b : name) | GCheckout (r : refarg)
| GAddVerbose | GAdd | GCommit | GStashPopIndex
| GCommitOnly.                       (* commit -m <msg> -- <xvc dir> '*.gitignore' '*.xvcignore' *)
Definition trace := list gitcmd.

(* stash_user_staged_files: Some stashed? = Ok(git_diff_staged_out non-empty?), None = Err *)
Definition stash_user_staged_files (g : git) : option bool * git * trace :=
  let d := diff_cached g in
  if is_nil d then (Some false, g, [GDiffCached])
  else
    match stash_push_staged g with
    | (true, g1) => (Some true, g1, [GDiffCached; GStashPushStaged])
    | (false, g1) => (None, g1, [GDiffCached; GStashPushStaged])
    end.

(* unstash_user_staged_files *)
Definition unstash (g : git) : bool * git * trace :=
  match stash_pop_index g with
  | Done g1 => (true, g1, [GStashPopIndex])
  | Failed g1 => (false, g1, [GStashPopIndex])
  | Dirty => (false, g, [GStashPopIndex])     (* state after a conflicted pop is not modelled *)
  end.

(* git_add_and_commit (before the fix of P20: the part of git_auto_commit between stashing and
   unstashing): checkout -b, add, commit.
   Result: ok?, reached the end of the function (false = the early `return Ok(())`)? *)
Definition add_and_commit (tb : option name) (g : git) : bool * bool * git * trace :=
  let '(okb, g1, t1) :=
    match tb with
    | Some b => let '(ok, g') := checkout_b b g in (ok, g', [GCheckoutB b])
    | None => (true, g, [])
    end in
  if negb okb then (false, false, g1, t1)                   (* `?` *)
  else
    match git_add g1 with
    | (false, _, g2) => (false, false, g2, t1 ++ [GAddVerbose])           (* return Err(e) *)
    | (true, out, g2) =>
        if is_nil out then (true, false, g2, t1 ++ [GAddVerbose])        (* return Ok(()) -- early *)
        else
          match git_commit g2 with
          | (true, g3) => (true, true, g3, t1 ++ [GAddVerbose; GCommit])
          | (false, g3) => (false, false, g3, t1 ++ [GAddVerbose; GCommit]) (* return Err(e) *)
          end
    end.

(* git_auto_commit.  [fx] = true: the tree as it is now (/repo af0f35b8: the add/commit part is the
   helper git_add_and_commit = [add_and_commit], its result is examined after the stash has been popped:
   popped on every exit path after a successful stash);  [fx] = false: the control flow before that fix
   (P20: the stash is popped only when the end of the function is reached). *)
Definition git_auto_commit (fx : bool) (tb : option name) (g : git) : bool * git * trace :=
  match stash_user_staged_files g with
  | (None, g1, t1) => (false, g1, t1)                       (* `?` *)
  | (Some stashed, g1, t1) =>
      let '(ok, fin, g2, t2) := add_and_commit tb g1 in
      if stashed && (fx || fin) then
        let '(okp, g3, t3) := unstash g2 in
        (ok && okp, g3, t1 ++ t2 ++ t3)
      else (ok, g2, t1 ++ t2)
  end.

(* git_auto_commit after the repair of P24 (repo-patches/83): no stash at all.  checkout -b, add --verbose,
   early `return Ok(())` when nothing was added, then a commit limited to the pathspecs of the add: what the
   user staged stays in the index and out of the commit; work tree and stash are not touched. *)
Definition git_auto_commit_only (tb : option name) (g : git) : bool * git * trace :=
  let '(okb, g1, t1) :=
    match tb with
    | Some b => let '(ok, g') := checkout_b b g in (ok, g', [GCheckoutB b])
    | None => (true, g, [])
    end in
  if negb okb then (false, g1, t1)                          (* `?` *)
  else
    match git_add g1 with
    | (false, _, g2) => (false, g2, t1 ++ [GAddVerbose])                   (* return Err(e) *)
    | (true, out, g2) =>
        if is_nil out then (true, g2, t1 ++ [GAddVerbose])                (* return Ok(()) -- early *)
        else
          match git_commit_only g2 with
          | (ok, g3) => (ok, g3, t1 ++ [GAddVerbose; GCommitOnly])
          end
    end.

(* git_auto_stage *)
Definition git_auto_stage (g : git) : bool * git * trace :=
  match git_add g with
  | (ok, _, g1) => (ok, g1, [GAdd])
  end.

(* git_checkout_ref (--from-ref) *)
Definition git_checkout_ref (fx : bool) (r : refarg) (g : git) : bool * git * trace :=
  match stash_user_staged_files g with
  | (None, g1, t1) => (false, g1, t1)
  | (Some stashed, g1, t1) =>
      let '(ok, g2) := checkout_ref r g1 in
      if stashed && (fx || ok) then
        let '(okp, g3, t3) := unstash g2 in
        (ok && okp, g3, t1 ++ [GCheckout r] ++ t3)
      else (ok, g2, t1 ++ [GCheckout r])
  end.

(* git_checkout_ref after the repair of P24: `git checkout <ref>` with the user's index and work tree in place
   (Git carries local changes over when they do not touch a path that differs between the two commits and
   refuses, changing nothing, when they do) *)
Definition git_checkout_ref_plain (r : refarg) (g : git) : bool * git * trace :=
  let '(ok, g1) := checkout_ref r g in (ok, g1, [GCheckout r]).

Record settings := {
  use_git : bool;            (* git.use_git *)
  auto_commit : bool;        (* git.auto_commit *)
  auto_stage : bool;         (* git.auto_stage *)
  skip_git : bool;           (* --skip-git *)
  to_branch : option name;   (* --to-branch *)
  from_ref : option refarg;  (* --from-ref *)
  fixed_P20 : bool;          (* true: the stash is popped on every exit path (/repo af0f35b8); false: before the fix of P20 *)
  fixed_P24 : bool           (* true: the repair of P24 (no stash: commit limited by pathspecs, plain checkout for
                                --from-ref); false: the stash sandwich.  Probed from the argv sequence of the binary
                                on every run of the check (vlib/c15.py probe_flow) *)
}.

(* handle_git_automation *)
Definition handle_git_automation (s : settings) (g : git) : bool * git * trace :=
  if use_git s then
    if auto_commit s then
      (if fixed_P24 s then git_auto_commit_only (to_branch s) g
       else git_auto_commit (fixed_P20 s) (to_branch s) g)
    else if auto_stage s then git_auto_stage g
    else (true, g, [])
  else (true, g, []).

(* ---- the dispatcher: lib/src/cli/mod.rs ---------------------------------------------------- *)
(* What an xvc command does to the work tree, as far as Git automation is concerned: writes and
   deletions of files (under .xvc/ and ignore files; [delta_managed] is a hypothesis of theorems). *)
Definition delta := list (path * option blob).
Definition apply_delta (d : delta) (g : git) : git :=
  set_wt g (fold_left (fun w pv => tset w (fst pv) (snd pv)) d (g_wt g)).
Definition delta_managed (d : delta) : bool := forallb (fun pv => managed (fst pv)) d.

Inductive cmdkind := KInit | KOther.
Record cmd := {
  c_kind : cmdkind;
  c_ok : bool;               (* the command itself succeeded (an error skips all automation) *)
  c_delta : delta;           (* what the command writes *)
  c_delta2 : delta           (* init only: what XvcRoot::record() writes between the first and second call *)
}.
(* the automation calls of one invocation: (work-tree change before the call, call made?).
   command_matcher calls handle_git_automation after the command (unless --skip-git) and
   dispatch_with_root calls it again; `init` calls it once more itself, regardless of --skip-git. *)
Definition calls (s : settings) (c : cmd) : list (delta * bool) :=
  match c_kind c with
  | KOther => [(c_delta c, negb (skip_git s)); ([], negb (skip_git s))]
  | KInit => [(c_delta c, true); (c_delta2 c, negb (skip_git s)); ([], negb (skip_git s))]
  end.

Inductive status :=
| SOk
| SCmdFailed                 (* the xvc command failed: no automation *)
| SFromRefFailed             (* git_checkout_ref failed: uwr! panics *)
| SAutoFailed (k : nat).     (* the k-th automation call returned Err (unwrap panic / logged error) *)

Fixpoint run_calls (s : settings) (cs : list (delta * bool)) (k : nat) (g : git) : status * git * trace :=
  match cs with
  | [] => (SOk, g, [])
  | (d, do_call) :: r =>
      let g1 := apply_delta d g in
      if do_call then
        match handle_git_automation s g1 with
        | (true, g2, t) => let '(st, g3, t') := run_calls s r (S k) g2 in (st, g3, t ++ t')
        | (false, g2, t) => (SAutoFailed k, g2, t)
        end
      else run_calls s r (S k) g1
  end.

Definition dispatch (s : settings) (c : cmd) (g : git) : status * git * trace :=
  let '(ok0, g0, t0) :=
    match from_ref s with
    | Some r => if fixed_P24 s then git_checkout_ref_plain r g else git_checkout_ref (fixed_P20 s) r g
    | None => (true, g, [])
    end in
  if negb ok0 then (SFromRefFailed, g0, t0)
  else if negb (c_ok c) then (SCmdFailed, apply_delta (c_delta c) g0, t0)
  else let '(st, g1, t1) := run_calls s (calls s c) 0 g0 in (st, g1, t0 ++ t1).

(* ---- what the property protects ------------------------------------------------------------ *)
(* staged changes to paths xvc does not manage (index and HEAD tree restricted to them), unstaged
   changes and untracked files (work tree restricted to them), the stash list, the current branch,
   tags, and all branches other than the current one. *)
Definition uv_index (g : git) (p : path) : option blob := if managed p then None else tget (g_index g) p.
Definition uv_wt (g : git) (p : path) : option blob := if managed p then None else tget (g_wt g) p.
Definition uv_head (g : git) (p : path) : option blob := if managed p then None else tget (head_tree g) p.
Definition other_branches (g : git) : list (name * N) :=
  match g_head g with
  | OnBranch b => del name_eqb (g_branches g) b
  | Detached _ => g_branches g
  end.
Record uview := {
  v_index : tree; v_wt : tree; v_headtree : tree; v_stash : list stash_entry;
  v_branch : option name; v_tags : list (name * N); v_branches : list (name * N)
}.
Definition unmanaged_part (t : tree) : tree := filter (fun pb => negb (managed (fst pb))) t.
Definition user_view (g : git) : uview :=
  {| v_index := unmanaged_part (g_index g); v_wt := unmanaged_part (g_wt g);
     v_headtree := unmanaged_part (head_tree g); v_stash := g_stash g; v_branch := head_branch g;
     v_tags := g_tags g; v_branches := other_branches g |}.

(* ---- the known class (P24): a staged path that also has an unstaged change, or is written by the command *)
Definition touched (c : cmd) : list path := map fst (c_delta c) ++ map fst (c_delta2 c).
Definition known_at (g : git) (ts : list path) : bool :=
  existsb (fun p => staged_b g p && (negb (oblob_eqb (tget (g_index g) p) (tget (g_wt g) p)) || mem p ts))
          (tkeys (head_tree g) ++ tkeys (g_index g)).
Definition Known_staged_and_unstaged_same_path (c : cmd) (g : git) : bool := known_at g (touched c).
(* the class follows the switch: with the repair of P24 it is empty *)
Definition Known_class (s : settings) (c : cmd) (g : git) : bool :=
  negb (fixed_P24 s) && Known_staged_and_unstaged_same_path c g.
