(* Proofs about M-LAYOUT (Layout/Model.v): the shape of the rendered cache path, the parser as a left
   inverse of the renderer, injectivity.  Every statement about the documented layout is made for an
   arbitrary layout [L] with [L = documented_layout], so that Props/C02L.v instantiates it with the
   layout regenerated from the source and the proof [layout_is_documented] of the equality. *)
From Coq Require Import List Bool Arith NArith Lia.
From XV Require Import Base.Bytes Layout.Model.
Import ListNotations.
Local Open Scope N_scope.

(* ---- digests ----------------------------------------------------------------------------------- *)
Definition wf_digest (d : digest) : Prop := length d = 32%nat /\ Forall (fun b => b < 256) d.

Lemma wf_digestb_spec d : wf_digestb d = true <-> wf_digest d.
Proof.
  unfold wf_digestb, wf_digest. rewrite andb_true_iff, Nat.eqb_eq, forallb_forall, Forall_forall.
  split; intros [Hl Hb]; (split; [exact Hl|]); intros x Hx; specialize (Hb x Hx).
  - now apply N.ltb_lt.
  - now apply N.ltb_lt.
Qed.

(* ---- strings without '/' ----------------------------------------------------------------------- *)
Definition ns (s : bytes) : Prop := Forall (fun c => c <> slash) s.

Lemma no_slash_ns s : no_slash s = true <-> ns s.
Proof.
  unfold no_slash, ns. rewrite negb_true_iff, Forall_forall. split.
  - intros H c Hc E. subst c.
    assert (X : existsb (N.eqb slash) s = true)
      by (apply existsb_exists; exists slash; split; [exact Hc|apply N.eqb_refl]).
    congruence.
  - intros H. destruct (existsb (N.eqb slash) s) eqn:E; [|reflexivity].
    apply existsb_exists in E. destruct E as [x [Hx Hex]]. apply N.eqb_eq in Hex. subst x.
    exfalso. exact (H slash Hx eq_refl).
Qed.

Lemma ns_app x y : ns (x ++ y) <-> ns x /\ ns y.
Proof. unfold ns. apply Forall_app. Qed.

Lemma ends_slash_ns x : ns x -> ends_slash x = false.
Proof.
  unfold ends_slash. intros H. destruct (rev x) as [|c r] eqn:E; [reflexivity|].
  apply N.eqb_neq. unfold ns in H. rewrite Forall_forall in H. apply H.
  apply in_rev. rewrite E. left. reflexivity.
Qed.

Lemma ends_slash_app l x : x <> [] -> ends_slash (l ++ x) = ends_slash x.
Proof.
  intros Hx. unfold ends_slash. rewrite rev_app_distr.
  destruct (rev x) as [|c r] eqn:E.
  - exfalso. apply Hx. apply (f_equal (@rev N)) in E. rewrite rev_involutive in E. exact E.
  - reflexivity.
Qed.

Lemma strip_leading_slash_ns x : ns x -> strip_leading_slash x = x.
Proof.
  intros H. destruct x as [|c r]; [reflexivity|]. cbn [strip_leading_slash].
  inversion H as [|? ? Hc Hr]; subst. apply N.eqb_neq in Hc. now rewrite Hc.
Qed.

Lemma rp_push_first x : ns x -> rp_push [] x = x.
Proof. intros H. unfold rp_push. cbn [app]. now apply strip_leading_slash_ns. Qed.

Lemma rp_push_next acc x :
  acc <> [] -> ends_slash acc = false -> ns x -> rp_push acc x = acc ++ slash :: x.
Proof.
  intros Ha He Hx. unfold rp_push. rewrite (strip_leading_slash_ns x Hx), He.
  destruct acc as [|c r]; [congruence|]. now rewrite <- app_assoc.
Qed.

Lemma ends_slash_pushed acc x : x <> [] -> ns x -> ends_slash (acc ++ slash :: x) = false.
Proof.
  intros Hne Hx. change (acc ++ slash :: x) with (acc ++ [slash] ++ x).
  rewrite app_assoc, (ends_slash_app _ x Hne). now apply ends_slash_ns.
Qed.

(* ---- hex --------------------------------------------------------------------------------------- *)
Lemma small_cases n : n < 16 ->
  n = 0 \/ n = 1 \/ n = 2 \/ n = 3 \/ n = 4 \/ n = 5 \/ n = 6 \/ n = 7 \/ n = 8 \/ n = 9 \/ n = 10 \/
  n = 11 \/ n = 12 \/ n = 13 \/ n = 14 \/ n = 15.
Proof. lia. Qed.

Lemma unhexdigit_hexdigit n : n < 16 -> unhexdigit (hexdigit n) = Some n.
Proof.
  intros H. destruct (small_cases n H) as [E|[E|[E|[E|[E|[E|[E|[E|[E|[E|[E|[E|[E|[E|[E|E]]]]]]]]]]]]]]];
    subst n; reflexivity.
Qed.

Lemma hexdigit_not_slash n : hexdigit n <> slash.
Proof.
  unfold hexdigit, slash. destruct (N.ltb_spec n 10) as [Hl|Hl]; lia.
Qed.

Lemma unhexdigit_not_slash c h : unhexdigit c = Some h -> c <> slash.
Proof. intros H E. subst c. discriminate H. Qed.

Lemma hex_cons b d : hex (b :: d) = hexdigit (b / 16) :: hexdigit (b mod 16) :: hex d.
Proof. reflexivity. Qed.

Lemma hex_length d : length (hex d) = (2 * length d)%nat.
Proof. induction d as [|b d IH]; [reflexivity|]. rewrite hex_cons. cbn [length]. lia. Qed.

Lemma hex_ns d : ns (hex d).
Proof.
  induction d as [|b d IH]; [constructor|]. rewrite hex_cons.
  constructor; [apply hexdigit_not_slash|]. constructor; [apply hexdigit_not_slash|exact IH].
Qed.

Lemma unhex_hex d : Forall (fun b => b < 256) d -> unhex (hex d) = Some d.
Proof.
  induction d as [|b d IH]; intros H; [reflexivity|].
  inversion H as [|? ? Hb Hd]; subst. rewrite hex_cons. cbn [unhex].
  assert (Hq : b / 16 < 16) by (apply N.div_lt_upper_bound; lia).
  assert (Hr : b mod 16 < 16) by (apply N.mod_lt; lia).
  rewrite (unhexdigit_hexdigit _ Hq), (unhexdigit_hexdigit _ Hr), (IH Hd).
  f_equal. f_equal. symmetry. apply N.div_mod'.
Qed.

Lemma hex_digits d : Forall (fun b => b < 256) d -> Forall (fun c => is_hexdigit c = true) (hex d).
Proof.
  induction d as [|b d IH]; intros H; [constructor|].
  inversion H as [|? ? Hb Hd]; subst. rewrite hex_cons.
  assert (Hq : b / 16 < 16) by (apply N.div_lt_upper_bound; lia).
  assert (Hr : b mod 16 < 16) by (apply N.mod_lt; lia).
  constructor; [unfold is_hexdigit; now rewrite (unhexdigit_hexdigit _ Hq)|].
  constructor; [unfold is_hexdigit; now rewrite (unhexdigit_hexdigit _ Hr)|]. exact (IH Hd).
Qed.

(* hex::encode writes lower-case digits only: 0-9 a-f *)
Lemma is_hexdigit_range c : is_hexdigit c = true <-> (48 <= c <= 57 \/ 97 <= c <= 102).
Proof.
  unfold is_hexdigit, unhexdigit.
  destruct (N.leb_spec 48 c), (N.leb_spec c 57), (N.leb_spec 97 c), (N.leb_spec c 102); cbn [andb];
    split; intros X; try reflexivity; try discriminate; lia.
Qed.

(* the three pieces of the hex string *)
Definition h1 (d : digest) : bytes := firstn 3 (hex d).
Definition h2 (d : digest) : bytes := firstn 3 (skipn 3 (hex d)).
Definition h3 (d : digest) : bytes := skipn 6 (hex d).

Lemma skipn_3_3 (l : bytes) : skipn 3 (skipn 3 l) = skipn 6 l.
Proof. destruct l as [|a [|b [|c l]]]; reflexivity. Qed.

Lemma hex_pieces d : hex d = h1 d ++ h2 d ++ h3 d.
Proof.
  unfold h1, h2, h3. rewrite <- skipn_3_3. rewrite (firstn_skipn 3 (skipn 3 (hex d))).
  now rewrite (firstn_skipn 3 (hex d)).
Qed.

Lemma pieces_length d : length d = 32%nat ->
  length (h1 d) = 3%nat /\ length (h2 d) = 3%nat /\ length (h3 d) = 58%nat.
Proof.
  intros H. pose proof (hex_length d) as HL. rewrite H in HL. unfold h1, h2, h3.
  rewrite !firstn_length, !skipn_length, HL. lia.
Qed.

Lemma pieces_ns d : ns (h1 d) /\ ns (h2 d) /\ ns (h3 d).
Proof.
  pose proof (hex_ns d) as H. rewrite hex_pieces in H.
  apply ns_app in H. destruct H as [H1 H]. apply ns_app in H. destruct H as [H2 H3]. auto.
Qed.

Lemma nonempty_of_length (x : bytes) n : length x = S n -> x <> [].
Proof. destruct x; [discriminate|congruence]. Qed.

(* ---- the documented layout --------------------------------------------------------------------- *)
Lemma prefix_of_documented a : prefix_of documented_layout a = doc_prefix a.
Proof. destruct a; reflexivity. Qed.

Lemma doc_prefix_ns a : ns (doc_prefix a).
Proof. destruct a; repeat constructor; unfold slash; lia. Qed.

Lemma doc_prefix_length a : length (doc_prefix a) = 2%nat.
Proof. destruct a; reflexivity. Qed.

Lemma doc_prefix_inj a b : doc_prefix a = doc_prefix b -> a = b.
Proof. destruct a, b; intros H; try reflexivity; discriminate H. Qed.

Lemma algo_of_doc_prefix a : algo_of_prefix documented_layout (doc_prefix a) = Some a.
Proof. destruct a; reflexivity. Qed.

Lemma cache_dir_documented a d : length d = 32%nat ->
  cache_dir documented_layout a d = doc_prefix a ++ slash :: h1 d ++ slash :: h2 d ++ slash :: h3 d.
Proof.
  intros Hl. destruct (pieces_length d Hl) as (L1 & L2 & L3). destruct (pieces_ns d) as (N1 & N2 & N3).
  unfold cache_dir. cbn [l_dir documented_layout fold_left dpart_str slice].
  change (skipn 0 (hex d)) with (hex d).
  rewrite prefix_of_documented. fold (h1 d) (h2 d) (h3 d).
  rewrite (rp_push_first _ (doc_prefix_ns a)).
  assert (P0 : doc_prefix a <> []) by (destruct a; discriminate).
  rewrite (rp_push_next (doc_prefix a) (h1 d) P0 (ends_slash_ns _ (doc_prefix_ns a)) N1).
  assert (E1 : h1 d <> []) by (eapply nonempty_of_length; exact L1).
  assert (E2 : h2 d <> []) by (eapply nonempty_of_length; exact L2).
  assert (Q1 : doc_prefix a ++ slash :: h1 d <> []) by (destruct (doc_prefix a); discriminate).
  rewrite (rp_push_next _ (h2 d) Q1 (ends_slash_pushed _ _ E1 N1) N2).
  assert (Q2 : (doc_prefix a ++ slash :: h1 d) ++ slash :: h2 d <> []) by (destruct (doc_prefix a); discriminate).
  rewrite (rp_push_next _ (h3 d) Q2 (ends_slash_pushed _ _ E2 N2) N3).
  repeat (rewrite <- app_assoc; cbn [app]). reflexivity.
Qed.

Lemma cache_path_documented a d e : length d = 32%nat ->
  cache_path documented_layout a d e =
  doc_prefix a ++ slash :: h1 d ++ slash :: h2 d ++ slash :: h3 d ++ slash :: 48 :: 46 :: e.
Proof.
  intros Hl. unfold cache_path, object_file_name. cbn [l_join l_file documented_layout flat_map app].
  rewrite (cache_dir_documented a d Hl), !app_nil_r.
  repeat (rewrite <- app_assoc; cbn [app]). reflexivity.
Qed.

(* ---- splitting at '/' -------------------------------------------------------------------------- *)
Lemma split_slash_nonempty s : split_slash s <> [].
Proof.
  induction s as [|c r IH]; cbn [split_slash]; [discriminate|].
  destruct (N.eqb c slash); [discriminate|]. destruct (split_slash r); discriminate.
Qed.

Lemma split_slash_ns x : ns x -> split_slash x = [x].
Proof.
  induction x as [|c r IH]; intros H; [reflexivity|].
  inversion H as [|? ? Hc Hr]; subst. cbn [split_slash]. apply N.eqb_neq in Hc. rewrite Hc.
  now rewrite (IH Hr).
Qed.

Lemma split_slash_app x r : ns x -> split_slash (x ++ slash :: r) = x :: split_slash r.
Proof.
  induction x as [|c x IH]; intros H.
  - cbn [app split_slash]. now rewrite N.eqb_refl.
  - inversion H as [|? ? Hc Hx]; subst. cbn [app split_slash]. apply N.eqb_neq in Hc. rewrite Hc.
    now rewrite (IH Hx).
Qed.

(* ---- the theorems, for a layout equal to the documented one ------------------------------------ *)
Section Documented.
Variable L : layout.
Hypothesis HL : L = documented_layout.

(* prefix / 3 hex / 3 hex / 58 hex / "0." ++ extension, the 64 digits being the lower-case hex
   rendering of the digest *)
Theorem address_layout_of : forall a d e, wf_digest d ->
  exists p1 p2 p3,
    hex d = p1 ++ p2 ++ p3 /\ length p1 = 3%nat /\ length p2 = 3%nat /\ length p3 = 58%nat /\
    Forall (fun c => 48 <= c <= 57 \/ 97 <= c <= 102) (hex d) /\
    length (doc_prefix a) = 2%nat /\
    cache_path L a d e = doc_prefix a ++ [slash] ++ p1 ++ [slash] ++ p2 ++ [slash] ++ p3 ++ [slash] ++ [48; 46] ++ e.
Proof.
  intros a d e [Hl Hb]. subst L. exists (h1 d), (h2 d), (h3 d).
  destruct (pieces_length d Hl) as (L1 & L2 & L3).
  split; [apply hex_pieces|]. split; [exact L1|]. split; [exact L2|]. split; [exact L3|].
  split.
  - pose proof (hex_digits d Hb) as H. rewrite Forall_forall in *. intros c Hc. apply is_hexdigit_range. auto.
  - split; [apply doc_prefix_length|]. rewrite (cache_path_documented a d e Hl). reflexivity.
Qed.

Theorem parse_render_of : forall a d e, wf_digest d -> no_slash e = true ->
  parse_cache_path L (cache_path L a d e) = Some (a, d, e).
Proof.
  intros a d e Hw He. pose proof Hw as [Hl Hb]. subst L. apply no_slash_ns in He.
  destruct (pieces_ns d) as (N1 & N2 & N3).
  unfold parse_cache_path.
  remember (cache_path documented_layout a d e) as s eqn:Es.
  assert (Hs : split_slash s = [doc_prefix a; h1 d; h2 d; h3 d; 48 :: 46 :: e]).
  { rewrite Es, (cache_path_documented a d e Hl).
    rewrite (split_slash_app _ _ (doc_prefix_ns a)), (split_slash_app _ _ N1), (split_slash_app _ _ N2),
      (split_slash_app _ _ N3).
    rewrite split_slash_ns; [reflexivity|].
    constructor; [unfold slash; lia|]. constructor; [unfold slash; lia|exact He]. }
  rewrite Hs. cbn [l_dir l_file documented_layout length Nat.eqb negb cand_algo cand_hex nth cand_ext].
  rewrite algo_of_doc_prefix, app_nil_r, <- hex_pieces, (unhex_hex d Hb).
  cbn [strip_pre]. rewrite !N.eqb_refl.
  apply wf_digestb_spec in Hw. rewrite Hw, Es, beqb_refl. reflexivity.
Qed.

(* distinct (algorithm, digest, extension) never share a path *)
Theorem render_injective_of : forall a d e a' d' e',
  wf_digest d -> wf_digest d' -> no_slash e = true -> no_slash e' = true ->
  cache_path L a d e = cache_path L a' d' e' -> a = a' /\ d = d' /\ e = e'.
Proof.
  intros a d e a' d' e' Hd Hd' He He' Heq.
  pose proof (parse_render_of a d e Hd He) as P1.
  pose proof (parse_render_of a' d' e' Hd' He') as P2.
  rewrite Heq, P2 in P1. inversion P1. auto.
Qed.

Theorem prefixes_distinct_of : forall a b, prefix_of L a = prefix_of L b -> a = b.
Proof. intros a b. subst L. rewrite !prefix_of_documented. apply doc_prefix_inj. Qed.

Theorem prefix_documented_of : forall a, prefix_of L a = doc_prefix a /\ length (prefix_of L a) = 2%nat.
Proof. intros a. subst L. rewrite prefix_of_documented. split; [reflexivity|apply doc_prefix_length]. Qed.
End Documented.

(* ---- for EVERY layout: what the parser accepts is what the renderer produces ------------------- *)
Theorem parse_sound_any : forall L s a d e,
  parse_cache_path L s = Some (a, d, e) -> cache_path L a d e = s /\ wf_digest d.
Proof.
  intros L s a d e. unfold parse_cache_path.
  destruct (negb (Nat.eqb (length (split_slash s)) (S (length (l_dir L))))); [discriminate|].
  destruct (cand_algo L (l_dir L) (split_slash s)) as [a0|]; [|discriminate].
  destruct (unhex (cand_hex (l_dir L) (split_slash s))) as [d0|]; [|discriminate].
  destruct (cand_ext (l_file L) (nth (length (l_dir L)) (split_slash s) [])) as [e0|]; [|discriminate].
  destruct (wf_digestb d0 && beqb (cache_path L a0 d0 e0) s) eqn:E; [|discriminate].
  intros H. inversion H; subst. apply andb_true_iff in E. destruct E as [Ew Eb].
  split; [|now apply wf_digestb_spec]. destruct (beqb_spec (cache_path L a d e) s); [assumption|discriminate].
Qed.

(* ---- the extension of a tracked path never contains '/' ---------------------------------------- *)
Lemma before_first_slash_ns l : ns (before_first_slash l).
Proof.
  induction l as [|b r IH]; cbn [before_first_slash]; [constructor|].
  destruct (N.eqb_spec b slash) as [E|E]; [constructor|]. constructor; assumption.
Qed.

Lemma split_last_dot_ext l : forall before cur seen stem ext,
  split_last_dot l before cur seen = Some (stem, ext) -> forall x, In x ext -> In x l \/ In x cur.
Proof.
  induction l as [|b r IH]; intros before cur seen stem ext H x Hx; cbn [split_last_dot] in H.
  - destruct seen; [|discriminate]. inversion H; subst. right. now apply in_rev.
  - destruct (N.eqb b dot).
    + destruct (IH _ _ _ _ _ H x Hx) as [Hr|Hc]; [left; now right|destruct Hc].
    + destruct (IH _ _ _ _ _ H x Hx) as [Hr|Hc]; [left; now right|].
      destruct Hc as [Hc|Hc]; [left; left; exact Hc|right; exact Hc].
Qed.

Theorem extension_no_slash : forall p, no_slash (extension p) = true.
Proof.
  intros p. apply no_slash_ns. unfold extension.
  destruct (split_last_dot (file_name p) [] [] false) as [[stem ext]|] eqn:E; [|constructor].
  destruct stem; [constructor|]. unfold ns. rewrite Forall_forall. intros x Hx.
  destruct (split_last_dot_ext _ _ _ _ _ _ E x Hx) as [H|[]].
  unfold file_name in H. apply in_rev in H.
  pose proof (before_first_slash_ns (rev p)) as Hn. unfold ns in Hn. rewrite Forall_forall in Hn. now apply Hn.
Qed.
