(* M-LAYOUT: executable model of the STRING a cache address is rendered as.
     core/src/types/hashalgorithm.rs   HashAlgorithm + its strum `to_string` names (= Display
                                        = XvcDigest::directory_prefix)
     core/src/types/xvcdigest/mod.rs   XvcDigest::hex_str (hex::encode of the 32 bytes),
                                        XvcDigest::cache_dir (prefix, then slices of the hex
                                        string, pushed on a RelativePathBuf)
     core/src/types/xvcpath.rs         XvcCachePath::new (format!("{}/{}", dir, format!("0.{}", ext)))
   In M-REPO (Repo/*.v, Props/C02.v) an address is the abstract pair (digest, extension); this model
   is the concrete path below `.xvc/` (and below `<storage>/<guid>/`).
   WHAT is pushed in which order, WHERE the hex string is cut and HOW the file name is formatted are
   parameters (record [layout]); their current values are read from the source on every run
   (gen/cache_layout.py -> Gen/CacheLayout.v, [current_layout]).  [documented_layout] is the layout of
   the property text: two-letter prefix / 3 hex / 3 hex / 58 hex / 0.<extension>.
   The digest is any list of bytes (the theorems take 32 bytes below 256): the hash functions
   themselves are not modelled here.
   No proofs in this file. *)
From Coq Require Import List Bool NArith.
From XV Require Import Base.Bytes.
Import ListNotations.
Local Open Scope N_scope.

(* ---- the algorithms (variants of HashAlgorithm) ------------------------------------------------ *)
Inductive algo := AsIs | Blake3 | Blake2s | SHA2_256 | SHA3_256.
Definition all_algos : list algo := [AsIs; Blake3; Blake2s; SHA2_256; SHA3_256].
Definition algo_eqb (a b : algo) : bool :=
  match a, b with
  | AsIs, AsIs | Blake3, Blake3 | Blake2s, Blake2s | SHA2_256, SHA2_256 | SHA3_256, SHA3_256 => true
  | _, _ => false
  end.

(* ---- the parameters read from the source ------------------------------------------------------- *)
(* one `rel_path.push(x)` of cache_dir: x is the directory prefix, or the piece of the hex string
   that the chain of `split_at` calls binds to x: [len] characters from [start], to the end if None *)
Inductive dpart := DPrefix | DHex (start : nat) (len : option nat).
(* one piece of the format string of the file name: literal text, or the `{}` that receives
   `xvc_path.extension().unwrap_or("")` *)
Inductive fpiece := FLit (s : bytes) | FExt.
(* one piece of the format string that joins directory and file name *)
Inductive jpiece := JLit (s : bytes) | JDir | JFile.

Record layout := {
  l_prefix : list (algo * bytes);   (* strum to_string of every variant *)
  l_dir : list dpart;               (* the pushes of XvcDigest::cache_dir, in order *)
  l_file : list fpiece;             (* format string of content_digest_filename *)
  l_join : list jpiece              (* format string of the whole path *)
}.

(* the layout of the property text *)
Definition doc_prefix (a : algo) : bytes :=
  match a with
  | AsIs => [97; 48]         (* a0 : not a cache algorithm, the variant exists *)
  | Blake3 => [98; 51]       (* b3 *)
  | Blake2s => [98; 50]      (* b2 *)
  | SHA2_256 => [115; 50]    (* s2 *)
  | SHA3_256 => [115; 51]    (* s3 *)
  end.
Definition documented_layout : layout :=
  {| l_prefix := [(AsIs, [97; 48]); (Blake3, [98; 51]); (Blake2s, [98; 50]); (SHA2_256, [115; 50]); (SHA3_256, [115; 51])];
     l_dir := [DPrefix; DHex 0 (Some 3%nat); DHex 3 (Some 3%nat); DHex 6 None];
     l_file := [FLit [48; 46]; FExt];               (* "0." then the extension *)
     l_join := [JDir; JLit [47]; JFile] |}.          (* "{}/{}" *)

(* ---- digests and their hex rendering (hex::encode: lower case, two digits per byte) ------------ *)
Definition digest := list N.
Definition wf_digestb (d : digest) : bool := Nat.eqb (length d) 32%nat && forallb (fun b => N.ltb b 256) d.

Definition hexdigit (n : N) : N := if N.ltb n 10 then 48 + n else 87 + n.
Definition hex_byte (b : N) : bytes := [hexdigit (N.div b 16); hexdigit (N.modulo b 16)].
Definition hex (d : digest) : bytes := flat_map hex_byte d.

Definition unhexdigit (c : N) : option N :=
  if N.leb 48 c && N.leb c 57 then Some (c - 48)
  else if N.leb 97 c && N.leb c 102 then Some (c - 87)
  else None.
Fixpoint unhex (s : bytes) : option digest :=
  match s with
  | [] => Some []
  | hi :: lo :: r =>
      match unhexdigit hi, unhexdigit lo, unhex r with
      | Some h, Some l, Some t => Some (16 * h + l :: t)
      | _, _, _ => None
      end
  | _ => None
  end.
Definition is_hexdigit (c : N) : bool := match unhexdigit c with Some _ => true | None => false end.

(* ---- rendering --------------------------------------------------------------------------------- *)
Definition prefix_of (L : layout) (a : algo) : bytes :=
  match find (fun p => algo_eqb (fst p) a) (l_prefix L) with Some p => snd p | None => [] end.

(* str::split_at along the chain of lets (the hex string has 64 characters: no split is out of range) *)
Definition slice (start : nat) (len : option nat) (s : bytes) : bytes :=
  match len with Some n => firstn n (skipn start s) | None => skipn start s end.

(* RelativePathBuf::push (relative-path 1.9): a leading '/' of the pushed text is dropped; a '/' is
   put in between unless the buffer is empty or ends with one *)
Definition ends_slash (s : bytes) : bool := match rev s with c :: _ => N.eqb c slash | [] => false end.
Definition strip_leading_slash (x : bytes) : bytes :=
  match x with c :: r => if N.eqb c slash then r else x | [] => [] end.
Definition rp_push (acc x : bytes) : bytes :=
  (match acc with [] => [] | _ => if ends_slash acc then acc else acc ++ [slash] end) ++ strip_leading_slash x.

Definition dpart_str (L : layout) (a : algo) (h : bytes) (p : dpart) : bytes :=
  match p with DPrefix => prefix_of L a | DHex s n => slice s n h end.

(* XvcDigest::cache_dir *)
Definition cache_dir (L : layout) (a : algo) (d : digest) : bytes :=
  fold_left (fun acc p => rp_push acc (dpart_str L a (hex d) p)) (l_dir L) [].

(* format!("0.{}", ext) *)
Definition object_file_name (L : layout) (e : bytes) : bytes :=
  flat_map (fun p => match p with FLit s => s | FExt => e end) (l_file L).

(* XvcCachePath::new, as the string it displays *)
Definition cache_path (L : layout) (a : algo) (d : digest) (e : bytes) : bytes :=
  flat_map (fun p => match p with JLit s => s | JDir => cache_dir L a d | JFile => object_file_name L e end) (l_join L).

(* the address of the object of a tracked path: the extension is RelativePath::extension of the path
   (Base.Bytes.extension), "" when there is none *)
Definition cache_path_of_tracked (L : layout) (a : algo) (d : digest) (path : bytes) : bytes :=
  cache_path L a d (extension path).

(* ---- parsing ----------------------------------------------------------------------------------- *)
(* components between '/' (always at least one) *)
Fixpoint split_slash (s : bytes) : list bytes :=
  match s with
  | [] => [[]]
  | c :: r => if N.eqb c slash then [] :: split_slash r
              else match split_slash r with h :: t => (c :: h) :: t | [] => [[c]] end
  end.

Fixpoint strip_pre (pre s : bytes) : option bytes :=
  match pre, s with
  | [], _ => Some s
  | a :: p, b :: t => if N.eqb a b then strip_pre p t else None
  | _ :: _, [] => None
  end.

Definition algo_of_prefix (L : layout) (p : bytes) : option algo :=
  match find (fun q => beqb (snd q) p) (l_prefix L) with Some q => Some (fst q) | None => None end.

(* candidates read off the components, following the pushes of the layout *)
Fixpoint cand_algo (L : layout) (parts : list dpart) (comps : list bytes) : option algo :=
  match parts, comps with
  | DPrefix :: _, c :: _ => algo_of_prefix L c
  | _ :: ps, _ :: cs => cand_algo L ps cs
  | _, _ => None
  end.
Fixpoint cand_hex (parts : list dpart) (comps : list bytes) : bytes :=
  match parts, comps with
  | DHex _ _ :: ps, c :: cs => c ++ cand_hex ps cs
  | DPrefix :: ps, _ :: cs => cand_hex ps cs
  | _, _ => []
  end.
Definition cand_ext (fmt : list fpiece) (file : bytes) : option bytes :=
  match fmt with
  | [FLit p; FExt] => strip_pre p file
  | [FExt] => Some file
  | [FLit p] => if beqb p file then Some [] else None
  | _ => None
  end.

(* the (algorithm, digest, extension) a path is the address of: candidates are read off the
   components, and accepted only if they render to exactly the given string *)
Definition parse_cache_path (L : layout) (s : bytes) : option (algo * digest * bytes) :=
  let comps := split_slash s in
  let n := length (l_dir L) in
  if negb (Nat.eqb (length comps) (S n)) then None else
  match cand_algo L (l_dir L) comps, unhex (cand_hex (l_dir L) comps), cand_ext (l_file L) (nth n comps []) with
  | Some a, Some d, Some e =>
      if wf_digestb d && beqb (cache_path L a d e) s then Some (a, d, e) else None
  | _, _, _ => None
  end.

(* no '/' in a string *)
Definition no_slash (s : bytes) : bool := negb (existsb (N.eqb slash) s).
