(* M-CONF: the precedence theorem in the words of the property (ranks of sources), totality of
   XvcConfig::new, the dichotomy "every switch removes exactly its source / a computed switch does
   not", the pinned and the repaired CLI tables (P18), typed rendering.  Generic in the tables. *)
From Coq Require Import List Bool NArith ZArith Lia Arith.
From XV Require Import Base.Amap Config.Types Config.Model Config.Proofs.
Import ListNotations.
Open Scope N_scope.

(* ---- the documented priority of the sources ------------------------------------------------------ *)
(* defaults < system < user < project < local < environment < command line *)
Definition rank (s : src) : nat :=
  match s with
  | Default => 0 | System => 1 | Global => 2 | Project => 3 | Local => 4
  | Environment => 5 | CommandLine => 6 | Runtime => 7
  end%nat.

Definition stage_src (t : stage) : src := snd (fst t).

Fixpoint increasing_from (lo : nat) (l : list stage) : bool :=
  match l with
  | [] => true
  | t :: r => (lo <? rank (stage_src t))%nat && increasing_from (rank (stage_src t)) r
  end.

(* the stages are applied in strictly increasing documented priority (so: no source twice, the
   defaults never re-applied) *)
Definition ranks_increasing (l : list stage) : bool := increasing_from 0 l.

Definition stage_of (order : list stage) (s : src) : option stage :=
  find (fun t => src_eqb (stage_src t) s) order.

(* what source s says about key k under the parameters p in the world w *)
Definition says (order : list stage) (w : world) (p : params) (d : kvs) (s : src) (k : key) : option value :=
  if src_eqb s Default then kget d k
  else match stage_of order s with
       | Some t => defined_by w p t k
       | None => None
       end.

Lemma inc_weaken : forall l lo lo', (lo' <= lo)%nat -> increasing_from lo l = true -> increasing_from lo' l = true.
Proof.
  intros [|t r] lo lo' Hle H; [reflexivity|]. cbn [increasing_from] in *.
  apply andb_prop in H as [H1 H2]. apply Nat.ltb_lt in H1.
  apply andb_true_intro. split; [apply Nat.ltb_lt; lia|exact H2].
Qed.

Lemma inc_all : forall l lo, increasing_from lo l = true -> Forall (fun t => (lo < rank (stage_src t))%nat) l.
Proof.
  induction l as [|t r IH]; intros lo H; [constructor|]. cbn [increasing_from] in H.
  apply andb_prop in H as [H1 H2]. apply Nat.ltb_lt in H1. constructor; [exact H1|].
  apply IH. apply (inc_weaken r (rank (stage_src t)) lo); [lia|exact H2].
Qed.

Lemma inc_split : forall l1 lo t l2,
  increasing_from lo (l1 ++ t :: l2) = true ->
  (lo < rank (stage_src t))%nat /\
  Forall (fun t' => (rank (stage_src t') < rank (stage_src t))%nat) l1 /\
  Forall (fun t' => (rank (stage_src t) < rank (stage_src t'))%nat) l2.
Proof.
  induction l1 as [|a l1 IH]; intros lo t l2 H.
  - cbn [app increasing_from] in H. apply andb_prop in H as [H1 H2]. apply Nat.ltb_lt in H1.
    split; [exact H1|]. split; [constructor|]. now apply inc_all.
  - cbn [app increasing_from] in H. apply andb_prop in H as [H1 H2]. apply Nat.ltb_lt in H1.
    destruct (IH _ _ _ H2) as (Ha & Hl1 & Hl2).
    split; [lia|]. split; [constructor; [exact Ha|exact Hl1]|exact Hl2].
Qed.

Lemma stage_of_in order s t : stage_of order s = Some t -> In t order /\ stage_src t = s.
Proof.
  unfold stage_of. intros H. apply find_some in H as [Hi He]. split; [exact Hi|].
  now destruct (src_eqb_spec (stage_src t) s).
Qed.

Lemma src_eqb_refl s : src_eqb s s = true.
Proof. now destruct s. Qed.

Lemma stage_of_unique : forall order lo t,
  increasing_from lo order = true -> In t order -> stage_of order (stage_src t) = Some t.
Proof.
  induction order as [|a r IH]; intros lo t H Hin; [destruct Hin|].
  cbn [increasing_from] in H. apply andb_prop in H as [H1 H2].
  unfold stage_of. cbn [find]. destruct Hin as [->|Hin].
  - now rewrite src_eqb_refl.
  - destruct (src_eqb_spec (stage_src a) (stage_src t)) as [E|_].
    + exfalso. pose proof (inc_all r _ H2) as Hall. rewrite Forall_forall in Hall.
      specialize (Hall t Hin). rewrite E in Hall. lia.
    + exact (IH _ t H2 Hin).
Qed.

Lemma rank_default s : rank s = 0%nat -> s = Default.
Proof. destruct s; cbn; intros H; try discriminate; reflexivity. Qed.

Lemma says_stage order w p d t k :
  ranks_increasing order = true -> In t order -> says order w p d (stage_src t) k = defined_by w p t k.
Proof.
  intros Hinc Hin. unfold says.
  destruct (src_eqb_spec (stage_src t) Default) as [E|_].
  - exfalso. pose proof (inc_all order 0 Hinc) as Hall. rewrite Forall_forall in Hall.
    specialize (Hall t Hin). rewrite E in Hall. cbn in Hall. lia.
  - now rewrite (stage_of_unique order 0 t Hinc Hin).
Qed.

(* THE PROPERTY, first sentence: the effective binding of k is (v, s) exactly when s is the
   highest-priority source that says something about k, and v is what it says *)
Lemma effective_highest_priority_lemma order w p d c k v s :
  ranks_increasing order = true ->
  w_default w = Some d -> build order w p = Built c ->
  (kget c k = Some (v, s) <->
   says order w p d s k = Some v /\
   forall s', (rank s < rank s')%nat -> says order w p d s' k = None).
Proof.
  intros Hinc Hd Hb. rewrite (effective_highest_lemma order w p d c k Hd Hb), effective_spec.
  split.
  - intros [(l1 & t & l2 & E & Hs & Hdef & Hn) | (Hn & -> & Hk)].
    + assert (Hin : In t order) by (rewrite E; apply in_or_app; right; now left).
      change (stage_src t = s) in Hs. subst s.
      unfold ranks_increasing in Hinc. pose proof Hinc as Hinc'. rewrite E in Hinc'.
      destruct (inc_split _ _ _ _ Hinc') as (Hpos & Hl1 & Hl2).
      split.
      * now rewrite (says_stage order w p d t k Hinc Hin).
      * intros s' Hlt. unfold says.
        destruct (src_eqb_spec s' Default) as [->|_]; [cbn in Hlt; lia|].
        destruct (stage_of order s') as [t'|] eqn:Es; [|reflexivity].
        apply stage_of_in in Es as [Hin' Hs']. subst s'. rewrite E in Hin'.
        apply in_app_or in Hin' as [Hin'|[<-|Hin']].
        -- rewrite Forall_forall in Hl1. specialize (Hl1 t' Hin'). lia.
        -- lia.
        -- rewrite Forall_forall in Hn. now apply Hn.
    + split.
      * unfold says. now rewrite src_eqb_refl.
      * intros s' Hlt. unfold says.
        destruct (src_eqb_spec s' Default) as [->|_]; [cbn in Hlt; lia|].
        destruct (stage_of order s') as [t'|] eqn:Es; [|reflexivity].
        apply stage_of_in in Es as [Hin' _]. rewrite Forall_forall in Hn. now apply Hn.
  - intros [Hsays Hhigher].
    unfold says in Hsays. destruct (src_eqb_spec s Default) as [->|Hnd].
    + right. split; [|split; [reflexivity|exact Hsays]].
      apply Forall_forall. intros t Hin.
      rewrite <- (says_stage order w p d t k Hinc Hin). apply Hhigher.
      pose proof (inc_all order 0 Hinc) as Hall. rewrite Forall_forall in Hall. exact (Hall t Hin).
    + left. destruct (stage_of order s) as [t|] eqn:Es; [|discriminate].
      apply stage_of_in in Es as [Hin Hs].
      destruct (in_split _ _ Hin) as (l1 & l2 & E). exists l1, t, l2.
      split; [exact E|]. split; [exact Hs|]. split; [exact Hsays|].
      unfold ranks_increasing in Hinc. pose proof Hinc as Hinc'. rewrite E in Hinc'.
      destruct (inc_split _ _ _ _ Hinc') as (_ & _ & Hl2).
      apply Forall_forall. intros t' Hin'.
      assert (Hin'' : In t' order) by (rewrite E; apply in_or_app; right; now right).
      rewrite <- (says_stage order w p d t' k Hinc Hin''). apply Hhigher.
      rewrite Forall_forall in Hl2. specialize (Hl2 t' Hin'). now rewrite <- Hs.
Qed.

(* ---- XvcConfig::new is total except for the two documented panics ----------------------------------- *)
Lemma content_panic_only_cli w p r :
  content w p r = RdPanic -> r = RCliVector /\ exists vec, p_cli p = Some vec /\ cli_map vec = None.
Proof.
  destruct r; cbn [content]; unfold of_file.
  - destruct (w_sys w); discriminate.
  - destruct (w_user w); discriminate.
  - destruct (p_proj p) as [f|]; [destruct (w_file w f)|]; discriminate.
  - destruct (p_local p) as [f|]; [destruct (w_file w f)|]; discriminate.
  - discriminate.
  - destruct (p_cli p) as [vec|]; [|discriminate].
    destruct (cli_map vec) eqn:E; [discriminate|]. intros _. split; [reflexivity|]. now exists vec.
Qed.

Lemma build_total_lemma order w p d :
  w_default w = Some d -> (forall vec, p_cli p = Some vec -> cli_map vec <> None) ->
  exists c, build order w p = Built c.
Proof.
  intros Hd Hc. destruct (build order w p) as [|c] eqn:E; [|now exists c].
  exfalso. apply build_panics_iff in E as [E|(t & _ & _ & Hp)]; [congruence|].
  apply content_panic_only_cli in Hp as (_ & vec & Hv & Hm). exact (Hc vec Hv Hm).
Qed.

(* ---- switches: all of them correct, or a computed one is not ------------------------------------------ *)
Definition switch_full (order : list stage) pinit rinit : Prop :=
  forall x sws cvec w,
    cli_build order pinit rinit (sw_set sws x true) cvec w =
    cli_build order pinit rinit (sw_set sws x false) cvec (erase x w).

Definition known_noop (order : list stage) pinit rinit (x : switch) : bool :=
  existsb (switch_eqb x) (noop_switches order pinit rinit).

Lemma switch_eqb_spec a b : reflect (a = b) (switch_eqb a b).
Proof. destruct a, b; cbn; constructor; congruence. Qed.

Lemma known_noop_In order pinit rinit x :
  known_noop order pinit rinit x = true <-> In x (noop_switches order pinit rinit).
Proof.
  unfold known_noop. rewrite existsb_exists. split.
  - intros (y & Hy & E). now destruct (switch_eqb_spec x y) as [->|].
  - intros H. exists x. split; [exact H|]. now destruct (switch_eqb_spec x x).
Qed.

Lemma switch_removes_exactly_known order pinit rinit x :
  known_noop order pinit rinit x = false ->
  forall sws cvec w,
    cli_build order pinit rinit (sw_set sws x true) cvec w =
    cli_build order pinit rinit (sw_set sws x false) cvec (erase x w).
Proof.
  intros H. apply switch_removes_exactly_lemma. apply not_noop_ok.
  intros Hin. apply known_noop_In in Hin. congruence.
Qed.

Lemma switch_full_dichotomy order pinit rinit :
  forallb (noop_witness_differs order pinit rinit) (noop_switches order pinit rinit) = true ->
  match noop_switches order pinit rinit with
  | [] => switch_full order pinit rinit
  | _ :: _ => ~ switch_full order pinit rinit
  end.
Proof.
  intros Hw. pose proof (switch_noop_refuted_lemma order pinit rinit Hw) as Hr. clear Hw.
  destruct (noop_switches order pinit rinit) as [|x r] eqn:E.
  - intros x sws cvec w. apply switch_removes_exactly_lemma. apply not_noop_ok. rewrite E. intros [].
  - intros Hfull.
    destruct (Hr x (or_introl eq_refl)) as (sws & cvec & w & Hne).
    apply Hne. apply Hfull.
Qed.

(* ---- the CLI tables of the pinned tree and of the tree with the P18 repair ------------------------------ *)
Definition pinit_of (fixed_P18 : bool) : list (field * cli_init) :=
  [(FIncludeSystem, INot NoSystem); (FIncludeUser, INot NoUser); (FProjectPath, INone); (FLocalPath, INone);
   (FIncludeEnv, INot NoEnv); (FCliConfig, ICliOptions)]
  ++ (if fixed_P18 then [(FIncludeProject, INot NoProject); (FIncludeLocal, INot NoLocal)] else []).

Definition rinit_of (fixed_P18 : bool) : list (field * root_init) :=
  (if fixed_P18
   then [(FProjectPath, RSomeIf FIncludeProject ProjectFile); (FLocalPath, RSomeIf FIncludeLocal LocalFile)]
   else [(FProjectPath, RSome ProjectFile); (FLocalPath, RSome LocalFile)])
  ++ [(FIncludeSystem, RKeep); (FIncludeUser, RKeep); (FIncludeEnv, RKeep); (FCliConfig, RKeep)].

(* two pairs of tables compute the same parameters for XvcConfig::new from every command line *)
Definition same_params pinit rinit pinit' rinit' : Prop :=
  forall sws cvec, eff_params pinit rinit sws cvec = eff_params pinit' rinit' sws cvec.

(* ---- typed rendering ------------------------------------------------------------------------------------ *)
Definition render (v : value) : str :=
  match v with VBool b => render_bool b | VInt z => render_int z | VFloat l => l | VStr s => s end.

Definition in_i64 (z : Z) : bool := ((i64_min <=? z) && (z <=? i64_max))%Z.

(* the values whose rendering is typed back to themselves: every bool, every i64, every string that
   does not look like a bool, an integer or a float *)
Definition renders_faithfully (v : value) : bool :=
  match v with
  | VBool _ => true
  | VInt z => in_i64 z
  | VStr s => negb (lookalike s)
  | VFloat _ => false
  end.

Lemma types_kept_lemma v : renders_faithfully v = true -> parse_to_value (render v) = v.
Proof.
  destruct v as [b|z|l|s]; cbn [renders_faithfully render]; intros H.
  - apply parse_render_bool.
  - apply parse_render_int. unfold in_i64 in H. apply andb_prop in H as [H1 H2].
    apply Z.leb_le in H1, H2. lia.
  - discriminate.
  - apply parse_not_lookalike. now apply negb_true_iff.
Qed.

(* ---- the documented stage table; helpers for the finite well-formedness checks of the tables ------------- *)
Definition documented_stages : list stage :=
  [ (FIncludeSystem, System,      RSystemFile);
    (FIncludeUser,   Global,      RUserFile);
    (FProjectPath,   Project,     RProjectPath);
    (FLocalPath,     Local,       RLocalPath);
    (FIncludeEnv,    Environment, REnvMap);
    (FCliConfig,     CommandLine, RCliVector) ].

Definition all_algs : list alg := [AsIs; Blake3; Blake2s; SHA2_256; SHA3_256].
Fixpoint distinct_strs (l : list str) : bool :=
  match l with [] => true | x :: r => negb (existsb (str_eqb x) r) && distinct_strs r end.
Definition opt_strs (l : list (option str)) : list str :=
  flat_map (fun o => match o with Some x => [x] | None => [] end) l.

(* the positional form of the core theorem, for any order table *)
Lemma effective_highest_positional order w p d c k v s :
  w_default w = Some d -> build order w p = Built c ->
  (kget c k = Some (v, s) <->
   (exists l1 t l2, order = l1 ++ t :: l2 /\ snd (fst t) = s /\ defined_by w p t k = Some v /\
                    Forall (fun t' => defined_by w p t' k = None) l2)
   \/ (Forall (fun t => defined_by w p t k = None) order /\ s = Default /\ kget d k = Some v)).
Proof.
  intros Hd Hb. rewrite (effective_highest_lemma order w p d c k Hd Hb). apply effective_spec.
Qed.

(* the cache prefix of `track` is the prefix of the algorithm named by the EFFECTIVE value *)
Lemma track_uses_effective_lemma order tbl akey w p d c name s a pre :
  w_default w = Some d -> build order w p = Built c ->
  effective order w p d akey = Some (VStr name, s) ->
  alg_of_name tbl name = Some a -> prefix_of tbl a = Some pre ->
  track_prefix tbl akey c = Some pre.
Proof.
  intros Hd Hb He Ha Hp. apply (track_prefix_spec tbl akey c name s a pre); [|exact Ha|exact Hp].
  now rewrite (effective_highest_lemma order w p d c akey Hd Hb).
Qed.
