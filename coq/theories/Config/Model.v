(* M-CONF: executable model of xvc's configuration cascade.  NO proofs here (this file must still
   run when a proof breaks).  Written line by line from

     config/src/lib.rs         XvcConfig::{default_conf, new, update_from_hash_map, update_from_file,
                               env_map, parse_to_value, parse_key_value_vector, get_str/bool/int/float}
     config/src/config_params.rs  XvcConfigParams
     lib/src/cli/mod.rs        get_xvc_config_params            (through the table Gen/CliSwitches.v)
     core/src/types/xvcroot.rs XvcRootInner::new                (through the table Gen/CliSwitches.v)
     core/src/types/hashalgorithm.rs + xvcdigest/mod.rs         (through the table Gen/CachePrefix.v)

   Every function takes the generated tables as ARGUMENTS, so the same definitions describe the
   pinned tree, a repaired tree and a broken tree; Props/C20.v instantiates them with the tables
   regenerated from /repo on every run.  The one exception is how a `key=value` option of the
   command line is split (parse_kv): both variants are defined here, and the regenerated constant
   Gen.CliSwitches.cli_split_once selects the one the code has now.

   Abstracted: the TOML parser (a configuration file is its flattened key -> typed value list, or
   nothing when the file is missing, not a regular file, unreadable or not TOML); strings are byte
   lists and Rust's `trim` is modelled for ASCII white space only; environment variable names
   contain no newline and no two variables map to one key; `directories-next` (which path the
   system / user file is) is a parameter of the world. *)
From Coq Require Import List Bool NArith ZArith String Ascii.
From XV Require Import Base.Amap Config.Types.
From XV Require Gen.CliSwitches.       (* for ONE constant, cli_split_once: see parse_kv *)
Import ListNotations.
Open Scope N_scope.

(* ---- strings ------------------------------------------------------------------------------ *)
Definition s2l (s : string) : str := map N_of_ascii (list_ascii_of_string s).
(* the literals the parsers compare with, as byte lists (s2l is for witnesses in proof files only:
   the extracted functions must not pull in Coq's String module) *)
Definition s_true : str := [116; 114; 117; 101].              (* "true" *)
Definition s_false : str := [102; 97; 108; 115; 101].         (* "false" *)
Definition s_NAN : str := [78; 65; 78].                       (* "NAN" *)
Definition s_INF : str := [73; 78; 70].                       (* "INF" *)
Definition s_INFINITY : str := [73; 78; 70; 73; 78; 73; 84; 89].  (* "INFINITY" *)

Definition is_digit (c : N) : bool := (48 <=? c) && (c <=? 57).
(* char::is_whitespace restricted to ASCII: U+0009..U+000D and U+0020 *)
Definition is_space (c : N) : bool := ((9 <=? c) && (c <=? 13)) || (c =? 32).

Fixpoint trim_start (s : str) : str :=
  match s with
  | c :: r => if is_space c then trim_start r else s
  | [] => []
  end.
Definition trim (s : str) : str := rev (trim_start (rev (trim_start s))).

(* str::split('=') : all segments; never empty *)
Fixpoint split_at (sep : N) (s : str) : list str :=
  match s with
  | [] => [[]]
  | c :: r =>
    if c =? sep then [] :: split_at sep r
    else match split_at sep r with
         | seg :: segs => (c :: seg) :: segs
         | [] => [[c]]
         end
  end.

(* ---- maps --------------------------------------------------------------------------------- *)
Definition key := str.
Definition kvs := list (key * value).                  (* first binding wins *)
Definition cfg := list (key * (value * src)).          (* XvcConfig.the_config *)

Definition kget {V : Type} (m : list (key * V)) (k : key) : option V := get str_eqb m k.
Definition kput {V : Type} (m : list (key * V)) (k : key) (v : V) : list (key * V) :=
  (k, v) :: del str_eqb m k.                           (* HashMap::insert *)

(* ---- typing of raw strings: XvcConfig::parse_to_value -------------------------------------- *)
Definition i64_min : Z := (-9223372036854775808)%Z.
Definition i64_max : Z := 9223372036854775807%Z.

Fixpoint digits_val (l : str) (acc : Z) : option Z :=
  match l with
  | [] => Some acc
  | c :: r => if is_digit c then digits_val r (acc * 10 + Z.of_N (c - 48))%Z else None
  end.

(* <i64 as FromStr>: optional sign, at least one digit, only digits, in range *)
Definition parse_i64 (s : str) : option Z :=
  let '(neg, body) :=
    match s with
    | c :: r => if c =? 45 then (true, r) else if c =? 43 then (false, r) else (false, s)
    | [] => (false, s)
    end in
  match body with
  | [] => None
  | _ => match digits_val body 0%Z with
         | Some n => let z := if neg then (- n)%Z else n in
                     if ((i64_min <=? z) && (z <=? i64_max))%Z then Some z else None
         | None => None
         end
  end.

Fixpoint skip_digits (l : str) : bool * str :=     (* (at least one digit skipped, rest) *)
  match l with
  | c :: r => if is_digit c then (true, snd (skip_digits r)) else (false, l)
  | [] => (false, [])
  end.

(* core::num::dec2flt::parse::parse_number consuming the whole input:
   digits* [ '.' digits* ] with at least one digit, then optionally (e|E) [+|-] digits+ *)
Definition is_number (s : str) : bool :=
  let '(d1, r1) := skip_digits s in
  let '(d2, r2) := match r1 with
                   | c :: t => if c =? 46 then skip_digits t else (false, r1)
                   | [] => (false, [])
                   end in
  (d1 || d2) &&
  match r2 with
  | [] => true
  | c :: t =>
    if (c =? 101) || (c =? 69) then
      let t' := match t with
                | x :: u => if (x =? 43) || (x =? 45) then u else t
                | [] => t
                end in
      let '(d3, r3) := skip_digits t' in
      d3 && match r3 with [] => true | _ => false end
    else false
  end.

Definition upper (c : N) : N := if (97 <=? c) && (c <=? 122) then c - 32 else c.
(* parse_inf_nan: "nan", "inf", "infinity", ASCII case-insensitive, whole input *)
Definition is_inf_nan (s : str) : bool :=
  let u := map upper s in
  str_eqb u s_NAN || str_eqb u s_INF || str_eqb u s_INFINITY.

(* <f64 as FromStr> accepts: [+|-] (number | inf | infinity | nan), non-empty after the sign *)
Definition is_float_lexeme (s : str) : bool :=
  let body := match s with
              | c :: r => if (c =? 43) || (c =? 45) then r else s
              | [] => s
              end in
  match body with
  | [] => false
  | _ => is_number body || is_inf_nan body
  end.

Definition parse_to_value (v : str) : value :=
  if str_eqb v s_true then VBool true
  else if str_eqb v s_false then VBool false
  else match parse_i64 v with
       | Some z => VInt z
       | None => if is_float_lexeme v then VFloat v else VStr v
       end.

(* ---- environment: XvcConfig::env_map, regex ^XVC_?(.+) -------------------------------------- *)
Definition env_key (name : str) : option key :=
  match name with
  | x :: v :: c :: rest =>
    if (x =? 88) && (v =? 86) && (c =? 67) then
      match rest with
      | [] => None
      | u :: r => if u =? 95 then match r with [] => Some rest | _ => Some r end else Some rest
      end
    else None
  | _ => None
  end.

Definition env_map (env : list (str * str)) : kvs :=
  fold_left (fun m nv => match env_key (fst nv) with
                         | Some k => kput m k (parse_to_value (snd nv))
                         | None => m
                         end) env [].

(* ---- command line: XvcConfig::parse_key_value_vector + collect into a HashMap --------------- *)
(* elements[0].trim(), parse_to_value(elements[1].trim()); elements[1] of a string without '='
   is an index-out-of-bounds panic: None.
   parse_kv_all : elements = str.split('=')      -- the value ends at the second '=' (the pinned tree)
   parse_kv_once: elements = str.splitn(2, '=')  -- the value is everything after the first '='      *)
Definition parse_kv_all (s : str) : option (key * value) :=
  match split_at 61 s with
  | k :: v :: _ => Some (trim k, parse_to_value (trim v))
  | _ => None
  end.

(* str::splitn(2, sep): None = no separator (one element only) *)
Fixpoint split_once (sep : N) (s : str) : option (str * str) :=
  match s with
  | [] => None
  | c :: r =>
    if c =? sep then Some ([], r)
    else match split_once sep r with
         | Some (a, b) => Some (c :: a, b)
         | None => None
         end
  end.

Definition parse_kv_once (s : str) : option (key * value) :=
  match split_once 61 s with
  | Some (k, v) => Some (trim k, parse_to_value (trim v))
  | None => None
  end.

Definition parse_kv_with (once : bool) (s : str) : option (key * value) :=
  if once then parse_kv_once s else parse_kv_all s.

Definition parse_kv (s : str) : option (key * value) := parse_kv_with Gen.CliSwitches.cli_split_once s.

Fixpoint cli_map_from (vec : list str) (m : kvs) : option kvs :=
  match vec with
  | [] => Some m
  | s :: r => match parse_kv s with
              | Some (k, v) => cli_map_from r (kput m k v)
              | None => None
              end
  end.
(* the panic happens while the vector is mapped, before anything is collected: any element without
   '=' panics whatever its position *)
Definition cli_map (vec : list str) : option kvs := cli_map_from vec [].

(* ---- XvcConfigParams and the world it is evaluated in --------------------------------------- *)
Record params := {
  p_sys : bool;                      (* include_system_config *)
  p_user : bool;                     (* include_user_config *)
  p_proj : option cfgfile;           (* project_config_path *)
  p_local : option cfgfile;          (* local_config_path *)
  p_env : bool;                      (* include_environment_config *)
  p_cli : option (list str);         (* command_line_config *)
  p_incl_proj : bool;                (* include_project_config: only in a tree with the P18 repair *)
  p_incl_local : bool                (* include_local_config:   only in a tree with the P18 repair *)
}.

Record world := {
  w_default : option kvs;            (* default_configuration parsed; None = not TOML (expect panics) *)
  w_sys : option kvs;                (* the file at system_config_file(); None = nothing usable there *)
  w_user : option kvs;               (* the file at user_config_file() *)
  w_proj : option kvs;               (* .xvc/config.toml *)
  w_local : option kvs;              (* .xvc/config.local.toml *)
  w_env : list (str * str)           (* the process environment, name and value *)
}.

Definition is_some {A : Type} (o : option A) : bool := match o with Some _ => true | None => false end.

Definition enabled (p : params) (f : field) : bool :=
  match f with
  | FIncludeSystem => p_sys p
  | FIncludeUser => p_user p
  | FProjectPath => is_some (p_proj p)
  | FLocalPath => is_some (p_local p)
  | FIncludeEnv => p_env p
  | FCliConfig => is_some (p_cli p)
  | FIncludeProject => p_incl_proj p
  | FIncludeLocal => p_incl_local p
  end.

Definition w_file (w : world) (f : cfgfile) : option kvs :=
  match f with ProjectFile => w_proj w | LocalFile => w_local w end.

Inductive rd := RdNone | RdPanic | RdMap (m : kvs).

Definition of_file (o : option kvs) : rd := match o with Some m => RdMap m | None => RdNone end.

Definition content (w : world) (p : params) (r : reader) : rd :=
  match r with
  | RSystemFile => of_file (w_sys w)
  | RUserFile => of_file (w_user w)
  | RProjectPath => match p_proj p with Some f => of_file (w_file w f) | None => RdNone end
  | RLocalPath => match p_local p with Some f => of_file (w_file w f) | None => RdNone end
  | REnvMap => RdMap (env_map (w_env w))
  | RCliVector => match p_cli p with
                  | Some vec => match cli_map vec with Some m => RdMap m | None => RdPanic end
                  | None => RdNone
                  end
  end.

(* update_from_hash_map: every (k, v) of the new map is inserted with the new source.  fold_right:
   the FIRST binding of a key in m is inserted last, so `kget m` and the result agree even if m
   had duplicate keys *)
Definition apply_source (c : cfg) (m : kvs) (s : src) : cfg :=
  fold_right (fun kv c' => kput c' (fst kv) (snd kv, s)) c m.

Inductive outcome := Panic | Built (c : cfg).

Definition apply_stage (w : world) (p : params) (o : outcome) (t : stage) : outcome :=
  match o with
  | Panic => Panic
  | Built c =>
    let '(f, s, r) := t in
    if enabled p f then
      match content w p r with
      | RdNone => Built c
      | RdPanic => Panic
      | RdMap m => Built (apply_source c m s)
      end
    else Built c
  end.

(* XvcConfig::new *)
Definition build (order : list stage) (w : world) (p : params) : outcome :=
  match w_default w with
  | None => Panic
  | Some d => fold_left (apply_stage w p) order (Built (apply_source [] d Default))
  end.

(* ---- typed getters --------------------------------------------------------------------------- *)
Inductive getres (A : Type) := GOk (a : A) (s : src) | GMismatch | GNotFound.
Arguments GOk {A}. Arguments GMismatch {A}. Arguments GNotFound {A}.

Definition get_str (c : cfg) (k : key) : getres str :=
  match kget c k with
  | None => GNotFound
  | Some (VStr s, o) => GOk s o
  | Some _ => GMismatch
  end.
Definition get_bool (c : cfg) (k : key) : getres bool :=
  match kget c k with
  | None => GNotFound
  | Some (VBool b, o) => GOk b o
  | Some _ => GMismatch
  end.
Definition get_int (c : cfg) (k : key) : getres Z :=
  match kget c k with
  | None => GNotFound
  | Some (VInt z, o) => GOk z o
  | Some _ => GMismatch
  end.
Definition get_float (c : cfg) (k : key) : getres str :=
  match kget c k with
  | None => GNotFound
  | Some (VFloat s, o) => GOk s o
  | Some _ => GMismatch
  end.

(* ---- the CLI layer: get_xvc_config_params, then XvcRootInner::new ------------------------------ *)
Record switches := { sw_sys : bool; sw_user : bool; sw_proj : bool; sw_local : bool; sw_env : bool }.

Definition sw_get (s : switches) (x : switch) : bool :=
  match x with
  | NoSystem => sw_sys s | NoUser => sw_user s | NoProject => sw_proj s
  | NoLocal => sw_local s | NoEnv => sw_env s
  end.

Definition sw_set (s : switches) (x : switch) (b : bool) : switches :=
  match x with
  | NoSystem => {| sw_sys := b; sw_user := sw_user s; sw_proj := sw_proj s; sw_local := sw_local s; sw_env := sw_env s |}
  | NoUser => {| sw_sys := sw_sys s; sw_user := b; sw_proj := sw_proj s; sw_local := sw_local s; sw_env := sw_env s |}
  | NoProject => {| sw_sys := sw_sys s; sw_user := sw_user s; sw_proj := b; sw_local := sw_local s; sw_env := sw_env s |}
  | NoLocal => {| sw_sys := sw_sys s; sw_user := sw_user s; sw_proj := sw_proj s; sw_local := b; sw_env := sw_env s |}
  | NoEnv => {| sw_sys := sw_sys s; sw_user := sw_user s; sw_proj := sw_proj s; sw_local := sw_local s; sw_env := b |}
  end.

Definition no_switches : switches :=
  {| sw_sys := false; sw_user := false; sw_proj := false; sw_local := false; sw_env := false |}.

Fixpoint assoc_field {A : Type} (f : field) (l : list (field * A)) : option A :=
  match l with
  | [] => None
  | (g, a) :: r => if field_eqb g f then Some a else assoc_field f r
  end.

(* a boolean field: `!cli_opts.<switch>`; a field the struct does not have is never read and is
   held at true *)
Definition init_flag (pinit : list (field * cli_init)) (sws : switches) (f : field) : bool :=
  match assoc_field f pinit with
  | Some (INot x) => negb (sw_get sws x)
  | _ => true
  end.

(* get_xvc_config_params.  cvec is the -c vector as consolidate_config_options returns it (the
   user's -c strings followed by the two entries the CLI appends for core.verbosity / core.quiet) *)
Definition cli_params (pinit : list (field * cli_init)) (sws : switches) (cvec : list str) : params :=
  {| p_sys := init_flag pinit sws FIncludeSystem;
     p_user := init_flag pinit sws FIncludeUser;
     p_proj := None;              (* INone; the table can say nothing else for a path *)
     p_local := None;
     p_env := init_flag pinit sws FIncludeEnv;
     p_cli := match assoc_field FCliConfig pinit with Some ICliOptions => Some cvec | _ => None end;
     p_incl_proj := init_flag pinit sws FIncludeProject;
     p_incl_local := init_flag pinit sws FIncludeLocal |}.

Definition root_path (rinit : list (field * root_init)) (p : params) (f : field) (old : option cfgfile)
  : option cfgfile :=
  match assoc_field f rinit with
  | Some (RSome file) => Some file
  | Some (RSomeIf g file) => if enabled p g then Some file else None
  | _ => old
  end.

(* XvcRootInner::new: the params XvcConfig::new finally gets *)
Definition root_params (rinit : list (field * root_init)) (p : params) : params :=
  {| p_sys := p_sys p; p_user := p_user p;
     p_proj := root_path rinit p FProjectPath (p_proj p);
     p_local := root_path rinit p FLocalPath (p_local p);
     p_env := p_env p; p_cli := p_cli p;
     p_incl_proj := p_incl_proj p; p_incl_local := p_incl_local p |}.

Definition eff_params pinit rinit (sws : switches) (cvec : list str) : params :=
  root_params rinit (cli_params pinit sws cvec).

(* what `xvc <switches> -c .. <command>` works with inside a repository *)
Definition cli_build (order : list stage) pinit rinit (sws : switches) (cvec : list str) (w : world)
  : outcome :=
  build order w (eff_params pinit rinit sws cvec).

(* ---- which switch is wired to what: decided on the tables ------------------------------------ *)
(* the physical thing a stage reads under given params *)
Inductive phys := PhSys | PhUser | PhFile (f : cfgfile) | PhEnv | PhCli.

Definition phys_eqb (a b : phys) : bool :=
  match a, b with
  | PhSys, PhSys | PhUser, PhUser | PhEnv, PhEnv | PhCli, PhCli => true
  | PhFile f, PhFile g => cfgfile_eqb f g
  | _, _ => false
  end.

Definition reads (p : params) (r : reader) : option phys :=
  match r with
  | RSystemFile => Some PhSys
  | RUserFile => Some PhUser
  | RProjectPath => option_map PhFile (p_proj p)
  | RLocalPath => option_map PhFile (p_local p)
  | REnvMap => Some PhEnv
  | RCliVector => Some PhCli
  end.

Definition ophys_eqb (a b : option phys) : bool :=
  match a, b with
  | Some x, Some y => phys_eqb x y
  | None, None => true
  | _, _ => false
  end.

(* the source a switch is documented to remove, and where that source lives *)
Definition source_of (x : switch) : src :=
  match x with
  | NoSystem => System | NoUser => Global | NoProject => Project | NoLocal => Local | NoEnv => Environment
  end.
Definition phys_of (x : switch) : phys :=
  match x with
  | NoSystem => PhSys | NoUser => PhUser | NoProject => PhFile ProjectFile
  | NoLocal => PhFile LocalFile | NoEnv => PhEnv
  end.

(* the world without what the switch names *)
Definition erase (x : switch) (w : world) : world :=
  match x with
  | NoSystem => {| w_default := w_default w; w_sys := None; w_user := w_user w; w_proj := w_proj w; w_local := w_local w; w_env := w_env w |}
  | NoUser => {| w_default := w_default w; w_sys := w_sys w; w_user := None; w_proj := w_proj w; w_local := w_local w; w_env := w_env w |}
  | NoProject => {| w_default := w_default w; w_sys := w_sys w; w_user := w_user w; w_proj := None; w_local := w_local w; w_env := w_env w |}
  | NoLocal => {| w_default := w_default w; w_sys := w_sys w; w_user := w_user w; w_proj := w_proj w; w_local := None; w_env := w_env w |}
  | NoEnv => {| w_default := w_default w; w_sys := w_sys w; w_user := w_user w; w_proj := w_proj w; w_local := w_local w; w_env := [] |}
  end.

(* stage t behaves, under p1 in any world, as under p0 in the world without x *)
Definition stage_agrees (x : switch) (p1 p0 : params) (t : stage) : bool :=
  let '(f, s, r) := t in
  if src_eqb s (source_of x) then
    negb (enabled p1 f) &&
    (negb (enabled p0 f) || ophys_eqb (reads p0 r) (Some (phys_of x)) || ophys_eqb (reads p0 r) None)
  else
    Bool.eqb (enabled p1 f) (enabled p0 f) &&
    (negb (enabled p0 f) ||
     (ophys_eqb (reads p1 r) (reads p0 r) && negb (ophys_eqb (reads p0 r) (Some (phys_of x))))).

Definition all_sws : list switches :=
  flat_map (fun a => flat_map (fun b => flat_map (fun c => flat_map (fun d =>
    map (fun e => {| sw_sys := a; sw_user := b; sw_proj := c; sw_local := d; sw_env := e |})
        [false; true]) [false; true]) [false; true]) [false; true]) [false; true].

(* the switch x removes exactly its source, whatever the other switches are *)
Definition switch_ok (order : list stage) pinit rinit (x : switch) : bool :=
  forallb (fun sws =>
    forallb (stage_agrees x (eff_params pinit rinit (sw_set sws x true) [])
                            (eff_params pinit rinit (sw_set sws x false) []))
            order) all_sws.

Definition noop_switches (order : list stage) pinit rinit : list switch :=
  filter (fun x => negb (switch_ok order pinit rinit x)) all_switches.

(* ---- cache prefix: HashAlgorithm::from_conf + XvcDigest::directory_prefix ----------------------- *)
Definition alg_row := (alg * str * list str)%type.

Fixpoint alg_of_name (tbl : list alg_row) (s : str) : option alg :=
  match tbl with
  | [] => None
  | (a, ts, names) :: r =>
    if str_eqb ts s || existsb (str_eqb s) names then Some a else alg_of_name r s
  end.

Fixpoint prefix_of (tbl : list alg_row) (a : alg) : option str :=
  match tbl with
  | [] => None
  | (b, ts, _) :: r => if alg_eqb a b then Some ts else prefix_of r a
  end.

(* the first component of the cache path `track` uses: None = the command fails (key missing, not a
   string, or not an algorithm name: `conf.get_val::<HashAlgorithm>(key).unwrap()`) *)
Definition track_prefix (tbl : list alg_row) (akey : key) (c : cfg) : option str :=
  match get_str c akey with
  | GOk s _ => match alg_of_name tbl s with Some a => prefix_of tbl a | None => None end
  | _ => None
  end.

(* ---- the property as an executable specification ------------------------------------------------ *)
(* what source s, read under params p in world w, says about key k *)
Definition defined_by (w : world) (p : params) (t : stage) (k : key) : option value :=
  let '(f, s, r) := t in
  if enabled p f then
    match content w p r with
    | RdMap m => kget m k
    | _ => None
    end
  else None.

(* scan from the highest priority downwards: the first enabled stage that defines k decides *)
Fixpoint highest (w : world) (p : params) (desc : list stage) (k : key) : option (value * src) :=
  match desc with
  | [] => None
  | t :: r => match defined_by w p t k with
              | Some v => Some (v, snd (fst t))
              | None => highest w p r k
              end
  end.

Definition effective (order : list stage) (w : world) (p : params) (d : kvs) (k : key)
  : option (value * src) :=
  match highest w p (rev order) k with
  | Some x => Some x
  | None => option_map (fun v => (v, Default)) (kget d k)
  end.

(* boolean twin of the core theorem, run by the extracted model on enumerated inputs *)
Definition ovs_eqb (a b : option (value * src)) : bool :=
  match a, b with
  | Some (v, s), Some (v', s') => value_eqb v v' && src_eqb s s'
  | None, None => true
  | _, _ => false
  end.

Definition check_effective (order : list stage) (w : world) (p : params) (ks : list key) : bool :=
  match w_default w, build order w p with
  | Some d, Built c => forallb (fun k => ovs_eqb (kget c k) (effective order w p d k)) ks
  | None, Panic => true
  | Some _, Panic => existsb (fun t => match content w p (snd t) with RdPanic => enabled p (fst (fst t)) | _ => false end) order
  | None, Built _ => false
  end.
