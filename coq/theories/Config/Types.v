(* M-CONF, shared vocabulary: the names that the generated tables (Gen/ConfigOrder.v,
   Gen/CliSwitches.v, Gen/CachePrefix.v, Gen/DefaultKeys.v) and the model (Config/Model.v) both
   use.  No proofs, no tables here. *)
From Coq Require Import List Bool NArith ZArith.
Import ListNotations.

(* strings are byte lists *)
Definition str := list N.

Fixpoint str_eqb (a b : str) : bool :=
  match a, b with
  | [], [] => true
  | x :: a', y :: b' => N.eqb x y && str_eqb a' b'
  | _, _ => false
  end.

(* XvcConfigOptionSource (config/src/lib.rs) *)
Inductive src := Default | System | Global | Project | Local | CommandLine | Environment | Runtime.

Definition src_eqb (a b : src) : bool :=
  match a, b with
  | Default, Default | System, System | Global, Global | Project, Project | Local, Local
  | CommandLine, CommandLine | Environment, Environment | Runtime, Runtime => true
  | _, _ => false
  end.

(* the fields of XvcConfigParams that decide which sources are read (config/src/config_params.rs).
   FIncludeProject / FIncludeLocal do not exist in the struct of the pinned tree; they are the two
   fields the P18 repair adds, and stay unread (constantly true) while the code lacks them. *)
Inductive field :=
  FIncludeSystem | FIncludeUser | FProjectPath | FLocalPath | FIncludeEnv | FCliConfig
| FIncludeProject | FIncludeLocal.

Definition field_eqb (a b : field) : bool :=
  match a, b with
  | FIncludeSystem, FIncludeSystem | FIncludeUser, FIncludeUser | FProjectPath, FProjectPath
  | FLocalPath, FLocalPath | FIncludeEnv, FIncludeEnv | FCliConfig, FCliConfig
  | FIncludeProject, FIncludeProject | FIncludeLocal, FIncludeLocal => true
  | _, _ => false
  end.

(* what XvcConfig::new reads under a guard *)
Inductive reader :=
  RSystemFile      (* Self::system_config_file()  *)
| RUserFile        (* Self::user_config_file()    *)
| RProjectPath     (* the path in p.project_config_path *)
| RLocalPath       (* the path in p.local_config_path   *)
| REnvMap          (* Self::env_map()             *)
| RCliVector.      (* Self::parse_key_value_vector(p.command_line_config) *)

Definition reader_eqb (a b : reader) : bool :=
  match a, b with
  | RSystemFile, RSystemFile | RUserFile, RUserFile | RProjectPath, RProjectPath
  | RLocalPath, RLocalPath | REnvMap, REnvMap | RCliVector, RCliVector => true
  | _, _ => false
  end.

(* one step of XvcConfig::new: `if <guard on field> { update(<source>, <reader>) }` *)
Definition stage := (field * src * reader)%type.

(* the five --no-*-config switches of XvcCLI (lib/src/cli/mod.rs) *)
Inductive switch := NoSystem | NoUser | NoProject | NoLocal | NoEnv.

Definition switch_eqb (a b : switch) : bool :=
  match a, b with
  | NoSystem, NoSystem | NoUser, NoUser | NoProject, NoProject | NoLocal, NoLocal | NoEnv, NoEnv => true
  | _, _ => false
  end.

Definition all_switches : list switch := [NoSystem; NoUser; NoProject; NoLocal; NoEnv].

(* the two configuration files below .xvc/ *)
Inductive cfgfile := ProjectFile (* config.toml *) | LocalFile (* config.local.toml *).

Definition cfgfile_eqb (a b : cfgfile) : bool :=
  match a, b with ProjectFile, ProjectFile | LocalFile, LocalFile => true | _, _ => false end.

(* how get_xvc_config_params initialises a field of XvcConfigParams *)
Inductive cli_init :=
  INot (sw : switch)     (* field: !cli_opts.<switch> *)
| INone                  (* field: None               *)
| ICliOptions            (* field: Some(cli_opts.consolidate_config_options()) *)
| IOther.                (* not a source selector (default_configuration, current_dir) *)

(* how XvcRootInner::new derives a field from the params it was given *)
Inductive root_init :=
  RKeep                                  (* field: config_opts.field *)
| RSome (f : cfgfile)                    (* field: Some(<xvc_dir>/<file>) *)
| RSomeIf (g : field) (f : cfgfile).     (* field: if config_opts.g { Some(<xvc_dir>/<file>) } else { None } *)

(* HashAlgorithm (core/src/types/hashalgorithm.rs) *)
Inductive alg := AsIs | Blake3 | Blake2s | SHA2_256 | SHA3_256.

Definition alg_eqb (a b : alg) : bool :=
  match a, b with
  | AsIs, AsIs | Blake3, Blake3 | Blake2s, Blake2s | SHA2_256, SHA2_256 | SHA3_256, SHA3_256 => true
  | _, _ => false
  end.

(* TOML value types that occur in configuration values *)
Inductive vtype := TBool | TInt | TFloat | TStr | TOther.

Definition vtype_eqb (a b : vtype) : bool :=
  match a, b with
  | TBool, TBool | TInt, TInt | TFloat, TFloat | TStr, TStr | TOther, TOther => true
  | _, _ => false
  end.

(* configuration values.  A float keeps its lexeme: the model never computes with it, and the
   correspondence check compares the IEEE value of the lexeme with the bits the real code holds. *)
Inductive value := VBool (b : bool) | VInt (z : Z) | VFloat (lexeme : str) | VStr (s : str).

Definition value_eqb (a b : value) : bool :=
  match a, b with
  | VBool x, VBool y => Bool.eqb x y
  | VInt x, VInt y => Z.eqb x y
  | VFloat x, VFloat y => str_eqb x y
  | VStr x, VStr y => str_eqb x y
  | _, _ => false
  end.

Definition type_of (v : value) : vtype :=
  match v with VBool _ => TBool | VInt _ => TInt | VFloat _ => TFloat | VStr _ => TStr end.
