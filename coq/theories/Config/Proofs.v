(* M-CONF: proofs about Config/Model.v.  Everything is generic in the generated tables. *)
From Coq Require Import List Bool NArith ZArith Lia String Ascii DecimalPos.
From XV Require Import Base.Amap Config.Types Config.Model.
Import ListNotations.
Open Scope N_scope.

(* ---- keys ------------------------------------------------------------------------------------- *)
Lemma str_eqb_spec a b : reflect (a = b) (str_eqb a b).
Proof.
  revert b; induction a as [|x a IH]; intros [|y b]; cbn [str_eqb]; try (constructor; congruence).
  destruct (N.eqb_spec x y) as [->|Hne]; cbn [andb].
  - destruct (IH b) as [->|Hne]; constructor; congruence.
  - constructor; congruence.
Qed.

Lemma str_eqb_refl a : str_eqb a a = true.
Proof. destruct (str_eqb_spec a a); congruence. Qed.

Lemma kget_kput {V : Type} (m : list (key * V)) k v k' :
  kget (kput m k v) k' = if str_eqb k k' then Some v else kget m k'.
Proof.
  unfold kget, kput. cbn [get].
  destruct (str_eqb k k') eqn:E; [reflexivity|].
  rewrite (@get_del _ _ _ str_eqb_spec). now rewrite E.
Qed.

Lemma kget_cons {V : Type} (m : list (key * V)) k v k' :
  kget ((k, v) :: m) k' = if str_eqb k k' then Some v else kget m k'.
Proof. reflexivity. Qed.

(* ---- update_from_hash_map --------------------------------------------------------------------- *)
Lemma kget_apply_source c m s k :
  kget (apply_source c m s) k =
  match kget m k with Some v => Some (v, s) | None => kget c k end.
Proof.
  induction m as [|[k0 v0] r IH]; [reflexivity|].
  cbn [apply_source fold_right fst snd].
  change (fold_right (fun kv c' => kput c' (fst kv) (snd kv, s)) c r) with (apply_source c r s).
  rewrite kget_kput, kget_cons. destruct (str_eqb k0 k); [reflexivity|exact IH].
Qed.

Lemma apply_source_nil c s : apply_source c [] s = c.
Proof. reflexivity. Qed.

(* ---- one stage -------------------------------------------------------------------------------- *)
Lemma stage_built w p c t c' k :
  apply_stage w p (Built c) t = Built c' ->
  kget c' k = match defined_by w p t k with
              | Some v => Some (v, snd (fst t))
              | None => kget c k
              end.
Proof.
  destruct t as [[f s] r]. unfold apply_stage, defined_by. cbn [fst snd].
  destruct (enabled p f); [|intros H; injection H as <-; reflexivity].
  destruct (content w p r) as [| |m]; intros H; try discriminate.
  - injection H as <-. reflexivity.
  - injection H as <-. apply kget_apply_source.
Qed.

Lemma fold_panic w p l : fold_left (apply_stage w p) l Panic = Panic.
Proof. induction l as [|t l IH]; [reflexivity|exact IH]. Qed.

Lemma highest_app w p l1 l2 k :
  highest w p (l1 ++ l2) k =
  match highest w p l1 k with Some x => Some x | None => highest w p l2 k end.
Proof.
  induction l1 as [|t l1 IH]; [reflexivity|].
  cbn [app highest]. destruct (defined_by w p t k); [reflexivity|exact IH].
Qed.

(* the fold over the stages, read from the other end: the LAST enabled stage defining k wins *)
Lemma fold_highest w p l : forall c c' k,
  fold_left (apply_stage w p) l (Built c) = Built c' ->
  kget c' k = match highest w p (rev l) k with Some x => Some x | None => kget c k end.
Proof.
  induction l as [|t l IH]; intros c c' k H.
  - cbn in H. injection H as <-. reflexivity.
  - cbn [fold_left] in H.
    destruct (apply_stage w p (Built c) t) as [|c1] eqn:E.
    + rewrite fold_panic in H. discriminate.
    + rewrite (IH _ _ k H). cbn [rev]. rewrite highest_app. cbn [highest].
      destruct (highest w p (rev l) k); [reflexivity|].
      rewrite (stage_built _ _ _ _ _ k E).
      destruct (defined_by w p t k); reflexivity.
Qed.

Lemma kget_default d k :
  kget (apply_source [] d Default) k = option_map (fun v => (v, Default)) (kget d k).
Proof. rewrite kget_apply_source. destruct (kget d k); reflexivity. Qed.

(* CORE: the effective binding of every key is the one of the highest-priority enabled stage that
   defines it, else the default; for every order table, world and parameter record *)
Lemma effective_highest_lemma order w p d c k :
  w_default w = Some d -> build order w p = Built c ->
  kget c k = effective order w p d k.
Proof.
  unfold build, effective. intros -> H.
  rewrite (fold_highest _ _ _ _ _ k H). rewrite kget_default. reflexivity.
Qed.

(* the same, spelled out: position in the order list *)
Lemma highest_rev_spec w p k v s : forall l,
  highest w p (rev l) k = Some (v, s) <->
  exists l1 t l2, l = l1 ++ t :: l2 /\ snd (fst t) = s /\ defined_by w p t k = Some v /\
                  Forall (fun t' => defined_by w p t' k = None) l2.
Proof.
  intros l. induction l as [|t0 l IH] using rev_ind.
  - cbn. split; [discriminate|]. intros (l1 & t & l2 & E & _). destruct l1; discriminate.
  - rewrite rev_app_distr. cbn [rev app highest].
    destruct (defined_by w p t0 k) as [v0|] eqn:D.
    + split.
      * intros H. injection H as <- <-. exists l, t0, []. repeat split; auto.
      * intros (l1 & t & l2 & E & Hs & Hd & Hn).
        destruct l2 as [|x l2] using rev_ind.
        -- apply app_inj_tail in E. destruct E as [_ E2]. subst t.
           rewrite D in Hd. injection Hd as ->. now rewrite Hs.
        -- clear IHl2. rewrite app_comm_cons, app_assoc in E. apply app_inj_tail in E.
           destruct E as [_ E2]. subst x.
           apply Forall_app in Hn. destruct Hn as [_ Hx]. inversion Hx; subst. congruence.
    + rewrite IH. split.
      * intros (l1 & t & l2 & -> & Hs & Hd & Hn). exists l1, t, (l2 ++ [t0]).
        rewrite <- app_assoc. repeat split; auto. apply Forall_app; split; auto.
      * intros (l1 & t & l2 & E & Hs & Hd & Hn).
        destruct l2 as [|x l2] using rev_ind.
        -- apply app_inj_tail in E. destruct E as [_ E2]. subst t. congruence.
        -- clear IHl2. rewrite app_comm_cons, app_assoc in E. apply app_inj_tail in E.
           destruct E as [E1 E2]. subst x l.
           apply Forall_app in Hn. destruct Hn as [Hn _]. exists l1, t, l2. repeat split; auto.
Qed.

Lemma highest_none w p k : forall l,
  highest w p l k = None <-> Forall (fun t => defined_by w p t k = None) l.
Proof.
  induction l as [|t l IH]; cbn [highest].
  - split; auto.
  - destruct (defined_by w p t k) eqn:D.
    + split; [discriminate|]. intros H; inversion H; congruence.
    + rewrite IH. split; [intros H; constructor; auto | intros H; inversion H; auto].
Qed.

Lemma effective_spec order w p d k v s :
  effective order w p d k = Some (v, s) <->
  (exists l1 t l2, order = l1 ++ t :: l2 /\ snd (fst t) = s /\ defined_by w p t k = Some v /\
                   Forall (fun t' => defined_by w p t' k = None) l2)
  \/ (Forall (fun t => defined_by w p t k = None) order /\ s = Default /\ kget d k = Some v).
Proof.
  unfold effective. destruct (highest w p (rev order) k) as [[v' s']|] eqn:H.
  - split.
    + intros E. injection E as -> ->. left. now apply highest_rev_spec.
    + intros [Hx | (Hn & _)].
      * apply highest_rev_spec in Hx. congruence.
      * apply Forall_rev in Hn. apply highest_none in Hn. congruence.
  - assert (Hn : Forall (fun t => defined_by w p t k = None) order).
    { apply highest_none in H. apply Forall_rev in H. now rewrite rev_involutive in H. }
    split.
    + intros E. right. destruct (kget d k); cbn in E; [|discriminate]. injection E as -> <-. auto.
    + intros [Hx | (_ & -> & ->)]; [|reflexivity].
      apply highest_rev_spec in Hx. congruence.
Qed.

(* ---- panics ------------------------------------------------------------------------------------ *)
Lemma fold_panic_iff w p : forall l c,
  fold_left (apply_stage w p) l (Built c) = Panic <->
  exists t, In t l /\ enabled p (fst (fst t)) = true /\ content w p (snd t) = RdPanic.
Proof.
  induction l as [|t l IH]; intros c.
  - cbn. split; [discriminate|]. intros (t & [] & _).
  - cbn [fold_left]. destruct t as [[f s] r].
    unfold apply_stage at 2. cbn [fst snd].
    destruct (enabled p f) eqn:En.
    + destruct (content w p r) as [| |m] eqn:Co.
      * rewrite IH. split.
        -- intros (t & I & H). exists t. split; [now right|exact H].
        -- intros (t & [<-|I] & He & Hc); cbn [fst snd] in *; [congruence|]. exists t. auto.
      * rewrite fold_panic. split; [|reflexivity]. intros _. exists (f, s, r). cbn. auto.
      * rewrite IH. split.
        -- intros (t & I & H). exists t. split; [now right|exact H].
        -- intros (t & [<-|I] & He & Hc); cbn [fst snd] in *; [congruence|]. exists t. auto.
    + rewrite IH. split.
      * intros (t & I & H). exists t. split; [now right|exact H].
      * intros (t & [<-|I] & He & Hc); cbn [fst snd] in *; [congruence|]. exists t. auto.
Qed.

Lemma build_panics_iff order w p :
  build order w p = Panic <->
  w_default w = None \/
  exists t, In t order /\ enabled p (fst (fst t)) = true /\ content w p (snd t) = RdPanic.
Proof.
  unfold build. destruct (w_default w) as [d|].
  - rewrite fold_panic_iff. split; [auto|]. intros [H|H]; [discriminate|exact H].
  - split; auto.
Qed.

(* ---- switches ------------------------------------------------------------------------------------ *)
Lemma all_sws_complete sws : In sws all_sws.
Proof. destruct sws as [[] [] [] [] []]; vm_compute; tauto. Qed.

Lemma src_eqb_spec a b : reflect (a = b) (src_eqb a b).
Proof. destruct a, b; cbn; constructor; congruence. Qed.

Lemma cfgfile_eqb_spec a b : reflect (a = b) (cfgfile_eqb a b).
Proof. destruct a, b; cbn; constructor; congruence. Qed.

Lemma phys_eqb_spec a b : reflect (a = b) (phys_eqb a b).
Proof.
  destruct a as [| |f| |], b as [| |g| |]; cbn; try (constructor; congruence).
  destruct (cfgfile_eqb_spec f g); constructor; congruence.
Qed.

Lemma ophys_eqb_spec a b : reflect (a = b) (ophys_eqb a b).
Proof.
  destruct a as [x|], b as [y|]; cbn; try (constructor; congruence).
  destruct (phys_eqb_spec x y); constructor; congruence.
Qed.

(* enabledness and the files read do not depend on the contents of the -c vector *)
Lemma enabled_cli_params_cvec pinit sws cvec f :
  enabled (cli_params pinit sws cvec) f = enabled (cli_params pinit sws []) f.
Proof.
  destruct f; cbn; try reflexivity.
  destruct (assoc_field FCliConfig pinit) as [[]|]; reflexivity.
Qed.

Lemma root_path_cvec pinit rinit sws cvec f old :
  root_path rinit (cli_params pinit sws cvec) f old = root_path rinit (cli_params pinit sws []) f old.
Proof.
  unfold root_path. destruct (assoc_field f rinit) as [[| |g file]|]; try reflexivity.
  now rewrite enabled_cli_params_cvec.
Qed.

Lemma enabled_eff_cvec pinit rinit sws cvec f :
  enabled (eff_params pinit rinit sws cvec) f = enabled (eff_params pinit rinit sws []) f.
Proof.
  unfold eff_params, root_params.
  destruct f; cbn [enabled p_sys p_user p_proj p_local p_env p_cli p_incl_proj p_incl_local];
    try reflexivity.
  - now rewrite root_path_cvec.
  - now rewrite root_path_cvec.
  - cbn. destruct (assoc_field FCliConfig pinit) as [[]|]; reflexivity.
Qed.

Lemma reads_eff_cvec pinit rinit sws cvec r :
  reads (eff_params pinit rinit sws cvec) r = reads (eff_params pinit rinit sws []) r.
Proof.
  unfold eff_params, root_params.
  destruct r; cbn [reads p_proj p_local]; try reflexivity; now rewrite root_path_cvec.
Qed.

Lemma p_cli_eff pinit rinit sws sws' cvec :
  p_cli (eff_params pinit rinit sws cvec) = p_cli (eff_params pinit rinit sws' cvec).
Proof. reflexivity. Qed.

Lemma stage_agrees_cvec x pinit rinit s1 s0 cvec t :
  stage_agrees x (eff_params pinit rinit s1 cvec) (eff_params pinit rinit s0 cvec) t =
  stage_agrees x (eff_params pinit rinit s1 []) (eff_params pinit rinit s0 []) t.
Proof.
  destruct t as [[f s] r]. unfold stage_agrees.
  rewrite !(enabled_eff_cvec pinit rinit _ cvec), !(reads_eff_cvec pinit rinit _ cvec).
  reflexivity.
Qed.

Lemma w_default_erase x w : w_default (erase x w) = w_default w.
Proof. destruct x; reflexivity. Qed.

Lemma env_map_nil : env_map [] = [].
Proof. reflexivity. Qed.

(* reading the erased thing gives nothing to apply *)
Lemma content_erased x w p r c s :
  reads p r = Some (phys_of x) \/ reads p r = None ->
  match content (erase x w) p r with
  | RdNone => Built c
  | RdPanic => Panic
  | RdMap m => Built (apply_source c m s)
  end = Built c.
Proof.
  intros [H|H].
  - destruct x, r; cbn in H; try discriminate; cbn [content erase w_sys w_user w_env of_file];
      try reflexivity;
      destruct (p_proj p) as [[]|]; destruct (p_local p) as [[]|]; cbn in H; try discriminate;
      reflexivity.
  - destruct r; cbn in H; try discriminate; cbn [content].
    + destruct (p_proj p); [discriminate|reflexivity].
    + destruct (p_local p); [discriminate|reflexivity].
Qed.

(* reading anything else is unaffected by the erasure *)
Lemma content_other x w p1 p0 r :
  reads p1 r = reads p0 r -> reads p0 r <> Some (phys_of x) -> p_cli p1 = p_cli p0 ->
  content w p1 r = content (erase x w) p0 r.
Proof.
  intros He Hn Hc.
  destruct r; cbn [content reads] in *.
  - destruct x; try reflexivity. cbn in Hn. congruence.
  - destruct x; try reflexivity. cbn in Hn. congruence.
  - destruct (p_proj p1) as [f1|], (p_proj p0) as [f0|]; cbn in He; try discriminate; [|reflexivity].
    injection He as ->. destruct x, f0; cbn in *; try reflexivity; congruence.
  - destruct (p_local p1) as [f1|], (p_local p0) as [f0|]; cbn in He; try discriminate; [|reflexivity].
    injection He as ->. destruct x, f0; cbn in *; try reflexivity; congruence.
  - destruct x; try reflexivity. cbn in Hn. congruence.
  - rewrite Hc. reflexivity.
Qed.

Lemma stage_agrees_sound x w p1 p0 t o :
  p_cli p1 = p_cli p0 -> stage_agrees x p1 p0 t = true ->
  apply_stage w p1 o t = apply_stage (erase x w) p0 o t.
Proof.
  intros Hc H. destruct o as [|c]; [reflexivity|].
  destruct t as [[f s] r]. unfold stage_agrees in H. unfold apply_stage.
  destruct (src_eqb s (source_of x)).
  - apply andb_prop in H as [H1 H0]. apply negb_true_iff in H1. rewrite H1.
    destruct (enabled p0 f); [|reflexivity]. cbn [negb orb] in H0.
    symmetry. apply content_erased.
    apply orb_prop in H0 as [H0|H0]; [left|right];
      now destruct (ophys_eqb_spec (reads p0 r) (Some (phys_of x))),
                   (ophys_eqb_spec (reads p0 r) None).
  - apply andb_prop in H as [He H0]. apply eqb_prop in He. rewrite He.
    destruct (enabled p0 f); [|reflexivity]. cbn [negb orb] in H0.
    apply andb_prop in H0 as [Hr Hn].
    destruct (ophys_eqb_spec (reads p1 r) (reads p0 r)) as [Hr'|]; [|discriminate].
    destruct (ophys_eqb_spec (reads p0 r) (Some (phys_of x))) as [|Hn']; [discriminate|].
    now rewrite (content_other x w p1 p0 r Hr' Hn' Hc).
Qed.

Lemma fold_agrees x w p1 p0 : forall l o,
  p_cli p1 = p_cli p0 -> forallb (stage_agrees x p1 p0) l = true ->
  fold_left (apply_stage w p1) l o = fold_left (apply_stage (erase x w) p0) l o.
Proof.
  induction l as [|t l IH]; intros o Hc H; [reflexivity|].
  cbn [forallb] in H. apply andb_prop in H as [Ht Hl].
  cbn [fold_left]. rewrite (stage_agrees_sound x w p1 p0 t o Hc Ht). now apply IH.
Qed.

(* a switch that the tables wire correctly removes exactly its source: the configuration built
   with the switch equals, as a list, the one built without it in the world that lacks the source *)
Lemma switch_removes_exactly_lemma order pinit rinit x :
  switch_ok order pinit rinit x = true ->
  forall sws cvec w,
    cli_build order pinit rinit (sw_set sws x true) cvec w =
    cli_build order pinit rinit (sw_set sws x false) cvec (erase x w).
Proof.
  intros Hok sws cvec w. unfold switch_ok in Hok.
  rewrite forallb_forall in Hok. specialize (Hok sws (all_sws_complete sws)).
  unfold cli_build, build. rewrite w_default_erase.
  destruct (w_default w) as [d|]; [|reflexivity].
  apply fold_agrees; [reflexivity|].
  rewrite forallb_forall in Hok. apply forallb_forall. intros t It.
  rewrite stage_agrees_cvec. now apply Hok.
Qed.

Lemma not_noop_ok order pinit rinit x :
  ~ In x (noop_switches order pinit rinit) -> switch_ok order pinit rinit x = true.
Proof.
  intros H. unfold noop_switches in H. rewrite filter_In in H.
  destruct (switch_ok order pinit rinit x); [reflexivity|].
  exfalso. apply H. split; [destruct x; cbn; tauto|reflexivity].
Qed.

(* ---- typed getters --------------------------------------------------------------------------------- *)
Lemma getters_by_type c k v s :
  kget c k = Some (v, s) ->
  match v with
  | VStr x => get_str c k = GOk x s /\ get_bool c k = GMismatch /\ get_int c k = GMismatch /\ get_float c k = GMismatch
  | VBool x => get_bool c k = GOk x s /\ get_str c k = GMismatch /\ get_int c k = GMismatch /\ get_float c k = GMismatch
  | VInt x => get_int c k = GOk x s /\ get_str c k = GMismatch /\ get_bool c k = GMismatch /\ get_float c k = GMismatch
  | VFloat x => get_float c k = GOk x s /\ get_str c k = GMismatch /\ get_bool c k = GMismatch /\ get_int c k = GMismatch
  end.
Proof.
  intros H. unfold get_str, get_bool, get_int, get_float. rewrite H.
  destruct v; repeat split; reflexivity.
Qed.

(* ---- typing of raw strings ---------------------------------------------------------------------------- *)
Definition render_bool (b : bool) : str := if b then s_true else s_false.

Lemma parse_render_bool b : parse_to_value (render_bool b) = VBool b.
Proof. destruct b; vm_compute; reflexivity. Qed.

(* a string that is neither a bool, an i64 nor a float lexeme *)
Definition lookalike (s : str) : bool :=
  str_eqb s s_true || str_eqb s s_false || is_some (parse_i64 s) || is_float_lexeme s.

Lemma parse_not_lookalike s : lookalike s = false -> parse_to_value s = VStr s.
Proof.
  unfold lookalike, parse_to_value. intros H.
  apply orb_false_elim in H as [H Hf]. apply orb_false_elim in H as [H Hi].
  apply orb_false_elim in H as [Ht Hfa]. rewrite Ht, Hfa, Hf.
  destruct (parse_i64 s); [discriminate|reflexivity].
Qed.

Lemma parse_lookalike s : lookalike s = true -> forall x, parse_to_value s <> VStr x.
Proof.
  unfold lookalike, parse_to_value. intros H x.
  destruct (str_eqb s s_true); [discriminate|].
  destruct (str_eqb s s_false); [discriminate|].
  destruct (parse_i64 s); [discriminate|].
  cbn in H. rewrite H. discriminate.
Qed.

(* decimal rendering of integers: Coq's own Z.to_int, written out as bytes *)
Fixpoint uint_bytes (d : Decimal.uint) : str :=
  match d with
  | Decimal.Nil => []
  | Decimal.D0 r => 48 :: uint_bytes r | Decimal.D1 r => 49 :: uint_bytes r
  | Decimal.D2 r => 50 :: uint_bytes r | Decimal.D3 r => 51 :: uint_bytes r
  | Decimal.D4 r => 52 :: uint_bytes r | Decimal.D5 r => 53 :: uint_bytes r
  | Decimal.D6 r => 54 :: uint_bytes r | Decimal.D7 r => 55 :: uint_bytes r
  | Decimal.D8 r => 56 :: uint_bytes r | Decimal.D9 r => 57 :: uint_bytes r
  end.

Definition render_int (z : Z) : str :=
  match Z.to_int z with
  | Decimal.Pos d => uint_bytes d
  | Decimal.Neg d => 45 :: uint_bytes d
  end.

Lemma digits_val_acc d : forall acc : positive,
  digits_val (uint_bytes d) (Zpos acc) = Some (Zpos (Pos.of_uint_acc d acc)).
Proof.
  induction d; intros acc; cbn [uint_bytes digits_val Pos.of_uint_acc]; try reflexivity;
    match goal with
    | |- (if is_digit ?c then digits_val _ ?z else None) = Some (Z.pos (Pos.of_uint_acc _ ?q)) =>
      change (is_digit c) with true; cbv iota; replace z with (Z.pos q) by lia
    end; apply IHd.
Qed.

Lemma digits_val_uint d :
  digits_val (uint_bytes d) 0%Z = Some (Z.of_N (Pos.of_uint d)).
Proof.
  induction d; cbn [uint_bytes digits_val Pos.of_uint]; try reflexivity;
    match goal with
    | |- context [is_digit ?c] => change (is_digit c) with true; cbv iota
    end;
    try (cbn [Z.mul Z.add Z.of_N N.sub Pos.sub]; exact IHd);
    match goal with
    | |- digits_val _ ?z = _ =>
      match goal with
      | |- _ = Some (Z.of_N (Npos (Pos.of_uint_acc _ ?q))) => change z with (Zpos q)
      end
    end; apply digits_val_acc.
Qed.

Lemma uint_bytes_head d :
  d <> Decimal.Nil -> exists c r, uint_bytes d = c :: r /\ is_digit c = true.
Proof. destruct d; intros H; [congruence|..]; eexists _, _; split; reflexivity. Qed.

Lemma digit_not_sign c : is_digit c = true -> (c =? 45) = false /\ (c =? 43) = false.
Proof.
  unfold is_digit. intros H. apply andb_prop in H as [H1 H2]. apply N.leb_le in H1.
  split; apply N.eqb_neq; lia.
Qed.

Lemma digit_head_not_bool c r :
  is_digit c = true ->
  str_eqb (c :: r) s_true = false /\ str_eqb (c :: r) s_false = false.
Proof.
  unfold is_digit. intros H. apply andb_prop in H as [H1 H2]. apply N.leb_le in H2.
  unfold s_true, s_false.
  cbn [str_eqb].
  split; (replace (c =? _) with false; [reflexivity|symmetry; apply N.eqb_neq; lia]).
Qed.

Lemma parse_digit_string c r n :
  is_digit c = true -> digits_val (c :: r) 0%Z = Some n ->
  ((i64_min <=? n) && (n <=? i64_max))%Z = true ->
  parse_to_value (c :: r) = VInt n.
Proof.
  intros Hd Hv Hr. unfold parse_to_value.
  destruct (digit_head_not_bool c r Hd) as [-> ->].
  unfold parse_i64. destruct (digit_not_sign c Hd) as [-> ->].
  rewrite Hv, Hr. reflexivity.
Qed.

Lemma parse_neg_digit_string c r n :
  is_digit c = true -> digits_val (c :: r) 0%Z = Some n ->
  ((i64_min <=? - n) && (- n <=? i64_max))%Z = true ->
  parse_to_value (45 :: c :: r) = VInt (- n).
Proof.
  intros Hd Hv Hr. unfold parse_to_value.
  unfold s_true, s_false.
  cbn [str_eqb N.eqb Pos.eqb andb].
  unfold parse_i64. change (45 =? 45) with true. cbv iota.
  rewrite Hv, Hr. reflexivity.
Qed.

(* a canonically rendered i64 re-parses to the same integer *)
Lemma parse_render_int z :
  (i64_min <= z <= i64_max)%Z -> parse_to_value (render_int z) = VInt z.
Proof.
  intros Hr. unfold render_int. destruct z as [|q|q]; cbn [Z.to_int].
  - vm_compute. reflexivity.
  - destruct (uint_bytes_head (Pos.to_uint q) (DecimalPos.Unsigned.to_uint_nonnil q)) as (c & r & E & Hd).
    rewrite E. apply parse_digit_string; [exact Hd| |].
    + rewrite <- E, digits_val_uint, DecimalPos.Unsigned.of_to. reflexivity.
    + apply andb_true_intro. split; apply Z.leb_le; lia.
  - destruct (uint_bytes_head (Pos.to_uint q) (DecimalPos.Unsigned.to_uint_nonnil q)) as (c & r & E & Hd).
    rewrite E. change (Z.neg q) with (- Z.pos q)%Z. apply parse_neg_digit_string; [exact Hd| |].
    + rewrite <- E, digits_val_uint, DecimalPos.Unsigned.of_to. reflexivity.
    + apply andb_true_intro. split; apply Z.leb_le; lia.
Qed.

(* ---- cache prefix --------------------------------------------------------------------------------------- *)
Lemma track_prefix_spec tbl akey c name s a pre :
  kget c akey = Some (VStr name, s) -> alg_of_name tbl name = Some a -> prefix_of tbl a = Some pre ->
  track_prefix tbl akey c = Some pre.
Proof.
  intros H Ha Hp. unfold track_prefix, get_str. now rewrite H, Ha.
Qed.

Lemma track_prefix_fails_not_str tbl akey c v s :
  kget c akey = Some (v, s) -> (forall x, v <> VStr x) -> track_prefix tbl akey c = None.
Proof.
  intros H Hn. unfold track_prefix, get_str. rewrite H.
  destruct v; try reflexivity. exfalso. now apply (Hn s0).
Qed.

(* ---- P19: on Linux the system and the user configuration are ONE file ---------------------------------- *)
Definition linux (xdg : option kvs) (w : world) : world :=
  {| w_default := w_default w; w_sys := xdg; w_user := xdg;
     w_proj := w_proj w; w_local := w_local w; w_env := w_env w |}.

Definition known_alias (sws : switches) (xdg : option kvs) : bool :=
  negb (sw_sys sws) && match xdg with Some (_ :: _) => true | _ => false end.

Definition rd_norm (r : rd) : rd := match r with RdMap [] => RdNone | x => x end.

Lemma stage_rd_norm w w' p o t :
  (forall r, rd_norm (content w p r) = rd_norm (content w' p r)) ->
  apply_stage w p o t = apply_stage w' p o t.
Proof.
  intros H. destruct o as [|c]; [reflexivity|]. destruct t as [[f s] r]. unfold apply_stage.
  destruct (enabled p f); [|reflexivity]. specialize (H r).
  destruct (content w p r) as [| |[|x m]], (content w' p r) as [| |[|x' m']]; cbn in H;
    try discriminate; try reflexivity.
  now injection H as -> ->.
Qed.

Lemma build_rd_norm order w w' p :
  w_default w = w_default w' ->
  (forall r, rd_norm (content w p r) = rd_norm (content w' p r)) ->
  build order w p = build order w' p.
Proof.
  intros Hd H. unfold build. rewrite Hd. destruct (w_default w'); [|reflexivity].
  generalize (Built (apply_source [] k Default)). induction order as [|t l IH]; intros o; [reflexivity|].
  cbn [fold_left]. rewrite (stage_rd_norm w w' p o t H). apply IH.
Qed.

Lemma user_switch_alias_lemma order pinit rinit :
  switch_ok order pinit rinit NoUser = true -> switch_ok order pinit rinit NoSystem = true ->
  forall sws cvec xdg w, known_alias sws xdg = false ->
    cli_build order pinit rinit (sw_set sws NoUser true) cvec (linux xdg w) =
    cli_build order pinit rinit (sw_set sws NoUser false) cvec (linux None w).
Proof.
  intros Hu Hs sws cvec xdg w Hk.
  rewrite (switch_removes_exactly_lemma order pinit rinit NoUser Hu).
  unfold known_alias in Hk. apply andb_false_elim in Hk as [Hk|Hk].
  - apply negb_false_iff in Hk.
    replace (sw_set sws NoUser false) with (sw_set (sw_set sws NoUser false) NoSystem true)
      by (destruct sws; cbn in *; subst; reflexivity).
    rewrite !(switch_removes_exactly_lemma order pinit rinit NoSystem Hs). reflexivity.
  - unfold cli_build. apply build_rd_norm; [reflexivity|].
    intros r. destruct xdg as [[|x m]|]; try discriminate; destruct r; reflexivity.
Qed.

(* ---- every switch in the no-op class really fails (witness: only that source defines one key) ----------- *)
Definition wkey : key := s2l "k".
Definition wit (x : switch) : world :=
  let kv := Some [(wkey, VBool true)] in
  {| w_default := Some [];
     w_sys := match x with NoSystem => kv | _ => None end;
     w_user := match x with NoUser => kv | _ => None end;
     w_proj := match x with NoProject => kv | _ => None end;
     w_local := match x with NoLocal => kv | _ => None end;
     w_env := match x with NoEnv => [(s2l "XVC_k", s2l "true")] | _ => [] end |}.

Definition probe_same (a b : outcome) : bool :=
  match a, b with
  | Built c1, Built c2 => ovs_eqb (kget c1 wkey) (kget c2 wkey)
  | Panic, Panic => true
  | _, _ => false
  end.

Definition noop_witness_differs order pinit rinit (x : switch) : bool :=
  negb (probe_same (cli_build order pinit rinit (sw_set no_switches x true) [] (wit x))
                   (cli_build order pinit rinit (sw_set no_switches x false) [] (erase x (wit x)))).

Lemma value_eqb_refl v : value_eqb v v = true.
Proof.
  destruct v; cbn; [apply eqb_reflx | apply Z.eqb_refl | apply str_eqb_refl | apply str_eqb_refl].
Qed.

Lemma probe_same_refl o : probe_same o o = true.
Proof.
  destruct o as [|c]; [reflexivity|]. unfold probe_same. destruct (kget c wkey) as [[v s]|]; [|reflexivity].
  cbn. rewrite value_eqb_refl. now destruct s.
Qed.

Lemma switch_noop_refuted_lemma order pinit rinit :
  forallb (noop_witness_differs order pinit rinit) (noop_switches order pinit rinit) = true ->
  forall x, In x (noop_switches order pinit rinit) ->
  exists sws cvec w,
    cli_build order pinit rinit (sw_set sws x true) cvec w <>
    cli_build order pinit rinit (sw_set sws x false) cvec (erase x w).
Proof.
  intros H x Hin. rewrite forallb_forall in H. specialize (H x Hin).
  exists no_switches, [], (wit x). intros E. unfold noop_witness_differs in H.
  rewrite E, probe_same_refl in H. discriminate.
Qed.
