(* How a `key=value` option of the command line is split (XvcConfig::parse_key_value_vector).
   Proofs about Model.parse_kv_once / parse_kv_all / parse_kv.                                    *)
From Coq Require Import List Bool NArith Lia.
From XV Require Import Base.Amap Config.Types Config.Model.
From XV Require Gen.CliSwitches.
Import ListNotations.
Open Scope N_scope.

Definition has_eq (s : str) : bool := existsb (fun c => c =? 61) s.

(* ---- splitn(2, '='): the key is the text before the FIRST '=', the value is ALL the rest -------- *)
Lemma split_once_app (sep : N) (k v : str) :
  existsb (fun c => c =? sep) k = false -> split_once sep (k ++ sep :: v) = Some (k, v).
Proof.
  induction k as [|c k IH]; cbn [app split_once existsb]; intros H.
  - rewrite N.eqb_refl. reflexivity.
  - apply orb_false_iff in H. destruct H as [Hc Hk]. rewrite Hc, (IH Hk). reflexivity.
Qed.

Lemma split_once_none (sep : N) (s : str) :
  existsb (fun c => c =? sep) s = false -> split_once sep s = None.
Proof.
  induction s as [|c s IH]; cbn [split_once existsb]; intros H; [reflexivity|].
  apply orb_false_iff in H. destruct H as [Hc Hs]. rewrite Hc, (IH Hs). reflexivity.
Qed.

Lemma split_once_some (sep : N) (s k v : str) :
  split_once sep s = Some (k, v) -> s = k ++ sep :: v /\ existsb (fun c => c =? sep) k = false.
Proof.
  revert k v. induction s as [|c s IH]; cbn [split_once]; intros k v H; [discriminate|].
  destruct (c =? sep) eqn:Hc.
  - injection H as <- <-. apply N.eqb_eq in Hc. subst c. split; reflexivity.
  - destruct (split_once sep s) as [[a b]|] eqn:E; [|discriminate].
    injection H as <- <-. destruct (IH a b eq_refl) as [-> Ha]. split; [reflexivity|].
    cbn [existsb]. rewrite Hc, Ha. reflexivity.
Qed.

Lemma parse_kv_once_whole (k v : str) :
  has_eq k = false -> parse_kv_once (k ++ 61 :: v) = Some (trim k, parse_to_value (trim v)).
Proof. intros H. unfold parse_kv_once. rewrite (split_once_app 61 k v H). reflexivity. Qed.

Lemma parse_kv_once_panics_iff (s : str) : parse_kv_once s = None <-> has_eq s = false.
Proof.
  unfold parse_kv_once, has_eq. split.
  - destruct (existsb (fun c => c =? 61) s) eqn:E; [|reflexivity].
    intros H. exfalso. apply existsb_exists in E. destruct E as [c [Hin Hc]].
    apply N.eqb_eq in Hc. subst c. apply in_split in Hin. destruct Hin as [l1 [l2 ->]].
    (* take the first '=' *)
    assert (Hx : exists a b, split_once 61 (l1 ++ 61 :: l2) = Some (a, b)).
    { clear H. induction l1 as [|c l1 IH]; cbn [app split_once].
      - rewrite N.eqb_refl. eauto.
      - destruct (c =? 61); [eauto|]. destruct IH as [a [b ->]]. eauto. }
    destruct Hx as [a [b Hab]]. rewrite Hab in H. discriminate.
  - intros H. rewrite (split_once_none 61 s H). reflexivity.
Qed.

(* ---- split('='): elements[1] is the text between the first and the second '=' ------------------ *)
Lemma split_at_app (sep : N) (k r : str) :
  existsb (fun c => c =? sep) k = false -> split_at sep (k ++ sep :: r) = k :: split_at sep r.
Proof.
  induction k as [|c k IH]; cbn [app split_at existsb]; intros H.
  - rewrite N.eqb_refl. reflexivity.
  - apply orb_false_iff in H. destruct H as [Hc Hk]. rewrite Hc, (IH Hk). reflexivity.
Qed.

Lemma split_at_nosep (sep : N) (s : str) :
  existsb (fun c => c =? sep) s = false -> split_at sep s = [s].
Proof.
  induction s as [|c s IH]; cbn [split_at existsb]; intros H; [reflexivity|].
  apply orb_false_iff in H. destruct H as [Hc Hs]. rewrite Hc, (IH Hs). reflexivity.
Qed.

(* with a second '=' the old splitting keeps only the part before it *)
Lemma parse_kv_all_truncates (k v rest : str) :
  has_eq k = false -> has_eq v = false ->
  parse_kv_all (k ++ 61 :: v ++ 61 :: rest) = Some (trim k, parse_to_value (trim v)).
Proof.
  intros Hk Hv. unfold parse_kv_all.
  rewrite (split_at_app 61 k _ Hk), (split_at_app 61 v _ Hv). reflexivity.
Qed.

(* the two agree exactly on the options whose value has no '=' *)
Lemma parse_kv_agree_single (k v : str) :
  has_eq k = false -> has_eq v = false ->
  parse_kv_all (k ++ 61 :: v) = parse_kv_once (k ++ 61 :: v).
Proof.
  intros Hk Hv. rewrite (parse_kv_once_whole k v Hk). unfold parse_kv_all.
  rewrite (split_at_app 61 k _ Hk), (split_at_nosep 61 v Hv). reflexivity.
Qed.

Lemma parse_kv_all_panics_iff (s : str) : parse_kv_all s = None <-> has_eq s = false.
Proof.
  unfold parse_kv_all, has_eq. split.
  - destruct (existsb (fun c => c =? 61) s) eqn:E; [|reflexivity].
    intros H. exfalso. apply existsb_exists in E. destruct E as [c [Hin Hc]].
    apply N.eqb_eq in Hc. subst c.
    assert (Hx : exists a b l, split_at 61 s = a :: b :: l).
    { clear H. induction s as [|c s IH]; [destruct Hin|]. cbn [split_at].
      destruct (c =? 61) eqn:Hc.
      - destruct (split_at 61 s) as [|b l] eqn:Es; [destruct s; cbn in Es; [discriminate|]|eauto].
        destruct (n =? 61); [discriminate|]. destruct (split_at 61 s); discriminate.
      - destruct Hin as [->|Hin]; [rewrite N.eqb_refl in Hc; discriminate|].
        destruct (IH Hin) as [a [b [l ->]]]. eauto. }
    destruct Hx as [a [b [l Hab]]]. rewrite Hab in H. discriminate.
  - intros H. rewrite (split_at_nosep 61 s H). reflexivity.
Qed.

(* the variant the code has now *)
Lemma parse_kv_current_once : Gen.CliSwitches.cli_split_once = true -> forall s, parse_kv s = parse_kv_once s.
Proof. intros H s. unfold parse_kv, parse_kv_with. rewrite H. reflexivity. Qed.

Lemma parse_kv_current_all : Gen.CliSwitches.cli_split_once = false -> forall s, parse_kv s = parse_kv_all s.
Proof. intros H s. unfold parse_kv, parse_kv_with. rewrite H. reflexivity. Qed.

(* the panic condition does not depend on the variant *)
Lemma parse_kv_panics_iff (s : str) : parse_kv s = None <-> has_eq s = false.
Proof.
  unfold parse_kv, parse_kv_with. destruct Gen.CliSwitches.cli_split_once.
  - apply parse_kv_once_panics_iff.
  - apply parse_kv_all_panics_iff.
Qed.
