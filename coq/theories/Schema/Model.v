(* M-SCHEMA: executable model of `xvc pipeline export` / `import` and of the commands that build
   pipelines, over the store model M-ECS.  Written line by line from
     pipeline/src/pipeline/api/{export,import,new,update,step_new,step_update,step_dependency,
                                step_output}.rs, pipeline/src/lib.rs (XvcPipeline::from_name),
     pipeline/src/pipeline/step.rs (XvcStep::from_name), ecs/src/ecs/{r1nstore,r11store}.rs.
   No proofs in this file: it must stay runnable when a proof breaks.

   Values.  Names, commands and work directories are byte strings ([list N]).  Dependencies and
   outputs are opaque payloads ([list N]) ordered lexicographically: all that export needs from
   XvcDependency / XvcOutput is the total order of their derived [Ord].  *)
From Coq Require Import List Bool NArith.
From XV Require Import Base.Amap Ecs.Model.
Import ListNotations.
Set Implicit Arguments.

Notation str := (list N) (only parsing).
Notation payload := (list N) (only parsing).

Fixpoint lN_eqb (a b : list N) : bool :=
  match a, b with
  | [], [] => true
  | x :: a', y :: b' => N.eqb x y && lN_eqb a' b'
  | _, _ => false
  end.
(* lexicographic "less or equal" *)
Fixpoint lN_leb (a b : list N) : bool :=
  match a, b with
  | [], _ => true
  | _ :: _, [] => false
  | x :: a', y :: b' => if N.ltb x y then true else if N.eqb x y then lN_leb a' b' else false
  end.

(* XvcStepInvalidate *)
Inductive inval := ByDependencies | Always | Never.
Definition inval_eqb (a b : inval) : bool :=
  match a, b with
  | ByDependencies, ByDependencies | Always, Always | Never, Never => true
  | _, _ => false
  end.

(* XvcStepSchema, XvcPipelineSchema *)
Record step_schema := { ss_name : str; ss_command : str; ss_invalidate : inval;
                        ss_deps : list payload; ss_outs : list payload }.
Record schema := { sc_version : N; sc_name : str; sc_workdir : str; sc_steps : list step_schema }.

(* ---- sorting (itertools::sorted = stable sort by Ord) ----------------------------------- *)
Section Sort.
Variable A : Type.
Variable leb : A -> A -> bool.
Fixpoint ins (x : A) (l : list A) : list A :=
  match l with
  | [] => [x]
  | y :: r => if leb x y then x :: y :: r else y :: ins x r
  end.
Definition isort (l : list A) : list A := fold_right ins [] l.
End Sort.

(* Ord on XvcEntity(u64,u64) is lexicographic; [lee] is its "<=" *)
Definition lee (a b : entity) : bool := negb (lte b a).
(* steps.iter().sorted(): pairs (entity, step); entities are distinct keys of one HStore, so the
   step component never decides *)
Definition sort_steps (l : list (entity * str)) : list (entity * str) :=
  isort (fun a b => lee (fst a) (fst b)) l.
Definition sort_payloads (l : list payload) : list payload := isort lN_leb l.

Fixpoint map_opt {A B} (f : A -> option B) (l : list A) : option (list B) :=
  match l with
  | [] => Some []
  | x :: r => match f x with
              | None => None
              | Some y => match map_opt f r with Some ys => Some (y :: ys) | None => None end
              end
  end.

(* ---- the repository: the ten stores the pipeline commands touch, and the entity generator -- *)
Record repo := {
  r_pipelines : store str;        (* XvcStore<XvcPipeline>                      name           *)
  r_rundirs : store str;          (* XvcStore<XvcPipelineRunDir>                               *)
  r_steps : store str;            (* XvcStore<XvcStep>                          name           *)
  r_step_parent : store entity;   (* XvcStore<ChildEntity<XvcStep,XvcPipeline>>                *)
  r_commands : store str;         (* XvcStore<XvcStepCommand>                                  *)
  r_invalidates : store inval;    (* XvcStore<XvcStepInvalidate>                               *)
  r_deps : store payload;         (* XvcStore<XvcDependency>                                   *)
  r_dep_parent : store entity;    (* XvcStore<ChildEntity<XvcDependency,XvcStep>>              *)
  r_outs : store payload;         (* XvcStore<XvcOutput>                                       *)
  r_out_parent : store entity;    (* XvcStore<ChildEntity<XvcOutput,XvcStep>>                  *)
  r_gen : gen }.

Definition set_pipelines r x := {| r_pipelines := x; r_rundirs := r_rundirs r; r_steps := r_steps r;
  r_step_parent := r_step_parent r; r_commands := r_commands r; r_invalidates := r_invalidates r;
  r_deps := r_deps r; r_dep_parent := r_dep_parent r; r_outs := r_outs r;
  r_out_parent := r_out_parent r; r_gen := r_gen r |}.
Definition set_rundirs r x := {| r_pipelines := r_pipelines r; r_rundirs := x; r_steps := r_steps r;
  r_step_parent := r_step_parent r; r_commands := r_commands r; r_invalidates := r_invalidates r;
  r_deps := r_deps r; r_dep_parent := r_dep_parent r; r_outs := r_outs r;
  r_out_parent := r_out_parent r; r_gen := r_gen r |}.
Definition set_steps r x := {| r_pipelines := r_pipelines r; r_rundirs := r_rundirs r; r_steps := x;
  r_step_parent := r_step_parent r; r_commands := r_commands r; r_invalidates := r_invalidates r;
  r_deps := r_deps r; r_dep_parent := r_dep_parent r; r_outs := r_outs r;
  r_out_parent := r_out_parent r; r_gen := r_gen r |}.
Definition set_step_parent r x := {| r_pipelines := r_pipelines r; r_rundirs := r_rundirs r;
  r_steps := r_steps r; r_step_parent := x; r_commands := r_commands r;
  r_invalidates := r_invalidates r; r_deps := r_deps r; r_dep_parent := r_dep_parent r;
  r_outs := r_outs r; r_out_parent := r_out_parent r; r_gen := r_gen r |}.
Definition set_commands r x := {| r_pipelines := r_pipelines r; r_rundirs := r_rundirs r;
  r_steps := r_steps r; r_step_parent := r_step_parent r; r_commands := x;
  r_invalidates := r_invalidates r; r_deps := r_deps r; r_dep_parent := r_dep_parent r;
  r_outs := r_outs r; r_out_parent := r_out_parent r; r_gen := r_gen r |}.
Definition set_invalidates r x := {| r_pipelines := r_pipelines r; r_rundirs := r_rundirs r;
  r_steps := r_steps r; r_step_parent := r_step_parent r; r_commands := r_commands r;
  r_invalidates := x; r_deps := r_deps r; r_dep_parent := r_dep_parent r;
  r_outs := r_outs r; r_out_parent := r_out_parent r; r_gen := r_gen r |}.
Definition set_deps r x := {| r_pipelines := r_pipelines r; r_rundirs := r_rundirs r;
  r_steps := r_steps r; r_step_parent := r_step_parent r; r_commands := r_commands r;
  r_invalidates := r_invalidates r; r_deps := x; r_dep_parent := r_dep_parent r;
  r_outs := r_outs r; r_out_parent := r_out_parent r; r_gen := r_gen r |}.
Definition set_dep_parent r x := {| r_pipelines := r_pipelines r; r_rundirs := r_rundirs r;
  r_steps := r_steps r; r_step_parent := r_step_parent r; r_commands := r_commands r;
  r_invalidates := r_invalidates r; r_deps := r_deps r; r_dep_parent := x;
  r_outs := r_outs r; r_out_parent := r_out_parent r; r_gen := r_gen r |}.
Definition set_outs r x := {| r_pipelines := r_pipelines r; r_rundirs := r_rundirs r;
  r_steps := r_steps r; r_step_parent := r_step_parent r; r_commands := r_commands r;
  r_invalidates := r_invalidates r; r_deps := r_deps r; r_dep_parent := r_dep_parent r;
  r_outs := x; r_out_parent := r_out_parent r; r_gen := r_gen r |}.
Definition set_out_parent r x := {| r_pipelines := r_pipelines r; r_rundirs := r_rundirs r;
  r_steps := r_steps r; r_step_parent := r_step_parent r; r_commands := r_commands r;
  r_invalidates := r_invalidates r; r_deps := r_deps r; r_dep_parent := r_dep_parent r;
  r_outs := r_outs r; r_out_parent := x; r_gen := r_gen r |}.
Definition set_gen r x := {| r_pipelines := r_pipelines r; r_rundirs := r_rundirs r;
  r_steps := r_steps r; r_step_parent := r_step_parent r; r_commands := r_commands r;
  r_invalidates := r_invalidates r; r_deps := r_deps r; r_dep_parent := r_dep_parent r;
  r_outs := r_outs r; r_out_parent := r_out_parent r; r_gen := x |}.

(* the three 1-N relations as R1NStore<T,U> views of the repository (load_r1nstore) and the
   write-back of all three component stores (save_r1nstore) *)
Definition pstep_r1n r : r1n str str :=
  {| parents := r_pipelines r; children := r_steps r; child_parents := r_step_parent r |}.
Definition set_pstep r (x : r1n str str) :=
  set_step_parent (set_steps (set_pipelines r (parents x)) (children x)) (child_parents x).
Definition sdep_r1n r : r1n str payload :=
  {| parents := r_steps r; children := r_deps r; child_parents := r_dep_parent r |}.
Definition set_sdep r (x : r1n str payload) :=
  set_dep_parent (set_deps (set_steps r (parents x)) (children x)) (child_parents x).
Definition sout_r1n r : r1n str payload :=
  {| parents := r_steps r; children := r_outs r; child_parents := r_out_parent r |}.
Definition set_sout r (x : r1n str payload) :=
  set_out_parent (set_outs (set_steps r (parents x)) (children x)) (child_parents x).

(* XvcRoot::new_entity *)
Definition new_entity (r : repo) : entity * repo :=
  let '(e, g) := gen_next (r_gen r) in (e, set_gen r g).
(* every command is a process of its own: the generator is loaded with a fresh random word,
   the counter is the saved one (linear history, C08 entities_fresh_linear) *)
Definition set_rnd (r : repo) (rnd : N) : repo :=
  set_gen r {| gcounter := gcounter (r_gen r); grnd := rnd; gdirty := false |}.

(* `bs.iter().find(|(_, p)| p.name == name)` over the BTreeMap: first in entity order.
   XvcPipeline::from_name and cmd_export use the same expression. *)
Definition find_pipeline (r : repo) (n : str) : option (entity * str) :=
  find (fun ep => lN_eqb (snd ep) n) (smap (r_pipelines r)).

Inductive err :=
| CannotFindPipeline | NoPipelinesFound | PipelineAlreadyFound | KeyAlreadyFound
| StepAlreadyFoundInPipeline | StepNotFoundInPipeline | KeyNotFound | MultipleCorrespondingKeysFound
| DependencyNotFound | ParseError.

(* ---- export --------------------------------------------------------------------------------- *)
Section Export.
(* iteration order of HStore (a HashMap): any rearrangement of the list *)
Variable hperm : forall A : Type, list A -> list A.

(* one XvcStepSchema; None models the panic of `commands[e]` on a step without command *)
Definition export_step (r : repo) (es : entity * str) : option step_schema :=
  match eget (smap (r_commands r)) (fst es) with
  | None => None
  | Some c =>
    Some {| ss_name := snd es;
            ss_command := c;
            ss_invalidate := match eget (smap (r_invalidates r)) (fst es) with
                             | Some i => i | None => ByDependencies end;
            ss_deps := sort_payloads (map snd (hperm (children_of (sdep_r1n r) (fst es))));
            ss_outs := sort_payloads (map snd (hperm (children_of (sout_r1n r) (fst es)))) |}
  end.

Inductive eres := EOk (s : schema) | EErr (e : err) | EPanic.

Definition export (r : repo) (n : str) : eres :=
  match find_pipeline r n with
  | None => EErr CannotFindPipeline
  | Some (pe, pname) =>
    let workdir := match eget (smap (r_rundirs r)) pe with Some wd => wd | None => [] end in
    let steps := sort_steps (hperm (children_of (pstep_r1n r) pe)) in
    match map_opt (export_step r) steps with
    | None => EPanic
    | Some ss => EOk {| sc_version := 1; sc_name := pname; sc_workdir := workdir; sc_steps := ss |}
    end
  end.
End Export.

(* ---- import --------------------------------------------------------------------------------- *)
(* `for x in list { let e = new_entity(); rs.insert(parent_e, parent, e, x) }` on one R1NStore *)
Fixpoint r1n_add_all (R : r1n str payload) (g : gen) (pe : entity) (pc : str) (l : list payload)
  : r1n str payload * gen :=
  match l with
  | [] => (R, g)
  | x :: rest => let '(e, g1) := gen_next g in
                 r1n_add_all (r1n_insert lN_eqb lN_eqb R pe pc e x) g1 pe pc rest
  end.

Definition add_deps (r : repo) (se : entity) (sname : str) (l : list payload) : repo :=
  let '(R, g) := r1n_add_all (sdep_r1n r) (r_gen r) se sname l in set_gen (set_sdep r R) g.
Definition add_outs (r : repo) (se : entity) (sname : str) (l : list payload) : repo :=
  let '(R, g) := r1n_add_all (sout_r1n r) (r_gen r) se sname l in set_gen (set_sout r R) g.

(* body of `for step_schema in schema.steps` *)
Definition import_step (pe : entity) (pname : str) (r : repo) (ss : step_schema) : repo :=
  let '(se, r) := new_entity r in
  (* R1NStore<XvcPipeline,XvcStep>::insert(pipeline_e, pipeline, step_e, step) *)
  let r := set_pstep r (r1n_insert lN_eqb lN_eqb (pstep_r1n r) pe pname se (ss_name ss)) in
  (* R11Store<XvcStep,XvcStepCommand>::insert(step_e, step, command) *)
  let r := set_commands (set_steps r (fst (insert lN_eqb (r_steps r) se (ss_name ss))))
                        (fst (insert lN_eqb (r_commands r) se (ss_command ss))) in
  (* R11Store<XvcStep,XvcStepInvalidate>::insert(step_e, step, invalidate) *)
  let r := set_invalidates (set_steps r (fst (insert lN_eqb (r_steps r) se (ss_name ss))))
                           (fst (insert inval_eqb (r_invalidates r) se (ss_invalidate ss))) in
  let r := add_deps r se (ss_name ss) (ss_deps ss) in
  add_outs r se (ss_name ss) (ss_outs ss).

Inductive res := ROk (r : repo) | RErr (e : err) | RPanic.

(* cmd_import after the file has been parsed *)
Definition import (r : repo) (n : str) (s : schema) (overwrite : bool) : res :=
  if negb (N.eqb (sc_version s) 1) then RPanic            (* assert!(schema.version == 1) *)
  else
    let cont (r : repo) :=
      let '(pe, r) := new_entity r in
      (* R11Store<XvcPipeline,XvcPipelineRunDir>::insert *)
      let r := set_rundirs (set_pipelines r (fst (insert lN_eqb (r_pipelines r) pe n)))
                           (fst (insert lN_eqb (r_rundirs r) pe (sc_workdir s))) in
      ROk (fold_left (import_step pe n) (sc_steps s) r) in
    match find_pipeline r n with
    | Some (old_e, _) =>
      if overwrite
      then (* only the pipeline record goes; steps etc. are left behind, as the code says *)
           cont (set_pipelines r (fst (remove lN_eqb (r_pipelines r) old_e)))
      else RErr PipelineAlreadyFound
    | None => cont r
    end.

(* ---- the commands that build pipelines ------------------------------------------------------- *)
(* XvcStep::from_name: children_of(pipeline).entity_by_value(step).  The HStore scan returns an
   arbitrary holder when two steps of a pipeline share a name (only possible through a hand-written
   import file); the model takes the first in entity order. *)
Definition find_step (r : repo) (pe : entity) (s : str) : option entity :=
  match find (fun es => lN_eqb (snd es) s) (children_of (pstep_r1n r) pe) with
  | Some (e, _) => Some e
  | None => None
  end.

Inductive cmd :=
| CNew (p : str) (workdir : option str)                       (* pipeline -p P new [--workdir W] *)
| CRename (p q : str)                                         (* pipeline -p P update --rename Q *)
| CStepNew (p s c : str) (w : option inval)                   (* step new -s S -c C [--when W]   *)
| CStepUpdate (p s : str) (c : option str) (w : option inval) (* step update                     *)
| CDeps (p s : str) (l : list payload)                        (* step dependency (CLI order)     *)
| COuts (p s : str) (l : list payload)                        (* step output                     *)
| CRecord (p s : str) (old new : payload)   (* pipeline run: update_with_actual replaces the
                                               recorded value of one dependency, same entity      *)
| CImport (p : str) (s : schema) (overwrite : bool).

Section Exec.
(* behaviour of `update --rename` after the fix that refuses an existing target name *)
Variable fixed_rename : bool.

Definition with_step (r : repo) (p s : str) (k : entity -> entity -> res) : res :=
  match find_pipeline r p with
  | None => RErr NoPipelinesFound
  | Some (pe, _) => match find_step r pe s with
                    | None => RErr StepNotFoundInPipeline
                    | Some se => k pe se
                    end
  end.

Definition exec (r : repo) (c : cmd) : res :=
  match c with
  | CNew p wd =>
    if existsb (fun ep => lN_eqb (snd ep) p) (smap (r_pipelines r)) then RErr KeyAlreadyFound
    else let '(pe, r) := new_entity r in
         let r := set_pipelines r (fst (insert lN_eqb (r_pipelines r) pe p)) in
         ROk (match wd with
              | Some w => set_rundirs r (fst (insert lN_eqb (r_rundirs r) pe w))
              | None => r end)
  | CRename p q =>
    match filter (fun ep => lN_eqb (snd ep) p) (smap (r_pipelines r)) with
    | [] => RErr KeyNotFound
    | [(pe, _)] =>
      if fixed_rename && negb (lN_eqb p q) && existsb (fun ep => lN_eqb (snd ep) q) (smap (r_pipelines r))
      then RErr KeyAlreadyFound
      else ROk (set_pipelines r (fst (update lN_eqb (r_pipelines r) pe q)))
    | _ => RErr MultipleCorrespondingKeysFound
    end
  | CStepNew p s c w =>
    match find_pipeline r p with
    | None => RErr NoPipelinesFound
    | Some (pe, pname) =>
      match find_step r pe s with
      | Some _ => RErr StepAlreadyFoundInPipeline
      | None =>
        let '(se, r) := new_entity r in
        let i := match w with Some i => i | None => ByDependencies end in
        let r := set_invalidates (set_steps r (fst (insert lN_eqb (r_steps r) se s)))
                                 (fst (insert inval_eqb (r_invalidates r) se i)) in
        let r := set_commands r (fst (insert lN_eqb (r_commands r) se c)) in
        ROk (set_pstep r (r1n_insert lN_eqb lN_eqb (pstep_r1n r) pe pname se s))
      end
    end
  | CStepUpdate p s c w =>
    with_step r p s (fun _ se =>
      let i := match w with Some i => i | None => ByDependencies end in
      let r := set_invalidates (set_steps r (fst (insert lN_eqb (r_steps r) se s)))
                               (fst (insert inval_eqb (r_invalidates r) se i)) in
      ROk (match c with
           | Some c => set_commands r (fst (insert lN_eqb (r_commands r) se c))
           | None => r end))
  | CDeps p s l => with_step r p s (fun _ se => ROk (add_deps r se s l))
  | COuts p s l => with_step r p s (fun _ se => ROk (add_outs r se s l))
  | CRecord p s old new =>
    with_step r p s (fun _ se =>
      match find (fun d => lN_eqb (snd d) old) (children_of (sdep_r1n r) se) with
      | None => RErr DependencyNotFound
      | Some (de, _) => ROk (set_deps r (fst (insert lN_eqb (r_deps r) de new)))
      end)
  | CImport p s ow => import r p s ow
  end.

(* a history: each command runs in its own process with its own random word; a failed command
   leaves the stores as they were *)
Definition exec1 (r : repo) (x : N * cmd) : repo :=
  match exec (set_rnd r (fst x)) (snd x) with ROk r' => r' | _ => r end.
Definition run_cmds (l : list (N * cmd)) (r : repo) : repo := fold_left exec1 l r.
End Exec.

(* `xvc init`: pipeline::init inserts the default pipeline under the first entity *)
Definition init_repo (rnd : N) (default_name : str) : repo :=
  let '(pe, g) := gen_next (gen_init rnd) in
  {| r_pipelines := fst (insert lN_eqb (new_store lN_eqb) pe default_name);
     r_rundirs := new_store lN_eqb; r_steps := new_store lN_eqb;
     r_step_parent := new_store eqe; r_commands := new_store lN_eqb;
     r_invalidates := new_store inval_eqb; r_deps := new_store lN_eqb;
     r_dep_parent := new_store eqe; r_outs := new_store lN_eqb; r_out_parent := new_store eqe;
     r_gen := g |}.

(* ---- what the property talks about ----------------------------------------------------------- *)
Definition rename_schema (n : str) (s : schema) : schema :=
  {| sc_version := sc_version s; sc_name := n; sc_workdir := sc_workdir s; sc_steps := sc_steps s |}.
(* the normal form export produces: dependencies and outputs of every step sorted *)
Definition norm_step (ss : step_schema) : step_schema :=
  {| ss_name := ss_name ss; ss_command := ss_command ss; ss_invalidate := ss_invalidate ss;
     ss_deps := sort_payloads (ss_deps ss); ss_outs := sort_payloads (ss_outs ss) |}.
Definition norm_schema (s : schema) : schema :=
  {| sc_version := sc_version s; sc_name := sc_name s; sc_workdir := sc_workdir s;
     sc_steps := map norm_step (sc_steps s) |}.

(* number of entities an import draws *)
Definition step_cost (ss : step_schema) : N :=
  1 + N.of_nat (length (ss_deps ss)) + N.of_nat (length (ss_outs ss)).
Definition schema_cost (s : schema) : N := fold_right (fun ss a => step_cost ss + a)%N 1%N (sc_steps s).

(* pipeline names are pairwise distinct *)
Fixpoint nodupb (l : list str) : bool :=
  match l with
  | [] => true
  | x :: r => negb (existsb (lN_eqb x) r) && nodupb r
  end.
Definition uniq_names (r : repo) : bool := nodupb (map snd (smap (r_pipelines r))).

(* all ten stores re-loaded from their event logs (any split of the log into files loads to this,
   see from_dir) *)
Definition reload_store {V} (veqb : V -> V -> bool) (s : store V) : store V :=
  from_event_logs veqb (sprev s ++ scur s) [].
Definition reload (r : repo) : repo :=
  {| r_pipelines := reload_store lN_eqb (r_pipelines r); r_rundirs := reload_store lN_eqb (r_rundirs r);
     r_steps := reload_store lN_eqb (r_steps r); r_step_parent := reload_store eqe (r_step_parent r);
     r_commands := reload_store lN_eqb (r_commands r);
     r_invalidates := reload_store inval_eqb (r_invalidates r);
     r_deps := reload_store lN_eqb (r_deps r); r_dep_parent := reload_store eqe (r_dep_parent r);
     r_outs := reload_store lN_eqb (r_outs r); r_out_parent := reload_store eqe (r_out_parent r);
     r_gen := r_gen r |}.

(* `pipeline list`: names in store order *)
Definition list_names (r : repo) : list str := map snd (smap (r_pipelines r)).
