(* M-SCHEMA: proofs about export / import (Schema/Model.v) over the store model (Ecs/Model.v). *)
From Coq Require Import List Bool NArith Lia Permutation Sorted.
From XV Require Import Base.Amap Ecs.Model Ecs.Proofs Schema.Model.
Import ListNotations.

(* ---- equalities and orders on the value types -------------------------------------------- *)
Lemma lN_eqb_spec a b : reflect (a = b) (lN_eqb a b).
Proof.
  revert b; induction a as [|x a IH]; intros [|y b]; cbn [lN_eqb]; try (constructor; congruence).
  destruct (N.eqb_spec x y) as [->|Hne]; cbn [andb].
  - destruct (IH b); constructor; congruence.
  - constructor; congruence.
Qed.
Lemma lN_eqb_refl a : lN_eqb a a = true.
Proof. destruct (lN_eqb_spec a a); congruence. Qed.

Lemma lN_eqb_true a b : lN_eqb a b = true -> a = b.
Proof. destruct (lN_eqb_spec a b); [auto|discriminate]. Qed.

Lemma inval_eqb_spec a b : reflect (a = b) (inval_eqb a b).
Proof. destruct a, b; cbn; constructor; congruence. Qed.

Lemma lN_leb_total a b : lN_leb a b = true \/ lN_leb b a = true.
Proof.
  revert b; induction a as [|x a IH]; intros [|y b]; cbn [lN_leb]; auto.
  destruct (N.ltb_spec x y), (N.ltb_spec y x); auto; try lia.
  assert (x = y) by lia; subst. rewrite N.eqb_refl. apply IH.
Qed.
Lemma lN_leb_trans a b c : lN_leb a b = true -> lN_leb b c = true -> lN_leb a c = true.
Proof.
  revert b c; induction a as [|x a IH]; intros [|y b] [|z c]; cbn [lN_leb]; auto; try discriminate.
  destruct (N.ltb_spec x y) as [Hxy|Hxy].
  - intros _. destruct (N.ltb_spec y z).
    + intros _. destruct (N.ltb_spec x z); [reflexivity|lia].
    + destruct (N.eqb_spec y z) as [->|]; [|discriminate]. intros _.
      destruct (N.ltb_spec x z); [reflexivity|lia].
  - destruct (N.eqb_spec x y) as [->|]; [|discriminate]. intros H1.
    destruct (N.ltb_spec y z); [reflexivity|].
    destruct (N.eqb_spec y z) as [->|]; [|discriminate]. now apply IH.
Qed.
Lemma lN_leb_antisym a b : lN_leb a b = true -> lN_leb b a = true -> a = b.
Proof.
  revert b; induction a as [|x a IH]; intros [|y b]; cbn [lN_leb]; auto; try discriminate.
  destruct (N.ltb_spec x y), (N.ltb_spec y x); try lia; try discriminate.
  - destruct (N.eqb_spec y x); [lia|discriminate].
  - destruct (N.eqb_spec x y); [lia|discriminate].
  - assert (x = y) by lia; subst. rewrite N.eqb_refl. intros H1 H2. f_equal. now apply IH.
Qed.

(* entity order: lte is the strict lexicographic order, lee its reflexive closure *)
Lemma lee_total a b : lee a b = true \/ lee b a = true.
Proof.
  unfold lee, lte. destruct a as [a1 a2], b as [b1 b2]; cbn [fst snd].
  destruct (N.ltb_spec a1 b1), (N.ltb_spec b1 a1), (N.eqb_spec a1 b1), (N.eqb_spec b1 a1),
    (N.ltb_spec a2 b2), (N.ltb_spec b2 a2); cbn; auto; lia.
Qed.
Lemma lee_trans a b c : lee a b = true -> lee b c = true -> lee a c = true.
Proof.
  unfold lee, lte. destruct a as [a1 a2], b as [b1 b2], c as [c1 c2]; cbn [fst snd].
  destruct (N.ltb_spec b1 a1), (N.ltb_spec c1 b1), (N.ltb_spec c1 a1), (N.eqb_spec b1 a1), (N.eqb_spec c1 b1),
    (N.eqb_spec c1 a1), (N.ltb_spec b2 a2), (N.ltb_spec c2 b2), (N.ltb_spec c2 a2); cbn; auto; try discriminate; lia.
Qed.
Lemma lee_antisym a b : lee a b = true -> lee b a = true -> a = b.
Proof.
  unfold lee, lte. destruct a as [a1 a2], b as [b1 b2]; cbn [fst snd].
  destruct (N.ltb_spec a1 b1), (N.ltb_spec b1 a1), (N.eqb_spec a1 b1), (N.eqb_spec b1 a1),
    (N.ltb_spec a2 b2), (N.ltb_spec b2 a2); cbn; try discriminate; try lia.
  intros _ _. f_equal; lia.
Qed.
Lemma lee_of_fst_lt a b : (fst a < fst b)%N -> lee a b = true.
Proof.
  unfold lee, lte. intros H. destruct (N.ltb_spec (fst b) (fst a)), (N.eqb_spec (fst b) (fst a)); cbn; auto; lia.
Qed.

(* ---- insertion sort ------------------------------------------------------------------------ *)
Section SortP.
Variable A : Type.
Variable leb : A -> A -> bool.
Let le := fun a b => leb a b = true.

Lemma ins_perm x l : Permutation (ins leb x l) (x :: l).
Proof.
  induction l as [|y r IH]; cbn [ins]; auto.
  destruct (leb x y); auto.
  eapply perm_trans; [apply perm_skip, IH|apply perm_swap].
Qed.
Lemma isort_perm l : Permutation (isort leb l) l.
Proof.
  induction l as [|x r IH]; cbn; auto.
  eapply perm_trans; [apply ins_perm|]. now apply perm_skip.
Qed.

Hypothesis total : forall a b, leb a b = true \/ leb b a = true.
Hypothesis trans : forall a b c, leb a b = true -> leb b c = true -> leb a c = true.

Lemma ins_keeps_sorted x l : StronglySorted le l -> StronglySorted le (ins leb x l).
Proof.
  induction l as [|y r IH]; intros HS; cbn [ins].
  - repeat constructor.
  - inversion HS as [|? ? HS' HF]; subst.
    destruct (leb x y) eqn:E.
    + constructor; [exact HS|]. constructor; [exact E|].
      rewrite Forall_forall in *. intros z Hz. eapply trans; [exact E|]. now apply HF.
    + constructor; [now apply IH|].
      eapply Permutation_Forall; [symmetry; apply ins_perm|].
      constructor; [|exact HF]. destruct (total x y) as [H|H]; [congruence|exact H].
Qed.
Lemma isort_sorted l : StronglySorted le (isort leb l).
Proof. induction l as [|x r IH]; cbn; [constructor|now apply ins_keeps_sorted]. Qed.

Definition antisym_on (l : list A) : Prop :=
  forall a b, In a l -> In b l -> leb a b = true -> leb b a = true -> a = b.

Lemma sorted_perm_eq l : forall l', StronglySorted le l -> StronglySorted le l' -> Permutation l l' ->
  antisym_on l -> l = l'.
Proof.
  induction l as [|a t IH]; intros l' HS HS' HP HA.
  - apply Permutation_nil in HP. now subst.
  - destruct l' as [|b t']; [apply Permutation_sym, Permutation_nil in HP; discriminate|].
    inversion HS as [|? ? HSt HFa]; subst. inversion HS' as [|? ? HSt' HFb]; subst.
    assert (Eab : a = b).
    { assert (Ia : In a (b :: t')) by (eapply Permutation_in; [exact HP|now left]).
      assert (Ib : In b (a :: t)) by (eapply Permutation_in; [symmetry; exact HP|now left]).
      destruct Ia as [->|Ia]; [reflexivity|]. destruct Ib as [->|Ib]; [reflexivity|].
      rewrite Forall_forall in HFa, HFb.
      apply HA; [now left|now right|now apply HFa|now apply HFb]. }
    subst b. f_equal. apply IH; auto.
    + eapply Permutation_cons_inv; exact HP.
    + intros x y Hx Hy. apply HA; now right.
Qed.

Lemma antisym_on_perm l l' : Permutation l l' -> antisym_on l -> antisym_on l'.
Proof.
  intros HP HA a b Ia Ib. apply HA; eapply Permutation_in; try eassumption; now symmetry.
Qed.

Lemma isort_perm_eq l l' : Permutation l l' -> antisym_on l -> isort leb l = isort leb l'.
Proof.
  intros HP HA. apply sorted_perm_eq; try apply isort_sorted.
  - eapply perm_trans; [apply isort_perm|]. eapply perm_trans; [exact HP|]. symmetry; apply isort_perm.
  - eapply antisym_on_perm; [symmetry; apply isort_perm|exact HA].
Qed.
Lemma isort_id l : StronglySorted le l -> antisym_on l -> isort leb l = l.
Proof.
  intros HS HA. apply sorted_perm_eq; auto using isort_sorted, isort_perm.
  eapply antisym_on_perm; [symmetry; apply isort_perm|exact HA].
Qed.
End SortP.

Lemma payload_antisym l : antisym_on _ lN_leb l.
Proof. intros a b _ _. apply lN_leb_antisym. Qed.
Lemma sort_payloads_perm l l' : Permutation l l' -> sort_payloads l = sort_payloads l'.
Proof.
  intros HP. apply isort_perm_eq; [exact lN_leb_total|exact lN_leb_trans|exact HP|apply payload_antisym].
Qed.
Lemma sort_payloads_idem l : sort_payloads (sort_payloads l) = sort_payloads l.
Proof. apply sort_payloads_perm, isort_perm. Qed.

(* steps are sorted by entity; keys are distinct *)
Lemma steps_antisym (l : list (entity * list N)) :
  NoDup (map fst l) -> antisym_on _ (fun a b => lee (fst a) (fst b)) l.
Proof.
  intros ND a b Ia Ib H1 H2. pose proof (lee_antisym _ _ H1 H2) as E.
  destruct a as [ea va], b as [eb vb]; cbn [fst] in E; subst eb. f_equal.
  clear H1 H2. induction l as [|[e v] r IH]; [destruct Ia|].
  cbn [map fst] in ND. inversion ND as [|? ? Hn ND']; subst.
  destruct Ia as [Ea|Ia], Ib as [Eb|Ib].
  - congruence.
  - injection Ea as -> ->. exfalso. apply Hn. change ea with (fst (ea, vb)). now apply in_map.
  - injection Eb as -> ->. exfalso. apply Hn. change ea with (fst (ea, va)). now apply in_map.
  - now apply IH.
Qed.
Lemma sort_steps_perm l l' : Permutation l l' -> NoDup (map fst l) -> sort_steps l = sort_steps l'.
Proof.
  intros HP ND. apply isort_perm_eq; [| |exact HP|now apply steps_antisym].
  - intros a b. apply lee_total.
  - intros a b c. apply lee_trans.
Qed.

(* ---- association lists keyed by entities: membership after del / put ------------------------ *)
Lemma ent_eq_dec (a b : entity) : {a = b} + {a <> b}.
Proof. decide equality; apply N.eq_dec. Qed.
Lemma eqe_refl e : eqe e e = true.
Proof. destruct (eqe_spec e e); congruence. Qed.
Lemma eqe_neq a b : a <> b -> eqe a b = false.
Proof. destruct (eqe_spec a b); congruence. Qed.

Section AL.
Variable V : Type.
Notation emap := (list (entity * V)).

Lemma eget_eput' (m : emap) e v x : eget (eput m e v) x = if eqe e x then Some v else eget m x.
Proof. apply get_put, eqe_spec. Qed.
Lemma eget_edel' (m : emap) e x : eget (edel m e) x = if eqe e x then None else eget m x.
Proof. apply get_del, eqe_spec. Qed.

Lemma In_edel (m : emap) k x : In x (edel m k) <-> In x m /\ fst x <> k.
Proof.
  unfold edel. induction m as [|[k' v] r IH]; cbn [del In]; [tauto|].
  destruct (eqe_spec k' k) as [->|Hne]; cbn [In].
  - rewrite IH. split; [tauto|]. intros [[<-|H] Hn]; [cbn in Hn; congruence|tauto].
  - rewrite IH. split.
    + intros [<-|H]; cbn; tauto.
    + intros [[<-|H] Hn]; tauto.
Qed.
Lemma In_ins_sorted (m : emap) k v x : In x (ins_sorted lte m k v) <-> x = (k, v) \/ In x m.
Proof.
  induction m as [|[k' v'] r IH]; cbn [ins_sorted In]; [intuition|].
  destruct (lte k k'); cbn [In]; [intuition|]. rewrite IH. intuition.
Qed.
Lemma In_eput (m : emap) k v x : In x (eput m k v) <-> x = (k, v) \/ (In x m /\ fst x <> k).
Proof. unfold eput, put. rewrite In_ins_sorted. fold (edel m k). rewrite In_edel. tauto. Qed.

Lemma edel_absent (m : emap) k : eget m k = None -> edel m k = m.
Proof.
  unfold eget, edel. induction m as [|[k' v] r IH]; cbn [get del]; auto.
  destruct (eqe_spec k' k) as [->|Hne]; [discriminate|]. intros H. f_equal. auto.
Qed.
Lemma edel_idem (m : emap) k : edel (edel m k) k = edel m k.
Proof.
  unfold edel. induction m as [|[k' v] r IH]; cbn [del]; auto.
  destruct (eqe k' k) eqn:E; cbn [del]; rewrite ?E; congruence.
Qed.
Lemma nodup_eput (m : emap) k v : NoDup (keys m) -> NoDup (keys (eput m k v)).
Proof. apply nodup_put, eqe_spec. Qed.
Lemma nodup_edel (m : emap) k : NoDup (keys m) -> NoDup (keys (edel m k)).
Proof. apply nodup_del, eqe_spec. Qed.
Lemma eget_In (m : emap) k v : eget m k = Some v -> In (k, v) m.
Proof. apply get_In, eqe_spec. Qed.
Lemma In_eget (m : emap) k v : NoDup (keys m) -> In (k, v) m -> eget m k = Some v.
Proof. apply In_get_nodup, eqe_spec. Qed.

(* keys below a bound *)
Definition KB (g : N) (m : emap) : Prop := forall x, In x m -> (fst (fst x) < g)%N.
Lemma KB_eput g (m : emap) k v : KB g m -> (fst k < g)%N -> KB g (eput m k v).
Proof. intros H Hk x Hx. apply In_eput in Hx. destruct Hx as [->|[Hx _]]; auto. Qed.
Lemma KB_edel g (m : emap) k : KB g m -> KB g (edel m k).
Proof. intros H x Hx. apply In_edel in Hx. apply H; tauto. Qed.
Lemma KB_mono g g' (m : emap) : (g <= g')%N -> KB g m -> KB g' m.
Proof. intros Hl H x Hx. specialize (H x Hx). lia. Qed.

(* the store operations at the level of the map *)
Variable veqb : V -> V -> bool.
Lemma smap_insert (s : store V) e v : smap (fst (insert veqb s e v)) = eput (smap s) e v.
Proof. reflexivity. Qed.
Lemma smap_remove (s : store V) e : smap (fst (remove veqb s e)) = edel (smap s) e.
Proof.
  unfold remove. destruct (eget (smap s) e) as [v|] eqn:G.
  - destruct (iget veqb (sidx s) v); reflexivity.
  - cbn [fst]. symmetry. now apply edel_absent.
Qed.
Lemma smap_update (s : store V) e v : smap (fst (update veqb s e v)) = eput (smap s) e v.
Proof.
  unfold update. destruct (eget (smap s) e) eqn:G; [|reflexivity].
  rewrite smap_insert, smap_remove. unfold eput, put. fold (edel (smap s) e).
  fold (edel (edel (smap s) e) e). now rewrite edel_idem.
Qed.
End AL.

(* values (entities) below a bound *)
Definition VB (g : N) (m : list (entity * entity)) : Prop := forall x, In x m -> (fst (snd x) < g)%N.
Lemma VB_eput g m k v : VB g m -> (fst v < g)%N -> VB g (eput m k v).
Proof. intros H Hk x Hx. apply In_eput in Hx. destruct Hx as [->|[Hx _]]; auto. Qed.
Lemma VB_edel g m k : VB g m -> VB g (edel m k).
Proof. intros H x Hx. apply In_edel in Hx. apply H; tauto. Qed.
Lemma VB_mono g g' m : (g <= g')%N -> VB g m -> VB g' m.
Proof. intros Hl H x Hx. specialize (H x Hx). lia. Qed.

(* ---- 1-N stores ------------------------------------------------------------------------------ *)
Lemma r1n_insert_same T U (teqb : T -> T -> bool) (ueqb : U -> U -> bool) (R : r1n T U) pe pc ce cc :
  (forall a, teqb a a = true) -> eget (smap (parents R)) pe = Some pc ->
  r1n_insert teqb ueqb R pe pc ce cc =
  {| parents := parents R; children := fst (insert ueqb (children R) ce cc);
     child_parents := fst (insert eqe (child_parents R) ce pe) |}.
Proof. intros Hr G. unfold r1n_insert. rewrite G, Hr. reflexivity. Qed.

Lemma children_of_spec T U (R : r1n T U) pe :
  NoDup (keys (smap (child_parents R))) ->
  NoDup (map fst (children_of R pe)) /\
  forall ce u, In (ce, u) (children_of R pe) <->
               eget (smap (child_parents R)) ce = Some pe /\ eget (smap (children R)) ce = Some u.
Proof.
  unfold children_of. generalize (smap (child_parents R)) as m. intros m ND.
  set (f := fun cp : entity * entity => if eqe (snd cp) pe
         then match eget (smap (children R)) (fst cp) with Some u => [(fst cp, u)] | None => [] end else []).
  assert (Hf : forall cp x, In x (f cp) -> fst x = fst cp /\ snd cp = pe /\ eget (smap (children R)) (fst cp) = Some (snd x)).
  { intros cp x. unfold f. destruct (eqe_spec (snd cp) pe) as [E|]; [|intros []].
    destruct (eget (smap (children R)) (fst cp)) eqn:G; [|intros []]. intros [<-|[]]. cbn. auto. }
  split.
  - induction m as [|cp r IH]; cbn [flat_map map]; [constructor|].
    cbn [keys map] in ND. inversion ND as [|? ? Hn ND']; subst.
    rewrite map_app. 
    assert (Hsub : forall k, In k (map fst (flat_map f r)) -> In k (keys r)).
    { intros k Hk. apply in_map_iff in Hk. destruct Hk as (x & <- & Hx).
      apply in_flat_map in Hx. destruct Hx as (cp' & Hcp & Hx). apply Hf in Hx.
      destruct Hx as (-> & _). now apply in_map. }
    unfold f at 1. destruct (eqe (snd cp) pe); [|cbn; now apply IH].
    destruct (eget (smap (children R)) (fst cp)); [|cbn; now apply IH].
    cbn. constructor; [|now apply IH]. intros Hk. apply Hn, Hsub, Hk.
  - intros ce u. rewrite in_flat_map. split.
    + intros (cp & Hcp & Hx). apply Hf in Hx. cbn [fst snd] in Hx. destruct Hx as (-> & Hp & G).
      split; [|exact G]. apply In_eget; auto. destruct cp as [k v]; cbn in *; subst; auto.
    + intros (G1 & G2). exists (ce, pe). split; [now apply eget_In|].
      unfold f. cbn [fst snd]. rewrite eqe_refl, G2. now left.
Qed.

Lemma children_of_perm T U (R : r1n T U) pe (L : list (entity * U)) :
  NoDup (keys (smap (child_parents R))) -> NoDup (map fst L) ->
  (forall ce u, In (ce, u) L <->
                eget (smap (child_parents R)) ce = Some pe /\ eget (smap (children R)) ce = Some u) ->
  Permutation (children_of R pe) L.
Proof.
  intros ND NDL HL. destruct (children_of_spec _ _ R pe ND) as [ND1 H1].
  apply NoDup_Permutation.
  - eapply NoDup_map_inv; exact ND1.
  - eapply NoDup_map_inv; exact NDL.
  - intros [ce u]. rewrite H1, HL. tauto.
Qed.

(* ---- consecutive entities of one process -------------------------------------------------------- *)
Definition ents (c rnd : N) (k : nat) : list entity := map (fun x => (x, rnd)) (Nseq c k).
Lemma In_ents c rnd k e : In e (ents c rnd k) <-> (c <= fst e < c + N.of_nat k)%N /\ snd e = rnd.
Proof.
  unfold ents. rewrite in_map_iff. split.
  - intros (x & <- & Hx). apply Nseq_In in Hx. cbn. auto.
  - intros [H1 H2]. exists (fst e). destruct e; cbn in *; subst. split; auto. now apply Nseq_In.
Qed.
Lemma NoDup_ents c rnd k : NoDup (ents c rnd k).
Proof.
  apply (NoDup_map_inv fst). unfold ents. rewrite map_map. cbn. rewrite map_id. apply Nseq_NoDup.
Qed.
Lemma length_Nseq c k : length (Nseq c k) = k.
Proof. revert c; induction k; intros c; cbn; auto. Qed.
Lemma length_ents c rnd k : length (ents c rnd k) = k.
Proof. unfold ents. now rewrite map_length, length_Nseq. Qed.
Lemma ents_S c rnd k : ents c rnd (S k) = (c, rnd) :: ents (c + 1) rnd k.
Proof. reflexivity. Qed.

(* `for x in list { e = new_entity(); rs.insert(parent_e, parent, e, x) }` *)
Lemma r1n_add_all_spec se sn : forall l (R : r1n (list N) (list N)) g R' g',
  eget (smap (parents R)) se = Some sn ->
  (gcounter g + N.of_nat (length l) < two64)%N ->
  r1n_add_all R g se sn l = (R', g') ->
  let des := ents (gcounter g) (grnd g) (length l) in
  parents R' = parents R /\ gcounter g' = (gcounter g + N.of_nat (length l))%N /\ grnd g' = grnd g /\
  (forall e, ~ In e des -> eget (smap (children R')) e = eget (smap (children R)) e) /\
  Forall2 (fun de x => eget (smap (children R')) de = Some x) des l /\
  (forall e, ~ In e des -> eget (smap (child_parents R')) e = eget (smap (child_parents R)) e) /\
  (forall e, In e des -> eget (smap (child_parents R')) e = Some se) /\
  (forall x, In x (smap (child_parents R')) -> (In (fst x) des /\ snd x = se) \/ In x (smap (child_parents R))) /\
  (NoDup (keys (smap (child_parents R))) -> NoDup (keys (smap (child_parents R')))).
Proof.
  induction l as [|x l IH]; intros R g R' g' Hp Hlt E; cbn [r1n_add_all] in E.
  - injection E as <- <-. cbn [length ents Nseq map]. rewrite N.add_0_r.
    split; [reflexivity|]. split; [reflexivity|]. split; [reflexivity|].
    split; [reflexivity|]. split; [constructor|]. split; [reflexivity|].
    split; [intros e []|]. split; [intros x Hx; now right|auto].
  - cbn [gen_next] in E. cbn [length] in Hlt |- *. rewrite ents_S.
    set (e0 := (gcounter g, grnd g)) in *.
    rewrite (r1n_insert_same _ _ lN_eqb lN_eqb R se sn e0 x lN_eqb_refl Hp) in E.
    set (R1 := {| parents := parents R |}) in E.
    set (g1 := {| gcounter := _ |}) in E.
    assert (Eg1 : gcounter g1 = (gcounter g + 1)%N).
    { unfold g1; cbn [gcounter]. apply N.mod_small. lia. }
    specialize (IH R1 g1 R' g' Hp).
    rewrite Eg1 in IH. change (grnd g1) with (grnd g) in IH.
    destruct IH as (A1 & A2 & A3 & A4 & A5 & A6 & A7 & A8 & A9); [lia|exact E|].
    assert (Hn0 : ~ In e0 (ents (gcounter g + 1) (grnd g) (length l))).
    { rewrite In_ents. unfold e0; cbn [fst]. lia. }
    split; [exact A1|]. split; [lia|]. split; [exact A3|].
    split; [|split; [|split; [|split; [|split]]]].
    + intros e Hn. rewrite A4 by (intros I; apply Hn; now right).
      unfold R1; cbn [children]. rewrite smap_insert, eget_eput'.
      rewrite eqe_neq; [reflexivity|]. intros ->. apply Hn. now left.
    + constructor; [|exact A5]. rewrite A4 by exact Hn0.
      unfold R1; cbn [children]. rewrite smap_insert, eget_eput', eqe_refl. reflexivity.
    + intros e Hn. rewrite A6 by (intros I; apply Hn; now right).
      unfold R1; cbn [child_parents]. rewrite smap_insert, eget_eput'.
      rewrite eqe_neq; [reflexivity|]. intros ->. apply Hn. now left.
    + intros e [<-|I]; [|now apply A7]. rewrite A6 by exact Hn0.
      unfold R1; cbn [child_parents]. rewrite smap_insert, eget_eput', eqe_refl. reflexivity.
    + intros y Hy. apply A8 in Hy. destruct Hy as [[I Es]|Hy]; [left; split; [now right|exact Es]|].
      unfold R1 in Hy; cbn [child_parents] in Hy. rewrite smap_insert in Hy. apply In_eput in Hy.
      destruct Hy as [->|[Hy _]]; [left; cbn; auto|now right].
    + intros ND. apply A9. unfold R1; cbn [child_parents]. rewrite smap_insert. now apply nodup_eput.
Qed.

(* ---- repositories --------------------------------------------------------------------------------- *)
Notation gP r := (eget (smap (r_pipelines r))).
Notation gRD r := (eget (smap (r_rundirs r))).
Notation gS r := (eget (smap (r_steps r))).
Notation gSP r := (eget (smap (r_step_parent r))).
Notation gC r := (eget (smap (r_commands r))).
Notation gI r := (eget (smap (r_invalidates r))).
Notation gD r := (eget (smap (r_deps r))).
Notation gDP r := (eget (smap (r_dep_parent r))).
Notation gO r := (eget (smap (r_outs r))).
Notation gOP r := (eget (smap (r_out_parent r))).
Notation cnt r := (gcounter (r_gen r)).

(* what a loop `for x in l { insert(step_e, step, new_entity(), x) }` does to a children / child-parents pair *)
Definition KidsEffect (se : entity) (des : list entity) (xs : list (list N))
           (ch ch' : list (entity * list N)) (cp cp' : list (entity * entity)) : Prop :=
  (forall e, ~ In e des -> eget ch' e = eget ch e) /\
  Forall2 (fun de x => eget ch' de = Some x) des xs /\
  (forall e, ~ In e des -> eget cp' e = eget cp e) /\
  (forall e, In e des -> eget cp' e = Some se) /\
  (forall x, In x cp' -> (In (fst x) des /\ snd x = se) \/ In x cp) /\
  (NoDup (keys cp) -> NoDup (keys cp')).

Lemma add_deps_effect r se sn l :
  gS r se = Some sn -> (cnt r + N.of_nat (length l) < two64)%N ->
  let r' := add_deps r se sn l in
  r_pipelines r' = r_pipelines r /\ r_rundirs r' = r_rundirs r /\ r_steps r' = r_steps r /\
  r_step_parent r' = r_step_parent r /\ r_commands r' = r_commands r /\ r_invalidates r' = r_invalidates r /\
  r_outs r' = r_outs r /\ r_out_parent r' = r_out_parent r /\
  cnt r' = (cnt r + N.of_nat (length l))%N /\ grnd (r_gen r') = grnd (r_gen r) /\
  KidsEffect se (ents (cnt r) (grnd (r_gen r)) (length l)) l
             (smap (r_deps r)) (smap (r_deps r')) (smap (r_dep_parent r)) (smap (r_dep_parent r')).
Proof.
  intros HS Hlt. unfold add_deps. destruct (r1n_add_all (sdep_r1n r) (r_gen r) se sn l) as [R' g'] eqn:E.
  apply r1n_add_all_spec in E; [|exact HS|exact Hlt]. cbn zeta in E.
  destruct E as (A1 & A2 & A3 & A4 & A5 & A6 & A7 & A8 & A9).
  cbn [parents children child_parents sdep_r1n] in *.
  cbn [set_gen set_sdep set_dep_parent set_deps set_steps r_pipelines r_rundirs r_steps r_step_parent r_commands
       r_invalidates r_deps r_dep_parent r_outs r_out_parent r_gen].
  repeat (split; [first [reflexivity|assumption]|]). unfold KidsEffect. tauto.
Qed.

Lemma add_outs_effect r se sn l :
  gS r se = Some sn -> (cnt r + N.of_nat (length l) < two64)%N ->
  let r' := add_outs r se sn l in
  r_pipelines r' = r_pipelines r /\ r_rundirs r' = r_rundirs r /\ r_steps r' = r_steps r /\
  r_step_parent r' = r_step_parent r /\ r_commands r' = r_commands r /\ r_invalidates r' = r_invalidates r /\
  r_deps r' = r_deps r /\ r_dep_parent r' = r_dep_parent r /\
  cnt r' = (cnt r + N.of_nat (length l))%N /\ grnd (r_gen r') = grnd (r_gen r) /\
  KidsEffect se (ents (cnt r) (grnd (r_gen r)) (length l)) l
             (smap (r_outs r)) (smap (r_outs r')) (smap (r_out_parent r)) (smap (r_out_parent r')).
Proof.
  intros HS Hlt. unfold add_outs. destruct (r1n_add_all (sout_r1n r) (r_gen r) se sn l) as [R' g'] eqn:E.
  apply r1n_add_all_spec in E; [|exact HS|exact Hlt]. cbn zeta in E.
  destruct E as (A1 & A2 & A3 & A4 & A5 & A6 & A7 & A8 & A9).
  cbn [parents children child_parents sout_r1n] in *.
  cbn [set_gen set_sout set_out_parent set_outs set_steps r_pipelines r_rundirs r_steps r_step_parent r_commands
       r_invalidates r_deps r_dep_parent r_outs r_out_parent r_gen].
  repeat (split; [first [reflexivity|assumption]|]). unfold KidsEffect. tauto.
Qed.

Ltac simpl_repo := cbn [set_pipelines set_rundirs set_steps set_step_parent set_commands set_invalidates set_deps
  set_dep_parent set_outs set_out_parent set_gen set_pstep set_sdep set_sout r_pipelines r_rundirs r_steps r_step_parent
  r_commands r_invalidates r_deps r_dep_parent r_outs r_out_parent r_gen parents children child_parents pstep_r1n
  sdep_r1n sout_r1n insert fst smap gcounter grnd].
Tactic Notation "simpl_repo" "in" hyp(H) := cbn [set_pipelines set_rundirs set_steps set_step_parent set_commands set_invalidates set_deps
  set_dep_parent set_outs set_out_parent set_gen set_pstep set_sdep set_sout r_pipelines r_rundirs r_steps r_step_parent
  r_commands r_invalidates r_deps r_dep_parent r_outs r_out_parent r_gen parents children child_parents pstep_r1n
  sdep_r1n sout_r1n insert fst smap gcounter grnd] in H.

(* the body of `for step_schema in schema.steps` *)
Definition StepEffect (pe : entity) (ss : step_schema) (r r' : repo) : Prop :=
  let c := cnt r in let rnd := grnd (r_gen r) in let se := (c, rnd) in
  let des := ents (c + 1) rnd (length (ss_deps ss)) in
  let oes := ents (c + 1 + N.of_nat (length (ss_deps ss))) rnd (length (ss_outs ss)) in
  r_pipelines r' = r_pipelines r /\ r_rundirs r' = r_rundirs r /\
  cnt r' = (c + step_cost ss)%N /\ grnd (r_gen r') = rnd /\
  (forall e, gS r' e = if eqe se e then Some (ss_name ss) else gS r e) /\
  (forall e, gC r' e = if eqe se e then Some (ss_command ss) else gC r e) /\
  (forall e, gI r' e = if eqe se e then Some (ss_invalidate ss) else gI r e) /\
  smap (r_step_parent r') = eput (smap (r_step_parent r)) se pe /\
  KidsEffect se des (ss_deps ss) (smap (r_deps r)) (smap (r_deps r')) (smap (r_dep_parent r)) (smap (r_dep_parent r')) /\
  KidsEffect se oes (ss_outs ss) (smap (r_outs r)) (smap (r_outs r')) (smap (r_out_parent r)) (smap (r_out_parent r')).

Lemma import_step_effect pe pn r ss :
  gP r pe = Some pn -> (cnt r + step_cost ss < two64)%N -> StepEffect pe ss r (import_step pe pn r ss).
Proof.
  intros HP Hlt. unfold step_cost in Hlt. unfold StepEffect, import_step, new_entity. cbn [gen_next].
  set (se := (cnt r, grnd (r_gen r))).
  set (g1 := {| gcounter := (cnt r + 1) mod two64; grnd := grnd (r_gen r); gdirty := true |}).
  set (r1 := set_gen r g1).
  rewrite (r1n_insert_same _ _ lN_eqb lN_eqb (pstep_r1n r1) pe pn se (ss_name ss) lN_eqb_refl) by exact HP.
  match goal with |- context [add_deps ?x _ _ _] => set (r4 := x) end.
  assert (Eg1 : cnt r4 = (cnt r + 1)%N).
  { unfold r4, r1, g1; simpl_repo. apply N.mod_small. lia. }
  assert (ES4 : forall e, gS r4 e = if eqe se e then Some (ss_name ss) else gS r e).
  { intros e. unfold r4, r1; simpl_repo. rewrite !eget_eput'. destruct (eqe se e); reflexivity. }
  pose proof (add_deps_effect r4 se (ss_name ss) (ss_deps ss)) as HD.
  cbn zeta in HD. set (r5 := add_deps r4 se (ss_name ss) (ss_deps ss)) in *.
  destruct HD as (D1 & D2 & D3 & D4 & D5 & D6 & D7 & D8 & D9 & D10 & D11).
  { rewrite ES4, eqe_refl. reflexivity. }
  { rewrite Eg1. lia. }
  pose proof (add_outs_effect r5 se (ss_name ss) (ss_outs ss)) as HO.
  cbn zeta in HO. set (r6 := add_outs r5 se (ss_name ss) (ss_outs ss)) in *.
  destruct HO as (O1 & O2 & O3 & O4 & O5 & O6 & O7 & O8 & O9 & O10 & O11).
  { rewrite D3, ES4, eqe_refl. reflexivity. }
  { rewrite D9, Eg1. lia. }
  split; [rewrite O1, D1; reflexivity|]. split; [rewrite O2, D2; reflexivity|].
  split; [rewrite O9, D9, Eg1; unfold step_cost; lia|].
  split; [rewrite O10, D10; reflexivity|].
  split; [intros e; rewrite O3, D3; apply ES4|].
  split; [intros e; rewrite O5, D5; unfold r4, r1; simpl_repo; rewrite eget_eput'; reflexivity|].
  split; [intros e; rewrite O6, D6; unfold r4, r1; simpl_repo; rewrite eget_eput'; reflexivity|].
  split; [rewrite O4, D4; reflexivity|].
  split.
  - rewrite O7, O8. rewrite Eg1 in D11. exact D11.
  - rewrite D9, D10, Eg1, D7, D8 in O11. exact O11.
Qed.

(* ---- list helpers ------------------------------------------------------------------------------- *)
Lemma Forall2_In_l A B (P : A -> B -> Prop) l l' a :
  Forall2 P l l' -> In a l -> exists b, In (a, b) (combine l l') /\ P a b.
Proof.
  induction 1 as [|x y l l' Hxy HF IH]; [intros []|]. intros [<-|I].
  - exists y. split; [now left|exact Hxy].
  - destruct (IH I) as (b & Ib & Pb). exists b. split; [now right|exact Pb].
Qed.
Lemma F2_length A B (P : A -> B -> Prop) l l' : Forall2 P l l' -> length l = length l'.
Proof. induction 1; cbn; auto. Qed.
Lemma Forall2_combine A B (P : A -> B -> Prop) l l' a b :
  Forall2 P l l' -> In (a, b) (combine l l') -> P a b.
Proof.
  induction 1 as [|x y l l' Hxy HF IH]; [intros []|]. cbn [combine In].
  intros [E|I]; [injection E as <- <-; exact Hxy|now apply IH].
Qed.
Lemma Forall2_impl_In A B (P Q : A -> B -> Prop) l l' :
  Forall2 P l l' -> (forall a b, In a l -> P a b -> Q a b) -> Forall2 Q l l'.
Proof.
  induction 1 as [|x y l l' Hxy HF IH]; intros H; constructor.
  - apply H; [now left|exact Hxy].
  - apply IH. intros a b Ia. apply H. now right.
Qed.
Lemma map_fst_combine A B (l : list A) (l' : list B) : length l = length l' -> map fst (combine l l') = l.
Proof. revert l'; induction l as [|a l IH]; intros [|b l']; cbn; try discriminate; auto. intros H. f_equal. apply IH. lia. Qed.
Lemma map_snd_combine A B (l : list A) (l' : list B) : length l = length l' -> map snd (combine l l') = l'.
Proof. revert l'; induction l as [|a l IH]; intros [|b l']; cbn; try discriminate; auto. intros H. f_equal. apply IH. lia. Qed.
Lemma SSorted_snoc A (R : A -> A -> Prop) l a :
  StronglySorted R l -> Forall (fun x => R x a) l -> StronglySorted R (l ++ [a]).
Proof.
  induction 1 as [|x l HS IH HF]; intros Ha; cbn [app].
  - repeat constructor.
  - inversion Ha as [|? ? Hxa Hla]; subst. constructor; [now apply IH|].
    apply Forall_app. split; [exact HF|]. constructor; [exact Hxa|constructor].
Qed.
Lemma SSorted_lt_NoDup (l : list entity) :
  StronglySorted (fun a b => (fst a < fst b)%N) l -> NoDup l.
Proof.
  induction 1 as [|x l HS IH HF]; constructor; auto.
  intros I. rewrite Forall_forall in HF. specialize (HF _ I). lia.
Qed.

(* ---- the invariant of reachable repositories ------------------------------------------------------ *)
Record Inv (r : repo) : Prop := {
  i_ndP : NoDup (keys (smap (r_pipelines r)));
  i_ndSP : NoDup (keys (smap (r_step_parent r)));
  i_ndDP : NoDup (keys (smap (r_dep_parent r)));
  i_ndOP : NoDup (keys (smap (r_out_parent r)));
  i_kbP : KB _ (cnt r) (smap (r_pipelines r));
  i_kbSP : KB _ (cnt r) (smap (r_step_parent r));
  i_kbDP : KB _ (cnt r) (smap (r_dep_parent r));
  i_kbOP : KB _ (cnt r) (smap (r_out_parent r));
  i_vbSP : VB (cnt r) (smap (r_step_parent r));
  i_vbDP : VB (cnt r) (smap (r_dep_parent r));
  i_vbOP : VB (cnt r) (smap (r_out_parent r)) }.

Lemma kids_inv se des xs ch ch' cp cp' g g' :
  KidsEffect se des xs ch ch' cp cp' -> (forall e, In e des -> (fst e < g')%N) -> (fst se < g')%N -> (g <= g')%N ->
  NoDup (keys cp) -> KB _ g cp -> VB g cp -> NoDup (keys cp') /\ KB _ g' cp' /\ VB g' cp'.
Proof.
  intros (K1 & K2 & K3 & K4 & K5 & K6) Hd Hs Hg ND HK HV. split; [auto|]. split.
  - intros x Hx. apply K5 in Hx. destruct Hx as [[I _]|I]; [now apply Hd|]. specialize (HK _ I). lia.
  - intros x Hx. apply K5 in Hx. destruct Hx as [[_ ->]|I]; [exact Hs|]. specialize (HV _ I). lia.
Qed.

Lemma step_effect_inv pe pn ss r r' :
  Inv r -> gP r pe = Some pn -> (cnt r + step_cost ss < two64)%N -> StepEffect pe ss r r' -> Inv r'.
Proof.
  intros HI HP Hlt (E1 & E2 & E3 & E4 & E5 & E6 & E7 & E8 & E9 & E10).
  assert (Hpe : (fst pe < cnt r)%N) by (apply eget_In in HP; exact (i_kbP _ HI _ HP)).
  unfold step_cost in *.
  destruct (kids_inv _ _ _ _ _ _ _ (cnt r) (cnt r') E9) as (D1 & D2 & D3);
    [intros e I; apply In_ents in I; cbn [fst]; lia|cbn [fst]; lia|lia|apply HI|apply HI|apply HI|].
  destruct (kids_inv _ _ _ _ _ _ _ (cnt r) (cnt r') E10) as (O1 & O2 & O3);
    [intros e I; apply In_ents in I; cbn [fst]; lia|cbn [fst]; lia|lia|apply HI|apply HI|apply HI|].
  constructor; auto.
  - rewrite E1. apply HI.
  - rewrite E8. apply nodup_eput, HI.
  - rewrite E1. eapply KB_mono; [|apply HI]. lia.
  - rewrite E8. apply KB_eput; [eapply KB_mono; [|apply HI]; lia|cbn [fst]; lia].
  - rewrite E8. apply VB_eput; [eapply VB_mono; [|apply HI]; lia|lia].
Qed.

(* a step entity whose records are those of the step schema ss *)
Definition KidsOK (g : N) (cp : list (entity * entity)) (ch : list (entity * list N)) (se : entity)
           (xs : list (list N)) : Prop :=
  exists des, NoDup des /\ (forall de, In de des -> (fst de < g)%N) /\
              (forall de, eget cp de = Some se <-> In de des) /\
              Forall2 (fun de x => eget ch de = Some x) des xs.
Definition StepOK (g : N) (r : repo) (pe se : entity) (ss : step_schema) : Prop :=
  (fst se < g)%N /\ gSP r se = Some pe /\ gS r se = Some (ss_name ss) /\ gC r se = Some (ss_command ss) /\
  gI r se = Some (ss_invalidate ss) /\
  KidsOK g (smap (r_dep_parent r)) (smap (r_deps r)) se (ss_deps ss) /\
  KidsOK g (smap (r_out_parent r)) (smap (r_outs r)) se (ss_outs ss).

Lemma KidsOK_mono g g' cp ch se xs : (g <= g')%N -> KidsOK g cp ch se xs -> KidsOK g' cp ch se xs.
Proof.
  intros Hg (des & A & B & C & D). exists des. repeat split; auto; try apply C.
  intros de I. specialize (B _ I). lia.
Qed.
Lemma StepOK_mono g g' r pe se ss : (g <= g')%N -> StepOK g r pe se ss -> StepOK g' r pe se ss.
Proof.
  intros Hg (A & B & C & D & E & F & G). repeat split; auto; try lia; eapply KidsOK_mono; eauto.
Qed.

Lemma kids_frame g se des_new xs_new se_new ch ch' cp cp' xs :
  KidsEffect se_new des_new xs_new ch ch' cp cp' -> (forall e, In e des_new -> (g <= fst e)%N) ->
  se_new <> se -> KidsOK g cp ch se xs -> KidsOK g cp' ch' se xs.
Proof.
  intros (K1 & K2 & K3 & K4 & K5 & K6) Hlo Hne (des & ND & Hb & Hcp & HF). exists des.
  split; [exact ND|]. split; [exact Hb|]. split.
  - intros de. destruct (in_dec ent_eq_dec de des_new) as [I|NI].
    + rewrite (K4 _ I). split; [intros E; injection E; congruence|].
      intros Id. specialize (Hb _ Id). specialize (Hlo _ I). lia.
    + rewrite (K3 _ NI). apply Hcp.
  - eapply Forall2_impl_In; [exact HF|]. intros a b Ia Pa. cbn beta. rewrite K1; [exact Pa|].
    intros I. specialize (Hb _ Ia). specialize (Hlo _ I). lia.
Qed.

Lemma step_frame pe ss' r r' g pe0 se ss :
  StepEffect pe ss' r r' -> (g <= cnt r)%N -> StepOK g r pe0 se ss -> StepOK g r' pe0 se ss.
Proof.
  intros (E1 & E2 & E3 & E4 & E5 & E6 & E7 & E8 & E9 & E10) Hg (A & B & C & D & E & F & G).
  assert (Hne : (cnt r, grnd (r_gen r)) <> se) by (intros <-; cbn [fst] in A; lia).
  split; [exact A|]. split; [rewrite E8, eget_eput', (eqe_neq _ _ Hne); exact B|].
  split; [rewrite E5, (eqe_neq _ _ Hne); exact C|]. split; [rewrite E6, (eqe_neq _ _ Hne); exact D|].
  split; [rewrite E7, (eqe_neq _ _ Hne); exact E|]. split.
  - eapply kids_frame; [exact E9| |exact Hne|exact F]. intros e I. apply In_ents in I. lia.
  - eapply kids_frame; [exact E10| |exact Hne|exact G]. intros e I. apply In_ents in I. lia.
Qed.

Lemma kids_new se des xs ch ch' cp cp' c g' :
  KidsEffect se des xs ch ch' cp cp' -> NoDup des -> (forall e, In e des -> (fst e < g')%N) ->
  VB c cp -> fst se = c -> KidsOK g' cp' ch' se xs.
Proof.
  intros (K1 & K2 & K3 & K4 & K5 & K6) ND Hb HV Hc. exists des. split; [exact ND|]. split; [exact Hb|].
  split; [|exact K2]. intros de. split; [|apply K4].
  destruct (in_dec ent_eq_dec de des) as [I|NI]; [auto|]. rewrite (K3 _ NI). intros G.
  apply eget_In in G. specialize (HV _ G). cbn [snd] in HV. lia.
Qed.

Lemma step_new_ok pe ss r r' :
  StepEffect pe ss r r' -> Inv r -> StepOK (cnt r') r' pe (cnt r, grnd (r_gen r)) ss.
Proof.
  intros (E1 & E2 & E3 & E4 & E5 & E6 & E7 & E8 & E9 & E10) HI. unfold step_cost in E3.
  split; [cbn [fst]; lia|]. split; [rewrite E8, eget_eput', eqe_refl; reflexivity|].
  split; [rewrite E5, eqe_refl; reflexivity|]. split; [rewrite E6, eqe_refl; reflexivity|].
  split; [rewrite E7, eqe_refl; reflexivity|]. split.
  - eapply kids_new; [exact E9|apply NoDup_ents| |apply (i_vbDP _ HI)|reflexivity].
    intros e I. apply In_ents in I. lia.
  - eapply kids_new; [exact E10|apply NoDup_ents| |apply (i_vbOP _ HI)|reflexivity].
    intros e I. apply In_ents in I. lia.
Qed.

(* ---- the loop over the steps of the schema ----------------------------------------------------- *)
Definition steps_cost (l : list step_schema) : N := fold_right (fun ss a => step_cost ss + a)%N 0%N l.
Lemma schema_cost_steps s : schema_cost s = (steps_cost (sc_steps s) + 1)%N.
Proof.
  unfold schema_cost, steps_cost. induction (sc_steps s) as [|ss l IH]; cbn [fold_right]; [reflexivity|].
  rewrite IH. lia.
Qed.

Definition Done (pe : entity) (r : repo) (done : list (entity * step_schema)) : Prop :=
  (forall ce, gSP r ce = Some pe <-> In ce (map fst done)) /\
  StronglySorted (fun a b => (fst a < fst b)%N) (map fst done) /\
  Forall (fun d => StepOK (cnt r) r pe (fst d) (snd d)) done.

Lemma import_steps_spec pe pn : forall steps r done,
  Inv r -> gP r pe = Some pn -> (cnt r + steps_cost steps < two64)%N -> Done pe r done ->
  let r' := fold_left (import_step pe pn) steps r in
  exists done', map snd done' = steps /\ Done pe r' (done ++ done') /\ Inv r' /\
                r_pipelines r' = r_pipelines r /\ r_rundirs r' = r_rundirs r /\ cnt r' = (cnt r + steps_cost steps)%N.
Proof.
  induction steps as [|ss steps IH]; intros r done HI HP Hlt HD; cbn [fold_left].
  - exists []. rewrite app_nil_r. split; [reflexivity|]. split; [exact HD|]. split; [exact HI|].
    split; [reflexivity|]. split; [reflexivity|cbn [steps_cost fold_right]; lia].
  - cbn [steps_cost fold_right] in Hlt. fold (steps_cost steps) in Hlt.
    pose proof (import_step_effect pe pn r ss HP) as HE. set (r1 := import_step pe pn r ss) in *.
    assert (Hlt1 : (cnt r + step_cost ss < two64)%N) by lia. specialize (HE Hlt1).
    pose proof (step_effect_inv _ _ _ _ _ HI HP Hlt1 HE) as HI1.
    pose proof (step_new_ok _ _ _ _ HE HI) as Hnew.
    pose proof HE as (E1 & E2 & E3 & E4 & E5 & E6 & E7 & E8 & _).
    destruct HD as (D1 & D2 & D3).
    set (se := (cnt r, grnd (r_gen r))) in *.
    assert (HD1 : Done pe r1 (done ++ [(se, ss)])).
    { split; [|split].
      - intros ce. rewrite E8, eget_eput', map_app, in_app_iff. cbn [map fst In].
        destruct (eqe_spec se ce) as [<-|Hne]; [tauto|]. rewrite D1. tauto.
      - rewrite map_app. cbn [map fst]. apply SSorted_snoc; [exact D2|].
        rewrite Forall_forall. intros x Hx. apply in_map_iff in Hx. destruct Hx as (d & <- & Hd).
        rewrite Forall_forall in D3. destruct (D3 _ Hd) as (Hb & _). cbn [fst]. exact Hb.
      - apply Forall_app. split; [|constructor; [exact Hnew|constructor]].
        rewrite Forall_forall in *. intros d Hd. eapply StepOK_mono; [|eapply step_frame; [exact HE| |apply D3, Hd]]; lia. }
    destruct (IH r1 (done ++ [(se, ss)]) HI1) as (done' & M & HD' & HI' & P' & R' & C'); auto.
    { rewrite E1. exact HP. }
    { rewrite E3. lia. }
    exists ((se, ss) :: done'). rewrite <- app_assoc in HD'. cbn [app] in HD'.
    split; [cbn [map snd]; now rewrite M|]. split; [exact HD'|]. split; [exact HI'|].
    split; [now rewrite P', E1|]. split; [now rewrite R', E2|]. rewrite E3 in C'.
    cbn [steps_cost fold_right]. fold (steps_cost steps). lia.
Qed.

(* ---- export of an imported pipeline ---------------------------------------------------------------- *)
Lemma find_unique A (f : A -> bool) l a :
  In a l -> f a = true -> (forall x, In x l -> f x = true -> x = a) -> find f l = Some a.
Proof.
  induction l as [|y l IH]; [intros []|]. intros Ia Fa Hu. cbn [find].
  destruct (f y) eqn:Fy.
  - f_equal. apply Hu; [now left|exact Fy].
  - destruct Ia as [->|Ia]; [congruence|]. apply IH; auto. intros x Ix. apply Hu. now right.
Qed.

Definition import_cont (n : list N) (s : schema) (r : repo) : repo :=
  let '(pe, r) := new_entity r in
  let r := set_rundirs (set_pipelines r (fst (insert lN_eqb (r_pipelines r) pe n)))
                       (fst (insert lN_eqb (r_rundirs r) pe (sc_workdir s))) in
  fold_left (import_step pe n) (sc_steps s) r.

Lemma import_unfold r n s ow : sc_version s = 1%N ->
  import r n s ow =
  match find_pipeline r n with
  | Some (old_e, _) =>
    if ow then ROk (import_cont n s (set_pipelines r (fst (remove lN_eqb (r_pipelines r) old_e))))
    else RErr PipelineAlreadyFound
  | None => ROk (import_cont n s r)
  end.
Proof.
  intros E. unfold import, import_cont. rewrite E. change (negb (1 =? 1)%N) with false. cbv iota.
  destruct (find_pipeline r n) as [[old_e ?]|]; [destruct ow|]; reflexivity.
Qed.

Section Export.
Variable hperm : forall A : Type, list A -> list A.
Hypothesis hperm_perm : forall A (l : list A), Permutation (hperm A l) l.

Lemma kids_export (R : r1n (list N) (list N)) se xs g :
  NoDup (keys (smap (child_parents R))) ->
  KidsOK g (smap (child_parents R)) (smap (children R)) se xs ->
  sort_payloads (map snd (hperm _ (children_of R se))) = sort_payloads xs.
Proof.
  intros ND (des & NDd & _ & Hcp & HF). pose proof (F2_length _ _ _ _ _ HF) as HL.
  assert (HP : Permutation (children_of R se) (combine des xs)).
  { apply children_of_perm; [exact ND|rewrite map_fst_combine; auto|].
    intros ce u. split.
    - intros I. split; [apply Hcp; eapply in_combine_l; exact I|].
      exact (Forall2_combine _ _ _ _ _ _ _ HF I).
    - intros [G1 G2]. apply Hcp in G1. destruct (Forall2_In_l _ _ _ _ _ _ HF G1) as (b & Ib & Pb).
      cbn beta in Pb. rewrite G2 in Pb. injection Pb as ->. exact Ib. }
  apply sort_payloads_perm.
  eapply perm_trans; [apply Permutation_map, hperm_perm|].
  eapply perm_trans; [apply Permutation_map, HP|]. rewrite map_snd_combine; auto.
Qed.

Lemma export_step_ok r g pe se ss :
  Inv r -> StepOK g r pe se ss -> export_step hperm r (se, ss_name ss) = Some (norm_step ss).
Proof.
  intros HI (Hb & HSP & HS & HC & HIv & HD & HO). unfold export_step. cbn [fst snd]. rewrite HC, HIv.
  rewrite (kids_export (sdep_r1n r) se (ss_deps ss) g (i_ndDP _ HI) HD).
  rewrite (kids_export (sout_r1n r) se (ss_outs ss) g (i_ndOP _ HI) HO). reflexivity.
Qed.

Lemma done_sorted (done : list (entity * step_schema)) :
  StronglySorted (fun a b => (fst a < fst b)%N) (map fst done) ->
  StronglySorted (fun a b : entity * list N => lee (fst a) (fst b) = true)
                 (map (fun d => (fst d, ss_name (snd d))) done).
Proof.
  induction done as [|d done IH]; cbn [map]; intros HS; [constructor|].
  inversion HS as [|? ? HS' HF]; subst. constructor; [now apply IH|].
  rewrite Forall_forall in *. intros x Hx. apply in_map_iff in Hx. destruct Hx as (d' & <- & Hd').
  cbn [fst]. apply lee_of_fst_lt. apply HF. now apply in_map.
Qed.

Lemma done_export r pe (done : list (entity * step_schema)) :
  Inv r -> Forall (fun d => StepOK (cnt r) r pe (fst d) (snd d)) done ->
  map_opt (export_step hperm r) (map (fun d => (fst d, ss_name (snd d))) done) = Some (map norm_step (map snd done)).
Proof.
  intros HI. induction 1 as [|d done Hd HF IH]; cbn [map map_opt]; [reflexivity|].
  rewrite (export_step_ok _ _ _ _ _ HI Hd), IH. reflexivity.
Qed.

Lemma import_cont_spec r n s :
  Inv r -> (cnt r + schema_cost s < two64)%N ->
  Inv (import_cont n s r) /\ cnt (import_cont n s r) = (cnt r + schema_cost s)%N /\
  ((forall x, In x (smap (r_pipelines r)) -> snd x <> n) -> sc_version s = 1%N ->
   export hperm (import_cont n s r) n = EOk (norm_schema (rename_schema n s))).
Proof.
  intros HI Hlt. rewrite schema_cost_steps in Hlt |- *.
  unfold import_cont, new_entity. cbn [gen_next].
  set (pe := (cnt r, grnd (r_gen r))).
  match goal with |- context [fold_left _ _ ?x] => set (r2 := x) end.
  assert (Ec2 : cnt r2 = (cnt r + 1)%N) by (unfold r2; simpl_repo; apply N.mod_small; lia).
  assert (HI2 : Inv r2).
  { constructor; unfold r2; simpl_repo; fold (cnt r); try rewrite (N.mod_small (cnt r + 1)) by lia.
    - apply nodup_eput, HI.
    - apply HI. - apply HI. - apply HI.
    - apply KB_eput; [eapply KB_mono; [|apply HI]; lia|unfold pe; cbn [fst]; lia].
    - eapply KB_mono; [|apply HI]; lia.
    - eapply KB_mono; [|apply HI]; lia.
    - eapply KB_mono; [|apply HI]; lia.
    - eapply VB_mono; [|apply HI]; lia.
    - eapply VB_mono; [|apply HI]; lia.
    - eapply VB_mono; [|apply HI]; lia. }
  assert (HP2 : gP r2 pe = Some n) by (unfold r2; simpl_repo; rewrite eget_eput', eqe_refl; reflexivity).
  assert (HD2 : Done pe r2 []).
  { split; [|split; constructor]. intros ce. cbn [map In]. split; [|tauto]. unfold r2; simpl_repo. intros G.
    apply eget_In in G. pose proof (i_vbSP _ HI _ G) as Hb. cbn [snd] in Hb. unfold pe in Hb. cbn [fst] in Hb. lia. }
  destruct (import_steps_spec pe n (sc_steps s) r2 [] HI2 HP2) as (done & M & HD & HI' & P' & R' & C'); [rewrite Ec2; lia|exact HD2|].
  set (r' := fold_left (import_step pe n) (sc_steps s) r2) in *. cbn [app] in HD.
  split; [exact HI'|]. split; [rewrite C', Ec2; lia|]. intros Hn Hv. destruct HD as (D1 & D2 & D3).
  unfold export.
  assert (HF : find_pipeline r' n = Some (pe, n)).
  { unfold find_pipeline. rewrite P'. unfold r2; simpl_repo. apply find_unique.
    - apply In_eput. now left.
    - cbn [snd]. apply lN_eqb_refl.
    - intros x Hx Fx. apply In_eput in Hx. destruct Hx as [->|[Hx _]]; [reflexivity|].
      exfalso. apply (Hn _ Hx). cbn beta in Fx. now apply lN_eqb_true. }
  rewrite HF.
  assert (HW : gRD r' pe = Some (sc_workdir s)).
  { rewrite R'. unfold r2; simpl_repo. rewrite eget_eput', eqe_refl. reflexivity. }
  rewrite HW.
  set (L := map (fun d : entity * step_schema => (fst d, ss_name (snd d))) done).
  assert (HL : map fst L = map fst done) by (unfold L; rewrite map_map; reflexivity).
  assert (HPm : Permutation (children_of (pstep_r1n r') pe) L).
  { apply children_of_perm; [apply (i_ndSP _ HI')|rewrite HL; now apply SSorted_lt_NoDup|].
    intros ce u. simpl_repo. rewrite Forall_forall in D3. split.
    - intros I. unfold L in I. apply in_map_iff in I. destruct I as (d & E & Hd). injection E as <- <-.
      split; [apply D1; now apply in_map|]. apply (D3 _ Hd).
    - intros [G1 G2]. apply D1 in G1. apply in_map_iff in G1. destruct G1 as (d & <- & Hd).
      destruct (D3 _ Hd) as (_ & _ & GS & _). rewrite GS in G2. injection G2 as <-.
      unfold L. apply in_map_iff. exists d. auto. }
  assert (HS : sort_steps (hperm _ (children_of (pstep_r1n r') pe)) = L).
  { transitivity (sort_steps L).
    - symmetry. apply sort_steps_perm; [|rewrite HL; now apply SSorted_lt_NoDup].
      symmetry. eapply perm_trans; [apply hperm_perm|exact HPm].
    - apply isort_id.
      + intros a b. apply lee_total.
      + intros a b c. apply lee_trans.
      + now apply done_sorted.
      + apply steps_antisym. rewrite HL. now apply SSorted_lt_NoDup. }
  rewrite HS. unfold L. rewrite (done_export r' pe done HI' D3), M.
  unfold norm_schema, rename_schema. cbn [sc_version sc_name sc_workdir sc_steps]. rewrite Hv. reflexivity.
Qed.
End Export.

(* ---- names -------------------------------------------------------------------------------------------- *)
Lemma existsb_lN_eqb x l : existsb (lN_eqb x) l = true <-> In x l.
Proof.
  rewrite existsb_exists. split.
  - intros (y & I & E). apply lN_eqb_true in E. now subst.
  - intros I. exists x. split; [exact I|apply lN_eqb_refl].
Qed.
Lemma nodupb_NoDup l : nodupb l = true <-> NoDup l.
Proof.
  induction l as [|x l IH]; cbn [nodupb]; [split; [constructor|reflexivity]|].
  rewrite andb_true_iff, negb_true_iff, IH. split.
  - intros [H1 H2]. constructor; [|exact H2]. intros I. apply existsb_lN_eqb in I. congruence.
  - intros H. inversion H as [|? ? Hn ND]; subst. split; [|exact ND].
    destruct (existsb (lN_eqb x) l) eqn:E; [|reflexivity]. apply existsb_lN_eqb in E. tauto.
Qed.
Lemma NoDup_map_inj_In A B (f : A -> B) l a b :
  NoDup (map f l) -> In a l -> In b l -> f a = f b -> a = b.
Proof.
  induction l as [|x l IH]; [intros _ []|]. cbn [map]. intros ND Ia Ib E.
  inversion ND as [|? ? Hn ND']; subst.
  destruct Ia as [->|Ia], Ib as [->|Ib]; auto.
  - exfalso. apply Hn. rewrite E. now apply in_map.
  - exfalso. apply Hn. rewrite <- E. now apply in_map.
Qed.

Lemma find_pipeline_some r n e nm : find_pipeline r n = Some (e, nm) -> In (e, n) (smap (r_pipelines r)) /\ nm = n.
Proof.
  unfold find_pipeline. intros H. apply find_some in H. destruct H as [I E]. cbn [snd] in E.
  apply lN_eqb_true in E. subst. auto.
Qed.
Lemma find_pipeline_none r n : find_pipeline r n = None -> forall x, In x (smap (r_pipelines r)) -> snd x <> n.
Proof.
  unfold find_pipeline. intros H x Hx E. pose proof (find_none _ _ H _ Hx) as F. cbn beta in F.
  rewrite E, lN_eqb_refl in F. discriminate.
Qed.

Lemma remove_pipeline_inv r e : Inv r -> Inv (set_pipelines r (fst (remove lN_eqb (r_pipelines r) e))).
Proof.
  intros HI. constructor; simpl_repo; try rewrite smap_remove; try apply HI.
  - apply nodup_edel, HI.
  - apply KB_edel, HI.
Qed.

(* ---- the theorems -------------------------------------------------------------------------------------- *)
Section Theorems.
Variable hperm : forall A : Type, list A -> list A.
Hypothesis hperm_perm : forall A (l : list A), Permutation (hperm A l) l.

(* importing any version-1 schema under a name that is free (or with --overwrite) gives a pipeline
   whose export is the schema in normal form (dependencies and outputs sorted) under that name *)
Theorem import_then_export_lemma r n s ow :
  Inv r -> uniq_names r = true -> sc_version s = 1%N -> (cnt r + schema_cost s < two64)%N ->
  (ow = true \/ find_pipeline r n = None) ->
  exists r', import r n s ow = ROk r' /\ Inv r' /\
             export hperm r' n = EOk (norm_schema (rename_schema n s)).
Proof.
  intros HI HU Hv Hlt Hfree. rewrite (import_unfold r n s ow Hv).
  destruct (find_pipeline r n) as [[old_e nm]|] eqn:F.
  - destruct Hfree as [->|?]; [|discriminate].
    apply find_pipeline_some in F. destruct F as [Iold ->].
    eexists. split; [reflexivity|].
    destruct (import_cont_spec hperm hperm_perm (set_pipelines r (fst (remove lN_eqb (r_pipelines r) old_e))) n s) as (A & _ & B);
      [now apply remove_pipeline_inv|exact Hlt|]. split; [exact A|]. apply B; [|exact Hv].
    + simpl_repo. rewrite smap_remove. intros x Hx E. apply In_edel in Hx. destruct Hx as [Hx Hne].
      apply Hne. unfold uniq_names in HU. apply nodupb_NoDup in HU.
      assert (Ex : x = (old_e, n)) by (eapply NoDup_map_inj_In; [exact HU|exact Hx|exact Iold|exact E]).
      rewrite Ex. reflexivity.
  - eexists. split; [reflexivity|].
    destruct (import_cont_spec hperm hperm_perm r n s) as (A & _ & B); auto.
    split; [exact A|]. apply B; [|exact Hv]. now apply find_pipeline_none.
Qed.

(* what export prints is in normal form, has version 1 and the name asked for *)
Lemma map_opt_Forall A B (f : A -> option B) l l' :
  map_opt f l = Some l' -> Forall (fun y => exists x, f x = Some y) l'.
Proof.
  revert l'; induction l as [|x l IH]; cbn [map_opt]; intros l' H.
  - injection H as <-. constructor.
  - destruct (f x) as [y|] eqn:Fx; [|discriminate]. destruct (map_opt f l) as [ys|]; [|discriminate].
    injection H as <-. constructor; [eauto|now apply IH].
Qed.
Theorem export_normal_lemma r n s :
  export hperm r n = EOk s -> norm_schema s = s /\ sc_version s = 1%N /\ sc_name s = n.
Proof.
  unfold export. destruct (find_pipeline r n) as [[pe pname]|] eqn:F; [|discriminate].
  apply find_pipeline_some in F. destruct F as [_ ->].
  destruct (map_opt _ _) as [ss|] eqn:M; [|discriminate]. intros E; injection E as <-.
  split; [|split; reflexivity]. unfold norm_schema; cbn [sc_version sc_name sc_workdir sc_steps]. f_equal.
  apply map_opt_Forall in M. induction M as [|y l Hy HF IH]; cbn [map]; [reflexivity|]. f_equal; [|exact IH].
  destruct Hy as (x & Hx). unfold export_step in Hx.
  destruct (eget (smap (r_commands r)) (fst x)); [|discriminate]. injection Hx as <-.
  unfold norm_step; cbn [ss_name ss_command ss_invalidate ss_deps ss_outs]. now rewrite !sort_payloads_idem.
Qed.

End Theorems.

Section Theorems2.
Variable hperm hperm' : forall A : Type, list A -> list A.
Hypothesis hperm_perm : forall A (l : list A), Permutation (hperm A l) l.
Hypothesis hperm_perm' : forall A (l : list A), Permutation (hperm' A l) l.

(* C14, core: export -> import under a new name (or over an existing one with --overwrite) -> export
   gives the same schema except for the name *)
Theorem export_import_export_lemma r n n' s ow :
  Inv r -> uniq_names r = true -> export hperm r n = EOk s -> (cnt r + schema_cost s < two64)%N ->
  (ow = true \/ find_pipeline r n' = None) ->
  exists r', import r n' s ow = ROk r' /\ Inv r' /\ export hperm' r' n' = EOk (rename_schema n' s).
Proof.
  intros HI HU HE Hlt Hfree. destruct (export_normal_lemma hperm r n s HE) as (Hn & Hv & _).
  destruct (import_then_export_lemma hperm' hperm_perm' r n' s ow HI HU Hv Hlt Hfree) as (r' & A & B & C).
  exists r'. split; [exact A|]. split; [exact B|]. rewrite C. f_equal.
  unfold norm_schema, rename_schema in *. cbn [sc_version sc_name sc_workdir sc_steps].
  destruct s as [v nm wd ss]. cbn [sc_version sc_name sc_workdir sc_steps] in *. injection Hn as ->. reflexivity.
Qed.

(* C14: without --overwrite an existing name is refused, and the repository stays as it was *)
Theorem import_refuses_existing_lemma r n s x :
  find_pipeline r n = Some x -> sc_version s = 1%N -> import r n s false = RErr PipelineAlreadyFound.
Proof. intros F Hv. rewrite (import_unfold r n s false Hv), F. destruct x. reflexivity. Qed.
End Theorems2.

(* ---- every repository the commands can reach satisfies the invariant ------------------------------ *)
Lemma inv_set_rundirs r x : Inv r -> Inv (set_rundirs r x).
Proof. intros HI. constructor; apply HI. Qed.
Lemma inv_set_steps r x : Inv r -> Inv (set_steps r x).
Proof. intros HI. constructor; apply HI. Qed.
Lemma inv_set_commands r x : Inv r -> Inv (set_commands r x).
Proof. intros HI. constructor; apply HI. Qed.
Lemma inv_set_invalidates r x : Inv r -> Inv (set_invalidates r x).
Proof. intros HI. constructor; apply HI. Qed.
Lemma inv_set_deps r x : Inv r -> Inv (set_deps r x).
Proof. intros HI. constructor; apply HI. Qed.
Lemma inv_set_outs r x : Inv r -> Inv (set_outs r x).
Proof. intros HI. constructor; apply HI. Qed.
Lemma inv_set_rnd r rnd : Inv r -> Inv (set_rnd r rnd).
Proof. intros HI. constructor; apply HI. Qed.
Lemma inv_set_pipelines r x :
  Inv r -> NoDup (keys (smap x)) -> KB _ (cnt r) (smap x) -> Inv (set_pipelines r x).
Proof. intros HI A B. constructor; simpl_repo; try apply HI; assumption. Qed.
Lemma inv_set_step_parent r x :
  Inv r -> NoDup (keys (smap x)) -> KB _ (cnt r) (smap x) -> VB (cnt r) (smap x) -> Inv (set_step_parent r x).
Proof. intros HI A B D. constructor; simpl_repo; try apply HI; assumption. Qed.
Lemma inv_alloc r :
  Inv r -> (cnt r + 1 < two64)%N ->
  Inv (set_gen r (snd (gen_next (r_gen r)))) /\ cnt (set_gen r (snd (gen_next (r_gen r)))) = (cnt r + 1)%N.
Proof.
  intros HI Hlt. assert (E : cnt (set_gen r (snd (gen_next (r_gen r)))) = (cnt r + 1)%N).
  { cbn [gen_next snd]. simpl_repo. apply N.mod_small. lia. }
  split; [|exact E].
  constructor; rewrite ?E; simpl_repo; try apply HI;
    first [eapply KB_mono; [|apply HI]; lia | eapply VB_mono; [|apply HI]; lia].
Qed.

Lemma r1n_insert_parents T U (teqb : T -> T -> bool) (ueqb : U -> U -> bool) (R : r1n T U) pe pc ce cc :
  smap (parents (r1n_insert teqb ueqb R pe pc ce cc)) = smap (parents R) \/
  smap (parents (r1n_insert teqb ueqb R pe pc ce cc)) = eput (smap (parents R)) pe pc.
Proof.
  unfold r1n_insert. cbn [parents]. destruct (eget (smap (parents R)) pe) as [v|].
  - destruct (teqb v pc); [now left|right; apply smap_update].
  - right. reflexivity.
Qed.

Lemma find_step_some r pe s se :
  Inv r -> find_step r pe s = Some se -> gS r se = Some s /\ gSP r se = Some pe /\ (fst se < cnt r)%N.
Proof.
  intros HI. unfold find_step.
  destruct (find _ (children_of (pstep_r1n r) pe)) as [[e s']|] eqn:F; [|discriminate].
  intros E; injection E as ->. apply find_some in F. destruct F as [I E]. cbn [snd] in E. apply lN_eqb_true in E. subst s'.
  destruct (children_of_spec _ _ (pstep_r1n r) pe (i_ndSP _ HI)) as [_ H]. apply H in I. simpl_repo in I.
  destruct I as [A B]. split; [exact B|]. split; [exact A|].
  apply eget_In in A. exact (i_kbSP _ HI _ A).
Qed.

Definition cmd_cost (c : cmd) : N :=
  match c with
  | CNew _ _ => 1 | CStepNew _ _ _ _ => 1
  | CDeps _ _ l => N.of_nat (length l) | COuts _ _ l => N.of_nat (length l)
  | CImport _ s _ => schema_cost s
  | _ => 0
  end.

Lemma import_inv r n s ow r' :
  Inv r -> (cnt r + schema_cost s < two64)%N -> import r n s ow = ROk r' ->
  Inv r' /\ cnt r' = (cnt r + schema_cost s)%N.
Proof.
  intros HI Hlt. destruct (N.eqb_spec (sc_version s) 1) as [Hv|Hv].
  - rewrite (import_unfold r n s ow Hv).
    destruct (find_pipeline r n) as [[old_e nm]|]; [destruct ow; [|discriminate]|]; intros E; injection E as <-.
    + destruct (import_cont_spec (fun _ l => l) (fun _ l => Permutation_refl l)
                  (set_pipelines r (fst (remove lN_eqb (r_pipelines r) old_e))) n s) as (A & B & _);
        [now apply remove_pipeline_inv|exact Hlt|]. split; [exact A|exact B].
    + destruct (import_cont_spec (fun _ l => l) (fun _ l => Permutation_refl l) r n s) as (A & B & _); auto.
  - unfold import. destruct (N.eqb_spec (sc_version s) 1); [contradiction|]. discriminate.
Qed.

Lemma with_step_ok r p s k r' :
  with_step r p s k = ROk r' ->
  exists pe pn se, find_pipeline r p = Some (pe, pn) /\ find_step r pe s = Some se /\ k pe se = ROk r'.
Proof.
  unfold with_step. destruct (find_pipeline r p) as [[pe pn]|] eqn:FP; [|discriminate].
  destruct (find_step r pe s) as [se|] eqn:FS; [|discriminate]. intros E. exists pe, pn, se. split; [reflexivity|]. split; [exact FS|exact E].
Qed.

Lemma ROk_inj a b : ROk a = ROk b -> a = b.
Proof. intros E; injection E; auto. Qed.

Lemma kids_effect_inv r r' se des xs :
  Inv r -> (fst se < cnt r)%N -> (cnt r <= cnt r')%N -> (forall e, In e des -> (fst e < cnt r')%N) ->
  r_pipelines r' = r_pipelines r -> r_step_parent r' = r_step_parent r ->
  (KidsEffect se des xs (smap (r_deps r)) (smap (r_deps r')) (smap (r_dep_parent r)) (smap (r_dep_parent r')) /\
   r_out_parent r' = r_out_parent r) \/
  (KidsEffect se des xs (smap (r_outs r)) (smap (r_outs r')) (smap (r_out_parent r)) (smap (r_out_parent r')) /\
   r_dep_parent r' = r_dep_parent r) ->
  Inv r'.
Proof.
  intros HI Hse Hc Hd EP ESP [[K EO]|[K ED]].
  - destruct (kids_inv _ _ _ _ _ _ _ (cnt r) (cnt r') K Hd) as (A & B & C); [lia|exact Hc|apply HI|apply HI|apply HI|].
    constructor; rewrite ?EP, ?ESP, ?EO; auto; try apply HI;
      first [eapply KB_mono; [|apply HI]; lia | eapply VB_mono; [|apply HI]; lia].
  - destruct (kids_inv _ _ _ _ _ _ _ (cnt r) (cnt r') K Hd) as (A & B & C); [lia|exact Hc|apply HI|apply HI|apply HI|].
    constructor; rewrite ?EP, ?ESP, ?ED; auto; try apply HI;
      first [eapply KB_mono; [|apply HI]; lia | eapply VB_mono; [|apply HI]; lia].
Qed.

Lemma exec_inv fr r c r' :
  Inv r -> (cnt r + cmd_cost c < two64)%N -> exec fr r c = ROk r' ->
  Inv r' /\ (cnt r <= cnt r' <= cnt r + cmd_cost c)%N.
Proof.
  intros HI Hlt. destruct c as [p wd|p q|p s c w|p s c w|p s l|p s l|p s old new|p s ow]; cbn [exec cmd_cost] in *.
  - (* pipeline new *)
    destruct (existsb _ _); [discriminate|]. unfold new_entity. cbn [gen_next].
    destruct (inv_alloc r HI Hlt) as [HA EA]. cbn [gen_next snd] in HA, EA.
    set (r1 := set_gen r _) in *. intros E.
    assert (HI1 : Inv (set_pipelines r1 (fst (insert lN_eqb (r_pipelines r1) (cnt r, grnd (r_gen r)) p)))).
    { apply inv_set_pipelines; [exact HA|rewrite smap_insert; apply nodup_eput, HA|].
      rewrite smap_insert. apply KB_eput; [apply HA|rewrite EA; cbn [fst]; lia]. }
    destruct wd; apply ROk_inj in E; subst r'; (split; [try apply inv_set_rundirs; exact HI1|simpl_repo; simpl_repo in EA; lia]).
  - (* rename *)
    destruct (filter _ _) as [|[pe nm] [|? ?]] eqn:F; try discriminate.
    destruct (fr && _ && _); [discriminate|]. intros E; apply ROk_inj in E; subst r'.
    assert (Ipe : In (pe, nm) (smap (r_pipelines r))).
    { assert (I : In (pe, nm) (filter (fun ep => lN_eqb (snd ep) p) (smap (r_pipelines r)))) by (rewrite F; now left).
      apply filter_In in I. tauto. }
    split; [|simpl_repo; lia]. apply inv_set_pipelines; [exact HI|rewrite smap_update; apply nodup_eput, HI|].
    rewrite smap_update. apply KB_eput; [apply HI|exact (i_kbP _ HI _ Ipe)].
  - (* step new *)
    destruct (find_pipeline r p) as [[pe pn]|] eqn:F; [|discriminate].
    destruct (find_step r pe s); [discriminate|]. unfold new_entity. cbn [gen_next].
    destruct (inv_alloc r HI Hlt) as [HA EA]. cbn [gen_next snd] in HA, EA.
    set (r1 := set_gen r _) in *. intros E; apply ROk_inj in E; subst r'.
    apply find_pipeline_some in F. destruct F as [Ipe _].
    pose proof (i_kbP _ HI _ Ipe) as Hpe. cbn [fst] in Hpe.
    match goal with |- context [set_pstep ?x ?R] => set (r3 := x); set (RR := R) end.
    assert (HI3 : Inv r3) by (unfold r3; apply inv_set_commands, inv_set_invalidates, inv_set_steps, HA).
    assert (E3 : cnt r3 = (cnt r + 1)%N) by exact EA.
    split; [|unfold set_pstep; simpl_repo; simpl_repo in EA; lia].
    unfold set_pstep. apply inv_set_step_parent; [apply inv_set_steps, inv_set_pipelines; [exact HI3| |]| | |].
    + destruct (r1n_insert_parents _ _ lN_eqb lN_eqb (pstep_r1n r3) pe pn (cnt r, grnd (r_gen r)) s) as [->| ->];
        [apply HI3|apply nodup_eput, HI3].
    + destruct (r1n_insert_parents _ _ lN_eqb lN_eqb (pstep_r1n r3) pe pn (cnt r, grnd (r_gen r)) s) as [->| ->];
        [apply HI3|apply KB_eput; [apply HI3|rewrite E3; lia]].
    + unfold RR, r1n_insert; cbn [child_parents]. rewrite smap_insert. apply nodup_eput, HI3.
    + unfold RR, r1n_insert; cbn [child_parents]. rewrite smap_insert. simpl_repo.
      apply KB_eput; [apply HI3|fold (cnt r3); rewrite E3; cbn [fst]; lia].
    + unfold RR, r1n_insert; cbn [child_parents]. rewrite smap_insert. simpl_repo.
      apply VB_eput; [apply HI3|fold (cnt r3); rewrite E3; lia].
  - (* step update *)
    intros E. apply with_step_ok in E. destruct E as (pe & pn & se & _ & _ & E).
    split; [|destruct c; apply ROk_inj in E; subst r'; simpl_repo; lia].
    destruct c; apply ROk_inj in E; subst r'; try apply inv_set_commands; apply inv_set_invalidates, inv_set_steps, HI.
  - (* step dependency *)
    intros E. apply with_step_ok in E. destruct E as (pe & pn & se & _ & FS & E). apply ROk_inj in E; subst r'.
    destruct (find_step_some r pe s se HI FS) as (GS & _ & Hse).
    destruct (add_deps_effect r se s l GS Hlt) as (D1 & D2 & D3 & D4 & D5 & D6 & D7 & D8 & D9 & D10 & D11).
    split; [|rewrite D9; lia].
    eapply kids_effect_inv; [exact HI|exact Hse|rewrite D9; lia| |exact D1|exact D4|left; split; [exact D11|exact D8]].
    intros e I. apply In_ents in I. rewrite D9. lia.
  - (* step output *)
    intros E. apply with_step_ok in E. destruct E as (pe & pn & se & _ & FS & E). apply ROk_inj in E; subst r'.
    destruct (find_step_some r pe s se HI FS) as (GS & _ & Hse).
    destruct (add_outs_effect r se s l GS Hlt) as (D1 & D2 & D3 & D4 & D5 & D6 & D7 & D8 & D9 & D10 & D11).
    split; [|rewrite D9; lia].
    eapply kids_effect_inv; [exact HI|exact Hse|rewrite D9; lia| |exact D1|exact D4|right; split; [exact D11|exact D8]].
    intros e I. apply In_ents in I. rewrite D9. lia.
  - (* pipeline run records a dependency *)
    intros E. apply with_step_ok in E. destruct E as (pe & pn & se & _ & _ & E).
    destruct (find _ _) as [[de ?]|]; [|discriminate]. apply ROk_inj in E; subst r'.
    split; [apply inv_set_deps, HI|simpl_repo; lia].
  - (* import *)
    intros E. destruct (import_inv r p s ow r' HI Hlt E) as [A B]. split; [exact A|lia].
Qed.

Definition hist_cost (h : list (N * cmd)) : N := fold_right (fun x a => cmd_cost (snd x) + a)%N 0%N h.

Lemma exec1_inv fr r x :
  Inv r -> (cnt r + cmd_cost (snd x) < two64)%N ->
  Inv (exec1 fr r x) /\ (cnt r <= cnt (exec1 fr r x) <= cnt r + cmd_cost (snd x))%N.
Proof.
  intros HI Hlt. unfold exec1. destruct (exec fr (set_rnd r (fst x)) (snd x)) as [r'| |] eqn:E;
    [|split; [exact HI|lia]|split; [exact HI|lia]].
  apply exec_inv in E; [exact E|now apply inv_set_rnd|exact Hlt].
Qed.

Lemma run_inv fr h : forall r,
  Inv r -> (cnt r + hist_cost h < two64)%N ->
  Inv (run_cmds fr h r) /\ (cnt r <= cnt (run_cmds fr h r) <= cnt r + hist_cost h)%N.
Proof.
  induction h as [|x h IH]; intros r HI Hlt; cbn [run_cmds fold_left hist_cost fold_right] in *.
  - split; [exact HI|lia].
  - fold (hist_cost h) in *. destruct (exec1_inv fr r x HI) as [A B]; [lia|].
    destruct (IH (exec1 fr r x) A) as [C D]; [lia|]. fold (run_cmds fr h (exec1 fr r x)) in *.
    split; [exact C|lia].
Qed.

Lemma init_inv rnd dn : Inv (init_repo rnd dn) /\ cnt (init_repo rnd dn) = 2%N.
Proof.
  split; [|reflexivity].
  constructor; cbn.
  - constructor; [intros []|constructor].
  - constructor. - constructor. - constructor.
  - intros y [<-|[]]. cbn. lia.
  - intros y []. - intros y []. - intros y [].
  - intros y []. - intros y []. - intros y [].
Qed.

Theorem reachable_inv_lemma fr rnd dn h :
  (2 + hist_cost h < two64)%N -> Inv (run_cmds fr h (init_repo rnd dn)).
Proof.
  intros Hlt. destruct (init_inv rnd dn) as [A B]. apply run_inv; [exact A|rewrite B; exact Hlt].
Qed.

(* ---- an import touches nothing that belongs to another pipeline ------------------------------------- *)
Definition Frame (c : N) (r r' : repo) : Prop :=
  (forall e, (fst e < c)%N -> gS r' e = gS r e /\ gC r' e = gC r e /\ gI r' e = gI r e /\ gD r' e = gD r e /\
                              gO r' e = gO r e /\ gRD r' e = gRD r e) /\
  (forall ce v, (fst v < c)%N -> (gSP r' ce = Some v <-> gSP r ce = Some v)) /\
  (forall ce v, (fst v < c)%N -> (gDP r' ce = Some v <-> gDP r ce = Some v)) /\
  (forall ce v, (fst v < c)%N -> (gOP r' ce = Some v <-> gOP r ce = Some v)).

Lemma Frame_trans c r1 r2 r3 : Frame c r1 r2 -> Frame c r2 r3 -> Frame c r1 r3.
Proof.
  intros (A1 & A2 & A3 & A4) (B1 & B2 & B3 & B4). split; [|split; [|split]].
  - intros e He. destruct (A1 e He) as (a1 & a2 & a3 & a4 & a5 & a6). destruct (B1 e He) as (b1 & b2 & b3 & b4 & b5 & b6).
    repeat split; congruence.
  - intros ce v Hv. rewrite (B2 ce v Hv). apply A2, Hv.
  - intros ce v Hv. rewrite (B3 ce v Hv). apply A3, Hv.
  - intros ce v Hv. rewrite (B4 ce v Hv). apply A4, Hv.
Qed.

Lemma kids_frame_cp se des xs ch ch' cp cp' c g :
  KidsEffect se des xs ch ch' cp cp' -> KB _ g cp -> (forall e, In e des -> (g <= fst e)%N) ->
  (c <= fst se)%N -> (c <= g)%N ->
  (forall e, (fst e < c)%N -> eget ch' e = eget ch e) /\
  (forall ce v, (fst v < c)%N -> (eget cp' ce = Some v <-> eget cp ce = Some v)).
Proof.
  intros (K1 & K2 & K3 & K4 & K5 & K6) HK Hlo Hse Hcg. split.
  - intros e He. apply K1. intros I. specialize (Hlo _ I). lia.
  - intros ce v Hv. destruct (in_dec ent_eq_dec ce des) as [I|NI].
    + rewrite (K4 _ I). split.
      * intros E. injection E as <-. lia.
      * intros G. apply eget_In in G. specialize (HK _ G). specialize (Hlo _ I). cbn [fst] in HK. lia.
    + rewrite (K3 _ NI). tauto.
Qed.

Lemma step_effect_frame pe ss r r' c :
  Inv r -> (c <= cnt r)%N -> (c <= fst pe)%N -> StepEffect pe ss r r' -> Frame c r r'.
Proof.
  intros HI Hc Hpe (E1 & E2 & E3 & E4 & E5 & E6 & E7 & E8 & E9 & E10).
  destruct (kids_frame_cp _ _ _ _ _ _ _ c (cnt r) E9 (i_kbDP _ HI)) as [D1 D2];
    [intros e I; apply In_ents in I; lia|cbn [fst]; lia|lia|].
  destruct (kids_frame_cp _ _ _ _ _ _ _ c (cnt r) E10 (i_kbOP _ HI)) as [O1 O2];
    [intros e I; apply In_ents in I; lia|cbn [fst]; lia|lia|].
  split; [|split; [|split]]; auto.
  - intros e He. assert (Hne : (cnt r, grnd (r_gen r)) <> e) by (intros <-; cbn [fst] in He; lia).
    rewrite E5, E6, E7, E2, (eqe_neq _ _ Hne). repeat split; auto.
  - intros ce v Hv. rewrite E8, eget_eput'. destruct (eqe_spec (cnt r, grnd (r_gen r)) ce) as [<-|Hne]; [|tauto].
    split.
    + intros E. injection E as <-. lia.
    + intros G. apply eget_In in G. pose proof (i_kbSP _ HI _ G) as Hb. cbn [fst] in Hb. lia.
Qed.

Lemma import_steps_frame pe pn c : forall steps r,
  Inv r -> gP r pe = Some pn -> (cnt r + steps_cost steps < two64)%N -> (c <= cnt r)%N -> (c <= fst pe)%N ->
  Frame c r (fold_left (import_step pe pn) steps r).
Proof.
  induction steps as [|ss steps IH]; intros r HI HP Hlt Hc Hpe; cbn [fold_left].
  - repeat split; auto.
  - cbn [steps_cost fold_right] in Hlt. fold (steps_cost steps) in Hlt.
    assert (Hlt1 : (cnt r + step_cost ss < two64)%N) by lia.
    pose proof (import_step_effect pe pn r ss HP Hlt1) as HE.
    pose proof (step_effect_inv _ _ _ _ _ HI HP Hlt1 HE) as HI1.
    pose proof HE as (E1 & _ & E3 & _).
    eapply Frame_trans; [eapply step_effect_frame; eauto|].
    apply IH; auto; [rewrite E1; exact HP|rewrite E3; lia|rewrite E3; lia].
Qed.

Lemma import_cont_frame r n s :
  Inv r -> (cnt r + schema_cost s < two64)%N ->
  Frame (cnt r) r (import_cont n s r) /\
  smap (r_pipelines (import_cont n s r)) = eput (smap (r_pipelines r)) (cnt r, grnd (r_gen r)) n.
Proof.
  intros HI Hlt. rewrite schema_cost_steps in Hlt.
  unfold import_cont, new_entity. cbn [gen_next].
  set (pe := (cnt r, grnd (r_gen r))).
  match goal with |- context [fold_left _ _ ?x] => set (r2 := x) end.
  assert (Ec2 : cnt r2 = (cnt r + 1)%N) by (unfold r2; simpl_repo; apply N.mod_small; lia).
  assert (HI2 : Inv r2).
  { unfold r2. apply inv_set_rundirs.
    destruct (inv_alloc r HI) as [HA EA]; [lia|]. cbn [gen_next snd] in HA, EA.
    apply inv_set_pipelines; [exact HA|rewrite smap_insert; apply nodup_eput, HA|].
    rewrite smap_insert. apply KB_eput; [apply HA|rewrite EA; unfold pe; cbn [fst]; lia]. }
  assert (HP2 : gP r2 pe = Some n) by (unfold r2; simpl_repo; rewrite eget_eput', eqe_refl; reflexivity).
  destruct (import_steps_spec pe n (sc_steps s) r2 [] HI2 HP2) as (done & _ & _ & _ & P' & _); [rewrite Ec2; lia| |].
  { split; [|split; constructor]. intros ce. cbn [map In]. split; [|tauto]. unfold r2; simpl_repo. intros G.
    apply eget_In in G. pose proof (i_vbSP _ HI _ G) as Hb. cbn [snd] in Hb. unfold pe in Hb. cbn [fst] in Hb. lia. }
  split; [|rewrite P'; unfold r2; simpl_repo; reflexivity].
  eapply Frame_trans; [|apply (import_steps_frame pe n (cnt r)); auto; [rewrite Ec2; lia|rewrite Ec2; lia|unfold pe; cbn [fst]; lia]].
  split; [|split; [|split]]; unfold r2; simpl_repo; try tauto.
  intros e He. rewrite eget_eput'. assert (Hne : pe <> e) by (intros <-; unfold pe in He; cbn [fst] in He; lia).
  rewrite (eqe_neq _ _ Hne). repeat split; auto.
Qed.

Lemma find_ins_sorted_false V (f : entity * V -> bool) m k v :
  f (k, v) = false -> find f (ins_sorted lte m k v) = find f m.
Proof.
  intros Hf. induction m as [|[k' v'] r IH]; cbn [ins_sorted find]; [now rewrite Hf|].
  destruct (lte k k'); cbn [find]; [now rewrite Hf|]. destruct (f (k', v')); auto.
Qed.
Lemma find_edel_false V (f : entity * V -> bool) (m : list (entity * V)) k :
  (forall v, In (k, v) m -> f (k, v) = false) -> find f (edel m k) = find f m.
Proof.
  unfold edel. induction m as [|[k' v'] r IH]; intros Hf; cbn [del find]; [reflexivity|].
  destruct (eqe_spec k' k) as [->|Hne].
  - rewrite (Hf v') by now left. apply IH. intros v I. apply Hf. now right.
  - cbn [find]. destruct (f (k', v')); [reflexivity|]. apply IH. intros v I. apply Hf. now right.
Qed.

Lemma map_opt_ext_In A B (f g : A -> option B) l : (forall x, In x l -> f x = g x) -> map_opt f l = map_opt g l.
Proof.
  induction l as [|x l IH]; intros H; cbn [map_opt]; [reflexivity|].
  rewrite (H x) by now left. rewrite IH; [reflexivity|]. intros y Hy. apply H. now right.
Qed.

Lemma children_frame T U (R R' : r1n T U) pe :
  NoDup (keys (smap (child_parents R))) -> NoDup (keys (smap (child_parents R'))) ->
  (forall ce, eget (smap (child_parents R')) ce = Some pe <-> eget (smap (child_parents R)) ce = Some pe) ->
  (forall ce, eget (smap (child_parents R)) ce = Some pe -> eget (smap (children R')) ce = eget (smap (children R)) ce) ->
  Permutation (children_of R' pe) (children_of R pe).
Proof.
  intros ND ND' Hcp Hch. destruct (children_of_spec _ _ R pe ND) as [NDL HL].
  apply children_of_perm; [exact ND'|exact NDL|]. intros ce u. rewrite HL, Hcp. split.
  - intros [A B]. split; [exact A|]. now rewrite Hch.
  - intros [A B]. split; [exact A|]. now rewrite <- Hch.
Qed.

Section Others.
Variable hperm : forall A : Type, list A -> list A.
Hypothesis hperm_perm : forall A (l : list A), Permutation (hperm A l) l.

Lemma export_step_frame r r' c se nm :
  Inv r -> Inv r' -> Frame c r r' -> c = cnt r -> (fst se < c)%N ->
  export_step hperm r' (se, nm) = export_step hperm r (se, nm).
Proof.
  intros HI HI' (F1 & F2 & F3 & F4) -> Hse. destruct (F1 se Hse) as (_ & FC & FI & _).
  unfold export_step. cbn [fst snd]. rewrite FC, FI.
  assert (PD : Permutation (children_of (sdep_r1n r') se) (children_of (sdep_r1n r) se)).
  { apply children_frame; simpl_repo; [apply HI|apply HI'|intros ce; apply F3, Hse|].
    intros ce G. apply eget_In in G. pose proof (i_kbDP _ HI _ G) as Hb. cbn [fst] in Hb.
    destruct (F1 ce) as (_ & _ & _ & FD & _); [lia|exact FD]. }
  assert (PO : Permutation (children_of (sout_r1n r') se) (children_of (sout_r1n r) se)).
  { apply children_frame; simpl_repo; [apply HI|apply HI'|intros ce; apply F4, Hse|].
    intros ce G. apply eget_In in G. pose proof (i_kbOP _ HI _ G) as Hb. cbn [fst] in Hb.
    destruct (F1 ce) as (_ & _ & _ & _ & FO & _); [lia|exact FO]. }
  rewrite (sort_payloads_perm (map snd (hperm _ (children_of (sdep_r1n r') se))) (map snd (hperm _ (children_of (sdep_r1n r) se)))).
  2:{ apply Permutation_map. eapply perm_trans; [apply hperm_perm|]. eapply perm_trans; [exact PD|]. symmetry; apply hperm_perm. }
  rewrite (sort_payloads_perm (map snd (hperm _ (children_of (sout_r1n r') se))) (map snd (hperm _ (children_of (sout_r1n r) se)))).
  2:{ apply Permutation_map. eapply perm_trans; [apply hperm_perm|]. eapply perm_trans; [exact PO|]. symmetry; apply hperm_perm. }
  reflexivity.
Qed.

Lemma export_frame r r' c m :
  Inv r -> Inv r' -> Frame c r r' -> c = cnt r -> find_pipeline r' m = find_pipeline r m ->
  export hperm r' m = export hperm r m.
Proof.
  intros HI HI' HF -> EF. unfold export. rewrite EF.
  destruct (find_pipeline r m) as [[pm pn]|] eqn:F; [|reflexivity].
  apply find_pipeline_some in F. destruct F as [Ipm _]. pose proof (i_kbP _ HI _ Ipm) as Hpm. cbn [fst] in Hpm.
  pose proof HF as (F1 & F2 & F3 & F4). destruct (F1 pm Hpm) as (_ & _ & _ & _ & _ & FRD). rewrite FRD.
  assert (PS : Permutation (children_of (pstep_r1n r') pm) (children_of (pstep_r1n r) pm)).
  { apply children_frame; simpl_repo; [apply HI|apply HI'|intros ce; apply F2, Hpm|].
    intros ce G. apply eget_In in G. pose proof (i_kbSP _ HI _ G) as Hb. cbn [fst] in Hb.
    destruct (F1 ce) as (FS & _); [lia|exact FS]. }
  destruct (children_of_spec _ _ (pstep_r1n r) pm (i_ndSP _ HI)) as [NDL HL].
  assert (ES : sort_steps (hperm _ (children_of (pstep_r1n r') pm)) = sort_steps (hperm _ (children_of (pstep_r1n r) pm))).
  { apply sort_steps_perm.
    - eapply perm_trans; [apply hperm_perm|]. eapply perm_trans; [exact PS|]. symmetry; apply hperm_perm.
    - eapply Permutation_NoDup; [|exact NDL]. apply Permutation_map. symmetry.
      eapply perm_trans; [apply hperm_perm|exact PS]. }
  rewrite ES.
  rewrite (map_opt_ext_In _ _ (export_step hperm r') (export_step hperm r)); [reflexivity|].
  intros [se nm] Hx. apply (export_step_frame r r' (cnt r)); auto.
  assert (I : In (se, nm) (children_of (pstep_r1n r) pm)).
  { eapply Permutation_in; [|exact Hx]. eapply perm_trans; [apply isort_perm|apply hperm_perm]. }
  apply HL in I. simpl_repo in I. destruct I as [G _]. apply eget_In in G. exact (i_kbSP _ HI _ G).
Qed.

(* C14: importing never alters another pipeline *)
Theorem import_preserves_others_lemma r n s ow r' m :
  Inv r -> (cnt r + schema_cost s < two64)%N -> import r n s ow = ROk r' -> m <> n ->
  export hperm r' m = export hperm r m.
Proof.
  intros HI Hlt E Hm. destruct (N.eqb_spec (sc_version s) 1) as [Hv|Hv].
  2:{ unfold import in E. destruct (N.eqb_spec (sc_version s) 1); [contradiction|discriminate]. }
  rewrite (import_unfold r n s ow Hv) in E.
  assert (Hcont : forall r0, Inv r0 -> cnt r0 = cnt r -> (cnt r0 + schema_cost s < two64)%N ->
            export hperm (import_cont n s r0) m = export hperm r0 m).
  { intros r0 HI0 Ec Hlt0. destruct (import_cont_frame r0 n s HI0 Hlt0) as [HF EP].
    destruct (import_cont_spec (fun _ l => l) (fun _ l => Permutation_refl l) r0 n s HI0 Hlt0) as (HI0' & _ & _).
    apply (export_frame r0 _ (cnt r0)); auto.
    unfold find_pipeline. rewrite EP. unfold eput, put. rewrite find_ins_sorted_false.
    - fold (edel (smap (r_pipelines r0)) (cnt r0, grnd (r_gen r0))). rewrite edel_absent; [reflexivity|].
      destruct (gP r0 (cnt r0, grnd (r_gen r0))) eqn:G; [|reflexivity]. apply eget_In in G.
      pose proof (i_kbP _ HI0 _ G) as Hb. cbn [fst] in Hb. lia.
    - cbn [snd]. destruct (lN_eqb_spec n m); [congruence|reflexivity]. }
  destruct (find_pipeline r n) as [[old_e nm]|] eqn:F.
  - destruct ow; [|discriminate]. apply ROk_inj in E. subst r'.
    apply find_pipeline_some in F. destruct F as [Iold ->].
    set (r0 := set_pipelines r (fst (remove lN_eqb (r_pipelines r) old_e))).
    rewrite (Hcont r0); [|now apply remove_pipeline_inv|reflexivity|exact Hlt].
    (* removing the pipeline record of n *)
    apply (export_frame r r0 (cnt r)); auto; [now apply remove_pipeline_inv|repeat split; auto|].
    unfold find_pipeline, r0. simpl_repo. rewrite smap_remove. apply find_edel_false.
    intros v Iv. cbn [snd]. pose proof (In_eget _ _ _ _ (i_ndP _ HI) Iv) as G1.
    pose proof (In_eget _ _ _ _ (i_ndP _ HI) Iold) as G2. rewrite G1 in G2. injection G2 as ->.
    destruct (lN_eqb_spec n m); [congruence|reflexivity].
  - apply ROk_inj in E. subst r'. apply Hcont; auto.
Qed.

(* C14: the export does not depend on the iteration order of the HashMaps *)
Theorem export_stable_lemma r n : Inv r -> export hperm r n = export (fun _ l => l) r n.
Proof.
  intros HI. unfold export. destruct (find_pipeline r n) as [[pe pn]|]; [|reflexivity].
  destruct (children_of_spec _ _ (pstep_r1n r) pe (i_ndSP _ HI)) as [ND _].
  rewrite (sort_steps_perm (hperm _ (children_of (pstep_r1n r) pe)) (children_of (pstep_r1n r) pe));
    [|apply hperm_perm|eapply Permutation_NoDup; [|exact ND]; apply Permutation_map; symmetry; apply hperm_perm].
  rewrite (map_opt_ext_In _ _ (export_step hperm r) (export_step (fun _ l => l) r)); [reflexivity|].
  intros x _. unfold export_step. destruct (eget (smap (r_commands r)) (fst x)); [|reflexivity].
  rewrite (sort_payloads_perm (map snd (hperm _ (children_of (sdep_r1n r) (fst x)))) (map snd (children_of (sdep_r1n r) (fst x))))
    by (apply Permutation_map, hperm_perm).
  rewrite (sort_payloads_perm (map snd (hperm _ (children_of (sout_r1n r) (fst x)))) (map snd (children_of (sout_r1n r) (fst x))))
    by (apply Permutation_map, hperm_perm).
  reflexivity.
Qed.
End Others.

(* ---- with `update --rename` refusing an existing name, pipeline names stay pairwise distinct ------- *)
Lemma ins_sorted_perm V (m : list (entity * V)) k v : Permutation (ins_sorted lte m k v) ((k, v) :: m).
Proof.
  induction m as [|[k' v'] r IH]; cbn [ins_sorted]; [reflexivity|].
  destruct (lte k k'); [reflexivity|]. eapply perm_trans; [apply perm_skip, IH|apply perm_swap].
Qed.
Lemma NoDup_snd_edel V (m : list (entity * V)) k : NoDup (map snd m) -> NoDup (map snd (edel m k)).
Proof.
  unfold edel. induction m as [|[k' v'] r IH]; cbn [del map snd]; [auto|]. intros ND.
  inversion ND as [|? ? Hn ND']; subst. destruct (eqe k' k); [now apply IH|].
  cbn [map snd]. constructor; [|now apply IH]. intros I. apply Hn.
  apply in_map_iff in I. destruct I as (x & E & Hx). fold (edel r k) in Hx. apply In_edel in Hx.
  rewrite <- E. apply in_map. tauto.
Qed.
Lemma uniq_eput (m : list (entity * list N)) k v :
  NoDup (map snd m) -> (forall x, In x m -> fst x <> k -> snd x <> v) -> NoDup (map snd (eput m k v)).
Proof.
  intros ND H. unfold eput, put. fold (edel m k).
  eapply Permutation_NoDup; [symmetry; apply Permutation_map, ins_sorted_perm|]. cbn [map snd].
  constructor; [|now apply NoDup_snd_edel]. intros I. apply in_map_iff in I. destruct I as (x & E & Hx).
  apply In_edel in Hx. destruct Hx as [Hx Hne]. exact (H x Hx Hne E).
Qed.

Lemma uniq_of_pipelines r r' : r_pipelines r' = r_pipelines r -> uniq_names r' = uniq_names r.
Proof. intros E. unfold uniq_names. now rewrite E. Qed.

Lemma import_uniq r n s ow r' :
  Inv r -> uniq_names r = true -> (cnt r + schema_cost s < two64)%N -> import r n s ow = ROk r' ->
  uniq_names r' = true.
Proof.
  intros HI HU Hlt E. destruct (N.eqb_spec (sc_version s) 1) as [Hv|Hv].
  2:{ unfold import in E. destruct (N.eqb_spec (sc_version s) 1); [contradiction|discriminate]. }
  rewrite (import_unfold r n s ow Hv) in E. unfold uniq_names in *. apply nodupb_NoDup in HU. apply nodupb_NoDup.
  destruct (find_pipeline r n) as [[old_e nm]|] eqn:F.
  - destruct ow; [|discriminate]. apply ROk_inj in E. subst r'.
    apply find_pipeline_some in F. destruct F as [Iold ->].
    destruct (import_cont_frame (set_pipelines r (fst (remove lN_eqb (r_pipelines r) old_e))) n s) as [_ EP];
      [now apply remove_pipeline_inv|exact Hlt|]. rewrite EP. simpl_repo. rewrite smap_remove.
    apply uniq_eput; [now apply NoDup_snd_edel|]. intros x Hx _ Ex. apply In_edel in Hx. destruct Hx as [Hx Hne].
    apply Hne. assert (E' : x = (old_e, n)) by (eapply NoDup_map_inj_In; [exact HU|exact Hx|exact Iold|exact Ex]).
    rewrite E'. reflexivity.
  - apply ROk_inj in E. subst r'. destruct (import_cont_frame r n s HI Hlt) as [_ EP]. rewrite EP.
    apply uniq_eput; [exact HU|]. intros x Hx _. now apply (find_pipeline_none r n F).
Qed.

Lemma exec_uniq r c r' :
  Inv r -> uniq_names r = true -> (cnt r + cmd_cost c < two64)%N -> exec true r c = ROk r' ->
  uniq_names r' = true.
Proof.
  intros HI HU Hlt. destruct c as [p wd|p q|p s c w|p s c w|p s l|p s l|p s old new|p s ow]; cbn [exec cmd_cost] in *.
  - (* new *)
    destruct (existsb _ _) eqn:EX; [discriminate|]. unfold new_entity. cbn [gen_next]. intros E.
    assert (HN : NoDup (map snd (eput (smap (r_pipelines r)) (cnt r, grnd (r_gen r)) p))).
    { apply uniq_eput; [now apply nodupb_NoDup|]. intros x Hx _ Ex.
      assert (EX' : existsb (fun ep => lN_eqb (snd ep) p) (smap (r_pipelines r)) = true).
      { apply existsb_exists. exists x. split; [exact Hx|]. rewrite Ex. apply lN_eqb_refl. }
      congruence. }
    destruct wd; apply ROk_inj in E; subst r'; unfold uniq_names; simpl_repo; now apply nodupb_NoDup.
  - (* rename *)
    destruct (filter _ _) as [|[pe nm] [|? ?]] eqn:F; try discriminate.
    cbn [andb]. destruct (negb (lN_eqb p q)) eqn:Epq; cbn [andb].
    + destruct (existsb _ _) eqn:EX; [discriminate|]. intros E. apply ROk_inj in E. subst r'.
      unfold uniq_names. simpl_repo. rewrite smap_update. apply nodupb_NoDup.
      apply uniq_eput; [now apply nodupb_NoDup|]. intros x Hx _ Ex.
      assert (EX' : existsb (fun ep => lN_eqb (snd ep) q) (smap (r_pipelines r)) = true).
      { apply existsb_exists. exists x. split; [exact Hx|]. rewrite Ex. apply lN_eqb_refl. }
      congruence.
    + intros E. apply ROk_inj in E. subst r'. apply negb_false_iff, lN_eqb_true in Epq. subst q.
      unfold uniq_names. simpl_repo. rewrite smap_update. apply nodupb_NoDup.
      apply uniq_eput; [now apply nodupb_NoDup|]. intros x Hx Hne Ex.
      assert (I : In x (filter (fun ep => lN_eqb (snd ep) p) (smap (r_pipelines r)))).
      { apply filter_In. split; [exact Hx|]. rewrite Ex. apply lN_eqb_refl. }
      rewrite F in I. destruct I as [<-|[]]. now apply Hne.
  - (* step new *)
    destruct (find_pipeline r p) as [[pe pn]|] eqn:F; [|discriminate].
    destruct (find_step r pe s); [discriminate|]. unfold new_entity. cbn [gen_next]. intros E.
    apply ROk_inj in E. subst r'. apply find_pipeline_some in F. destruct F as [Ipe ->].
    pose proof (In_eget _ _ _ _ (i_ndP _ HI) Ipe) as G.
    match goal with |- context [set_pstep ?x ?R] => set (r3 := x) end.
    rewrite (r1n_insert_same _ _ lN_eqb lN_eqb (pstep_r1n r3) pe p _ s lN_eqb_refl) by exact G.
    exact HU.
  - (* step update *)
    intros E. apply with_step_ok in E. destruct E as (pe & pn & se & _ & _ & E).
    destruct c; apply ROk_inj in E; subst r'; exact HU.
  - intros E. apply with_step_ok in E. destruct E as (pe & pn & se & _ & FS & E). apply ROk_inj in E. subst r'.
    destruct (find_step_some r pe s se HI FS) as (GS & _ & Hse).
    destruct (add_deps_effect r se s l GS Hlt) as (D1 & _). now rewrite (uniq_of_pipelines _ _ D1).
  - intros E. apply with_step_ok in E. destruct E as (pe & pn & se & _ & FS & E). apply ROk_inj in E. subst r'.
    destruct (find_step_some r pe s se HI FS) as (GS & _ & Hse).
    destruct (add_outs_effect r se s l GS Hlt) as (D1 & _). now rewrite (uniq_of_pipelines _ _ D1).
  - intros E. apply with_step_ok in E. destruct E as (pe & pn & se & _ & _ & E).
    destruct (find _ _) as [[de ?]|]; [|discriminate]. apply ROk_inj in E. subst r'. exact HU.
  - intros E. now apply (import_uniq r p s ow r').
Qed.

Lemma run_uniq h : forall r,
  Inv r -> uniq_names r = true -> (cnt r + hist_cost h < two64)%N -> uniq_names (run_cmds true h r) = true.
Proof.
  induction h as [|x h IH]; intros r HI HU Hlt; cbn [run_cmds fold_left hist_cost fold_right] in *; [exact HU|].
  fold (hist_cost h) in *. destruct (exec1_inv true r x HI) as [A B]; [lia|].
  apply IH; [exact A| |lia].
  unfold exec1. destruct (exec true (set_rnd r (fst x)) (snd x)) as [r'| |] eqn:E; try exact HU.
  apply (exec_uniq (set_rnd r (fst x)) (snd x) r'); [now apply inv_set_rnd|exact HU|unfold set_rnd; simpl_repo; lia|exact E].
Qed.

Theorem reachable_uniq_lemma rnd dn h :
  (2 + hist_cost h < two64)%N -> uniq_names (run_cmds true h (init_repo rnd dn)) = true.
Proof.
  intros Hlt. destruct (init_inv rnd dn) as [A B]. apply run_uniq; [exact A|reflexivity|rewrite B; exact Hlt].
Qed.

(* ---- the statements of Props/C14.v, over every repository the commands can reach ------------------ *)
Lemma reachable_facts fr rnd dn h k :
  (2 + hist_cost h + k < two64)%N ->
  Inv (run_cmds fr h (init_repo rnd dn)) /\ (cnt (run_cmds fr h (init_repo rnd dn)) + k < two64)%N.
Proof.
  intros Hlt. destruct (init_inv rnd dn) as [A B].
  destruct (run_inv fr h (init_repo rnd dn) A) as [C D]; [rewrite B; lia|]. split; [exact C|]. rewrite B in D. lia.
Qed.

Section Reachable.
Variable hperm hperm' : forall A : Type, list A -> list A.
Hypothesis hperm_perm : forall A (l : list A), Permutation (hperm A l) l.
Hypothesis hperm_perm' : forall A (l : list A), Permutation (hperm' A l) l.

Theorem C14_roundtrip_lemma fr rnd dn h n n' s ow :
  let r := run_cmds fr h (init_repo rnd dn) in
  (2 + hist_cost h + schema_cost s < two64)%N -> uniq_names r = true ->
  export hperm r n = EOk s -> (ow = true \/ find_pipeline r n' = None) ->
  exists r', import r n' s ow = ROk r' /\ export hperm' r' n' = EOk (rename_schema n' s).
Proof.
  intros r Hlt HU HE Hfree. destruct (reachable_facts fr rnd dn h _ Hlt) as [HI Hc].
  destruct (export_import_export_lemma hperm hperm' hperm_perm' r n n' s ow HI HU HE Hc Hfree) as (r' & A & _ & B).
  exists r'. auto.
Qed.

Theorem C14_roundtrip_fixed_lemma rnd dn h n n' s ow :
  let r := run_cmds true h (init_repo rnd dn) in
  (2 + hist_cost h + schema_cost s < two64)%N ->
  export hperm r n = EOk s -> (ow = true \/ find_pipeline r n' = None) ->
  exists r', import r n' s ow = ROk r' /\ export hperm' r' n' = EOk (rename_schema n' s).
Proof.
  intros r Hlt. apply C14_roundtrip_lemma; [exact Hlt|]. apply reachable_uniq_lemma. lia.
Qed.

Theorem C14_import_file_lemma fr rnd dn h n s ow :
  let r := run_cmds fr h (init_repo rnd dn) in
  (2 + hist_cost h + schema_cost s < two64)%N -> uniq_names r = true -> sc_version s = 1%N ->
  (ow = true \/ find_pipeline r n = None) ->
  exists r', import r n s ow = ROk r' /\ export hperm r' n = EOk (norm_schema (rename_schema n s)).
Proof.
  intros r Hlt HU Hv Hfree. destruct (reachable_facts fr rnd dn h _ Hlt) as [HI Hc].
  destruct (import_then_export_lemma hperm hperm_perm r n s ow HI HU Hv Hc Hfree) as (r' & A & _ & B).
  exists r'. auto.
Qed.

Theorem C14_others_lemma fr rnd dn h n s ow r' m :
  let r := run_cmds fr h (init_repo rnd dn) in
  (2 + hist_cost h + schema_cost s < two64)%N -> import r n s ow = ROk r' -> m <> n ->
  export hperm r' m = export hperm r m.
Proof.
  intros r Hlt E Hm. destruct (reachable_facts fr rnd dn h _ Hlt) as [HI Hc].
  exact (import_preserves_others_lemma hperm hperm_perm r n s ow r' m HI Hc E Hm).
Qed.

Theorem C14_stable_lemma fr rnd dn h n :
  let r := run_cmds fr h (init_repo rnd dn) in
  (2 + hist_cost h < two64)%N -> export hperm r n = export hperm' r n.
Proof.
  intros r Hlt. assert (HI : Inv r) by now apply reachable_inv_lemma.
  rewrite (export_stable_lemma hperm hperm_perm r n HI). symmetry. exact (export_stable_lemma hperm' hperm_perm' r n HI).
Qed.
End Reachable.

Theorem C14_refusal_lemma r n s x :
  find_pipeline r n = Some x -> sc_version s = 1%N ->
  import r n s false = RErr PipelineAlreadyFound /\
  forall fr rnd, exec1 fr r (rnd, CImport n s false) = r.
Proof.
  intros F Hv. split; [exact (import_refuses_existing_lemma r n s x F Hv)|].
  intros fr rnd. unfold exec1. cbn [exec fst snd].
  assert (F' : find_pipeline (set_rnd r rnd) n = Some x) by exact F.
  now rewrite (import_refuses_existing_lemma (set_rnd r rnd) n s x F' Hv).
Qed.

(* the stores of a repository only enter export through their maps *)
Theorem export_maps_only_lemma hperm r r' n :
  smap (r_pipelines r') = smap (r_pipelines r) -> smap (r_rundirs r') = smap (r_rundirs r) ->
  smap (r_steps r') = smap (r_steps r) -> smap (r_step_parent r') = smap (r_step_parent r) ->
  smap (r_commands r') = smap (r_commands r) -> smap (r_invalidates r') = smap (r_invalidates r) ->
  smap (r_deps r') = smap (r_deps r) -> smap (r_dep_parent r') = smap (r_dep_parent r) ->
  smap (r_outs r') = smap (r_outs r) -> smap (r_out_parent r') = smap (r_out_parent r) ->
  export hperm r' n = export hperm r n.
Proof.
  intros E1 E2 E3 E4 E5 E6 E7 E8 E9 E10.
  unfold export, find_pipeline, export_step, children_of. simpl_repo.
  rewrite E1, E2, E3, E4, E5, E6, E7, E8, E9, E10. reflexivity.
Qed.
