(* Byte strings (one N per byte), their boolean equality and the string helpers the repository
   models share: CR/LF stripping, the text/binary test, file names and extensions of paths. *)
From Coq Require Import List Bool NArith Lia.
Import ListNotations.

Definition bytes := list N.

Fixpoint beqb (a b : bytes) : bool :=
  match a, b with
  | [], [] => true
  | x :: a', y :: b' => N.eqb x y && beqb a' b'
  | _, _ => false
  end.

Lemma beqb_spec a b : reflect (a = b) (beqb a b).
Proof.
  revert b; induction a as [|x a IH]; intros [|y b]; cbn; try (constructor; congruence).
  destruct (N.eqb_spec x y) as [->|Hne]; cbn; [|constructor; congruence].
  destruct (IH b) as [->|Hne]; constructor; congruence.
Qed.

Lemma beqb_refl a : beqb a a = true.
Proof. destruct (beqb_spec a a); congruence. Qed.

(* lexicographic order, only used to keep association lists in a canonical order *)
Fixpoint bltb (a b : bytes) : bool :=
  match a, b with
  | [], [] => false
  | [], _ :: _ => true
  | _ :: _, [] => false
  | x :: a', y :: b' => N.ltb x y || (N.eqb x y && bltb a' b')
  end.

(* from_text_file: content.retain(|c| !(c == 0x0D || c == 0x0A)) *)
Definition is_crlf (b : N) : bool := N.eqb b 13 || N.eqb b 10.
Definition strip_crlf (l : bytes) : bytes := filter (fun b => negb (is_crlf b)) l.

(* is_text_file: no NUL among the first 8000 bytes; an empty file is text *)
Fixpoint nul_within (l : bytes) (k : N) : bool :=
  match l with
  | [] => false
  | b :: r => if N.eqb k 0 then false else if N.eqb b 0 then true else nul_within r (N.pred k)
  end.
Definition is_text (l : bytes) : bool := negb (nul_within l 8000).

Lemma strip_crlf_idem l : strip_crlf (strip_crlf l) = strip_crlf l.
Proof.
  unfold strip_crlf. induction l as [|b r IH]; cbn; auto.
  destruct (is_crlf b) eqn:E; cbn; auto. rewrite E; cbn. now rewrite IH.
Qed.

(* ---- paths as strings: '/' = 47, '.' = 46 ------------------------------------------------ *)
Definition slash : N := 47.
Definition dot : N := 46.

Fixpoint before_first_slash (l : bytes) : bytes :=
  match l with [] => [] | b :: r => if N.eqb b slash then [] else b :: before_first_slash r end.
Fixpoint after_first_slash (l : bytes) : option bytes :=
  match l with [] => None | b :: r => if N.eqb b slash then Some r else after_first_slash r end.
(* the part after the last '/' *)
Definition file_name (p : bytes) : bytes := rev (before_first_slash (rev p)).
(* the part before the last '/', [] when there is none *)
Definition parent (p : bytes) : bytes :=
  match after_first_slash (rev p) with Some r => rev r | None => [] end.

(* Path::extension: after the last '.' of the file name; none when there is no '.', or the only
   '.' is the first character *)
Fixpoint split_last_dot (l : bytes) (before cur : bytes) (seen : bool) : option (bytes * bytes) :=
  (* before/cur reversed *)
  match l with
  | [] => if seen then Some (rev before, rev cur) else None
  | b :: r => if N.eqb b dot
              then split_last_dot r (if seen then cur ++ [dot] ++ before else cur) [] true
              else split_last_dot r before (b :: cur) seen
  end.
Definition extension (p : bytes) : bytes :=
  match split_last_dot (file_name p) [] [] false with
  | Some (stem, ext) => match stem with [] => [] | _ => ext end
  | None => []
  end.
