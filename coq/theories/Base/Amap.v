(* Association-list maps with a boolean key equality; first binding wins.
   States of all models are built from these so that everything is computable,
   extractable and free of functional extensionality.  Map equalities are stated
   pointwise through [get]. *)
From Coq Require Import List Bool NArith Lia.
Import ListNotations.
Set Implicit Arguments.

Section Amap.
Variable K V : Type.
Variable keqb : K -> K -> bool.
Hypothesis keqb_spec : forall a b, reflect (a = b) (keqb a b).

Definition amap := list (K * V).

Fixpoint get (m : amap) (k : K) : option V :=
  match m with
  | [] => None
  | (k', v) :: r => if keqb k' k then Some v else get r k
  end.

Fixpoint del (m : amap) (k : K) : amap :=
  match m with
  | [] => []
  | (k', v) :: r => if keqb k' k then del r k else (k', v) :: del r k
  end.

Definition keys (m : amap) : list K := map fst m.

Lemma keqb_refl k : keqb k k = true.
Proof. destruct (keqb_spec k k); congruence. Qed.

Lemma keqb_neq a b : a <> b -> keqb a b = false.
Proof. destruct (keqb_spec a b); congruence. Qed.

Lemma get_del_same m k : get (del m k) k = None.
Proof.
  induction m as [|[k' v] r IH]; cbn; auto.
  destruct (keqb_spec k' k) as [->|Hne]; cbn; auto.
  rewrite keqb_neq by auto. exact IH.
Qed.

Lemma get_del_other m k k' : k <> k' -> get (del m k) k' = get m k'.
Proof.
  intros Hne; induction m as [|[k0 v] r IH]; cbn; auto.
  destruct (keqb_spec k0 k) as [->|Hne0]; cbn.
  - rewrite keqb_neq by auto. exact IH.
  - destruct (keqb_spec k0 k'); auto.
Qed.

Lemma get_del m k k' :
  get (del m k) k' = if keqb k k' then None else get m k'.
Proof.
  destruct (keqb_spec k k') as [->|Hne]; [apply get_del_same | now apply get_del_other].
Qed.

Lemma get_In m k v : get m k = Some v -> In (k, v) m.
Proof.
  induction m as [|[k' v'] r IH]; cbn; [discriminate|].
  destruct (keqb_spec k' k) as [->|Hne]; intros H.
  - injection H as ->. now left.
  - right; auto.
Qed.

Lemma get_None_notin m k : get m k = None -> ~ In k (keys m).
Proof.
  induction m as [|[k' v'] r IH]; cbn; [tauto|].
  destruct (keqb_spec k' k) as [->|Hne]; [discriminate|].
  intros H [E|I]; [congruence | now apply IH].
Qed.

Lemma notin_get_None m k : ~ In k (keys m) -> get m k = None.
Proof.
  induction m as [|[k' v'] r IH]; cbn; auto.
  intros H. destruct (keqb_spec k' k) as [->|Hne]; [tauto|]. apply IH; tauto.
Qed.

Lemma In_get_nodup m k v : NoDup (keys m) -> In (k, v) m -> get m k = Some v.
Proof.
  induction m as [|[k' v'] r IH]; cbn; [tauto|].
  intros ND [E|I].
  - injection E as -> ->. now rewrite keqb_refl.
  - inversion ND as [|? ? Hn ND']; subst.
    destruct (keqb_spec k' k) as [->|Hne].
    + exfalso; apply Hn. change k with (fst (k, v)). now apply in_map.
    + auto.
Qed.

Lemma keys_del_in m k k' : In k' (keys (del m k)) -> In k' (keys m) /\ k' <> k.
Proof.
  induction m as [|[k0 v0] r IH]; cbn; [tauto|].
  destruct (keqb_spec k0 k) as [->|Hne]; cbn.
  - intros H; destruct (IH H); tauto.
  - intros [E|H]; [subst; tauto|]. destruct (IH H); tauto.
Qed.

Lemma nodup_del m k : NoDup (keys m) -> NoDup (keys (del m k)).
Proof.
  induction m as [|[k0 v0] r IH]; cbn; auto.
  intros ND; inversion ND as [|? ? Hn ND']; subst.
  destruct (keqb_spec k0 k) as [->|Hne]; cbn; auto.
  constructor; auto. intros H; apply keys_del_in in H; tauto.
Qed.

Section Put.
Variable kltb : K -> K -> bool.   (* only used to choose the insertion position *)

(* insert before the first strictly greater key *)
Fixpoint ins_sorted (m : amap) (k : K) (v : V) : amap :=
  match m with
  | [] => [(k, v)]
  | (k', v') :: r => if kltb k k' then (k, v) :: (k', v') :: r
                     else (k', v') :: ins_sorted r k v
  end.

Definition put (m : amap) (k : K) (v : V) : amap := ins_sorted (del m k) k v.

Lemma get_ins_same m k v : get m k = None -> get (ins_sorted m k v) k = Some v.
Proof.
  induction m as [|[k' v'] r IH]; cbn; intros H.
  - now rewrite keqb_refl.
  - destruct (kltb k k'); cbn.
    + now rewrite keqb_refl.
    + destruct (keqb_spec k' k); [discriminate|auto].
Qed.

Lemma get_ins_other m k v k' : k <> k' -> get (ins_sorted m k v) k' = get m k'.
Proof.
  intros Hne; induction m as [|[k0 v0] r IH]; cbn.
  - now rewrite keqb_neq.
  - destruct (kltb k k0); cbn.
    + now rewrite keqb_neq.
    + destruct (keqb_spec k0 k'); auto.
Qed.

Lemma get_put_same m k v : get (put m k v) k = Some v.
Proof. unfold put. apply get_ins_same, get_del_same. Qed.

Lemma get_put_other m k v k' : k <> k' -> get (put m k v) k' = get m k'.
Proof. intros; unfold put. rewrite get_ins_other by auto. now apply get_del_other. Qed.

Lemma get_put m k v k' :
  get (put m k v) k' = if keqb k k' then Some v else get m k'.
Proof.
  destruct (keqb_spec k k') as [->|Hne]; [apply get_put_same | now apply get_put_other].
Qed.

Lemma keys_ins_in m k v k' : In k' (keys (ins_sorted m k v)) <-> k' = k \/ In k' (keys m).
Proof.
  induction m as [|[k0 v0] r IH]; cbn; [intuition|].
  destruct (kltb k k0); cbn; [intuition|]. rewrite IH. intuition.
Qed.

Lemma nodup_ins m k v : ~ In k (keys m) -> NoDup (keys m) -> NoDup (keys (ins_sorted m k v)).
Proof.
  induction m as [|[k0 v0] r IH]; cbn; intros Hn ND.
  - constructor; auto.
  - inversion ND as [|? ? Hn0 ND']; subst.
    destruct (kltb k k0); cbn.
    + constructor; cbn; auto.
    + constructor.
      * rewrite keys_ins_in. intros [E|I]; [subst; tauto | tauto].
      * apply IH; tauto.
Qed.

Lemma nodup_put m k v : NoDup (keys m) -> NoDup (keys (put m k v)).
Proof.
  intros ND; unfold put. apply nodup_ins; [|now apply nodup_del].
  intros H; apply keys_del_in in H; tauto.
Qed.

End Put.

End Amap.

(* ---- concrete key types ---------------------------------------------------------- *)

Definition entity := (N * N)%type.
Definition eqe (a b : entity) : bool := N.eqb (fst a) (fst b) && N.eqb (snd a) (snd b).
Definition lte (a b : entity) : bool :=
  N.ltb (fst a) (fst b) || (N.eqb (fst a) (fst b) && N.ltb (snd a) (snd b)).

Lemma eqe_spec a b : reflect (a = b) (eqe a b).
Proof.
  unfold eqe; destruct a as [a1 a2], b as [b1 b2]; cbn.
  destruct (N.eqb_spec a1 b1), (N.eqb_spec a2 b2); cbn; constructor; congruence.
Qed.

Lemma Neqb_spec a b : reflect (a = b) (N.eqb a b).
Proof. apply N.eqb_spec. Qed.
