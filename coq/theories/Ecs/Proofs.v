(* Proofs about M-ECS.  The property theorems in Props/C08.v are closed by [exact] of
   lemmas proved here. *)
From Coq Require Import List Bool NArith Lia.
From XV Require Import Base.Amap Ecs.Model.
Import ListNotations.
Set Implicit Arguments.

Lemma NoDup_snoc {A} (l : list A) x : NoDup l -> ~ In x l -> NoDup (l ++ [x]).
Proof.
  induction l as [|a r IH]; cbn; intros ND Hn.
  - repeat constructor. intros [].
  - inversion ND as [|? ? Ha ND']; subst. constructor.
    + rewrite in_app_iff. cbn. intuition.
    + apply IH; auto.
Qed.

Lemma del_absent {C} (d : list (N * C)) n : ~ In n (keys d) -> del N.eqb d n = d.
Proof.
  induction d as [|[k c] r IH]; cbn; auto. intros H.
  destruct (N.eqb_spec k n) as [->|Hne]; [tauto|]. f_equal. apply IH; tauto.
Qed.

Lemma ins_sorted_last {C} (d : list (N * C)) n c :
  (forall k, In k (keys d) -> (k < n)%N) -> ins_sorted N.ltb d n c = d ++ [(n, c)].
Proof.
  induction d as [|[k c'] r IH]; cbn; auto. intros H.
  assert (k < n)%N by (apply H; auto).
  destruct (N.ltb_spec n k); [lia|]. f_equal. apply IH; auto.
Qed.

Section P.
Variable V : Type.
Variable veqb : V -> V -> bool.
Hypothesis veqb_spec : forall a b, reflect (a = b) (veqb a b).

Notation event := (event V).
Notation store := (store V).
Notation emap := (emap V).
Notation imap := (imap V).
Notation apply_ev := (@apply_ev V).

(* ---- basic map facts, specialised ------------------------------------------------ *)
Lemma eget_eput (m : emap) e v x : eget (eput m e v) x = if eqe e x then Some v else eget m x.
Proof. apply get_put, eqe_spec. Qed.
Lemma eget_edel (m : emap) e x : eget (edel m e) x = if eqe e x then None else eget m x.
Proof. apply get_del, eqe_spec. Qed.
Lemma iget_iput (i : imap) v l x : iget veqb (iput veqb i v l) x = if veqb v x then Some l else iget veqb i x.
Proof. apply get_put, veqb_spec. Qed.
Lemma iget_idel (i : imap) v x : iget veqb (idel veqb i v) x = if veqb v x then None else iget veqb i x.
Proof. apply get_del, veqb_spec. Qed.

Lemma eqe_refl e : eqe e e = true.
Proof. destruct (eqe_spec e e); congruence. Qed.
Lemma veqb_refl v : veqb v v = true.
Proof. destruct (veqb_spec v v); congruence. Qed.

(* ---- the last event of an entity decides its value -------------------------------- *)
Definition ev_on (e : entity) (ev : event) : option (option V) :=
  match ev with
  | Add e' v => if eqe e' e then Some (Some v) else None
  | Remove e' => if eqe e' e then Some None else None
  end.
Fixpoint lastev (e : entity) (l : list event) : option (option V) :=
  match l with
  | [] => None
  | ev :: r => match lastev e r with Some x => Some x | None => ev_on e ev end
  end.

Lemma lastev_app e l1 l2 :
  lastev e (l1 ++ l2) = match lastev e l2 with Some x => Some x | None => lastev e l1 end.
Proof.
  induction l1 as [|ev r IH]; cbn [app lastev].
  - destruct (lastev e l2); reflexivity.
  - rewrite IH. destruct (lastev e l2); reflexivity.
Qed.

Lemma get_fold l (m : emap) e :
  eget (fold_left apply_ev l m) e = match lastev e l with Some x => x | None => eget m e end.
Proof.
  revert m; induction l as [|ev r IH]; intros m; cbn [fold_left lastev]; [reflexivity|].
  rewrite IH. destruct (lastev e r); [reflexivity|].
  destruct ev as [e' v|e']; cbn [apply_ev ev_on].
  - rewrite eget_eput. destruct (eqe e' e); reflexivity.
  - rewrite eget_edel. destruct (eqe e' e); reflexivity.
Qed.

Lemma get_build prev cur e :
  eget (build_map prev cur) e =
  match lastev e cur with Some x => x | None =>
    match lastev e prev with Some x => x | None => None end end.
Proof. unfold build_map. rewrite !get_fold. reflexivity. Qed.

Lemma nodup_fold l (m : emap) : NoDup (keys m) -> NoDup (keys (fold_left apply_ev l m)).
Proof.
  revert m; induction l as [|ev r IH]; intros m ND; cbn [fold_left]; auto.
  apply IH. destruct ev as [e v|e]; cbn [apply_ev].
  - apply nodup_put; auto using eqe_spec.
  - apply nodup_del; auto using eqe_spec.
Qed.

Lemma nodup_build (prev cur : list event) : NoDup (keys (build_map prev cur)).
Proof. unfold build_map. apply nodup_fold, nodup_fold. constructor. Qed.

(* ---- the reverse index ------------------------------------------------------------- *)
(* i is exact for the relation R: each key's vector is non-empty, duplicate free and lists
   exactly the R-related entities; absent keys have no related entity *)
Definition IdxRel (R : entity -> V -> Prop) (i : imap) : Prop :=
  forall v, match iget veqb i v with
            | Some l => l <> [] /\ NoDup l /\ (forall e, In e l <-> R e v)
            | None => forall e, ~ R e v
            end.

Lemma IdxRel_ext R R' i : (forall e v, R e v <-> R' e v) -> IdxRel R i -> IdxRel R' i.
Proof.
  intros HR H v. specialize (H v). destruct (iget veqb i v) as [l|].
  - destruct H as (H1 & H2 & H3). repeat split; auto; intros; [apply HR, H3; auto| apply H3, HR; auto].
  - intros e He. apply (H e), HR, He.
Qed.

Lemma idx_push_rel R i v e :
  IdxRel R i -> (forall v', ~ R e v') ->
  IdxRel (fun x y => R x y \/ (x = e /\ y = v)) (idx_push veqb i v e).
Proof.
  intros H Hfresh v'. unfold idx_push.
  pose proof (H v) as Hv. pose proof (H v') as Hv'.
  assert (Hother : v <> v' ->
    match iget veqb i v' with
    | Some l0 => l0 <> [] /\ NoDup l0 /\ (forall e0, In e0 l0 <-> R e0 v' \/ e0 = e /\ v' = v)
    | None => forall e0, ~ (R e0 v' \/ e0 = e /\ v' = v)
    end).
  { intros Hne. destruct (iget veqb i v') as [l'|].
    - destruct Hv' as (H1 & H2 & H3). split; [|split]; auto.
      intros x; rewrite H3. intuition congruence.
    - intros x [I|[_ E]]; [exact (Hv' _ I)|congruence]. }
  destruct (iget veqb i v) as [l|] eqn:G; rewrite iget_iput;
    destruct (veqb_spec v v') as [<-|Hne]; try exact (Hother Hne).
  - destruct Hv as (H1 & H2 & H3). split; [|split].
    + destruct l; discriminate.
    + apply NoDup_snoc; auto. intros I. apply H3 in I. exact (Hfresh _ I).
    + intros x. rewrite in_app_iff. cbn. rewrite H3. intuition.
  - split; [|split]; [discriminate | repeat constructor; intros [] | ].
    intros x; cbn. split.
    + intros [<-|[]]; auto.
    + intros [I|[-> _]]; [exfalso; exact (Hv _ I)|auto].
Qed.

Lemma filter_neq_In (l : list entity) e x :
  In x (filter (fun y => negb (eqe y e)) l) <-> In x l /\ x <> e.
Proof.
  rewrite filter_In. destruct (eqe_spec x e); cbn; intuition congruence.
Qed.

Lemma remove_from_index_rel R i v e :
  IdxRel R i ->
  IdxRel (fun x y => R x y /\ ~ (x = e /\ y = v)) (remove_from_index veqb i v e).
Proof.
  intros H v'. unfold remove_from_index.
  pose proof (H v) as Hv. pose proof (H v') as Hv'.
  assert (Hother : v <> v' ->
    match iget veqb i v' with
    | Some l0 => l0 <> [] /\ NoDup l0 /\ (forall e0, In e0 l0 <-> R e0 v' /\ ~ (e0 = e /\ v' = v))
    | None => forall e0, ~ (R e0 v' /\ ~ (e0 = e /\ v' = v))
    end).
  { intros Hne. destruct (iget veqb i v') as [l'|].
    - destruct Hv' as (H1 & H2 & H3). split; [|split]; auto.
      intros x; rewrite H3. intuition congruence.
    - intros x [I _]; exact (Hv' _ I). }
  destruct (iget veqb i v) as [l|] eqn:G.
  - destruct Hv as (H1 & H2 & H3).
    destruct (filter (fun x => negb (eqe x e)) l) as [|a l'] eqn:F.
    + rewrite iget_idel. destruct (veqb_spec v v') as [<-|Hne]; [|exact (Hother Hne)].
      intros x [Rx Hn]. apply H3 in Rx.
      assert (I : In x (filter (fun y => negb (eqe y e)) l)).
      { apply filter_neq_In. split; [exact Rx|]. intros ->. apply Hn; auto. }
      rewrite F in I. destruct I.
    + rewrite iget_iput. destruct (veqb_spec v v') as [<-|Hne]; [|exact (Hother Hne)].
      rewrite <- F. split; [|split].
      * rewrite F; discriminate.
      * now apply NoDup_filter.
      * intros x. rewrite filter_neq_In, H3. intuition congruence.
  - destruct (veqb_spec v v') as [<-|Hne]; [|exact (Hother Hne)].
    rewrite G. intros x [Rx _]. exact (Hv _ Rx).
Qed.

Definition holds (m : emap) : entity -> V -> Prop := fun e v => eget m e = Some v.
Definition IdxOK (m : emap) (i : imap) : Prop := IdxRel (holds m) i.

Lemma build_index_ok (m : emap) : NoDup (keys m) -> IdxOK m (build_index veqb m).
Proof.
  intros ND. unfold IdxOK, build_index.
  (* generalise: processed prefix p, remaining l *)
  assert (G : forall (l p : list (entity * V)) i,
             NoDup (keys (p ++ l)) ->
             IdxRel (fun e v => In (e, v) p) i ->
             IdxRel (fun e v => In (e, v) (p ++ l))
                    (fold_left (fun i ev => idx_push veqb i (snd ev) (fst ev)) l i)).
  { induction l as [|[e v] r IH]; intros p i NDl Hp; cbn [fold_left].
    - now rewrite app_nil_r.
    - replace (p ++ (e, v) :: r) with ((p ++ [(e, v)]) ++ r) by now rewrite <- app_assoc.
      apply IH; [now rewrite <- app_assoc|].
      cbn [fst snd].
      eapply IdxRel_ext; [|apply idx_push_rel with (R := fun e v => In (e, v) p); [exact Hp|]].
      + intros x y; cbn. rewrite in_app_iff; cbn. intuition congruence.
      + intros v' I. unfold keys in NDl. rewrite map_app in NDl. cbn in NDl.
        apply NoDup_remove_2 in NDl. apply NDl. rewrite in_app_iff. left.
        change e with (fst (e, v')). now apply in_map. }
  specialize (G m [] [] ND). cbn [app] in G.
  eapply IdxRel_ext; [|apply G].
  - intros e v; unfold holds, eget. split.
    + intros I. apply In_get_nodup; auto using eqe_spec.
    + apply get_In, eqe_spec.
  - intros v; cbn. intros e [].
Qed.

(* ---- store invariant ----------------------------------------------------------------- *)
Definition Replay (s : store) : Prop :=
  forall e, eget (smap s) e = eget (build_map (sprev s) (scur s)) e.
Definition SInv (s : store) : Prop := Replay s /\ IdxOK (smap s) (sidx s).

Lemma from_event_logs_inv prev cur : SInv (from_event_logs veqb prev cur).
Proof.
  split; [intros e; reflexivity|]. cbn. apply build_index_ok, nodup_build.
Qed.

Lemma build_snoc prev cur ev e :
  eget (build_map prev (cur ++ [ev])) e = eget (apply_ev (build_map prev cur) ev) e.
Proof. unfold build_map. rewrite fold_left_app. reflexivity. Qed.

Lemma apply_ev_congr (m m' : emap) ev :
  (forall e, eget m e = eget m' e) -> forall e, eget (apply_ev m ev) e = eget (apply_ev m' ev) e.
Proof.
  intros H e. destruct ev as [k v|k]; cbn [apply_ev].
  - rewrite !eget_eput. destruct (eqe k e); auto.
  - rewrite !eget_edel. destruct (eqe k e); auto.
Qed.

Lemma insert_inv s e v : SInv s -> SInv (fst (insert veqb s e v)).
Proof.
  intros [HR HI]. unfold insert; cbn [fst]. split.
  - intros x; cbn [smap sprev scur]. rewrite build_snoc.
    apply apply_ev_congr with (ev := Add e v). exact HR.
  - cbn [smap sidx]. unfold IdxOK in *.
    destruct (eget (smap s) e) as [pv|] eqn:G.
    + eapply IdxRel_ext;
        [|apply idx_push_rel; [apply remove_from_index_rel with (e := e) (v := pv); exact HI|]].
      * intros x y; unfold holds. rewrite eget_eput. cbn.
        destruct (eqe_spec e x) as [<-|Hne].
        -- rewrite G. split.
           ++ intros [[E Hn]|[_ ->]]; auto. injection E as ->. exfalso; apply Hn; auto.
           ++ intros E; injection E as ->. auto.
        -- split; [intros [[E _]|[E _]]; [auto|congruence] | intros E; left; split; auto].
           intros [E' _]; congruence.
      * cbn. intros v' [E Hn]. unfold holds in E. rewrite G in E. injection E as ->.
        apply Hn; auto.
    + eapply IdxRel_ext; [|apply idx_push_rel; [exact HI|]].
      * intros x y; unfold holds. rewrite eget_eput. cbn.
        destruct (eqe_spec e x) as [<-|Hne].
        -- rewrite G. split; [intros [E|[_ ->]]; [discriminate|auto] | intros E; injection E as ->; auto].
        -- split; [intros [E|[E _]]; [auto|congruence] | auto].
      * intros v' E. unfold holds in E. congruence.
Qed.

Lemma remove_inv s e : SInv s -> SInv (fst (remove veqb s e)).
Proof.
  intros [HR HI]. unfold remove.
  destruct (eget (smap s) e) as [v|] eqn:G; [|split; assumption].
  pose proof (HI v) as Hv.
  destruct (iget veqb (sidx s) v) as [l|] eqn:GI.
  - cbn [fst]. split.
    + intros x; cbn [smap sprev scur]. rewrite build_snoc.
      apply apply_ev_congr with (ev := Remove e). exact HR.
    + cbn [smap sidx]. unfold IdxOK in *.
      eapply IdxRel_ext; [|apply remove_from_index_rel with (e := e) (v := v); exact HI].
      intros x y; unfold holds; cbn. rewrite eget_edel.
      destruct (eqe_spec e x) as [<-|Hne].
      * rewrite G. split; [intros [E Hn]; injection E as ->; exfalso; apply Hn; auto | discriminate].
      * split; [tauto | intros E; split; auto; intros [E' _]; congruence].
  - exfalso. exact (Hv e G).
Qed.

Lemma update_inv s e v : SInv s -> SInv (fst (update veqb s e v)).
Proof.
  intros H. unfold update. apply insert_inv.
  destruct (eget (smap s) e); [now apply remove_inv|exact H].
Qed.

(* one-step refinement against an ordinary map *)
Lemma insert_ref s e v (c : emap) :
  (forall x, eget (smap s) x = eget c x) ->
  forall x, eget (smap (fst (insert veqb s e v))) x = eget (eput c e v) x.
Proof. intros H x; unfold insert; cbn [fst smap]. rewrite !eget_eput. destruct (eqe e x); auto. Qed.

Lemma remove_ref s e (c : emap) :
  SInv s -> (forall x, eget (smap s) x = eget c x) ->
  forall x, eget (smap (fst (remove veqb s e))) x = eget (edel c e) x.
Proof.
  intros [_ HI] H x. unfold remove.
  destruct (eget (smap s) e) as [v|] eqn:G.
  - pose proof (HI v) as Hv. destruct (iget veqb (sidx s) v) eqn:GI.
    + cbn [fst smap]. rewrite !eget_edel. destruct (eqe e x); auto.
    + exfalso. exact (Hv e G).
  - cbn [fst]. rewrite eget_edel. destruct (eqe_spec e x) as [<-|Hne]; [congruence|auto].
Qed.

Lemma update_ref s e v (c : emap) :
  SInv s -> (forall x, eget (smap s) x = eget c x) ->
  forall x, eget (smap (fst (update veqb s e v))) x = eget (eput c e v) x.
Proof.
  intros HS H x. unfold update.
  destruct (eget (smap s) e) eqn:G.
  - rewrite insert_ref with (c := edel c e).
    + rewrite !eget_eput, eget_edel. destruct (eqe e x); auto.
    + now apply remove_ref.
  - now apply insert_ref.
Qed.

(* ---- directories ------------------------------------------------------------------------ *)
Notation dir := (dir V).

Definition names_below (d : dir) (hi : N) : Prop := forall n, In n (keys d) -> (n <= hi)%N.

Lemma dput_fresh (d : dir) hi n c :
  names_below d hi -> (hi < n)%N -> dput d n c = d ++ [(n, c)].
Proof.
  intros Hb Hlt. unfold dput, put.
  rewrite del_absent.
  - apply ins_sorted_last. intros k Hk. specialize (Hb k Hk). lia.
  - intros I. specialize (Hb n I). lia.
Qed.

Lemma dir_events_snoc (d : dir) n c : dir_events (d ++ [(n, c)]) = dir_events d ++ c.
Proof. unfold dir_events. rewrite map_app, concat_app. cbn. now rewrite app_nil_r. Qed.

(* ---- the refinement invariant for histories ---------------------------------------------- *)
Notation st := (st V).
Notation rst := (rst V).

Definition disk (d : dir) : emap := fold_left apply_ev (dir_events d) [].

Definition HInv (hi : N) (x : st) (y : rst) : Prop :=
  let '(s, d) := x in let '(c, sv) := y in
  SInv s /\
  (forall e, eget (smap s) e = eget c e) /\
  (forall e, eget (disk d) e = eget sv e) /\
  (forall e, lastev e (scur s) = None ->
             eget (disk d) e = eget (fold_left apply_ev (sprev s) []) e) /\
  names_below d hi.

Lemma HInv_init : HInv 0 (init_st veqb) ([], []).
Proof.
  unfold init_st, new_store. repeat split.
  - cbn. intros v e. unfold holds. cbn. discriminate.
  - intros n [].
Qed.

Lemma lastev_snoc_None e l ev : lastev e (l ++ [ev]) = None -> lastev e l = None.
Proof. rewrite lastev_app. cbn. destruct (ev_on e ev); [discriminate|auto]. Qed.

Lemma HInv_step hi x y o :
  HInv hi x y ->
  match o with OSave ts => (hi < ts)%N | _ => True end ->
  HInv (match o with OSave ts => ts | _ => hi end) (step veqb x o) (rstep y o).
Proof.
  destruct x as [s d], y as [c sv]. intros (HS & HC & HD & HJ & HB) Hfresh.
  destruct o as [e v|e v|e|ts|]; cbn [step rstep HInv].
  - (* insert *) repeat split; auto.
    + now apply insert_inv. + now apply insert_inv.
    + now apply insert_ref.
    + intros x Hx. apply HJ. cbn in Hx. now apply lastev_snoc_None in Hx.
  - (* update *) repeat split; auto.
    + now apply update_inv. + now apply update_inv.
    + now apply update_ref.
    + intros x Hx. unfold update in Hx |- *.
      assert (Hpre : forall s', sprev s' = sprev s ->
                (lastev x (scur s') = None -> lastev x (scur s) = None) ->
                lastev x (scur (fst (insert veqb s' e v))) = None ->
                eget (disk d) x = eget (fold_left apply_ev (sprev (fst (insert veqb s' e v))) []) x).
      { intros s' Ep Hc Hl. cbn in Hl |- *. rewrite Ep. apply HJ, Hc.
        now apply lastev_snoc_None in Hl. }
      destruct (eget (smap s) e) eqn:G.
      * apply Hpre; auto.
        -- unfold remove. rewrite G. destruct (iget veqb (sidx s) v0); reflexivity.
        -- unfold remove. rewrite G. destruct (iget veqb (sidx s) v0); cbn; auto.
           apply lastev_snoc_None.
      * apply Hpre; auto.
  - (* remove *) repeat split; auto.
    + now apply remove_inv. + now apply remove_inv.
    + now apply remove_ref.
    + intros x Hx. unfold remove in *.
      destruct (eget (smap s) e) eqn:G; [|now apply HJ].
      destruct (iget veqb (sidx s) v) eqn:GI; cbn in Hx |- *; [|now apply HJ].
      apply HJ. now apply lastev_snoc_None in Hx.
  - (* save *)
    unfold to_dir. destruct (scur s) as [|ev0 cur0] eqn:Ecur.
    + split; [exact HS|]. split; [exact HC|]. split; [|split].
      * intros e. rewrite <- HC. destruct HS as [HR _]. rewrite HR, Ecur.
        unfold build_map. cbn [fold_left]. apply HJ. reflexivity.
      * intros e _. apply HJ. reflexivity.
      * intros n Hn. specialize (HB n Hn). lia.
    + rewrite <- Ecur. rewrite <- Ecur in HJ.
      rewrite (dput_fresh _ HB Hfresh).
      assert (Hdisk : forall e, eget (disk (d ++ [(ts, scur s)])) e =
                                match lastev e (scur s) with Some x => x | None => eget (disk d) e end).
      { intros e. unfold disk. rewrite dir_events_snoc, fold_left_app, get_fold. reflexivity. }
      split; [exact HS|]. split; [exact HC|]. split; [|split].
      * intros e. rewrite Hdisk, <- HC. destruct HS as [HR _]. rewrite HR.
        unfold build_map. rewrite get_fold.
        destruct (lastev e (scur s)) eqn:L; [reflexivity|]. now apply HJ.
      * intros e L. rewrite Hdisk, L. now apply HJ.
      * intros n Hn. unfold keys in Hn. rewrite map_app, in_app_iff in Hn. cbn in Hn.
        destruct Hn as [Hn|[<-|[]]]; [specialize (HB n Hn)|]; lia.
  - (* load *) split; [apply from_event_logs_inv|]. split; [|split; [exact HD|split; [|exact HB]]].
    + intros e. cbn [from_dir from_event_logs smap]. unfold build_map. cbn [fold_left].
      apply HD.
    + intros e _. reflexivity.
Qed.

Lemma HInv_run ops : forall hi x y,
  HInv hi x y -> fresh_names ops hi = true ->
  exists hi', HInv hi' (run veqb ops x) (rrun ops y).
Proof.
  induction ops as [|o r IH]; intros hi x y H F; cbn [run rrun fold_left].
  - now exists hi.
  - destruct o as [e v|e v|e|ts|]; cbn [fresh_names] in F.
    + eapply IH; [apply (@HInv_step hi x y (OIns e v) H I)|exact F].
    + eapply IH; [apply (@HInv_step hi x y (OUpd e v) H I)|exact F].
    + eapply IH; [apply (@HInv_step hi x y (ORem e) H I)|exact F].
    + apply andb_true_iff in F. destruct F as [F1 F2]. apply N.ltb_lt in F1.
      eapply IH; [apply (@HInv_step hi x y (OSave ts) H F1)|exact F2].
    + eapply IH; [apply (@HInv_step hi x y OLoad H I)|exact F].
Qed.

(* C08.1 *)
Theorem replay_refines_map_lemma ops :
  fresh_names ops 0 = true ->
  let '(s, d) := run veqb ops (init_st veqb) in
  let '(c, sv) := rrun ops ([], []) in
  (forall e, eget (smap s) e = eget c e) /\
  (forall e, eget (smap (from_dir veqb d)) e = eget sv e).
Proof.
  intros F. destruct (@HInv_run ops _ _ _ HInv_init F) as [hi H].
  destruct (run veqb ops (init_st veqb)) as [s d], (rrun ops ([], [])) as [c sv].
  destruct H as (_ & HC & HD & _). split; auto.
Qed.

(* C08.2: the index is exact after every operation, save and load (no freshness needed) *)
Lemma IdxOK_run ops : forall x, SInv (fst x) -> SInv (fst (run veqb ops x)).
Proof.
  induction ops as [|o r IH]; intros [s d] H; cbn [run fold_left]; auto.
  apply IH. destruct o; cbn [step fst].
  - now apply insert_inv. - now apply update_inv. - now apply remove_inv.
  - exact H. - apply from_event_logs_inv.
Qed.

Theorem index_exact_lemma ops v :
  let s := fst (run veqb ops (init_st veqb)) in
  match entities_for veqb s v with
  | Some l => l <> [] /\ NoDup l /\ (forall e, In e l <-> eget (smap s) e = Some v)
  | None => forall e, eget (smap s) e <> Some v
  end.
Proof.
  cbn zeta. assert (H : SInv (fst (run veqb ops (init_st veqb)))).
  { apply IdxOK_run. apply from_event_logs_inv. }
  destruct H as [_ HI]. exact (HI v).
Qed.

Lemma index_map_of_some (i : imap) :
  (forall v l, In (v, l) i -> l <> []) -> index_map_of i <> None.
Proof.
  induction i as [|[v l] r IH]; cbn; intros H; [discriminate|].
  destruct l as [|e l]; [exfalso; apply (H v []); auto|].
  destruct (index_map_of r) eqn:E; [discriminate|]. apply IH. intros; eapply H; eauto.
Qed.

Lemma IdxOK_nodup_vals (m : emap) (i : imap) v l :
  NoDup (keys i) -> IdxOK m i -> In (v, l) i -> l <> [].
Proof.
  intros ND H I. specialize (H v). unfold iget in H.
  rewrite (@In_get_nodup _ _ veqb veqb_spec _ _ _ ND I) in H. tauto.
Qed.

(* ---- save is append only ---------------------------------------------------------------- *)
Theorem save_append_only_lemma ts (d : dir) (s : store) n c :
  n <> ts -> dget d n = Some c -> dget (to_dir ts d s) n = Some c.
Proof.
  intros Hne G. unfold to_dir. destruct (scur s); auto.
  unfold dget, dput. rewrite get_put_other; auto using Neqb_spec.
Qed.

Lemma save_adds_at_most_ts ts (d : dir) (s : store) n :
  In n (keys (to_dir ts d s)) -> n = ts \/ In n (keys d).
Proof.
  unfold to_dir. destruct (scur s); auto. unfold dput, put. intros H.
  apply keys_ins_in in H. destruct H as [->|H]; auto.
  apply keys_del_in in H; [tauto|apply Neqb_spec].
Qed.

(* ---- merging divergent branches ------------------------------------------------------------ *)
Inductive Interleave {A} : list A -> list A -> list A -> Prop :=
| il_nil : Interleave [] [] []
| il_left x l l1 l2 : Interleave l l1 l2 -> Interleave (x :: l) (x :: l1) l2
| il_right x l l1 l2 : Interleave l l1 l2 -> Interleave (x :: l) l1 (x :: l2).

Lemma Interleave_sym {A} (l l1 l2 : list A) : Interleave l l1 l2 -> Interleave l l2 l1.
Proof. induction 1; constructor; auto. Qed.

Definition untouched (e : entity) (d : dir) : Prop := forall f, In f d -> lastev e (snd f) = None.

Lemma lastev_interleave e (D D1 D2 : dir) :
  Interleave D D1 D2 -> untouched e D2 -> lastev e (dir_events D) = lastev e (dir_events D1).
Proof.
  unfold dir_events. induction 1 as [|f l l1 l2 H IH|f l l1 l2 H IH]; intros U; auto.
  - cbn. rewrite !lastev_app, IH; auto.
  - cbn. rewrite lastev_app, IH.
    + destruct (lastev e (concat (map snd l1))); auto. apply U. now left.
    + intros g Hg. apply U. now right.
Qed.

(* C08.4 *)
Theorem merge_disjoint_union_lemma (D D1 D2 : dir) e :
  Interleave D D1 D2 -> untouched e D2 ->
  eget (smap (from_dir veqb D)) e = eget (smap (from_dir veqb D1)) e.
Proof.
  intros HI HU. cbn [from_dir from_event_logs smap]. rewrite !get_build.
  now rewrite (lastev_interleave HI HU).
Qed.

End P.

(* ---- the entity generator ------------------------------------------------------------------ *)
Fixpoint Nseq (c : N) (k : nat) : list N :=
  match k with O => [] | S k' => c :: Nseq (c + 1) k' end.

Lemma Nseq_app c k1 k2 : Nseq c (k1 + k2) = Nseq c k1 ++ Nseq (c + N.of_nat k1) k2.
Proof.
  revert c; induction k1 as [|k IH]; intros c; cbn [Nseq plus app].
  - f_equal. lia.
  - f_equal. rewrite IH. f_equal. f_equal. lia.
Qed.

Lemma Nseq_In c k x : In x (Nseq c k) <-> (c <= x < c + N.of_nat k)%N.
Proof.
  revert c; induction k as [|k IH]; intros c; cbn [Nseq In].
  - lia.
  - rewrite IH. lia.
Qed.

Lemma Nseq_NoDup c k : NoDup (Nseq c k).
Proof.
  revert c; induction k as [|k IH]; intros c; cbn [Nseq]; constructor; auto.
  rewrite Nseq_In. lia.
Qed.

Lemma gen_take_spec k : forall g,
  (gcounter g + N.of_nat k < two64)%N ->
  let '(l, g') := gen_take k g in
  map fst l = Nseq (gcounter g) k /\ (forall e, In e l -> snd e = grnd g) /\
  gcounter g' = (gcounter g + N.of_nat k)%N /\ grnd g' = grnd g /\
  gdirty g' = (if k then gdirty g else true).
Proof.
  induction k as [|k IH]; intros g Hlt; cbn [gen_take].
  - cbn. split; [reflexivity|]. split; [intros e []|]. split; [lia|]. split; reflexivity.
  - unfold gen_next. set (g1 := {| gcounter := _ |}).
    assert (E1 : gcounter g1 = (gcounter g + 1)%N).
    { unfold g1; cbn. apply N.mod_small. lia. }
    specialize (IH g1). rewrite E1 in IH.
    destruct (gen_take k g1) as [l g2].
    destruct IH as (A & B & C & D & E); [lia|].
    cbn [map fst Nseq]. split; [|split; [|split; [|split]]].
    + f_equal. exact A.
    + intros e [<-|I]; [reflexivity|]. rewrite (B e I). reflexivity.
    + lia.
    + rewrite D. reflexivity.
    + destruct k; auto.
Qed.

Definition ec_names_below (d : ecdir) (hi : N) : Prop := forall n, In n (keys d) -> (n <= hi)%N.

Lemma last_opt_snoc {A} (l : list A) x : last_opt (l ++ [x]) = Some x.
Proof.
  induction l as [|a r IH]; cbn; auto. rewrite IH. destruct (r ++ [x]) eqn:E; auto.
  destruct r; discriminate.
Qed.

Lemma ecput_fresh (d : ecdir) hi n c :
  ec_names_below d hi -> (hi < n)%N -> ecput d n c = d ++ [(n, c)].
Proof.
  intros Hb Hlt. unfold ecput, put.
  rewrite del_absent.
  - apply ins_sorted_last. intros k Hk. specialize (Hb k Hk). lia.
  - intros I. specialize (Hb n I). lia.
Qed.

Fixpoint gs_fresh (xs : list gsession) (hi : N) : bool :=
  match xs with
  | [] => true
  | x :: r => N.ltb hi (gs_ts x) && gs_save x && gs_fresh r (gs_ts x)
  end.
Definition gs_total (xs : list gsession) : nat := fold_right (fun x a => gs_k x + a) 0 xs.

(* C08.5: in a linear history (every session saves, under a fresh name) the first components
   of all entities handed out are the consecutive numbers starting at the stored counter --
   hence pairwise distinct whatever the random words are -- as long as the counter does not
   wrap at 2^64 *)
Lemma gen_sessions_linear xs : forall d hi n0 c0,
  last_opt d = Some (n0, c0) -> ec_names_below d hi -> gs_fresh xs hi = true ->
  (c0 + N.of_nat (gs_total xs) < two64)%N ->
  exists l d', gen_sessions d xs = Some (l, d') /\ map fst l = Nseq c0 (gs_total xs).
Proof.
  induction xs as [|x r IH]; intros d hi n0 c0 HL HB HF HT; cbn [gen_sessions gs_total fold_right].
  - exists [], d. split; reflexivity.
  - cbn [gs_fresh] in HF. apply andb_true_iff in HF. destruct HF as [HF HF3].
    apply andb_true_iff in HF. destruct HF as [HF1 HF2]. apply N.ltb_lt in HF1.
    cbn [gs_total fold_right] in HT. fold (gs_total r) in HT |- *.
    unfold gen_session, gen_load. rewrite HL.
    set (g := {| gcounter := c0; grnd := gs_rnd x; gdirty := false |}).
    pose proof (@gen_take_spec (gs_k x) g) as HS.
    change (gcounter g) with c0 in HS. change (gdirty g) with false in HS.
    destruct (gen_take (gs_k x) g) as [l g1].
    destruct HS as (A & B & C & D & E); [lia|].
    rewrite HF2. unfold gen_save.
    destruct (gs_k x) as [|k] eqn:EK.
    + (* nothing allocated: not dirty, directory unchanged *)
      rewrite E. cbn [fst].
      assert (HB' : ec_names_below d (gs_ts x)).
      { intros n Hn. specialize (HB n Hn). lia. }
      assert (HT' : (c0 + N.of_nat (gs_total r) < two64)%N).
      { cbn [Nat.add] in HT. exact HT. }
      destruct (IH d (gs_ts x) n0 c0 HL HB' HF3 HT') as (l2 & d2 & G & M).
      rewrite G. exists (l ++ l2), d2. split; [reflexivity|].
      unfold entity in *. rewrite map_app, A, M. reflexivity.
    + rewrite E. cbn [fst].
      rewrite (ecput_fresh _ HB HF1).
      assert (HB' : ec_names_below (d ++ [(gs_ts x, gcounter g1)]) (gs_ts x)).
      { intros n Hn. unfold keys in Hn. rewrite map_app, in_app_iff in Hn. cbn in Hn.
        destruct Hn as [Hn|[<-|[]]]; [specialize (HB n Hn)|]; lia. }
      assert (HT' : (gcounter g1 + N.of_nat (gs_total r) < two64)%N).
      { rewrite C. lia. }
      destruct (IH (d ++ [(gs_ts x, gcounter g1)]) (gs_ts x) (gs_ts x) (gcounter g1)
                   (last_opt_snoc _ _) HB' HF3 HT') as (l2 & d2 & G & M).
      rewrite G. exists (l ++ l2), d2. split; [reflexivity|].
      unfold entity in *. rewrite map_app, A, M, C. rewrite Nseq_app. reflexivity.
Qed.

Theorem entities_fresh_linear_lemma xs d hi n0 c0 l d' :
  last_opt d = Some (n0, c0) -> ec_names_below d hi -> gs_fresh xs hi = true ->
  (c0 + N.of_nat (gs_total xs) < two64)%N ->
  gen_sessions d xs = Some (l, d') -> NoDup (map fst l) /\ NoDup l.
Proof.
  intros HL HB HF HT G.
  destruct (gen_sessions_linear xs HL HB HF HT) as (l2 & d2 & G2 & M).
  rewrite G in G2. injection G2 as <- <-.
  assert (ND : NoDup (map fst l)) by (rewrite M; apply Nseq_NoDup).
  split; auto. now apply NoDup_map_inv in ND.
Qed.
