(* M-ECS: executable model of xvc's event-sourced component stores.
   Written line by line from  ecs/src/ecs/{xvcstore,event,mod,r11store,r1nstore}.rs
   (after the fix of the reverse index, /repo commit "fix: keep the reverse index ...").
   No proofs in this file: it must stay runnable when a proof breaks. *)
From Coq Require Import List Bool NArith.
From XV Require Import Base.Amap.
Import ListNotations.
Set Implicit Arguments.

Section Store.
Variable V : Type.
Variable veqb : V -> V -> bool.

Inductive event := Add (e : entity) (v : V) | Remove (e : entity).

(* BTreeMap<XvcEntity,T>: kept in entity order *)
Definition emap := list (entity * V).
Definition eget (m : emap) e := get eqe m e.
Definition eput (m : emap) e v := put eqe lte m e v.
Definition edel (m : emap) e := del eqe m e.

(* BTreeMap<T,Vec<XvcEntity>>: only looked up by key; key order is not observable
   through entities_for / entity_by_value, and index_map returns a map *)
Definition imap := list (V * list entity).
Definition nolt (_ _ : V) := false.
Definition iget (i : imap) v := get veqb i v.
Definition iput (i : imap) v l := put veqb nolt i v l.
Definition idel (i : imap) v := del veqb i v.

Record store := { smap : emap; sidx : imap; sprev : list event; scur : list event }.

Definition apply_ev (m : emap) (ev : event) : emap :=
  match ev with Add e v => eput m e v | Remove e => edel m e end.

(* XvcStore::build_map *)
Definition build_map (prev cur : list event) : emap :=
  fold_left apply_ev cur (fold_left apply_ev prev []).

Definition idx_push (i : imap) (v : V) (e : entity) : imap :=
  match iget i v with Some l => iput i v (l ++ [e]) | None => iput i v [e] end.

(* XvcStore::build_index: iterates the map in key order *)
Definition build_index (m : emap) : imap :=
  fold_left (fun i ev => idx_push i (snd ev) (fst ev)) m [].

Definition from_event_logs (prev cur : list event) : store :=
  let m := build_map prev cur in
  {| smap := m; sidx := build_index m; sprev := prev; scur := cur |}.

Definition new_store : store := from_event_logs [] [].

(* XvcStore::remove_from_index (added by the fix) *)
Definition remove_from_index (i : imap) (v : V) (e : entity) : imap :=
  match iget i v with
  | Some l => match filter (fun x => negb (eqe x e)) l with
              | [] => idel i v
              | l' => iput i v l'
              end
  | None => i
  end.

(* XvcStore::insert; returns the previous value *)
Definition insert (s : store) (e : entity) (v : V) : store * option V :=
  let prev := eget (smap s) e in
  let i1 := match prev with Some pv => remove_from_index (sidx s) pv e | None => sidx s end in
  ({| smap := eput (smap s) e v; sidx := idx_push i1 v e;
      sprev := sprev s; scur := scur s ++ [Add e v] |}, prev).

(* XvcStore::remove; the inner None branch (map entry without index entry) drops the
   map entry without logging an event, exactly as the code does *)
Definition remove (s : store) (e : entity) : store * option V :=
  match eget (smap s) e with
  | Some v =>
      match iget (sidx s) v with
      | Some _ => ({| smap := edel (smap s) e; sidx := remove_from_index (sidx s) v e;
                      sprev := sprev s; scur := scur s ++ [Remove e] |}, Some v)
      | None => ({| smap := edel (smap s) e; sidx := sidx s;
                    sprev := sprev s; scur := scur s |}, None)
      end
  | None => (s, None)
  end.

(* XvcStore::update = remove if present, then insert (so it returns insert's result) *)
Definition update (s : store) (e : entity) (v : V) : store * option V :=
  let s1 := match eget (smap s) e with Some _ => fst (remove s e) | None => s end in
  insert s1 e v.

Definition entities_for (s : store) (v : V) : option (list entity) := iget (sidx s) v.
Definition entity_by_value (s : store) (v : V) : option entity :=
  match entities_for s v with Some (e :: _) => Some e | _ => None end.

(* XvcStore::index_map: vec_e[0] for every key; None models the out-of-bounds panic *)
Fixpoint index_map_of (i : imap) : option (list (V * entity)) :=
  match i with
  | [] => Some []
  | (v, []) :: _ => None
  | (v, e :: _) :: r => match index_map_of r with Some l => Some ((v, e) :: l) | None => None end
  end.
Definition index_map (s : store) := index_map_of (sidx s).

(* ---- directories of event files ------------------------------------------------- *)
(* file name (the microsecond timestamp) |-> decoded content; kept sorted by name, which is
   the order sorted_files() yields *)
Definition dir := list (N * list event).
Definition dput (d : dir) (n : N) (c : list event) : dir := put N.eqb N.ltb d n c.
Definition dget (d : dir) (n : N) := get N.eqb d n.
Definition dir_events (d : dir) : list event := concat (map snd d).
(* union of two directories (what a Git merge of two branches leaves in the store directory) *)
Definition dmerge (d1 d2 : dir) : dir := fold_left (fun acc f => dput acc (fst f) (snd f)) d2 d1.
Definition dsort (d : dir) : dir := dmerge [] d.

(* EventLog::to_dir: nothing when current is empty, else fs::write(dir/<ts>.json) *)
Definition to_dir (ts : N) (d : dir) (s : store) : dir :=
  match scur s with [] => d | _ => dput d ts (scur s) end.
(* XvcStore::from_dir *)
Definition from_dir (d : dir) : store := from_event_logs (dir_events d) [].

(* ---- operation histories ---------------------------------------------------------- *)
Inductive op :=
| OIns (e : entity) (v : V) | OUpd (e : entity) (v : V) | ORem (e : entity)
| OSave (ts : N)            (* to_dir under the file name ts; the store stays in memory *)
| OLoad.                    (* from_dir: a new session *)

Definition st := (store * dir)%type.
Definition step (x : st) (o : op) : st :=
  let '(s, d) := x in
  match o with
  | OIns e v => (fst (insert s e v), d)
  | OUpd e v => (fst (update s e v), d)
  | ORem e => (fst (remove s e), d)
  | OSave ts => (s, to_dir ts d s)
  | OLoad => (from_dir d, d)
  end.
Definition run (ops : list op) (x : st) : st := fold_left step ops x.
Definition init_st : st := (new_store, []).

(* reference semantics: two ordinary maps (in memory, on disk) *)
Definition rst := (emap * emap)%type.
Definition rstep (x : rst) (o : op) : rst :=
  let '(c, sv) := x in
  match o with
  | OIns e v | OUpd e v => (eput c e v, sv)
  | ORem e => (edel c e, sv)
  | OSave _ => (c, c)
  | OLoad => (sv, sv)
  end.
Definition rrun (ops : list op) (x : rst) : rst := fold_left rstep ops x.

(* fresh_names: every save uses a name greater than every name already in the directory *)
Definition max_name (d : dir) : N := fold_left (fun m f => N.max m (fst f)) d 0%N.
Fixpoint fresh_names (ops : list op) (hi : N) : bool :=
  match ops with
  | [] => true
  | OSave ts :: r => N.ltb hi ts && fresh_names r ts
  | _ :: r => fresh_names r hi
  end.

End Store.

Arguments Remove {V} e.
Arguments OLoad {V}.
Arguments OSave {V} ts.
Arguments ORem {V} e.

(* ---- entity generator (ecs/src/ecs/mod.rs) ------------------------------------------ *)
Definition two64 : N := 18446744073709551616%N.
Record gen := { gcounter : N; grnd : N; gdirty : bool }.
(* XvcEntityGenerator::new(1) as used by init_generator *)
Definition gen_init (rnd : N) : gen := {| gcounter := 1; grnd := rnd; gdirty := true |}.
(* next_element: (counter.fetch_add(1), random); fetch_add wraps at 2^64 *)
Definition gen_next (g : gen) : entity * gen :=
  ((gcounter g, grnd g),
   {| gcounter := (gcounter g + 1) mod two64; grnd := grnd g; gdirty := true |}).
(* directory of counter files: name |-> counter value, sorted by name *)
Definition ecdir := list (N * N).
Definition ecput (d : ecdir) n c : ecdir := put N.eqb N.ltb d n c.
Fixpoint last_opt {A} (l : list A) : option A :=
  match l with [] => None | [x] => Some x | _ :: r => last_opt r end.
(* XvcEntityGenerator::load: counter of the most recent file, fresh random word, not dirty *)
Definition gen_load (d : ecdir) (rnd : N) : option gen :=
  match last_opt d with
  | Some (_, c) => Some {| gcounter := c; grnd := rnd; gdirty := false |}
  | None => None
  end.
(* XvcEntityGenerator::save: writes <ts> with the counter iff dirty *)
Definition gen_save (ts : N) (d : ecdir) (g : gen) : ecdir * gen :=
  if gdirty g then (ecput d ts (gcounter g), {| gcounter := gcounter g; grnd := grnd g; gdirty := false |})
  else (d, g).

Fixpoint gen_take (k : nat) (g : gen) : list entity * gen :=
  match k with
  | O => ([], g)
  | S k' => let '(e, g1) := gen_next g in let '(l, g2) := gen_take k' g1 in (e :: l, g2)
  end.

(* one session: load with random word rnd, allocate k entities, save under name ts (if [sv]) *)
Record gsession := { gs_rnd : N; gs_k : nat; gs_ts : N; gs_save : bool }.
Definition gen_session (d : ecdir) (x : gsession) : option (list entity * ecdir) :=
  match gen_load d (gs_rnd x) with
  | None => None
  | Some g => let '(l, g1) := gen_take (gs_k x) g in
              Some (l, if gs_save x then fst (gen_save (gs_ts x) d g1) else d)
  end.
Fixpoint gen_sessions (d : ecdir) (xs : list gsession) : option (list entity * ecdir) :=
  match xs with
  | [] => Some ([], d)
  | x :: r => match gen_session d x with
              | None => None
              | Some (l, d1) => match gen_sessions d1 r with
                                | None => None
                                | Some (l2, d2) => Some (l ++ l2, d2)
                                end
              end
  end.

(* ---- 1-1 and 1-N stores ------------------------------------------------------------- *)
Section Rel.
Variable T U : Type.
Variable teqb : T -> T -> bool.
Variable ueqb : U -> U -> bool.

Record r11 := { r_left : store T; r_right : store U }.
Definition r11_insert (r : r11) e (t : T) (u : U) : r11 :=
  {| r_left := fst (insert teqb (r_left r) e t); r_right := fst (insert ueqb (r_right r) e u) |}.
Definition r11_remove (r : r11) e : r11 :=
  {| r_left := fst (remove teqb (r_left r) e); r_right := fst (remove ueqb (r_right r) e) |}.

(* R1NStore<T,U>: parents : T, children : U, child_parents : child entity |-> parent entity *)
Record r1n := { parents : store T; children : store U; child_parents : store entity }.
Definition r1n_insert (r : r1n) (pe : entity) (pc : T) (ce : entity) (cc : U) : r1n :=
  let ps := match eget (smap (parents r)) pe with
            | None => fst (insert teqb (parents r) pe pc)
            | Some v => if teqb v pc then parents r else fst (update teqb (parents r) pe pc)
            end in
  {| parents := ps;
     children := fst (insert ueqb (children r) ce cc);
     child_parents := fst (insert eqe (child_parents r) ce pe) |}.
Definition r1n_remove_child (r : r1n) (ce : entity) : r1n :=
  {| parents := parents r;
     children := fst (remove ueqb (children r) ce);
     child_parents := fst (remove eqe (child_parents r) ce) |}.
(* children_of: child entities whose child_parents value is the parent, with their child
   components (a child without a component is dropped with a warning, as subset() does) *)
Definition children_of (r : r1n) (pe : entity) : list (entity * U) :=
  flat_map (fun cp => if eqe (snd cp) pe
                      then match eget (smap (children r)) (fst cp) with
                           | Some u => [(fst cp, u)] | None => [] end
                      else [])
           (smap (child_parents r)).
Definition parent_of (r : r1n) (ce : entity) : option (entity * T) :=
  match eget (smap (child_parents r)) ce with
  | None => None
  | Some pe => match eget (smap (parents r)) pe with Some t => Some (pe, t) | None => None end
  end.
End Rel.
