(* M-INVAL: all_outcomes (Model.v: explore) is exactly the set of outcomes of the maximal schedules (property C12).
   Used by the correspondence check: the executed set of a real run must be one of all_outcomes. *)
From Coq Require Import List Bool NArith Arith Lia.
From XV Require Import Gen.DiffTables Inval.Model Inval.Proofs.
Import ListNotations.

(* ---- all_outcomes is exactly the set of outcomes of the maximal schedules --------------------------------- *)
(* a phase of a thread that is not enabled does nothing *)
Lemma event_disabled v cfg recs σ k : enabled cfg σ k = false -> event v cfg recs σ k = σ.
Proof.
  unfold enabled, event. destruct (nth_error cfg k) as [c|]; [|reflexivity].
  destruct (getL (r_lst σ) k); try reflexivity; try discriminate.
  intros H. apply orb_false_elim in H. destruct H as [Hn Ht].
  unfold sup_phase. rewrite Hn, Ht. reflexivity.
Qed.

Definition weight (s : lstate) : nat := match s with LInit => 2 | LSupChanged => 1 | _ => 0 end.
Definition measure (cfg : config) (σ : rstate) : nat :=
  list_sum (map (fun i => weight (getL (r_lst σ) i)) (steps_of cfg)).

Lemma enabled_step cfg σ k : enabled cfg σ k = true -> In k (steps_of cfg).
Proof.
  unfold enabled. destruct (nth_error cfg k) as [c|] eqn:E; [|discriminate]. intros _.
  unfold steps_of. apply in_seq. assert (k < length cfg) by (apply nth_error_Some; congruence). lia.
Qed.

Lemma enabled_weight cfg σ k : enabled cfg σ k = true -> 0 < weight (getL (r_lst σ) k).
Proof.
  unfold enabled. destruct (nth_error cfg k); [|discriminate]. destruct (getL (r_lst σ) k); cbn; try discriminate; lia.
Qed.

Lemma weight_zero_disabled cfg σ k : weight (getL (r_lst σ) k) = 0 -> enabled cfg σ k = false.
Proof.
  intros H. destruct (enabled cfg σ k) eqn:E; [|reflexivity]. apply enabled_weight in E. lia.
Qed.

(* an enabled phase moves its thread strictly forward *)
Lemma event_weight v cfg recs σ k :
  enabled cfg σ k = true -> weight (getL (r_lst (event v cfg recs σ k)) k) < weight (getL (r_lst σ) k).
Proof.
  unfold enabled, event. destruct (nth_error cfg k) as [c|]; [|discriminate].
  destruct (getL (r_lst σ) k) eqn:Hs; try discriminate.
  - intros H. unfold sup_phase, decide_not_changed, do_run, set_state, set_diffs.
    destruct (rc_never (rcond c)) eqn:Hn; [cbn [r_lst getL]; rewrite Nat.eqb_refl; cbn [weight]; lia|].
    cbn [orb] in H. rewrite H. cbn [negb].
    break_match; cbn [r_lst getL]; rewrite Nat.eqb_refl; cbn [weight]; lia.
  - intros _. unfold tho_phase, decide_not_changed, do_run, set_state, set_diffs.
    break_match; cbn [r_lst getL]; rewrite Nat.eqb_refl; cbn [weight]; lia.
Qed.

Lemma list_sum_cons a l : list_sum (a :: l) = a + list_sum l.
Proof. reflexivity. Qed.

Lemma list_sum_lt (f g : nat -> nat) l k :
  NoDup l -> In k l -> g k < f k -> (forall i, i <> k -> g i = f i) ->
  list_sum (map g l) < list_sum (map f l).
Proof.
  induction l as [|a l IH]; intros Hnd Hin Hlt Hoth; [destruct Hin|].
  inversion Hnd as [|? ? Hni Hnd']; subst. cbn [map]. rewrite !list_sum_cons.
  destruct Hin as [->|Hin].
  - assert (E : map g l = map f l).
    { apply map_ext_in. intros i Hi. apply Hoth. intros ->. contradiction. }
    rewrite E. lia.
  - assert (a <> k) by (intros ->; contradiction). rewrite (Hoth a H). specialize (IH Hnd' Hin Hlt Hoth). lia.
Qed.

Lemma event_measure v cfg recs σ k :
  enabled cfg σ k = true -> measure cfg (event v cfg recs σ k) < measure cfg σ.
Proof.
  intros He. unfold measure. apply (list_sum_lt _ _ (steps_of cfg) k).
  - apply seq_NoDup.
  - now apply (enabled_step cfg σ).
  - now apply event_weight.
  - intros i Hne. rewrite event_lst_other; [reflexivity | congruence].
Qed.

Lemma measure_zero_quiescent cfg σ : measure cfg σ = 0 -> filter (enabled cfg σ) (steps_of cfg) = [].
Proof.
  unfold measure. intros H.
  assert (Hall : forall i, In i (steps_of cfg) -> weight (getL (r_lst σ) i) = 0).
  { revert H. induction (steps_of cfg) as [|a l IH]; cbn [map]; rewrite ?list_sum_cons; intros H i Hi; [destruct Hi|].
    destruct Hi as [<-|Hi]; [lia | apply IH; [lia | exact Hi]]. }
  destruct (filter (enabled cfg σ) (steps_of cfg)) as [|a l] eqn:E; [reflexivity|]. exfalso.
  assert (Ha : In a (filter (enabled cfg σ) (steps_of cfg))) by (rewrite E; now left).
  apply filter_In in Ha. destruct Ha as [Ha1 Ha2]. apply enabled_weight in Ha2. rewrite (Hall _ Ha1) in Ha2. lia.
Qed.

Lemma measure_init cfg world : measure cfg (init_state world) = 2 * length cfg.
Proof.
  unfold measure, steps_of. cbn [init_state r_lst getL weight].
  induction (seq 0 (length cfg)) as [|a l IH] eqn:E in cfg |- *.
  - apply (f_equal (@length _)) in E. rewrite seq_length in E. cbn in E. rewrite E. reflexivity.
  - clear IH. rewrite <- E. clear E.
    assert (G : forall n s, list_sum (map (fun _ : nat => 2) (seq s n)) = 2 * n).
    { induction n as [|n IHn]; intros s; [reflexivity|]. cbn [seq map]. rewrite list_sum_cons, IHn. lia. }
    apply G.
Qed.

(* soundness: every outcome of all_outcomes is the outcome of a schedule, and that schedule is maximal *)
Lemma explore_sound v cfg recs o : forall fuel σ,
  measure cfg σ <= fuel -> In o (explore fuel v cfg recs σ) ->
  exists order, o = finish cfg recs (run_events v cfg recs σ order) /\
                quiescent cfg (run_events v cfg recs σ order) = true.
Proof.
  induction fuel as [|f IH]; intros σ Hm Hin.
  - cbn [explore] in Hin. destruct Hin as [<-|[]]. exists []. split; [reflexivity|].
    unfold quiescent. cbn [run_events fold_left]. rewrite measure_zero_quiescent; [reflexivity | lia].
  - cbn [explore] in Hin. destruct (filter (enabled cfg σ) (steps_of cfg)) as [|a l] eqn:E.
    + destruct Hin as [<-|[]]. exists []. split; [reflexivity|]. unfold quiescent. cbn [run_events fold_left]. now rewrite E.
    + apply in_flat_map in Hin. destruct Hin as [i [Hi Ho]].
      assert (Hen : enabled cfg σ i = true) by (rewrite <- E in Hi; apply filter_In in Hi; tauto).
      pose proof (event_measure v cfg recs σ i Hen) as Hlt.
      destruct (IH (event v cfg recs σ i) ltac:(lia) Ho) as [order [H1 H2]].
      exists (i :: order). split; assumption.
Qed.

(* completeness: the outcome of every maximal schedule is in all_outcomes (phases of threads that are not enabled
   may occur anywhere in the schedule: they do nothing) *)
Lemma explore_complete v cfg recs : forall order fuel σ,
  measure cfg σ <= fuel ->
  quiescent cfg (run_events v cfg recs σ order) = true ->
  In (finish cfg recs (run_events v cfg recs σ order)) (explore fuel v cfg recs σ).
Proof.
  induction order as [|k rest IH]; intros fuel σ Hm Hq.
  - cbn [run_events fold_left] in *. unfold quiescent in Hq.
    destruct fuel as [|f]; cbn [explore]; [now left|].
    destruct (filter (enabled cfg σ) (steps_of cfg)); [now left | discriminate].
  - cbn [run_events fold_left] in *. destruct (enabled cfg σ k) eqn:He.
    + pose proof (event_measure v cfg recs σ k He) as Hlt.
      destruct fuel as [|f]; [lia|]. cbn [explore].
      destruct (filter (enabled cfg σ) (steps_of cfg)) as [|a l] eqn:E.
      * exfalso. assert (X : In k (filter (enabled cfg σ) (steps_of cfg))) by (apply filter_In; split; [now apply (enabled_step cfg σ) | exact He]).
        rewrite E in X. destruct X.
      * apply in_flat_map. exists k. split.
        -- rewrite <- E. apply filter_In. split; [now apply (enabled_step cfg σ) | exact He].
        -- apply IH; [lia | exact Hq].
    + rewrite (event_disabled v cfg recs σ k He) in *. now apply IH.
Qed.

Lemma all_outcomes_sound_lemma v cfg recs world o :
  In o (all_outcomes v cfg recs world) ->
  exists order, o = run v cfg recs world order /\
                quiescent cfg (run_events v cfg recs (init_state world) order) = true.
Proof. unfold all_outcomes, run. apply explore_sound. rewrite measure_init. lia. Qed.

Lemma all_outcomes_complete_lemma v cfg recs world order :
  quiescent cfg (run_events v cfg recs (init_state world) order) = true ->
  In (run v cfg recs world order) (all_outcomes v cfg recs world).
Proof. unfold all_outcomes, run. apply explore_complete. rewrite measure_init. lia. Qed.

(* a complete outcome (every thread reached a verdict) comes from a maximal schedule *)
Lemma complete_quiescent cfg σ : all_terminal cfg σ = true -> quiescent cfg σ = true.
Proof.
  unfold all_terminal, quiescent. intros H. rewrite forallb_forall in H.
  destruct (filter (enabled cfg σ) (steps_of cfg)) as [|a l] eqn:E; [reflexivity|]. exfalso.
  assert (Ha : In a (filter (enabled cfg σ) (steps_of cfg))) by (rewrite E; now left).
  apply filter_In in Ha. destruct Ha as [Ha1 Ha2]. specialize (H _ Ha1).
  apply enabled_weight in Ha2. destruct (getL (r_lst σ) a); cbn in *; try discriminate; lia.
Qed.

Lemma complete_outcome_in_all_lemma v cfg recs world order :
  o_complete (run v cfg recs world order) = true ->
  In (run v cfg recs world order) (all_outcomes v cfg recs world).
Proof.
  intros H. apply all_outcomes_complete_lemma. apply complete_quiescent. exact H.
Qed.
