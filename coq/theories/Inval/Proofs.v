(* M-INVAL proofs (property C12).  All proofs about Inval/Model.v live here; Props/C12.v only restates.
   Every theorem quantifies over all schedules ([order]) of the step threads' check phases. *)
From Coq Require Import List Bool NArith Arith Lia.
From XV Require Import Gen.DiffTables Inval.Model.
Import ListNotations.


(* ---- facts about the regenerated tables ------------------------------------------------------------- *)
Lemma non_never_ignores_missing_outputs w nd :
  rc_never (rc_of w nd) = false -> rc_ignore_missing_outputs (rc_of w nd) = true.
Proof. destruct w, nd; cbn; intros H; try reflexivity; discriminate H. Qed.

Lemma never_iff_when w nd : rc_never (rc_of w nd) = true <-> w = WNever.
Proof. destruct w, nd; cbn; split; intros H; try reflexivity; try discriminate H. Qed.

Lemma always_iff w nd : rc_always (rc_of w nd) = true <-> (w = WAlways \/ (w = WByDependencies /\ nd = true)).
Proof.
  destruct w, nd; cbn; split; intros H; try reflexivity; try discriminate H; auto;
    destruct H as [H | [H1 H2]]; try discriminate; auto.
Qed.

Lemma save_guard : save_guarded_by_all_done = true.
Proof. reflexivity. Qed.

Ltac break_match :=
  repeat match goal with
         | |- context [match ?x with _ => _ end] => destruct x eqn:?
         | |- context [if ?x then _ else _] => destruct x eqn:?
         end.

(* ---- never_is_never --------------------------------------------------------------------------------- *)
Definition exec_inv (cfg : config) (σ : rstate) : Prop :=
  (forall j, In j (r_exec σ) -> exists c, nth_error cfg j = Some c /\ rc_never (rcond c) = false) /\
  (forall j c, nth_error cfg j = Some c -> getL (r_lst σ) j = LSupChanged -> rc_never (rcond c) = false).

Lemma getL_set σ i s j : getL (r_lst (set_state σ i s)) j = if Nat.eqb i j then s else getL (r_lst σ) j.
Proof. reflexivity. Qed.

Lemma exec_inv_event v cfg recs σ i : exec_inv cfg σ -> exec_inv cfg (event v cfg recs σ i).
Proof.
  intros [H1 H2]. unfold event.
  destruct (nth_error cfg i) as [c|] eqn:Hc; [|split; assumption].
  destruct (getL (r_lst σ) i) eqn:Hs; try (split; assumption).
  - (* sup phase *)
    unfold sup_phase, decide_not_changed, do_run, set_state, set_diffs.
    break_match; split; cbn [r_exec r_lst getL]; intros; try (now apply H1); try (now eapply H2; eauto).
    all: try match goal with H : In _ (_ :: _) |- _ => destruct H as [E | H]; [subst j; eauto | now apply H1] end.
    all: try match goal with H : (if Nat.eqb ?a ?b then _ else _) = LSupChanged |- _ =>
                             destruct (Nat.eqb_spec a b); [subst; try discriminate; congruence | eapply H2; eauto] end.
  - (* thorough phase *)
    assert (Hn : rc_never (rcond c) = false) by (eapply H2; eauto).
    unfold tho_phase, decide_not_changed, do_run, set_state, set_diffs.
    break_match; split; cbn [r_exec r_lst getL]; intros; try (now apply H1); try (now eapply H2; eauto).
    all: try match goal with H : In _ (_ :: _) |- _ => destruct H as [E | H]; [subst j; eauto | now apply H1] end.
    all: try match goal with H : (if Nat.eqb ?a ?b then _ else _) = LSupChanged |- _ =>
                             destruct (Nat.eqb_spec a b); [subst; try discriminate; congruence | eapply H2; eauto] end.
Qed.

Lemma exec_inv_run_events v cfg recs order : forall σ, exec_inv cfg σ -> exec_inv cfg (run_events v cfg recs σ order).
Proof.
  induction order as [|k rest IH]; intros σ H; [exact H|].
  cbn [run_events fold_left]. apply IH. now apply exec_inv_event.
Qed.

Lemma exec_inv_init cfg world : exec_inv cfg (init_state world).
Proof. split; cbn; intros; [contradiction | discriminate]. Qed.

Lemma never_is_never_lemma v cfg recs world order i c :
  nth_error cfg i = Some c -> s_when c = WNever -> ~ In i (o_exec (run v cfg recs world order)).
Proof.
  intros Hc Hw Hin. unfold run, finish in Hin. cbn [o_exec] in Hin. apply in_rev in Hin.
  destruct (exec_inv_run_events v cfg recs order _ (exec_inv_init cfg world)) as [H1 _].
  destruct (H1 _ Hin) as [c' [Hc' Hn]]. rewrite Hc in Hc'. injection Hc' as <-.
  unfold rcond in Hn. rewrite Hw in Hn. destruct (no_deps c); discriminate Hn.
Qed.

(* ---- failed_run_records_nothing ---------------------------------------------------------------------- *)
Lemma forallb_map_eq {A B} (f : A -> B) (p : B -> bool) l : forallb p (map f l) = forallb (fun x => p (f x)) l.
Proof. induction l as [|a l IH]; cbn; [reflexivity | now rewrite IH]. Qed.

Lemma failed_run_records_nothing_lemma v cfg recs world order :
  forallb is_done (o_states (run v cfg recs world order)) = false ->
  o_records (run v cfg recs world order) = recs.
Proof.
  unfold run, finish. cbn [o_states o_records]. rewrite forallb_map_eq. intros H.
  unfold end_records, all_done. rewrite H. reflexivity.
Qed.


(* ---- maps ----------------------------------------------------------------------------------------------- *)
Lemma getN_updN {V} (m : list (N * V)) k v k' :
  getN (updN m k v) k' = if N.eqb k k' then Some v else getN m k'.
Proof.
  induction m as [|[k0 v0] m IH]; cbn [updN getN].
  - reflexivity.
  - destruct (N.eqb_spec k0 k) as [->|Hne]; cbn [getN].
    + destruct (N.eqb k k'); reflexivity.
    + destruct (N.eqb_spec k0 k') as [->|Hne'].
      * destruct (N.eqb_spec k k'); [congruence | reflexivity].
      * exact IH.
Qed.

Lemma getN_In {V} (m : list (N * V)) k v : getN m k = Some v -> In (k, v) m.
Proof.
  induction m as [|[k0 v0] m IH]; cbn [getN]; [discriminate|].
  destruct (N.eqb_spec k0 k) as [->|Hne]; intros H.
  - injection H as ->. now left.
  - right. now apply IH.
Qed.

Lemma In_getN_nodup {V} (m : list (N * V)) k v : NoDup (map fst m) -> In (k, v) m -> getN m k = Some v.
Proof.
  induction m as [|[k0 v0] m IH]; cbn [map fst getN]; intros Hnd Hin; [contradiction|].
  inversion Hnd as [|? ? Hni Hnd']; subst. destruct Hin as [E | Hin].
  - injection E as -> ->. now rewrite N.eqb_refl.
  - destruct (N.eqb_spec k0 k) as [->|Hne]; [|now apply IH].
    exfalso. apply Hni. change k with (fst (k, v)). now apply in_map.
Qed.

Lemma updN_keys {V} (m : list (N * V)) k v :
  map fst (updN m k v) = if memN k (map fst m) then map fst m else map fst m ++ [k].
Proof.
  unfold memN. induction m as [|[k0 v0] m IH]; cbn [updN map fst existsb app]; [reflexivity|].
  destruct (N.eqb_spec k0 k) as [->|Hne]; cbn [map fst].
  - now rewrite N.eqb_refl.
  - destruct (N.eqb_spec k k0) as [->|_]; [congruence|]. cbn [orb]. rewrite IH.
    destruct (existsb (N.eqb k) (map fst m)); reflexivity.
Qed.

Lemma memN_In k l : memN k l = true <-> In k l.
Proof.
  unfold memN. rewrite existsb_exists. split.
  - intros [x [Hin He]]. apply N.eqb_eq in He. now subst.
  - intros H. exists k. split; [assumption | apply N.eqb_refl].
Qed.

Lemma NoDup_snoc {A} (l : list A) k : NoDup l -> ~ In k l -> NoDup (l ++ [k]).
Proof.
  induction l as [|a l IH]; cbn [app]; intros Hnd Hni.
  - constructor; [intros [] | constructor].
  - inversion Hnd as [|? ? Ha Hl]; subst. constructor.
    + rewrite in_app_iff. intros [H | [H | []]]; [now apply Ha | subst; apply Hni; now left].
    + apply IH; [assumption | intros H; apply Hni; now right].
Qed.

Lemma updN_nodup {V} (m : list (N * V)) k v : NoDup (map fst m) -> NoDup (map fst (updN m k v)).
Proof.
  intros H. rewrite updN_keys. destruct (memN k (map fst m)) eqn:E; [assumption|].
  apply NoDup_snoc; [assumption|]. intros Hin. apply memN_In in Hin. congruence.
Qed.

Lemma updN_all_nodup {V} (l m : list (N * V)) : NoDup (map fst m) -> NoDup (map fst (updN_all m l)).
Proof.
  unfold updN_all. revert m. induction l as [|[k v] l IH]; cbn [fold_left fst snd]; intros m H; [assumption|].
  apply IH. now apply updN_nodup.
Qed.

Lemma getN_updN_all_notin {V} (l m : list (N * V)) d :
  ~ In d (map fst l) -> getN (updN_all m l) d = getN m d.
Proof.
  unfold updN_all. revert m. induction l as [|[k v] l IH]; cbn [fold_left fst snd map]; intros m H; [reflexivity|].
  rewrite IH by (intros X; apply H; now right). rewrite getN_updN.
  destruct (N.eqb_spec k d) as [->|_]; [exfalso; apply H; now left | reflexivity].
Qed.

Lemma getN_updN_all_in {V} (l m : list (N * V)) d :
  In d (map fst l) -> exists e, In (d, e) l /\ getN (updN_all m l) d = Some e.
Proof.
  unfold updN_all. revert m. induction l as [|[k v] l IH]; cbn [fold_left fst snd map]; intros m H; [contradiction|].
  destruct (in_dec N.eq_dec d (map fst l)) as [Hin | Hni].
  - destruct (IH (updN m k v) Hin) as [e [He Hg]]. exists e. split; [now right | exact Hg].
  - destruct H as [-> | H]; [|contradiction]. exists v. split; [now left|].
    change (getN (updN_all (updN m d v) l) d = Some v). rewrite getN_updN_all_notin by assumption.
    rewrite getN_updN, N.eqb_refl. reflexivity.
Qed.

Lemma getN_updN_all_cases {V} (l m : list (N * V)) d :
  (~ In d (map fst l) /\ getN (updN_all m l) d = getN m d) \/
  (exists e, In (d, e) l /\ getN (updN_all m l) d = Some e).
Proof.
  destruct (in_dec N.eq_dec d (map fst l)) as [Hin | Hni].
  - right. now apply getN_updN_all_in.
  - left. split; [assumption | now apply getN_updN_all_notin].
Qed.

Lemma notin_getN_none {V} (m : list (N * V)) k : ~ In k (map fst m) -> getN m k = None.
Proof.
  induction m as [|[k0 v0] m IH]; cbn [map fst getN]; intros H; [reflexivity|].
  destruct (N.eqb_spec k0 k) as [->|Hne]; [exfalso; apply H; now left | apply IH; intros X; apply H; now right].
Qed.


(* ---- the comparison passes ------------------------------------------------------------------------------ *)
Lemma sup_entries_spec recs w ds ents :
  sup_entries recs w ds = Some ents ->
  map fst ents = ds /\
  (forall d e, In (d, e) ents -> exists wv, getN w d = Some wv /\ e = sup_compare (getN recs d) wv).
Proof.
  revert ents. induction ds as [|d ds IH]; cbn [sup_entries]; intros ents H.
  - injection H as <-. split; [reflexivity | intros ? ? []].
  - destruct (getN w d) as [wv|] eqn:Hw; [|discriminate].
    destruct (sup_entries recs w ds) as [l|] eqn:Hl; [|discriminate].
    injection H as <-. destruct (IH l eq_refl) as [Hk Hs]. split; [cbn [map fst]; now rewrite Hk|].
    intros d' e [E | Hin]; [injection E as <- <-; eauto | eauto].
Qed.

Lemma sup_entries_none recs w ds :
  sup_entries recs w ds = None -> exists d, In d ds /\ getN w d = None.
Proof.
  induction ds as [|d ds IH]; cbn [sup_entries]; [discriminate|].
  destruct (getN w d) as [wv|] eqn:Hw; [|intros _; exists d; split; [now left | assumption]].
  destruct (sup_entries recs w ds); [discriminate|]. intros _.
  destruct (IH eq_refl) as [d' [Hin Hn]]. exists d'. split; [now right | assumption].
Qed.

Definition tho_result (gl : list dep) (recs w : list (dep * wval)) (d : dep) (e e' : dentry) : Prop :=
  if changed e then exists wv, getN w d = Some wv /\ e' = tho_compare (memN d gl) (getN recs d) wv else e' = DSkipped.

Lemma tho_entries_spec gl recs w es ents :
  tho_entries gl recs w es = Some ents ->
  map fst ents = map fst es /\
  (forall d e', In (d, e') ents -> exists e, In (d, e) es /\ tho_result gl recs w d e e') /\
  (forall d e, In (d, e) es -> exists e', In (d, e') ents /\ tho_result gl recs w d e e').
Proof.
  revert ents. induction es as [|[d e] es IH]; cbn [tho_entries]; intros ents H.
  - injection H as <-. split; [reflexivity|]. split; intros ? ? [].
  - destruct (if changed e then match getN w d with None => None | Some wv => Some (tho_compare (memN d gl) (getN recs d) wv) end
              else Some DSkipped) as [e1|] eqn:He; [|discriminate].
    destruct (tho_entries gl recs w es) as [l|] eqn:Hl; [|discriminate].
    injection H as <-. destruct (IH l eq_refl) as [Hk [Hb Hf]].
    assert (Hr : tho_result gl recs w d e e1).
    { unfold tho_result. destruct (changed e).
      - destruct (getN w d) as [wv|]; [|discriminate]. injection He as <-. eauto.
      - now injection He as <-. }
    split; [cbn [map fst]; now rewrite Hk|]. split.
    + intros d' e' [E | Hin].
      * injection E as <- <-. exists e. split; [now left | exact Hr].
      * destruct (Hb _ _ Hin) as [e0 [H0 H1]]. exists e0. split; [now right | exact H1].
    + intros d' e0 [E | Hin].
      * injection E as <- <-. exists e1. split; [now left | exact Hr].
      * destruct (Hf _ _ Hin) as [e' [H0 H1]]. exists e'. split; [now right | exact H1].
Qed.

Lemma existsb_changed_true (ents : list (dep * dentry)) d e :
  In (d, e) ents -> changed e = true -> existsb (fun x => changed (snd x)) ents = true.
Proof. intros Hin Hc. apply existsb_exists. exists (d, e). split; assumption. Qed.

Lemma existsb_changed_false (ents : list (dep * dentry)) :
  (forall d e, In (d, e) ents -> changed e = false) -> existsb (fun x => changed (snd x)) ents = false.
Proof.
  intros H. destruct (existsb (fun x => changed (snd x)) ents) eqn:E; [|reflexivity].
  apply existsb_exists in E. destruct E as [[d e] [Hin Hc]]. cbn [snd] in Hc. rewrite (H _ _ Hin) in Hc. discriminate.
Qed.

(* ---- frame properties of one event ------------------------------------------------------------------------ *)
Lemma event_lst_other v cfg recs σ k i : k <> i -> getL (r_lst (event v cfg recs σ k)) i = getL (r_lst σ) i.
Proof.
  intros Hne. unfold event. destruct (nth_error cfg k) as [c|]; [|reflexivity].
  destruct (getL (r_lst σ) k); try reflexivity.
  - unfold sup_phase, decide_not_changed, do_run, set_state, set_diffs.
    break_match; cbn [r_lst getL]; try reflexivity; destruct (Nat.eqb_spec k i); congruence.
  - unfold tho_phase, decide_not_changed, do_run, set_state, set_diffs.
    break_match; cbn [r_lst getL]; try reflexivity; destruct (Nat.eqb_spec k i); congruence.
Qed.

Definition settled_state (s : lstate) : bool := match s with LInit | LSupChanged => false | _ => true end.

Lemma event_lst_absorb v cfg recs σ k i :
  settled_state (getL (r_lst σ) i) = true -> getL (r_lst (event v cfg recs σ k)) i = getL (r_lst σ) i.
Proof.
  intros Hs. destruct (Nat.eq_dec k i) as [->|Hne]; [|now apply event_lst_other].
  unfold event. destruct (nth_error cfg i) as [c|]; [|reflexivity].
  revert Hs. destruct (getL (r_lst σ) i) eqn:E; intros Hs; try assumption; cbn in Hs; discriminate Hs.
Qed.

Lemma run_events_lst_absorb v cfg recs order : forall σ i,
  settled_state (getL (r_lst σ) i) = true -> getL (r_lst (run_events v cfg recs σ order)) i = getL (r_lst σ) i.
Proof.
  induction order as [|k rest IH]; intros σ i Hs; [reflexivity|].
  cbn [run_events fold_left]. change (getL (r_lst (run_events v cfg recs (event v cfg recs σ k) rest)) i = getL (r_lst σ) i).
  rewrite IH; [now apply event_lst_absorb|]. now rewrite event_lst_absorb.
Qed.

Lemma terminal_settled s : is_terminal s = true -> settled_state s = true.
Proof. destruct s; cbn; congruence. Qed.

(* exec grows by at most the step of the event, and only when that step's command is run; the world changes
   only then, and only at the effects of that step *)
Lemma event_exec v cfg recs σ k :
  (r_exec (event v cfg recs σ k) = r_exec σ /\ r_world (event v cfg recs σ k) = r_world σ) \/
  (exists c, nth_error cfg k = Some c /\ r_exec (event v cfg recs σ k) = k :: r_exec σ /\
             r_world (event v cfg recs σ k) = updN_all (r_world σ) (s_effs c) /\
             settled_state (getL (r_lst σ) k) = false /\
             getL (r_lst (event v cfg recs σ k)) k = (if s_ok c then LDone true else LBroken BExit)).
Proof.
  unfold event. destruct (nth_error cfg k) as [c|] eqn:Hc; [|now left].
  destruct (getL (r_lst σ) k) eqn:Hs; try (now left).
  - unfold sup_phase, decide_not_changed, do_run, set_state, set_diffs.
    break_match; cbn [r_exec r_world r_lst getL]; try (now left);
      right; exists c; rewrite Nat.eqb_refl; repeat split; try reflexivity;
      match goal with H : s_ok c = _ |- _ => now rewrite H end.
  - unfold tho_phase, decide_not_changed, do_run, set_state, set_diffs.
    break_match; cbn [r_exec r_world r_lst getL]; try (now left);
      right; exists c; rewrite Nat.eqb_refl; repeat split; try reflexivity;
      match goal with H : s_ok c = _ |- _ => now rewrite H end.
Qed.

Lemma event_exec_mono v cfg recs σ k j : In j (r_exec σ) -> In j (r_exec (event v cfg recs σ k)).
Proof.
  intros H. destruct (event_exec v cfg recs σ k) as [[-> _] | [c [_ [-> _]]]]; [assumption | now right].
Qed.

Lemma run_events_exec_mono v cfg recs order : forall σ j, In j (r_exec σ) -> In j (r_exec (run_events v cfg recs σ order)).
Proof.
  induction order as [|k rest IH]; intros σ j H; [assumption|].
  cbn [run_events fold_left]. apply IH. now apply event_exec_mono.
Qed.

(* a step that has run is in the journal *)
Definition ran_inv (σ : rstate) : Prop := forall j, has_run (getL (r_lst σ) j) = true -> In j (r_exec σ).

Lemma ran_inv_event v cfg recs σ k : ran_inv σ -> ran_inv (event v cfg recs σ k).
Proof.
  intros H j Hj. destruct (Nat.eq_dec k j) as [->|Hne].
  - destruct (event_exec v cfg recs σ j) as [[He _] | [c [_ [He _]]]].
    + rewrite He. apply H.
      destruct (settled_state (getL (r_lst σ) j)) eqn:Hs.
      * now rewrite (event_lst_absorb v cfg recs σ j j Hs) in Hj.
      * exfalso. revert Hj He. unfold event. destruct (nth_error cfg j) as [c|]; [|destruct (getL (r_lst σ) j); discriminate].
        destruct (getL (r_lst σ) j) eqn:Hl; try discriminate Hs.
        -- unfold sup_phase, decide_not_changed, do_run, set_state, set_diffs.
           break_match; cbn [r_exec r_lst getL]; rewrite ?Nat.eqb_refl, ?Hl; try discriminate;
             intros _ X; apply (f_equal (@length _)) in X; cbn in X; lia.
        -- unfold tho_phase, decide_not_changed, do_run, set_state, set_diffs.
           break_match; cbn [r_exec r_lst getL]; rewrite ?Nat.eqb_refl, ?Hl; try discriminate;
             intros _ X; apply (f_equal (@length _)) in X; cbn in X; lia.
    + rewrite He. now left.
  - rewrite event_lst_other in Hj by assumption. apply event_exec_mono. now apply H.
Qed.


Lemma no_deps_forced c : no_deps c = true -> rc_never (rcond c) = false -> rc_always (rcond c) = true.
Proof. unfold rcond. intros ->. destruct (s_when c); cbn; congruence. Qed.

Lemma existsb_has_run_exec σ (es : list step) :
  ran_inv σ -> existsb (fun j => has_run (getL (r_lst σ) j)) es = true -> exists j, In j es /\ In j (r_exec σ).
Proof.
  intros Hr H. apply existsb_exists in H. destruct H as [j [Hin Hj]]. exists j. split; [assumption | now apply Hr].
Qed.

(* ---- unrelated_not_executed (variants whose thorough pass looks at the step's own dependencies) ------- *)
Section Unrelated.
Variables (v : variant) (cfg : config) (recs world : list (dep * wval)) (i : step) (c : stepcfg).
Hypothesis Hown : v_own_only v = true.
Hypothesis Hc : nth_error cfg i = Some c.
Hypothesis Hna : rc_always (rcond c) = false.
Hypothesis Hsame : forall d, In d (s_deps c) -> tho_same (msens v cfg) recs world d = true.
Hypothesis Heff : forall k ck d, nth_error cfg k = Some ck -> In d (s_deps c) -> In d (map fst (s_effs ck)) -> In k (s_edges c).

Definition upstream_ran (σ : rstate) : Prop := exists j, In j (s_edges c) /\ In j (r_exec σ).
Definition unrel_inv (σ : rstate) : Prop :=
  ran_inv σ /\ (In i (r_exec σ) -> upstream_ran σ) /\
  (upstream_ran σ \/ forall d, In d (s_deps c) -> getN (r_world σ) d = getN world d).

Lemma upstream_ran_mono σ k : upstream_ran σ -> upstream_ran (event v cfg recs σ k).
Proof. intros [j [H1 H2]]. exists j. split; [assumption | now apply event_exec_mono]. Qed.

Lemma tho_own_unchanged σ ents :
  (forall d, In d (s_deps c) -> getN (r_world σ) d = getN world d) ->
  tho_entries (msens v cfg) recs (r_world σ) (filter (fun de => memN (fst de) (s_deps c)) (r_diffs σ)) = Some ents ->
  existsb (fun e => changed (snd e)) ents = false.
Proof.
  intros Hw Ht. apply existsb_changed_false. intros d e' Hin.
  destruct (tho_entries_spec _ _ _ _ _ Ht) as [_ [Hb _]]. destruct (Hb _ _ Hin) as [e [He Hr]].
  apply filter_In in He. destruct He as [_ Hm]. cbn [fst] in Hm. apply memN_In in Hm.
  unfold tho_result in Hr. destruct (changed e); [|now subst].
  destruct Hr as [wv [Hwv ->]]. rewrite (Hw _ Hm) in Hwv. specialize (Hsame _ Hm).
  unfold tho_same in Hsame. rewrite Hwv in Hsame. destruct (getN recs d) as [rv|]; [|discriminate].
  cbn [tho_compare]. rewrite Hsame. reflexivity.
Qed.

Lemma unrel_inv_event σ k : unrel_inv σ -> unrel_inv (event v cfg recs σ k).
Proof.
  intros [Hr [He Hw]]. split; [now apply ran_inv_event|].
  assert (Hw' : upstream_ran (event v cfg recs σ k) \/
                forall d, In d (s_deps c) -> getN (r_world (event v cfg recs σ k)) d = getN world d).
  { destruct Hw as [Hu | Hw]; [left; now apply upstream_ran_mono|].
    destruct (event_exec v cfg recs σ k) as [[_ Ew] | [ck [Hck [Ee [Ew _]]]]].
    - right. now rewrite Ew.
    - destruct (in_dec Nat.eq_dec k (s_edges c)) as [Hin | Hni].
      + left. exists k. split; [assumption|]. rewrite Ee. now left.
      + right. intros d Hd. rewrite Ew. rewrite getN_updN_all_notin; [now apply Hw|].
        intros X. apply Hni. eapply Heff; eauto. }
  split; [|exact Hw'].
  intros Hi. destruct (in_dec Nat.eq_dec i (r_exec σ)) as [Hold | Hnew]; [apply upstream_ran_mono; now apply He|].
  (* i is executed by this very event *)
  destruct (Nat.eq_dec k i) as [->|Hne].
  2:{ exfalso. destruct (event_exec v cfg recs σ k) as [[Ee _] | [ck [_ [Ee _]]]]; rewrite Ee in Hi;
      [contradiction | destruct Hi; [congruence | contradiction]]. }
  destruct Hw as [Hu | Hw]; [now apply upstream_ran_mono|].
  revert Hi. unfold event. rewrite Hc. destruct (getL (r_lst σ) i) eqn:Hs; try (intros; contradiction).
  - (* phase 1 *)
    unfold sup_phase, decide_not_changed.
    destruct (rc_never (rcond c)) eqn:Hn; [cbn; intros; contradiction|].
    destruct (negb (forallb _ (s_edges c))); [intros; contradiction|].
    destruct (negb (forallb _ (s_edges c)) && _); [cbn; intros; contradiction|].
    destruct (no_deps c) eqn:Hnd; [rewrite (no_deps_forced c Hnd Hn) in Hna; discriminate|].
    destruct (sup_entries recs (r_world σ) (s_deps c)) as [ents|]; [|cbn; intros; contradiction].
    destruct (existsb _ ents); [cbn; intros; contradiction|].
    rewrite Hna. cbn [andb].
    destruct (existsb _ (s_edges c)) eqn:Hx; [|cbn; intros; contradiction].
    intros _. destruct (existsb_has_run_exec _ _ Hr Hx) as [j [Hj1 Hj2]].
    exists j. split; [assumption|]. unfold do_run. cbn [r_exec]. now right.
  - (* phase 2 *)
    unfold tho_phase, decide_not_changed. rewrite Hown.
    destruct (tho_entries _ _ _) as [ents|] eqn:Ht; [|cbn; intros; contradiction].
    rewrite (tho_own_unchanged σ ents Hw Ht). rewrite Hna.
    destruct (v_consult v && existsb _ (s_edges c)) eqn:Hx; [|cbn; intros; contradiction].
    intros _. apply andb_prop in Hx. destruct Hx as [_ Hx].
    destruct (existsb_has_run_exec (set_diffs σ _) _ Hr Hx) as [j [Hj1 Hj2]].
    exists j. split; [assumption|]. unfold do_run. cbn [r_exec]. now right.
Qed.

Lemma unrel_inv_init : unrel_inv (init_state world).
Proof.
  split; [intros j H; cbn in H; discriminate|]. split; [cbn; intros; contradiction|]. right. reflexivity.
Qed.

Lemma unrel_inv_run order : forall σ, unrel_inv σ -> unrel_inv (run_events v cfg recs σ order).
Proof.
  induction order as [|k rest IH]; intros σ H; [exact H|]. cbn [run_events fold_left]. apply IH. now apply unrel_inv_event.
Qed.

Lemma unrelated_not_executed_lemma order :
  In i (o_exec (run v cfg recs world order)) ->
  exists j, In j (s_edges c) /\ In j (o_exec (run v cfg recs world order)).
Proof.
  unfold run, finish. cbn [o_exec]. intros Hi. apply in_rev in Hi.
  destruct (unrel_inv_run order _ unrel_inv_init) as [_ [He _]].
  destruct (He Hi) as [j [H1 H2]]. exists j. split; [assumption | now apply -> in_rev].
Qed.
End Unrelated.


(* what one event does to the shared map *)
Definition targets_of (v : variant) (c : stepcfg) (σ : rstate) : list (dep * dentry) :=
  if v_own_only v then filter (fun de => memN (fst de) (s_deps c)) (r_diffs σ) else r_diffs σ.

Lemma targets_sub v c σ x : In x (targets_of v c σ) -> In x (r_diffs σ).
Proof. unfold targets_of. destruct (v_own_only v); [intros H; apply filter_In in H; tauto | auto]. Qed.

Lemma tho_phase_eq v cfg recs c i σ :
  tho_phase v (msens v cfg) recs c i σ =
  match tho_entries (msens v cfg) recs (r_world σ) (targets_of v c σ) with
  | None => set_state σ i LPanic
  | Some ents =>
      let σ' := set_diffs σ (updN_all (r_diffs σ) ents) in
      if existsb (fun e => changed (snd e)) ents then do_run c i σ'
      else decide_not_changed (v_consult v) c i σ'
  end.
Proof. reflexivity. Qed.

Lemma event_diffs v cfg recs σ k :
  r_diffs (event v cfg recs σ k) = r_diffs σ \/
  (exists ck ents, nth_error cfg k = Some ck /\ getL (r_lst σ) k = LInit /\
                   sup_entries recs (r_world σ) (s_deps ck) = Some ents /\
                   r_diffs (event v cfg recs σ k) = updN_all (r_diffs σ) ents) \/
  (exists ck ents, nth_error cfg k = Some ck /\ getL (r_lst σ) k = LSupChanged /\
                   tho_entries (msens v cfg) recs (r_world σ) (targets_of v ck σ) = Some ents /\
                   r_diffs (event v cfg recs σ k) = updN_all (r_diffs σ) ents).
Proof.
  unfold event. destruct (nth_error cfg k) as [ck|] eqn:Hc; [|left; reflexivity].
  destruct (getL (r_lst σ) k) eqn:Hs; try (now left).
  - unfold sup_phase, decide_not_changed, do_run, set_state, set_diffs.
    destruct (rc_never (rcond ck)); [left; reflexivity|].
    destruct (negb (forallb _ (s_edges ck))); [left; reflexivity|].
    destruct (negb (forallb _ (s_edges ck)) && _); [left; reflexivity|].
    destruct (no_deps ck); [left; reflexivity|].
    destruct (sup_entries recs (r_world σ) (s_deps ck)) as [ents|] eqn:He; [|left; reflexivity].
    right; left. exists ck, ents. repeat split; try assumption. break_match; reflexivity.
  - rewrite tho_phase_eq.
    destruct (tho_entries (msens v cfg) recs (r_world σ) (targets_of v ck σ)) as [ents|] eqn:He; [|left; reflexivity].
    cbn zeta. unfold decide_not_changed, do_run, set_state, set_diffs.
    right; right. exists ck, ents. repeat split; try assumption. break_match; reflexivity.
Qed.

Lemma event_diffs_nodup v cfg recs σ k : NoDup (map fst (r_diffs σ)) -> NoDup (map fst (r_diffs (event v cfg recs σ k))).
Proof.
  intros H. destruct (event_diffs v cfg recs σ k) as [-> | [[ck [ents [_ [_ [_ ->]]]]] | [ck [ents [_ [_ [_ ->]]]]]]];
    [assumption | now apply updN_all_nodup | now apply updN_all_nodup].
Qed.

Lemma states_nth (f : step -> lstate) n i : i < n -> nth i (map f (seq 0 n)) LInit = f i.
Proof.
  intros H. rewrite (nth_indep _ LInit (f 0)) by (rewrite map_length, seq_length; exact H).
  rewrite map_nth. rewrite seq_nth by exact H. reflexivity.
Qed.

(* ---- change_is_acted_on (every variant) ------------------------------------------------------------------- *)
Section Acted.
Variables (v : variant) (cfg : config) (recs world : list (dep * wval)) (i : step) (c : stepcfg) (d : dep) (w : wval).
Hypothesis Hc : nth_error cfg i = Some c.
Hypothesis Hd : In d (s_deps c).
Hypothesis Hn : rc_never (rcond c) = false.
Hypothesis Hw : getN world d = Some w.
Hypothesis Hsup : changed (sup_compare (getN recs d) w) = true.
Hypothesis Htho : changed (tho_compare (memN d (msens v cfg)) (getN recs d) w) = true.
Hypothesis Hnoeff : forall k ck, nth_error cfg k = Some ck -> ~ In d (map fst (s_effs ck)).

Definition acted_state (σ : rstate) : Prop :=
  match getL (r_lst σ) i with
  | LInit => True
  | LSupChanged => exists e, getN (r_diffs σ) d = Some e /\ changed e = true
  | LDone _ | LBroken BExit => In i (r_exec σ)
  | LBroken _ => True
  | LPanic => True
  end.
Definition acted_inv (σ : rstate) : Prop :=
  NoDup (map fst (r_diffs σ)) /\ getN (r_world σ) d = Some w /\ acted_state σ.

Lemma acted_world σ k : getN (r_world σ) d = Some w -> getN (r_world (event v cfg recs σ k)) d = Some w.
Proof.
  intros H. destruct (event_exec v cfg recs σ k) as [[_ ->] | [ck [Hck [_ [-> _]]]]]; [assumption|].
  rewrite getN_updN_all_notin; [assumption | now apply (Hnoeff k ck)].
Qed.

Lemma entry_stays_changed σ k e :
  NoDup (map fst (r_diffs σ)) -> getN (r_world σ) d = Some w ->
  getN (r_diffs σ) d = Some e -> changed e = true ->
  exists e', getN (r_diffs (event v cfg recs σ k)) d = Some e' /\ changed e' = true.
Proof.
  intros Hnd Hwd He Hce.
  destruct (event_diffs v cfg recs σ k) as [-> | [[ck [ents [_ [_ [Hs ->]]]]] | [ck [ents [_ [_ [Ht ->]]]]]]].
  - eauto.
  - destruct (getN_updN_all_cases ents (r_diffs σ) d) as [[_ ->] | [e' [Hin ->]]]; [eauto|].
    exists e'. split; [reflexivity|]. destruct (sup_entries_spec _ _ _ _ Hs) as [_ Hspec].
    destruct (Hspec _ _ Hin) as [wv [Hwv ->]]. rewrite Hwd in Hwv. injection Hwv as <-. exact Hsup.
  - destruct (getN_updN_all_cases ents (r_diffs σ) d) as [[_ ->] | [e' [Hin ->]]]; [eauto|].
    exists e'. split; [reflexivity|]. destruct (tho_entries_spec _ _ _ _ _ Ht) as [_ [Hb _]].
    destruct (Hb _ _ Hin) as [e0 [H0 Hr]]. apply targets_sub in H0.
    rewrite (In_getN_nodup _ _ _ Hnd H0) in He. injection He as ->.
    unfold tho_result in Hr. rewrite Hce in Hr. destruct Hr as [wv [Hwv ->]].
    rewrite Hwd in Hwv. injection Hwv as <-. exact Htho.
Qed.

Lemma no_deps_false : no_deps c = false.
Proof. unfold no_deps. destruct (s_deps c); [contradiction | reflexivity]. Qed.

Lemma acted_inv_event σ k : acted_inv σ -> acted_inv (event v cfg recs σ k).
Proof.
  intros [Hnd [Hwd Hst]]. split; [now apply event_diffs_nodup|]. split; [now apply acted_world|].
  unfold acted_state in *. destruct (Nat.eq_dec k i) as [->|Hne].
  2:{ rewrite event_lst_other by assumption. destruct (getL (r_lst σ) i) as [| |ran|[]|]; try exact I;
      try (now apply event_exec_mono). destruct Hst as [e [He Hce]]. now apply (entry_stays_changed σ k e). }
  destruct (getL (r_lst σ) i) eqn:Hs.
  - (* phase 1 *)
    unfold event. rewrite Hc, Hs. unfold sup_phase, decide_not_changed. rewrite Hn.
    destruct (negb (forallb _ (s_edges c))); [now rewrite Hs|].
    destruct (negb (forallb _ (s_edges c)) && _); [cbn [set_state r_lst getL]; now rewrite Nat.eqb_refl|].
    rewrite no_deps_false.
    destruct (sup_entries recs (r_world σ) (s_deps c)) as [ents|] eqn:He;
      [|cbn [set_state r_lst getL]; now rewrite Nat.eqb_refl].
    destruct (sup_entries_spec _ _ _ _ He) as [Hk Hspec].
    assert (Hin : In d (map fst ents)) by now rewrite Hk.
    destruct (getN_updN_all_in ents (r_diffs σ) d Hin) as [e [Hine Hg]].
    destruct (Hspec _ _ Hine) as [wv [Hwv ->]]. rewrite Hwd in Hwv. injection Hwv as <-.
    rewrite (existsb_changed_true ents d _ Hine Hsup).
    cbn [set_state set_diffs r_lst r_diffs getL]. rewrite Nat.eqb_refl. eauto.
  - (* phase 2 *)
    destruct Hst as [e [He Hce]].
    unfold event. rewrite Hc, Hs. rewrite tho_phase_eq.
    destruct (tho_entries (msens v cfg) recs (r_world σ) (targets_of v c σ)) as [ents|] eqn:Ht;
      [|cbn [set_state r_lst getL]; now rewrite Nat.eqb_refl].
    destruct (tho_entries_spec _ _ _ _ _ Ht) as [_ [_ Hf]].
    assert (Hint : In (d, e) (targets_of v c σ)).
    { unfold targets_of. destruct (v_own_only v); [|now apply getN_In].
      apply filter_In. split; [now apply getN_In | cbn [fst]; now apply memN_In]. }
    destruct (Hf _ _ Hint) as [e' [Hine' Hr]]. unfold tho_result in Hr. rewrite Hce in Hr.
    destruct Hr as [wv [Hwv ->]]. rewrite Hwd in Hwv. injection Hwv as <-.
    cbn zeta. rewrite (existsb_changed_true ents d _ Hine' Htho).
    unfold do_run. cbn [r_lst r_exec getL]. rewrite Nat.eqb_refl. destruct (s_ok c); now left.
  - rewrite event_lst_absorb by (now rewrite Hs). rewrite Hs. now apply event_exec_mono.
  - rewrite event_lst_absorb by (now rewrite Hs). rewrite Hs. destruct w0; try exact I. now apply event_exec_mono.
  - rewrite event_lst_absorb by (now rewrite Hs). now rewrite Hs.
Qed.

Lemma acted_inv_init : acted_inv (init_state world).
Proof. split; [constructor|]. split; [exact Hw | exact I]. Qed.

Lemma acted_inv_run order : forall σ, acted_inv σ -> acted_inv (run_events v cfg recs σ order).
Proof.
  induction order as [|k rest IH]; intros σ H; [exact H|]. cbn [run_events fold_left]. apply IH. now apply acted_inv_event.
Qed.

Lemma change_is_acted_on_lemma order :
  let o := run v cfg recs world order in
  is_terminal (nth i (o_states o) LInit) = true ->
  In i (o_exec o) \/ nth i (o_states o) LInit = LBroken BDepSteps \/ nth i (o_states o) LInit = LBroken BMissingDep.
Proof.
  cbn zeta. unfold run, finish. cbn [o_states o_exec].
  assert (Hlt : i < length cfg) by (apply nth_error_Some; congruence).
  rewrite (states_nth _ _ _ Hlt).
  destruct (acted_inv_run order _ acted_inv_init) as [_ [_ Hst]]. unfold acted_state in Hst.
  destruct (getL (r_lst (run_events v cfg recs (init_state world) order)) i) as [| |ran|[]|]; cbn; intros Ht;
    try discriminate Ht; auto; left; now apply -> in_rev.
Qed.
End Acted.


Lemma final_state_nth v cfg recs world order i :
  i < length cfg ->
  nth i (o_states (run v cfg recs world order)) LInit = getL (r_lst (run_events v cfg recs (init_state world) order)) i.
Proof. intros H. unfold run, finish. cbn [o_states]. unfold steps_of. now rewrite states_nth. Qed.

Lemma always_table w nd : rc_always (rc_of w nd) = true ->
  rc_never (rc_of w nd) = false /\ rc_ignore_broken_dep_steps (rc_of w nd) = true.
Proof. destruct w, nd; cbn; intros H; try discriminate H; split; reflexivity. Qed.

(* ---- always / no-dependency steps run ------------------------------------------------------------------------ *)
Section Forced.
Variables (v : variant) (cfg : config) (recs world : list (dep * wval)) (i : step) (c : stepcfg).
Hypothesis Hc : nth_error cfg i = Some c.
Hypothesis Ha : rc_always (rcond c) = true.

Definition forced_state (σ : rstate) : Prop :=
  match getL (r_lst σ) i with
  | LInit | LSupChanged | LPanic => True
  | LDone _ | LBroken BExit => In i (r_exec σ)
  | LBroken BDepSteps => False
  | LBroken BMissingDep => True
  end.

Lemma forced_state_event σ k : forced_state σ -> forced_state (event v cfg recs σ k).
Proof.
  unfold forced_state. intros Hst. destruct (always_table _ _ Ha) as [Hn Hig]. fold (rcond c) in Hn, Hig.
  destruct (Nat.eq_dec k i) as [->|Hne].
  2:{ rewrite event_lst_other by assumption. destruct (getL (r_lst σ) i) as [| |ran|[]|]; try exact I; try contradiction;
      now apply event_exec_mono. }
  destruct (getL (r_lst σ) i) eqn:Hs.
  - unfold event. rewrite Hc, Hs. unfold sup_phase, decide_not_changed. rewrite Hn, Hig, Ha.
    rewrite andb_false_r.
    destruct (negb (forallb _ (s_edges c))); [now rewrite Hs|].
    destruct (no_deps c); [unfold do_run; cbn [r_lst r_exec getL]; rewrite Nat.eqb_refl; destruct (s_ok c); now left|].
    destruct (sup_entries recs (r_world σ) (s_deps c)) as [ents|];
      [|cbn [set_state r_lst getL]; now rewrite Nat.eqb_refl].
    destruct (existsb _ ents); [cbn [set_state set_diffs r_lst getL]; now rewrite Nat.eqb_refl|].
    unfold do_run. cbn [r_lst r_exec getL]. rewrite Nat.eqb_refl. destruct (s_ok c); now left.
  - unfold event. rewrite Hc, Hs. rewrite tho_phase_eq.
    destruct (tho_entries (msens v cfg) recs (r_world σ) (targets_of v c σ)) as [ents|];
      [|cbn [set_state r_lst getL]; now rewrite Nat.eqb_refl].
    cbn zeta. unfold decide_not_changed. rewrite Ha.
    destruct (existsb _ ents); unfold do_run; cbn [r_lst r_exec getL]; rewrite Nat.eqb_refl; destruct (s_ok c); now left.
  - rewrite event_lst_absorb by (now rewrite Hs). rewrite Hs. now apply event_exec_mono.
  - rewrite event_lst_absorb by (now rewrite Hs). rewrite Hs. destruct w; try exact I; try contradiction. now apply event_exec_mono.
  - rewrite event_lst_absorb by (now rewrite Hs). now rewrite Hs.
Qed.

Lemma forced_state_run order : forall σ, forced_state σ -> forced_state (run_events v cfg recs σ order).
Proof.
  induction order as [|k rest IH]; intros σ H; [exact H|]. cbn [run_events fold_left]. apply IH. now apply forced_state_event.
Qed.

Lemma forced_runs_lemma order :
  let o := run v cfg recs world order in
  is_terminal (nth i (o_states o) LInit) = true ->
  In i (o_exec o) \/ nth i (o_states o) LInit = LBroken BMissingDep.
Proof.
  cbn zeta. assert (Hlt : i < length cfg) by (apply nth_error_Some; congruence).
  rewrite final_state_nth by assumption. unfold run, finish. cbn [o_exec].
  assert (H0 : forced_state (init_state world)) by exact I.
  pose proof (forced_state_run order _ H0) as Hst. unfold forced_state in Hst.
  destruct (getL (r_lst (run_events v cfg recs (init_state world) order)) i) as [| |ran|[]|]; cbn; intros Ht;
    try discriminate Ht; try contradiction; auto; left; now apply -> in_rev.
Qed.
End Forced.

(* ---- propagates_downstream (variants whose thorough-not-changed branch consults the dependency steps) ----- *)
Section Propagates.
Variables (v : variant) (cfg : config) (recs world : list (dep * wval)) (i : step) (c : stepcfg) (j : step).
Hypothesis Hcons : v_consult v = true.
Hypothesis Hc : nth_error cfg i = Some c.
Hypothesis Hn : rc_never (rcond c) = false.
Hypothesis Hj : In j (s_edges c).

Definition prop_state (σ : rstate) : Prop :=
  match getL (r_lst σ) i with
  | LInit => True
  | LSupChanged => is_terminal (getL (r_lst σ) j) = true
  | LDone _ | LBroken BExit => In i (r_exec σ)
  | LBroken _ => True
  | LPanic => True
  end.

Lemma forallb_In_true {A} (p : A -> bool) l x : forallb p l = true -> In x l -> p x = true.
Proof. intros H. rewrite forallb_forall in H. apply H. Qed.

Lemma prop_state_event σ k :
  (is_terminal (getL (r_lst σ) j) = true -> getL (r_lst σ) j = LDone true) ->
  prop_state σ -> prop_state (event v cfg recs σ k).
Proof.
  unfold prop_state. intros Hcoh Hst.
  destruct (Nat.eq_dec k i) as [->|Hne].
  2:{ rewrite event_lst_other by assumption. destruct (getL (r_lst σ) i) as [| |ran|[]|]; try exact I;
      try (now apply event_exec_mono). rewrite event_lst_absorb; [assumption | now apply terminal_settled]. }
  destruct (getL (r_lst σ) i) eqn:Hs.
  - unfold event. rewrite Hc, Hs. unfold sup_phase, decide_not_changed. rewrite Hn.
    destruct (forallb (fun j0 => is_terminal (getL (r_lst σ) j0)) (s_edges c)) eqn:Hall; cbn [negb]; [|now rewrite Hs].
    pose proof (forallb_In_true _ _ _ Hall Hj) as Hjt. cbn beta in Hjt.
    pose proof (Hcoh Hjt) as Hjr.
    assert (Hx : existsb (fun j0 => has_run (getL (r_lst σ) j0)) (s_edges c) = true).
    { apply existsb_exists. exists j. split; [assumption | now rewrite Hjr]. }
    assert (Hji : j <> i) by (intros ->; rewrite Hs in Hjt; discriminate).
    destruct (negb (forallb _ (s_edges c)) && _); [cbn [set_state r_lst getL]; now rewrite Nat.eqb_refl|].
    destruct (no_deps c); [unfold do_run; cbn [r_lst r_exec getL]; rewrite Nat.eqb_refl; destruct (s_ok c); now left|].
    destruct (sup_entries recs (r_world σ) (s_deps c)) as [ents|];
      [|cbn [set_state r_lst getL]; now rewrite Nat.eqb_refl].
    destruct (existsb _ ents).
    + cbn [set_state set_diffs r_lst getL]. rewrite Nat.eqb_refl.
      destruct (Nat.eqb_spec i j); [congruence | assumption].
    + cbn [set_diffs r_lst]. rewrite Hx. cbn [andb].
      destruct (rc_always (rcond c)); unfold do_run; cbn [r_lst r_exec getL]; rewrite Nat.eqb_refl; destruct (s_ok c); now left.
  - unfold event. rewrite Hc, Hs. rewrite tho_phase_eq.
    destruct (tho_entries (msens v cfg) recs (r_world σ) (targets_of v c σ)) as [ents|];
      [|cbn [set_state r_lst getL]; now rewrite Nat.eqb_refl].
    cbn zeta. unfold decide_not_changed. rewrite Hcons.
    assert (Hx : existsb (fun j0 => has_run (getL (r_lst σ) j0)) (s_edges c) = true).
    { apply existsb_exists. exists j. split; [assumption | now rewrite (Hcoh Hst)]. }
    cbn [set_diffs r_lst]. rewrite Hx. cbn [andb].
    destruct (existsb _ ents); destruct (rc_always (rcond c));
      unfold do_run; cbn [r_lst r_exec getL]; rewrite Nat.eqb_refl; destruct (s_ok c); now left.
  - rewrite event_lst_absorb by (now rewrite Hs). rewrite Hs. now apply event_exec_mono.
  - rewrite event_lst_absorb by (now rewrite Hs). rewrite Hs. destruct w; try exact I. now apply event_exec_mono.
  - rewrite event_lst_absorb by (now rewrite Hs). now rewrite Hs.
Qed.

Lemma prop_state_run order : forall σ,
  getL (r_lst (run_events v cfg recs σ order)) j = LDone true ->
  prop_state σ -> prop_state (run_events v cfg recs σ order).
Proof.
  induction order as [|k rest IH]; intros σ Hf H; [exact H|]. cbn [run_events fold_left] in *.
  apply IH; [exact Hf|]. apply prop_state_event; [|exact H].
  intros Ht. rewrite <- Hf. symmetry.
  change (getL (r_lst (run_events v cfg recs σ (k :: rest))) j = getL (r_lst σ) j).
  apply run_events_lst_absorb. now apply terminal_settled.
Qed.

Lemma propagates_downstream_lemma order :
  let o := run v cfg recs world order in
  is_terminal (nth i (o_states o) LInit) = true ->
  nth j (o_states o) LInit = LDone true ->
  In i (o_exec o) \/ nth i (o_states o) LInit = LBroken BDepSteps \/ nth i (o_states o) LInit = LBroken BMissingDep.
Proof.
  cbn zeta. assert (Hlt : i < length cfg) by (apply nth_error_Some; congruence).
  rewrite final_state_nth by assumption. intros Ht Hjf.
  assert (Hjlt : j < length cfg).
  { destruct (Nat.lt_ge_cases j (length cfg)) as [H|H]; [exact H|]. exfalso. revert Hjf. unfold run, finish. cbn [o_states].
    rewrite nth_overflow; [discriminate|]. unfold steps_of. now rewrite map_length, seq_length. }
  rewrite final_state_nth in Hjf by assumption.
  unfold run, finish. cbn [o_exec].
  assert (H0 : prop_state (init_state world)) by exact I.
  pose proof (prop_state_run order _ Hjf H0) as Hst. unfold prop_state in Hst. revert Ht Hst.
  destruct (getL (r_lst (run_events v cfg recs (init_state world) order)) i) as [| |ran|[]|]; cbn; intros Ht Hst;
    try discriminate Ht; auto; left; now apply -> in_rev.
Qed.
End Propagates.


Lemma updN_all_keys {V} (l m : list (N * V)) d :
  In d (map fst (updN_all m l)) -> In d (map fst m) \/ In d (map fst l).
Proof.
  unfold updN_all. revert m. induction l as [|[k x] l IH]; cbn [fold_left fst snd map]; intros m H; [now left|].
  destruct (IH _ H) as [H1 | H1]; [|right; now right].
  rewrite updN_keys in H1. destruct (memN k (map fst m)); [now left|].
  apply in_app_iff in H1. destruct H1 as [H1 | [<- | []]]; [now left | right; now left].
Qed.

(* ---- unrelated_not_executed, generic in what is known about the thorough pass of step i --------------- *)
Section UnrelatedGen.
Variables (v : variant) (cfg : config) (recs world : list (dep * wval)) (i : step) (c : stepcfg).
Variable J : rstate -> Prop.
Hypothesis Hc : nth_error cfg i = Some c.
Hypothesis Hna : rc_always (rcond c) = false.
Hypothesis Heff : forall k ck d, nth_error cfg k = Some ck -> In d (s_deps c) -> In d (map fst (s_effs ck)) -> In k (s_edges c).

Definition frame (σ : rstate) : Prop := forall d, In d (s_deps c) -> getN (r_world σ) d = getN world d.
Hypothesis HJ : forall σ k, ran_inv σ -> frame σ -> J σ -> frame (event v cfg recs σ k) -> J (event v cfg recs σ k).
Hypothesis Hpass : forall σ ents, J σ -> frame σ -> getL (r_lst σ) i = LSupChanged ->
  tho_entries (msens v cfg) recs (r_world σ) (targets_of v c σ) = Some ents -> existsb (fun e => changed (snd e)) ents = false.

Definition ugen_inv (σ : rstate) : Prop :=
  ran_inv σ /\ (upstream_ran c σ \/ (frame σ /\ J σ /\ ~ In i (r_exec σ))).

Lemma ugen_inv_event σ k : ugen_inv σ -> ugen_inv (event v cfg recs σ k).
Proof.
  intros [Hr Hcase]. split; [now apply ran_inv_event|].
  destruct Hcase as [Hu | [Hf [Hj Hni]]]; [left; now apply (upstream_ran_mono v cfg recs c)|].
  (* the world at the dependencies of i *)
  assert (Hf' : upstream_ran c (event v cfg recs σ k) \/ frame (event v cfg recs σ k)).
  { destruct (event_exec v cfg recs σ k) as [[_ Ew] | [ck [Hck [Ee [Ew _]]]]].
    - right. intros d Hd. rewrite Ew. now apply Hf.
    - destruct (in_dec Nat.eq_dec k (s_edges c)) as [Hin | Hnin].
      + left. exists k. split; [assumption|]. rewrite Ee. now left.
      + right. intros d Hd. rewrite Ew. rewrite getN_updN_all_notin; [now apply Hf|].
        intros X. apply Hnin. eapply Heff; eauto. }
  destruct Hf' as [Hu | Hf']; [now left|].
  (* is i executed by this event? *)
  destruct (in_dec Nat.eq_dec i (r_exec (event v cfg recs σ k))) as [Hi | Hni']; [|right; split; [assumption|]; split; [now apply HJ | assumption]].
  left. destruct (Nat.eq_dec k i) as [->|Hne].
  2:{ exfalso. destruct (event_exec v cfg recs σ k) as [[Ee _] | [ck [_ [Ee _]]]]; rewrite Ee in Hi;
      [contradiction | destruct Hi; [congruence | contradiction]]. }
  revert Hi. unfold event. rewrite Hc. destruct (getL (r_lst σ) i) eqn:Hs; try (intros; contradiction).
  - unfold sup_phase, decide_not_changed.
    destruct (rc_never (rcond c)) eqn:Hn; [cbn; intros; contradiction|].
    destruct (negb (forallb _ (s_edges c))); [intros; contradiction|].
    destruct (negb (forallb _ (s_edges c)) && _); [cbn; intros; contradiction|].
    destruct (no_deps c) eqn:Hnd; [rewrite (no_deps_forced c Hnd Hn) in Hna; discriminate|].
    destruct (sup_entries recs (r_world σ) (s_deps c)) as [ents|]; [|cbn; intros; contradiction].
    destruct (existsb _ ents); [cbn; intros; contradiction|].
    rewrite Hna. cbn [andb].
    destruct (existsb _ (s_edges c)) eqn:Hx; [|cbn; intros; contradiction].
    intros _. destruct (existsb_has_run_exec _ _ Hr Hx) as [j [Hj1 Hj2]].
    exists j. split; [assumption|]. unfold do_run. cbn [r_exec]. now right.
  - rewrite tho_phase_eq.
    destruct (tho_entries _ _ _) as [ents|] eqn:Ht; [|cbn; intros; contradiction].
    cbn zeta. rewrite (Hpass σ ents Hj Hf Hs Ht). unfold decide_not_changed. rewrite Hna.
    destruct (v_consult v && existsb _ (s_edges c)) eqn:Hx; [|cbn; intros; contradiction].
    intros _. apply andb_prop in Hx. destruct Hx as [_ Hx].
    destruct (existsb_has_run_exec (set_diffs σ _) _ Hr Hx) as [j [Hj1 Hj2]].
    exists j. split; [assumption|]. unfold do_run. cbn [r_exec]. now right.
Qed.

Lemma ugen_inv_run order : forall σ, ugen_inv σ -> ugen_inv (run_events v cfg recs σ order).
Proof.
  induction order as [|k rest IH]; intros σ H; [exact H|]. cbn [run_events fold_left]. apply IH. now apply ugen_inv_event.
Qed.

Lemma ugen_conclusion order :
  J (init_state world) ->
  In i (o_exec (run v cfg recs world order)) ->
  exists j, In j (s_edges c) /\ In j (o_exec (run v cfg recs world order)).
Proof.
  intros HJ0. unfold run, finish. cbn [o_exec]. intros Hi. apply in_rev in Hi.
  assert (H0 : ugen_inv (init_state world)).
  { split; [intros j H; cbn in H; discriminate|]. right. split; [intros d _; reflexivity|]. split; [assumption | intros []]. }
  destruct (ugen_inv_run order _ H0) as [_ [[j [H1 H2]] | [_ [_ Hni]]]]; [|contradiction].
  exists j. split; [assumption | now apply -> in_rev].
Qed.
End UnrelatedGen.

(* ---- the unrepaired code outside the class Known_P15 ------------------------------------------------------- *)
Section UnrelatedUnfixed.
Variables (v : variant) (cfg : config) (recs world : list (dep * wval)) (i : step) (c : stepcfg).
Hypothesis Hc : nth_error cfg i = Some c.
Hypothesis Hna : rc_always (rcond c) = false.
Hypothesis Hsame : forall d, In d (s_deps c) -> tho_same (msens v cfg) recs world d = true.
Hypothesis Heff : forall k ck d, nth_error cfg k = Some ck -> In d (s_deps c) -> In d (map fst (s_effs ck)) -> In k (s_edges c).
Hypothesis Hclass : Known_P15 (msens v cfg) cfg recs world = false.

Lemma nth_error_existsb {A} (p : A -> bool) l n x : nth_error l n = Some x -> p x = true -> existsb p l = true.
Proof. intros H Hp. apply existsb_exists. exists x. split; [eapply nth_error_In; eauto | assumption]. Qed.

(* case A: nothing of step i is even touched: it never reaches the thorough pass *)
Lemma case_untouched order :
  forallb (sup_same recs world) (s_deps c) = true ->
  In i (o_exec (run v cfg recs world order)) ->
  exists j, In j (s_edges c) /\ In j (o_exec (run v cfg recs world order)).
Proof.
  intros Hss.
  apply (ugen_conclusion v cfg recs world i c (fun σ => getL (r_lst σ) i <> LSupChanged) Hc Hna Heff).
  - intros σ k Hr Hf Hj _. destruct (Nat.eq_dec k i) as [->|Hne]; [|now rewrite event_lst_other].
    destruct (getL (r_lst σ) i) eqn:Hs; try (rewrite event_lst_absorb by (now rewrite Hs); now rewrite Hs).
    unfold event. rewrite Hc, Hs. unfold sup_phase, decide_not_changed, do_run, set_state, set_diffs.
    destruct (rc_never (rcond c)); [cbn [r_lst getL]; rewrite Nat.eqb_refl; discriminate|].
    destruct (negb (forallb _ (s_edges c))); [now rewrite Hs|].
    destruct (negb (forallb _ (s_edges c)) && _); [cbn [r_lst getL]; rewrite Nat.eqb_refl; discriminate|].
    destruct (no_deps c); [cbn [r_lst getL]; rewrite Nat.eqb_refl; destruct (s_ok c); discriminate|].
    destruct (sup_entries recs (r_world σ) (s_deps c)) as [ents|] eqn:He; [|cbn [r_lst getL]; rewrite Nat.eqb_refl; discriminate].
    assert (Hx : existsb (fun e => changed (snd e)) ents = false).
    { apply existsb_changed_false. intros d e Hin. destruct (sup_entries_spec _ _ _ _ He) as [Hk Hspec].
      destruct (Hspec _ _ Hin) as [wv [Hwv ->]].
      assert (Hd : In d (s_deps c)) by (rewrite <- Hk; change d with (fst (d, sup_compare (getN recs d) wv)); now apply in_map).
      rewrite (Hf _ Hd) in Hwv. rewrite forallb_forall in Hss. specialize (Hss _ Hd). unfold sup_same in Hss.
      rewrite Hwv in Hss. destruct (getN recs d) as [[rs rt]|]; [|discriminate]. destruct wv as [ws wt].
      cbn [sup_compare fst]. rewrite Hss. reflexivity. }
    rewrite Hx. break_match; cbn [r_lst getL]; rewrite Nat.eqb_refl; discriminate.
  - intros σ ents Hj _ Hs. contradiction.
  - cbn. discriminate.
Qed.

(* case B: step i is touched: then (class) no step has a really changed dependency and no command has effects *)
Lemma case_touched order :
  (forall k ck, nth_error cfg k = Some ck -> s_effs ck = [] /\ forall d, In d (s_deps ck) -> tho_same (msens v cfg) recs world d = true) ->
  In i (o_exec (run v cfg recs world order)) ->
  exists j, In j (s_edges c) /\ In j (o_exec (run v cfg recs world order)).
Proof.
  intros Hall.
  apply (ugen_conclusion v cfg recs world i c
           (fun σ => r_world σ = world /\ forall d, In d (map fst (r_diffs σ)) -> tho_same (msens v cfg) recs world d = true) Hc Hna Heff).
  - intros σ k _ _ [Hw Hd] _. split.
    + destruct (event_exec v cfg recs σ k) as [[_ ->] | [ck [Hck [_ [-> _]]]]]; [assumption|].
      destruct (Hall _ _ Hck) as [-> _]. exact Hw.
    + intros d Hin.
      destruct (event_diffs v cfg recs σ k) as [E | [[ck [ents [Hck [_ [Hs E]]]]] | [ck [ents [Hck [_ [Ht E]]]]]]];
        rewrite E in Hin; [now apply Hd| |].
      * apply updN_all_keys in Hin. destruct Hin as [Hin | Hin]; [now apply Hd|].
        destruct (sup_entries_spec _ _ _ _ Hs) as [Hk _]. apply (proj2 (Hall _ _ Hck)). rewrite <- Hk. exact Hin.
      * apply updN_all_keys in Hin. destruct Hin as [Hin | Hin]; [now apply Hd|].
        destruct (tho_entries_spec _ _ _ _ _ Ht) as [Hk _].
        assert (Hin' : In d (map fst (targets_of v ck σ))) by (rewrite <- Hk; exact Hin). clear Hin. rename Hin' into Hin.
        apply Hd. apply in_map_iff in Hin. destruct Hin as [x [<- Hx]]. apply in_map. now apply targets_sub in Hx.
  - intros σ ents [Hw Hd] _ _ Ht. apply existsb_changed_false. intros d e' Hin.
    destruct (tho_entries_spec _ _ _ _ _ Ht) as [_ [Hb _]]. destruct (Hb _ _ Hin) as [e [He Hr]].
    apply targets_sub in He. assert (Hk : In d (map fst (r_diffs σ))) by (change d with (fst (d, e)); now apply in_map).
    specialize (Hd _ Hk). unfold tho_result in Hr. destruct (changed e); [|now subst].
    destruct Hr as [wv [Hwv ->]]. rewrite Hw in Hwv. unfold tho_same in Hd. rewrite Hwv in Hd.
    destruct (getN recs d) as [rv|]; [|discriminate]. cbn [tho_compare]. rewrite Hd. reflexivity.
  - split; [reflexivity | intros d []].
Qed.

Lemma unrelated_outside_P15_lemma order :
  In i (o_exec (run v cfg recs world order)) ->
  exists j, In j (s_edges c) /\ In j (o_exec (run v cfg recs world order)).
Proof.
  destruct (forallb (sup_same recs world) (s_deps c)) eqn:Hss; [now apply case_untouched|].
  apply case_touched. intros k ck Hck.
  assert (Ht : touch_only (msens v cfg) recs world c = true).
  { unfold touch_only. rewrite Hss. rewrite andb_true_r. apply forallb_forall. exact Hsame. }
  unfold Known_P15 in Hclass. rewrite (nth_error_existsb _ _ _ _ Hc Ht) in Hclass. cbn [andb] in Hclass.
  apply orb_false_elim in Hclass. destruct Hclass as [Hrc Hef]. split.
  - destruct (s_effs ck) eqn:E; [reflexivity|]. exfalso.
    assert (X : existsb (fun c0 => match s_effs c0 with [] => false | _ => true end) cfg = true)
      by (apply (nth_error_existsb _ _ _ _ Hck); now rewrite E).
    congruence.
  - intros d Hd. destruct (tho_same (msens v cfg) recs world d) eqn:E; [reflexivity|]. exfalso.
    assert (X : existsb (really_changed (msens v cfg) recs world) cfg = true).
    { apply (nth_error_existsb _ _ _ _ Hck). unfold really_changed.
      destruct (forallb (tho_same (msens v cfg) recs world) (s_deps ck)) eqn:F; [|reflexivity].
      rewrite forallb_forall in F. rewrite (F _ Hd) in E. discriminate. }
    congruence.
Qed.
End UnrelatedUnfixed.


Lemma getN_delN {V} (m : list (N * V)) k k' : getN (delN m k) k' = if N.eqb k k' then None else getN m k'.
Proof.
  induction m as [|[k0 v0] m IH]; cbn [delN getN]; [now destruct (N.eqb k k')|].
  destruct (N.eqb_spec k0 k) as [->|Hne].
  - rewrite IH. destruct (N.eqb k k'); reflexivity.
  - cbn [getN]. destruct (N.eqb_spec k0 k') as [->|Hne']; [|exact IH].
    destruct (N.eqb_spec k k'); [congruence | reflexivity].
Qed.

Lemma apply_entry_other recs d' e d : d' <> d -> getN (apply_entry recs (d', e)) d = getN recs d.
Proof.
  intros Hne. unfold apply_entry. cbn [fst snd]. destruct (uwa_action _ _ _); [reflexivity| |].
  - destruct e; try reflexivity; rewrite getN_updN; destruct (N.eqb_spec d' d); congruence.
  - rewrite getN_delN. destruct (N.eqb_spec d' d); congruence.
Qed.

Lemma end_fold_getN (m : list (dep * dentry)) : forall recs d, NoDup (map fst m) ->
  getN (fold_left apply_entry m recs) d =
  match getN m d with Some e => getN (apply_entry recs (d, e)) d | None => getN recs d end.
Proof.
  induction m as [|[d0 e0] m IH]; intros recs d Hnd; cbn [fold_left getN map fst] in *; [reflexivity|].
  inversion Hnd as [|? ? Hni Hnd']; subst. rewrite IH by assumption.
  destruct (N.eqb_spec d0 d) as [->|Hne].
  - rewrite (notin_getN_none m d Hni). reflexivity.
  - destruct (getN m d) as [e|]; [|now apply apply_entry_other].
    unfold apply_entry at 1 3. cbn [fst snd]. destruct (uwa_action (kind_of e) _ _); [now apply apply_entry_other| |].
    + destruct e; try (now apply apply_entry_other); rewrite !getN_updN, N.eqb_refl; reflexivity.
    + rewrite !getN_delN, N.eqb_refl. reflexivity.
Qed.

(* ---- a fully successful run leaves records that agree with the world ------------------------------------- *)
Definition coherent (recs : list (dep * wval)) (d : dep) (w : wval) : Prop :=
  match getN recs d with
  | Some (rs, rt) => N.eqb rs (fst w) = true -> N.eqb rt (snd w) = true
  | None => True
  end.

Section Settles.
Variables (v : variant) (cfg : config) (recs world : list (dep * wval)) (i : step) (c : stepcfg) (d : dep).
Hypothesis Hc : nth_error cfg i = Some c.
Hypothesis Hd : In d (s_deps c).
Hypothesis Hn : rc_never (rcond c) = false.
Hypothesis Heff : forall k ck, nth_error cfg k = Some ck -> In d (map fst (s_effs ck)) -> In k (s_edges c).

Definition origin (w : wval) : Prop :=
  getN world d = Some w \/ exists k ck, nth_error cfg k = Some ck /\ In (d, w) (s_effs ck).
Hypothesis Hcoh : forall w, origin w -> coherent recs d w.

Definition entry_ok (e : dentry) (w : wval) : Prop :=
  match e with
  | DIdentical | DSkipped => match getN recs d with Some rv => tho_eq (memN d (msens v cfg)) rv w = true | None => False end
  | DDifferent a | DRecordMissing a => a = w
  | DActualMissing => False
  end.

Lemma sup_compare_ok w : coherent recs d w -> entry_ok (sup_compare (getN recs d) w) w.
Proof.
  unfold coherent, entry_ok, sup_compare. destruct (getN recs d) as [[rs rt]|] eqn:E; [|reflexivity].
  intros H. destruct (N.eqb rs (fst w)) eqn:F; [|reflexivity].
  unfold tho_eq. cbn [fst snd]. rewrite (H eq_refl), F. now rewrite orb_true_r.
Qed.

Lemma tho_compare_ok w : entry_ok (tho_compare (memN d (msens v cfg)) (getN recs d) w) w.
Proof.
  unfold entry_ok, tho_compare. destruct (getN recs d) as [rv|] eqn:E; [|reflexivity].
  destruct (tho_eq (memN d (msens v cfg)) rv w) eqn:F; reflexivity.
Qed.

Lemma unchanged_ok e w : changed e = false -> entry_ok e w -> entry_ok DSkipped w.
Proof. destruct e; cbn; intros H X; try discriminate H; exact X. Qed.

Definition edges_terminal (σ : rstate) : Prop := forall k, In k (s_edges c) -> is_terminal (getL (r_lst σ) k) = true.
Definition origin_inv (σ : rstate) : Prop := forall w, getN (r_world σ) d = Some w -> origin w.
Definition checked (σ : rstate) : Prop :=
  exists w e, getN (r_world σ) d = Some w /\ edges_terminal σ /\ getN (r_diffs σ) d = Some e /\ entry_ok e w.
Definition settle_inv (σ : rstate) : Prop :=
  NoDup (map fst (r_diffs σ)) /\ origin_inv σ /\
  match getL (r_lst σ) i with LSupChanged | LDone _ => checked σ | _ => True end.

Lemma origin_inv_event σ k : origin_inv σ -> origin_inv (event v cfg recs σ k).
Proof.
  intros H w. destruct (event_exec v cfg recs σ k) as [[_ ->] | [ck [Hck [_ [-> _]]]]]; [apply H|].
  destruct (getN_updN_all_cases (s_effs ck) (r_world σ) d) as [[_ ->] | [e [Hin ->]]]; [apply H|].
  intros E. injection E as <-. right. eauto.
Qed.

(* A: once the dependency steps of i are all finished, the world at d and their states are frozen *)
Lemma frozen σ k w : edges_terminal σ -> getN (r_world σ) d = Some w ->
  edges_terminal (event v cfg recs σ k) /\ getN (r_world (event v cfg recs σ k)) d = Some w.
Proof.
  intros Ht Hw. split.
  - intros k' Hk'. rewrite event_lst_absorb; [now apply Ht | apply terminal_settled; now apply Ht].
  - destruct (event_exec v cfg recs σ k) as [[_ ->] | [ck [Hck [_ [-> [Hns _]]]]]]; [assumption|].
    rewrite getN_updN_all_notin; [assumption|]. intros X.
    pose proof (Ht _ (Heff _ _ Hck X)) as T. apply terminal_settled in T. congruence.
Qed.

(* B: whatever an event writes at key d stays consistent with the (frozen) world *)
Lemma entry_written_ok σ k w e :
  NoDup (map fst (r_diffs σ)) -> getN (r_world σ) d = Some w -> origin w ->
  getN (r_diffs σ) d = Some e -> entry_ok e w ->
  exists e', getN (r_diffs (event v cfg recs σ k)) d = Some e' /\ entry_ok e' w.
Proof.
  intros Hnd Hw Ho He Hok.
  destruct (event_diffs v cfg recs σ k) as [-> | [[ck [ents [_ [_ [Hs ->]]]]] | [ck [ents [_ [_ [Ht ->]]]]]]].
  - eauto.
  - destruct (getN_updN_all_cases ents (r_diffs σ) d) as [[_ ->] | [e' [Hin ->]]]; [eauto|].
    exists e'. split; [reflexivity|]. destruct (sup_entries_spec _ _ _ _ Hs) as [_ Hspec].
    destruct (Hspec _ _ Hin) as [wv [Hwv ->]]. rewrite Hw in Hwv. injection Hwv as <-.
    apply sup_compare_ok. now apply Hcoh.
  - destruct (getN_updN_all_cases ents (r_diffs σ) d) as [[_ ->] | [e' [Hin ->]]]; [eauto|].
    exists e'. split; [reflexivity|]. destruct (tho_entries_spec _ _ _ _ _ Ht) as [_ [Hb _]].
    destruct (Hb _ _ Hin) as [e0 [H0 Hr]]. apply targets_sub in H0.
    rewrite (In_getN_nodup _ _ _ Hnd H0) in He. injection He as ->.
    unfold tho_result in Hr. destruct (changed e) eqn:Hce.
    + destruct Hr as [wv [Hwv ->]]. rewrite Hw in Hwv. injection Hwv as <-. apply tho_compare_ok.
    + subst e'. now apply (unchanged_ok e).
Qed.

Lemma checked_event σ k : NoDup (map fst (r_diffs σ)) -> origin_inv σ -> checked σ -> checked (event v cfg recs σ k).
Proof.
  intros Hnd Ho [w [e [Hw [Ht [He Hok]]]]].
  destruct (frozen σ k w Ht Hw) as [Ht' Hw'].
  destruct (entry_written_ok σ k w e Hnd Hw (Ho _ Hw) He Hok) as [e' [He' Hok']].
  exists w, e'. repeat split; assumption.
Qed.

(* C: the first phase of step i *)
Lemma first_phase σ :
  NoDup (map fst (r_diffs σ)) -> origin_inv σ -> getL (r_lst σ) i = LInit ->
  match getL (r_lst (event v cfg recs σ i)) i with LSupChanged | LDone _ => checked (event v cfg recs σ i) | _ => True end.
Proof.
  intros Hnd Ho Hs.
  destruct (getL (r_lst (event v cfg recs σ i)) i) eqn:Hs'; try exact I.
  all: assert (Hpass : edges_terminal σ /\ exists ents, sup_entries recs (r_world σ) (s_deps c) = Some ents /\
                                          r_diffs (event v cfg recs σ i) = updN_all (r_diffs σ) ents).
  all: try solve [
    revert Hs'; unfold event; rewrite Hc, Hs; unfold sup_phase, decide_not_changed; rewrite Hn;
    destruct (forallb (fun j0 => is_terminal (getL (r_lst σ) j0)) (s_edges c)) eqn:Hall; cbn [negb]; [|rewrite Hs; discriminate];
    destruct (negb (forallb _ (s_edges c)) && _); [cbn [set_state r_lst getL]; rewrite Nat.eqb_refl; discriminate|];
    rewrite (no_deps_false c d Hd);
    destruct (sup_entries recs (r_world σ) (s_deps c)) as [ents|] eqn:He; [|cbn [set_state r_lst getL]; rewrite Nat.eqb_refl; discriminate];
    intros _; split; [intros k' Hk'; exact (forallb_In_true _ _ _ Hall Hk') | exists ents; split; [reflexivity|]];
    unfold do_run, set_state, set_diffs; break_match; reflexivity ].
  all: destruct Hpass as [Ht [ents [He Hdf]]];
    destruct (sup_entries_spec _ _ _ _ He) as [Hk Hspec];
    assert (Hin : In d (map fst ents)) by (rewrite Hk; exact Hd);
    destruct (getN_updN_all_in ents (r_diffs σ) d Hin) as [e [Hine Hg]];
    destruct (Hspec _ _ Hine) as [wv [Hwv ->]];
    destruct (frozen σ i wv Ht Hwv) as [Ht' Hw'];
    exists wv, (sup_compare (getN recs d) wv); repeat split; try assumption;
      [rewrite Hdf; exact Hg | apply sup_compare_ok; apply Hcoh; now apply Ho].
Qed.

Lemma settle_inv_event σ k : settle_inv σ -> settle_inv (event v cfg recs σ k).
Proof.
  intros [Hnd [Ho Hst]]. split; [now apply event_diffs_nodup|]. split; [now apply origin_inv_event|].
  destruct (Nat.eq_dec k i) as [->|Hne].
  2:{ rewrite event_lst_other by assumption. destruct (getL (r_lst σ) i); try exact I; now apply checked_event. }
  destruct (getL (r_lst σ) i) eqn:Hs.
  - now apply first_phase.
  - destruct (getL (r_lst (event v cfg recs σ i)) i); try exact I; now apply checked_event.
  - rewrite event_lst_absorb by (now rewrite Hs). rewrite Hs. now apply checked_event.
  - rewrite event_lst_absorb by (now rewrite Hs). now rewrite Hs.
  - rewrite event_lst_absorb by (now rewrite Hs). now rewrite Hs.
Qed.

Lemma settle_inv_run order : forall σ, settle_inv σ -> settle_inv (run_events v cfg recs σ order).
Proof.
  induction order as [|k rest IH]; intros σ H; [exact H|]. cbn [run_events fold_left]. apply IH. now apply settle_inv_event.
Qed.

Lemma successful_run_settles_lemma order :
  let o := run v cfg recs world order in
  forallb is_done (o_states o) = true -> tho_same (msens v cfg) (o_records o) (o_world o) d = true.
Proof.
  cbn zeta. unfold run, finish. cbn [o_states o_records o_world]. rewrite forallb_map_eq. intros Hall.
  set (σ := run_events v cfg recs (init_state world) order) in *.
  assert (H0 : settle_inv (init_state world)).
  { split; [constructor|]. split; [intros w Hw; now left | exact I]. }
  destruct (settle_inv_run order _ H0) as [Hnd [_ Hst]]. fold σ in Hnd, Hst.
  assert (Hlt : i < length cfg) by (apply nth_error_Some; congruence).
  assert (Hdone : is_done (getL (r_lst σ) i) = true).
  { rewrite forallb_forall in Hall. apply Hall. unfold steps_of. apply in_seq. lia. }
  destruct (getL (r_lst σ) i); try discriminate Hdone.
  destruct Hst as [w [e [Hw [_ [He Hok]]]]].
  unfold end_records, all_done. rewrite Hall. rewrite andb_false_r.
  unfold tho_same. rewrite Hw. rewrite end_fold_getN by assumption. rewrite He.
  unfold apply_entry. cbn [fst snd].
  assert (Hrefl : tho_eq (memN d (msens v cfg)) w w = true).
  { unfold tho_eq. rewrite !N.eqb_refl. now rewrite orb_true_r. }
  destruct e; cbn [entry_ok] in Hok; try contradiction; cbn [kind_of uwa_action end_add_new end_remove_missing].
  - destruct (getN recs d) as [rv|]; [exact Hok | contradiction].
  - subst a. rewrite getN_updN, N.eqb_refl. exact Hrefl.
  - subst a. rewrite getN_updN, N.eqb_refl. exact Hrefl.
  - destruct (getN recs d) as [rv|]; [exact Hok | contradiction].
Qed.
End Settles.


(* ---- rerun_on_unchanged_world: two consecutive runs --------------------------------------------------------- *)
Definition effects_downstream (cfg : config) : Prop :=
  forall i c k ck d, nth_error cfg i = Some c -> nth_error cfg k = Some ck ->
                     In d (s_deps c) -> In d (map fst (s_effs ck)) -> In k (s_edges c).
Definition edits_visible (cfg : config) (recs world : list (dep * wval)) : Prop :=
  forall i c d w, nth_error cfg i = Some c -> In d (s_deps c) ->
                  (getN world d = Some w \/ exists k ck, nth_error cfg k = Some ck /\ In (d, w) (s_effs ck)) ->
                  coherent recs d w.

Lemma rerun_lemma v cfg recs world order1 order2 :
  effects_downstream cfg -> edits_visible cfg recs world ->
  let o1 := run v cfg recs world order1 in
  forallb is_done (o_states o1) = true ->
  v_own_only v = true \/ Known_P15 (msens v cfg) cfg (o_records o1) (o_world o1) = false ->
  let o2 := run v cfg (o_records o1) (o_world o1) order2 in
  forall i c, nth_error cfg i = Some c -> In i (o_exec o2) ->
              rc_always (rcond c) = true \/ exists j, In j (s_edges c) /\ In j (o_exec o2).
Proof.
  intros Heff Hvis o1 Hdone Hv o2 i c Hc Hi.
  destruct (rc_always (rcond c)) eqn:Ha; [now left|]. right.
  destruct (rc_never (rcond c)) eqn:Hn.
  { exfalso. apply never_iff_when in Hn. exact (never_is_never_lemma v cfg _ _ order2 i c Hc Hn Hi). }
  assert (Hsame : forall d, In d (s_deps c) -> tho_same (msens v cfg) (o_records o1) (o_world o1) d = true).
  { intros d Hd. apply (successful_run_settles_lemma v cfg recs world i c d Hc Hd Hn).
    - intros k ck Hck X. exact (Heff i c k ck d Hc Hck Hd X).
    - intros w Ho. exact (Hvis i c d w Hc Hd Ho).
    - exact Hdone. }
  assert (Heff' : forall k ck d, nth_error cfg k = Some ck -> In d (s_deps c) -> In d (map fst (s_effs ck)) -> In k (s_edges c)).
  { intros k ck d Hck Hd X. exact (Heff i c k ck d Hc Hck Hd X). }
  destruct Hv as [Hown | Hcls].
  - exact (unrelated_not_executed_lemma v cfg _ _ i c Hown Hc Ha Hsame Heff' order2 Hi).
  - exact (unrelated_outside_P15_lemma v cfg _ _ i c Hc Ha Hsame Heff' Hcls order2 Hi).
Qed.

(* no by-dependencies step has an edge to a step that can run at all: then only always / no-dependency steps run *)
Definition Known_downstream_edge (cfg : config) : bool :=
  existsb (fun c => negb (rc_always (rcond c)) && negb (rc_never (rcond c)) &&
                    existsb (fun j => match nth_error cfg j with Some cj => negb (rc_never (rcond cj)) | None => false end)
                            (s_edges c)) cfg.

Lemma rerun_only_forced_lemma v cfg recs world order1 order2 :
  effects_downstream cfg -> edits_visible cfg recs world ->
  let o1 := run v cfg recs world order1 in
  forallb is_done (o_states o1) = true ->
  v_own_only v = true \/ Known_P15 (msens v cfg) cfg (o_records o1) (o_world o1) = false ->
  Known_downstream_edge cfg = false ->
  let o2 := run v cfg (o_records o1) (o_world o1) order2 in
  forall i c, nth_error cfg i = Some c -> In i (o_exec o2) -> rc_always (rcond c) = true.
Proof.
  intros Heff Hvis o1 Hdone Hv Hk o2 i c Hc Hi.
  destruct (rerun_lemma v cfg recs world order1 order2 Heff Hvis Hdone Hv i c Hc Hi) as [Ha | [j [Hj1 Hj2]]]; [exact Ha|].
  destruct (rc_always (rcond c)) eqn:Ha; [reflexivity|]. exfalso.
  destruct (rc_never (rcond c)) eqn:Hn.
  { apply never_iff_when in Hn. exact (never_is_never_lemma v cfg _ _ order2 i c Hc Hn Hi). }
  (* j was executed, so it is a step of the pipeline that is not marked never *)
  destruct (exec_inv_run_events v cfg (o_records o1) order2 _ (exec_inv_init cfg (o_world o1))) as [H1 _].
  unfold o2, run, finish in Hj2. cbn [o_exec] in Hj2. apply in_rev in Hj2.
  destruct (H1 _ Hj2) as [cj [Hcj Hnj]].
  assert (X : Known_downstream_edge cfg = true).
  { unfold Known_downstream_edge. apply (nth_error_existsb _ _ _ _ Hc). rewrite Ha, Hn. cbn [negb andb].
    apply existsb_exists. exists j. split; [assumption|]. now rewrite Hcj, Hnj. }
  congruence.
Qed.


(* ---- glob-member-touch (P73): the code-relative notion of "unchanged" against the content-level one ---------- *)
Lemma tho_eq_content m r w : tho_eq m r w = true -> N.eqb (snd r) (snd w) = true.
Proof. unfold tho_eq. intros H. apply andb_prop in H. tauto. Qed.

Lemma tho_eq_false_meta r w : tho_eq false r w = N.eqb (snd r) (snd w).
Proof. unfold tho_eq. cbn [negb orb]. now rewrite andb_true_r. Qed.

Lemma tho_same_content gl recs world d : tho_same gl recs world d = true -> content_same recs world d = true.
Proof.
  unfold tho_same, content_same. destruct (getN recs d) as [[rs rt]|]; [|discriminate].
  destruct (getN world d) as [[ws wt]|]; [|discriminate]. intros H. exact (tho_eq_content _ _ _ H).
Qed.

Lemma tho_changed_mono m r w : changed (tho_compare false r w) = true -> changed (tho_compare m r w) = true.
Proof.
  unfold tho_compare. destruct r as [rv|]; [|auto]. rewrite tho_eq_false_meta.
  destruct (tho_eq m rv w) eqn:E; [|reflexivity]. now rewrite (tho_eq_content _ _ _ E).
Qed.

Lemma msens_fixed v cfg : v_glob_content v = true -> msens v cfg = [].
Proof. unfold msens. now intros ->. Qed.

Lemma glob_class_empty_when_fixed_lemma v cfg recs world :
  v_glob_content v = true -> Known_glob_touch v cfg recs world = false.
Proof. intros H. unfold Known_glob_touch. now rewrite (msens_fixed v cfg H). Qed.

(* outside the class (in particular: with the repair) what the property calls unchanged is what the code's thorough
   comparison finds identical *)
Lemma content_to_tho v cfg recs world d :
  Known_glob_touch v cfg recs world = false ->
  content_same recs world d = true -> tho_same (msens v cfg) recs world d = true.
Proof.
  intros Hk Hcs. unfold tho_same. destruct (memN d (msens v cfg)) eqn:Hm.
  - apply memN_In in Hm.
    assert (Hg : glob_touched recs world d = false).
    { destruct (glob_touched recs world d) eqn:G; [|reflexivity].
      assert (X : Known_glob_touch v cfg recs world = true) by (apply existsb_exists; exists d; split; assumption).
      congruence. }
    unfold glob_touched in Hg. rewrite Hcs in Hg. cbn [andb] in Hg. apply negb_false_iff in Hg.
    unfold content_same in Hcs. unfold sup_same in Hg.
    destruct (getN recs d) as [[rs rt]|]; [|discriminate]. destruct (getN world d) as [[ws wt]|]; [|discriminate].
    unfold tho_eq. cbn [fst snd negb orb]. now rewrite Hcs, Hg.
  - unfold content_same in Hcs.
    destruct (getN recs d) as [[rs rt]|]; [|discriminate]. destruct (getN world d) as [[ws wt]|]; [|discriminate].
    rewrite tho_eq_false_meta. exact Hcs.
Qed.

(* a touch is not a change, stated on contents: variants whose thorough pass looks at the step's own dependencies,
   outside the class Known_glob_touch (empty for the repaired comparison) *)
Lemma content_unchanged_not_executed_lemma v cfg recs world i c :
  v_own_only v = true -> Known_glob_touch v cfg recs world = false ->
  nth_error cfg i = Some c -> rc_always (rcond c) = false ->
  (forall d, In d (s_deps c) -> content_same recs world d = true) ->
  (forall k ck d, nth_error cfg k = Some ck -> In d (s_deps c) -> In d (map fst (s_effs ck)) -> In k (s_edges c)) ->
  forall order, In i (o_exec (run v cfg recs world order)) ->
  exists j, In j (s_edges c) /\ In j (o_exec (run v cfg recs world order)).
Proof.
  intros Hown Hk Hc Hna Hsame Heff order.
  apply (unrelated_not_executed_lemma v cfg recs world i c Hown Hc Hna); [|exact Heff].
  intros d Hd. apply content_to_tho; [exact Hk | now apply Hsame].
Qed.

(* the thorough comparison of a --glob dependency by the variant v_code is the executed table of
   GlobDep::diff_thorough (Gen/DiffTables.v), the superficial fingerprint standing for both digests *)
Lemma glob_table_is_tho_compare r w :
  changed (tho_compare (negb code_glob_thorough_content_only) (Some r) w) =
  diff_changed (glob_tho_kind (N.eqb (fst r) (fst w)) (N.eqb (fst r) (fst w))
                              (if N.eqb (snd r) (snd w) then GCsame else GCdiff)).
Proof.
  rewrite glob_tho_is_modelled. unfold tho_compare, tho_eq.
  destruct (N.eqb (snd r) (snd w)), (N.eqb (fst r) (fst w)), code_glob_thorough_content_only; reflexivity.
Qed.
Lemma glob_table_is_sup_compare r w :
  changed (sup_compare (Some r) w) = diff_changed (glob_sup_kind (N.eqb (fst r) (fst w)) (N.eqb (fst r) (fst w))).
Proof. rewrite glob_sup_is_modelled. unfold sup_compare. destruct r as [rs rt]. cbn [fst]. destruct (N.eqb rs (fst w)); reflexivity. Qed.
Lemma msens_code cfg d :
  memN d (msens v_code cfg) = negb code_glob_thorough_content_only && memN d (flat_map s_globs cfg).
Proof. unfold msens, v_code. cbn [v_glob_content]. destruct code_glob_thorough_content_only; reflexivity. Qed.
