(* M-INVAL — which steps of a pipeline run are executed, and what the run records (property C12).

   Executable model, no proofs.  It follows the per-step decision sequence of
   pipeline/src/pipeline/mod.rs (step_state_handler and the s_* functions) and the end-of-run rule
   of the_grand_pipeline_loop.  The finite decision tables (update_with_actual, Diff::changed, the
   RunConditions triples, the flags of the end-of-run call, and the two source-level facts that
   distinguish the code before/after the repair of P15) come from Gen/DiffTables.v, regenerated from
   /repo on every run of the check.

   World and records.  A dependency is a number; the *world* gives its current (superficial,
   thorough) fingerprints — superficial: what the code compares first (file metadata, the path->
   metadata map of a glob, the stdout digest of a generic command), thorough: what it compares when
   the superficial one differs (content digest modulo CR/LF for text files, selected lines, parameter
   value, ...).  A dependency absent from the world cannot be inspected (missing file).  The *records*
   give the fingerprints stored by the last fully successful run; a dependency never stored has no
   record (FileDep::new has metadata None, digest None).

   Schedules.  One thread per step runs the handler; the shared objects are the bulletin of step
   states and the dependency_diffs map.  A schedule ([order]) is a list of step numbers; each
   occurrence lets that step perform its next *phase* atomically:
     phase 1 (state LInit): never? -> done;  dependency steps not all finished -> nothing happens;
        some dependency step broken and not ignored -> broken;  no dependencies at all -> run;
        superficial comparison of the step's own dependencies, inserted into the shared map;
        nothing changed -> [decide_not_changed], which consults "a dependency step has run";
        something changed -> LSupChanged;
     phase 2 (state LSupChanged): thorough comparison of the *changed entries of the shared map* —
        all of them (code before the repair of P15), or the step's own (after) — written back;
        changed -> run;  not changed -> [decide_not_changed], which consults the dependency steps only
        after the repair.
   Running the command (journal entry, exit status, effect on the world at the step's outputs) is part
   of the phase that decides it: commands only write paths that steps *downstream* read, and those
   wait.  The process pool only delays (C13) and is not modelled. *)
From Coq Require Import List Bool NArith Arith.
From XV Require Import Gen.DiffTables.
Import ListNotations.

Definition fp := N.
Definition dep := N.
Definition step := nat.
Definition wval := (fp * fp)%type.          (* superficial, thorough *)

(* ---- maps keyed by N: at most one binding per key, insertion order kept ------------------------- *)
Section MapN.
Context {V : Type}.
Fixpoint getN (m : list (N * V)) (k : N) : option V :=
  match m with
  | [] => None
  | (k', v) :: r => if N.eqb k' k then Some v else getN r k
  end.
Fixpoint updN (m : list (N * V)) (k : N) (v : V) : list (N * V) :=
  match m with
  | [] => [(k, v)]
  | (k', v') :: r => if N.eqb k' k then (k, v) :: r else (k', v') :: updN r k v
  end.
Fixpoint delN (m : list (N * V)) (k : N) : list (N * V) :=
  match m with
  | [] => []
  | (k', v') :: r => if N.eqb k' k then delN r k else (k', v') :: delN r k
  end.
Definition updN_all (m : list (N * V)) (l : list (N * V)) : list (N * V) :=
  fold_left (fun m e => updN m (fst e) (snd e)) l m.
End MapN.

Definition memN (k : N) (l : list N) : bool := existsb (N.eqb k) l.

(* ---- configuration ---------------------------------------------------------------------------------- *)
(* the two places where the code before and after the repair of P15 differ, and the one where the code before
   and after the repair of glob-member-touch (P73) differs *)
Record variant := { v_own_only : bool;        (* thorough pass restricted to the step's own dependencies *)
                    v_consult  : bool;        (* thorough-not-changed branch consults the dependency steps *)
                    v_glob_content : bool }.  (* fixed_P73: GlobDep::diff_thorough compares names and contents only;
                                                 false: it also compares the (superficial) metadata digests *)
Definition v_fixed   : variant := {| v_own_only := true;  v_consult := true;  v_glob_content := true |}.
Definition v_unfixed : variant := {| v_own_only := false; v_consult := false; v_glob_content := false |}.
(* what /repo's source says now (Gen/DiffTables.v) *)
Definition v_code : variant := {| v_own_only := code_thorough_own_only; v_consult := code_tnc_consults_dep_steps;
                                  v_glob_content := code_glob_thorough_content_only |}.

Record stepcfg := {
  s_when  : when3;
  s_deps  : list dep;            (* own dependencies that are compared (every kind except Step) *)
  s_globs : list dep;            (* those of s_deps that are --glob dependencies (GlobDep) *)
  s_sdeps : list step;           (* explicit Step dependencies (count as dependencies, compare as Skipped) *)
  s_ideps : list step;           (* dependency steps through output files (graph edges only) *)
  s_ok    : bool;                (* the command exits 0 *)
  s_effs  : list (dep * wval)    (* what executing the command does to the world (its outputs) *)
}.
Definition config := list stepcfg.

Definition s_edges (c : stepcfg) : list step := s_sdeps c ++ s_ideps c.
Definition no_deps (c : stepcfg) : bool :=
  match s_deps c, s_sdeps c with [], [] => true | _, _ => false end.
Definition rcond (c : stepcfg) : runcond := rc_of (s_when c) (no_deps c).

(* the dependencies whose thorough comparison is sensitive to the superficial fingerprint: the --glob
   dependencies of the code before the repair of glob-member-touch, none after it *)
Definition msens (v : variant) (cfg : config) : list dep :=
  if v_glob_content v then [] else flat_map s_globs cfg.

(* ---- run state -------------------------------------------------------------------------------------- *)
Inductive bwhy := BDepSteps | BMissingDep | BExit.
Inductive lstate := LInit | LSupChanged | LDone (ran : bool) | LBroken (w : bwhy) | LPanic.
Inductive dentry := DIdentical | DRecordMissing (a : wval) | DActualMissing | DDifferent (a : wval) | DSkipped.

Definition kind_of (e : dentry) : dkind :=
  match e with
  | DIdentical => KIdentical | DRecordMissing _ => KRecordMissing | DActualMissing => KActualMissing
  | DDifferent _ => KDifferent | DSkipped => KSkipped
  end.
Definition changed (e : dentry) : bool := diff_changed (kind_of e).

Record rstate := {
  r_lst   : list (step * lstate);       (* most recent binding first; absent = LInit *)
  r_diffs : list (dep * dentry);        (* the shared dependency_diffs map *)
  r_world : list (dep * wval);
  r_exec  : list step                   (* executed commands, most recent first *)
}.

Fixpoint getL (l : list (step * lstate)) (i : step) : lstate :=
  match l with
  | [] => LInit
  | (j, s) :: r => if Nat.eqb j i then s else getL r i
  end.
Definition set_state (σ : rstate) (i : step) (s : lstate) : rstate :=
  {| r_lst := (i, s) :: r_lst σ; r_diffs := r_diffs σ; r_world := r_world σ; r_exec := r_exec σ |}.
Definition set_diffs (σ : rstate) (d : list (dep * dentry)) : rstate :=
  {| r_lst := r_lst σ; r_diffs := d; r_world := r_world σ; r_exec := r_exec σ |}.

Definition is_terminal (s : lstate) : bool := match s with LDone _ | LBroken _ => true | _ => false end.
Definition is_done (s : lstate) : bool := match s with LDone _ => true | _ => false end.
Definition has_run (s : lstate) : bool := match s with LDone true => true | _ => false end.

(* ---- comparisons ------------------------------------------------------------------------------------ *)
Definition sup_compare (r : option wval) (w : wval) : dentry :=
  match r with
  | None => DRecordMissing w
  | Some (rs, _) => if N.eqb rs (fst w) then DIdentical else DDifferent w
  end.
(* [m]: the thorough comparison also compares the superficial fingerprint (GlobDep::diff_thorough before the
   repair: paths+metadata digest, metadata digest and content digest) *)
Definition tho_eq (m : bool) (r w : wval) : bool :=
  N.eqb (snd r) (snd w) && (negb m || N.eqb (fst r) (fst w)).
Definition tho_compare (m : bool) (r : option wval) (w : wval) : dentry :=
  match r with
  | None => DRecordMissing w
  | Some rv => if tho_eq m rv w then DIdentical else DDifferent w
  end.

(* superficial comparison of a step's own dependencies; None: one of them cannot be inspected *)
Fixpoint sup_entries (recs world : list (dep * wval)) (ds : list dep) : option (list (dep * dentry)) :=
  match ds with
  | [] => Some []
  | d :: r =>
      match getN world d with
      | None => None
      | Some w => match sup_entries recs world r with
                  | None => None
                  | Some l => Some ((d, sup_compare (getN recs d) w) :: l)
                  end
      end
  end.

(* thorough pass over map entries: changed -> thorough comparison, otherwise Skipped;
   None: the comparison fails (uwr! panics in the step thread) *)
Fixpoint tho_entries (gl : list dep) (recs world : list (dep * wval)) (es : list (dep * dentry)) : option (list (dep * dentry)) :=
  match es with
  | [] => Some []
  | (d, e) :: r =>
      match (if changed e then match getN world d with
                               | None => None
                               | Some w => Some (tho_compare (memN d gl) (getN recs d) w)
                               end
             else Some DSkipped) with
      | None => None
      | Some e' => match tho_entries gl recs world r with
                   | None => None
                   | Some l => Some ((d, e') :: l)
                   end
      end
  end.

(* ---- the phases -------------------------------------------------------------------------------------- *)
Definition do_run (c : stepcfg) (i : step) (σ : rstate) : rstate :=
  {| r_lst := (i, if s_ok c then LDone true else LBroken BExit) :: r_lst σ;
     r_diffs := r_diffs σ;
     r_world := updN_all (r_world σ) (s_effs c);
     r_exec := i :: r_exec σ |}.

(* ComparingDiffsAndOutputs(From{Superficial,Thorough}DiffsNotChanged); [consult]: the branch looks at
   "some dependency step is DoneByRunning".  The output-diff test of both branches is vacuous: output
   diffs are only computed when ignore_missing_outputs is false, which holds for no run condition that
   gets here (DiffTables: lemma in Proofs.v). *)
Definition decide_not_changed (consult : bool) (c : stepcfg) (i : step) (σ : rstate) : rstate :=
  if rc_always (rcond c) then do_run c i σ
  else if consult && existsb (fun j => has_run (getL (r_lst σ) j)) (s_edges c) then do_run c i σ
  else set_state σ i (LDone false).

Definition sup_phase (recs : list (dep * wval)) (c : stepcfg) (i : step) (σ : rstate) : rstate :=
  let rc := rcond c in
  if rc_never rc then set_state σ i (LDone false) else
  if negb (forallb (fun j => is_terminal (getL (r_lst σ) j)) (s_edges c)) then σ else
  if negb (forallb (fun j => is_done (getL (r_lst σ) j)) (s_edges c)) && negb (rc_ignore_broken_dep_steps rc)
  then set_state σ i (LBroken BDepSteps) else
  if no_deps c then do_run c i σ else
  match sup_entries recs (r_world σ) (s_deps c) with
  | None => set_state σ i (LBroken BMissingDep)
  | Some ents =>
      let σ' := set_diffs σ (updN_all (r_diffs σ) ents) in
      if existsb (fun e => changed (snd e)) ents then set_state σ' i LSupChanged
      else decide_not_changed true c i σ'
  end.

Definition tho_phase (v : variant) (gl : list dep) (recs : list (dep * wval)) (c : stepcfg) (i : step) (σ : rstate) : rstate :=
  let targets := if v_own_only v then filter (fun de => memN (fst de) (s_deps c)) (r_diffs σ) else r_diffs σ in
  match tho_entries gl recs (r_world σ) targets with
  | None => set_state σ i LPanic
  | Some ents =>
      let σ' := set_diffs σ (updN_all (r_diffs σ) ents) in
      if existsb (fun e => changed (snd e)) ents then do_run c i σ'
      else decide_not_changed (v_consult v) c i σ'
  end.

Definition event (v : variant) (cfg : config) (recs : list (dep * wval)) (σ : rstate) (i : step) : rstate :=
  match nth_error cfg i with
  | None => σ
  | Some c =>
      match getL (r_lst σ) i with
      | LInit => sup_phase recs c i σ
      | LSupChanged => tho_phase v (msens v cfg) recs c i σ
      | _ => σ
      end
  end.

Definition init_state (world : list (dep * wval)) : rstate :=
  {| r_lst := []; r_diffs := []; r_world := world; r_exec := [] |}.

Definition run_events (v : variant) (cfg : config) (recs : list (dep * wval)) (σ : rstate) (order : list step) : rstate :=
  fold_left (event v cfg recs) order σ.

(* ---- end of the run ---------------------------------------------------------------------------------- *)
Definition apply_entry (recs : list (dep * wval)) (de : dep * dentry) : list (dep * wval) :=
  match uwa_action (kind_of (snd de)) end_add_new end_remove_missing with
  | Keep => recs
  | Remove => delN recs (fst de)
  | InsertActual =>
      match snd de with
      | DRecordMissing a | DDifferent a => updN recs (fst de) a
      | _ => recs
      end
  end.

Definition steps_of (cfg : config) : list step := seq 0 (length cfg).
Definition all_done (cfg : config) (σ : rstate) : bool := forallb (fun i => is_done (getL (r_lst σ) i)) (steps_of cfg).
Definition all_terminal (cfg : config) (σ : rstate) : bool := forallb (fun i => is_terminal (getL (r_lst σ) i)) (steps_of cfg).

Definition end_records (cfg : config) (recs : list (dep * wval)) (σ : rstate) : list (dep * wval) :=
  if save_guarded_by_all_done && negb (all_done cfg σ) then recs
  else fold_left apply_entry (r_diffs σ) recs.

Record outcome := {
  o_exec     : list step;                 (* in execution order *)
  o_states   : list lstate;               (* verdict per step *)
  o_records  : list (dep * wval);
  o_world    : list (dep * wval);
  o_complete : bool                       (* every step thread reached a terminal state *)
}.

Definition finish (cfg : config) (recs : list (dep * wval)) (σ : rstate) : outcome :=
  {| o_exec := rev (r_exec σ);
     o_states := map (getL (r_lst σ)) (steps_of cfg);
     o_records := end_records cfg recs σ;
     o_world := r_world σ;
     o_complete := all_terminal cfg σ |}.

Definition run (v : variant) (cfg : config) (recs world : list (dep * wval)) (order : list step) : outcome :=
  finish cfg recs (run_events v cfg recs (init_state world) order).

(* the schedule 0,0,1,1,...: complete when the steps are numbered in topological order *)
Definition canonical_order (cfg : config) : list step := flat_map (fun i => [i; i]) (steps_of cfg).

(* ---- all schedules ------------------------------------------------------------------------------------ *)
Definition enabled (cfg : config) (σ : rstate) (i : step) : bool :=
  match nth_error cfg i with
  | None => false
  | Some c =>
      match getL (r_lst σ) i with
      | LInit => rc_never (rcond c) || forallb (fun j => is_terminal (getL (r_lst σ) j)) (s_edges c)
      | LSupChanged => true
      | _ => false
      end
  end.

(* every maximal schedule (only enabled phases are taken); fuel 2 * |cfg| + 1 suffices *)
Fixpoint explore (fuel : nat) (v : variant) (cfg : config) (recs : list (dep * wval)) (σ : rstate) : list outcome :=
  match fuel with
  | O => [finish cfg recs σ]
  | S f =>
      match filter (enabled cfg σ) (steps_of cfg) with
      | [] => [finish cfg recs σ]
      | en => flat_map (fun i => explore f v cfg recs (event v cfg recs σ i)) en
      end
  end.
Definition all_outcomes (v : variant) (cfg : config) (recs world : list (dep * wval)) : list outcome :=
  explore (2 * length cfg + 1) v cfg recs (init_state world).

(* ---- well-formedness and classes (boolean) ------------------------------------------------------------- *)
(* steps are numbered topologically: dependency steps have smaller numbers *)
Definition topo (cfg : config) : bool :=
  forallb (fun ic => forallb (fun j => Nat.ltb j (fst ic)) (s_edges (snd ic))) (combine (steps_of cfg) cfg).

(* own dependency with a record that the code's thorough comparison finds identical to the world
   ([gl] = msens v cfg: the dependencies compared with their superficial fingerprints too) *)
Definition tho_same (gl : list dep) (recs world : list (dep * wval)) (d : dep) : bool :=
  match getN recs d, getN world d with
  | Some r, Some w => tho_eq (memN d gl) r w
  | _, _ => false
  end.
(* own dependency with a record whose thorough (content-level) fingerprint equals the world's: what the
   property means by "unchanged" *)
Definition content_same (recs world : list (dep * wval)) (d : dep) : bool :=
  match getN recs d, getN world d with
  | Some (_, rt), Some (_, wt) => N.eqb rt wt
  | _, _ => false
  end.
Definition sup_same (recs world : list (dep * wval)) (d : dep) : bool :=
  match getN recs d, getN world d with
  | Some (rs, _), Some (ws, _) => N.eqb rs ws
  | _, _ => false
  end.
(* a step all of whose dependencies are unchanged in content, some of them touched *)
Definition touch_only (gl : list dep) (recs world : list (dep * wval)) (c : stepcfg) : bool :=
  forallb (tho_same gl recs world) (s_deps c) && negb (forallb (sup_same recs world) (s_deps c)).
Definition really_changed (gl : list dep) (recs world : list (dep * wval)) (c : stepcfg) : bool :=
  negb (forallb (tho_same gl recs world) (s_deps c)).

(* P15: a touch-only step next to a step with a really changed dependency, or next to a command that
   writes dependencies (whose entries may then be really changed when the touch-only step looks) *)
Definition Known_P15 (gl : list dep) (cfg : config) (recs world : list (dep * wval)) : bool :=
  existsb (touch_only gl recs world) cfg &&
  (existsb (really_changed gl recs world) cfg || existsb (fun c => match s_effs c with [] => false | _ => true end) cfg).

(* glob-member-touch (P73): a --glob dependency whose members were touched (superficial fingerprint differs) while
   names and contents are what the record says; the class follows the switch: with the repair no dependency is
   compared with its superficial fingerprint, and the class is empty *)
Definition glob_touched (recs world : list (dep * wval)) (d : dep) : bool :=
  content_same recs world d && negb (sup_same recs world d).
Definition Known_glob_touch (v : variant) (cfg : config) (recs world : list (dep * wval)) : bool :=
  existsb (glob_touched recs world) (msens v cfg).

(* the first sentence of the property read literally ("no step except always / no dependencies") is
   refuted by design for steps downstream of such a step: "a step also runs if a step it depends on was
   executed in this run".  [tainted]: the steps downstream of a forced step (topological numbering). *)
Definition forced (c : stepcfg) : bool := rc_always (rcond c).
Definition taint_step (ts : list bool) (c : stepcfg) : bool :=
  negb (rc_never (rcond c)) && (forced c || existsb (fun j => nth j ts false) (s_edges c)).
Definition tainted (cfg : config) : list bool := fold_left (fun ts c => ts ++ [taint_step ts c]) cfg [].
Definition Known_downstream_of_forced (cfg : config) : bool :=
  existsb (fun p => snd p && negb (forced (fst p))) (combine cfg (tainted cfg)).

(* no step thread can take a phase: every thread is finished (done / broken / panicked) *)
Definition quiescent (cfg : config) (σ : rstate) : bool :=
  match filter (enabled cfg σ) (steps_of cfg) with [] => true | _ => false end.
