(* Extraction of M-INVAL for the correspondence check.  Directives in force: those of
   ExtrOcamlBasic only. *)
From Coq Require Import NArith List.
From XV Require Import Gen.DiffTables Inval.Model.
Require Import ExtrOcamlBasic.
Extraction Language OCaml.
Separate Extraction
  N.add N.mul N.div_eucl N.eqb N.ltb N.of_nat
  Model.run Model.all_outcomes Model.canonical_order Model.getN Model.topo
  Model.v_code Model.v_fixed Model.v_unfixed Model.Known_P15 Model.Known_downstream_of_forced Model.tainted
  Model.msens Model.Known_glob_touch.
