(* Extraction of M-STORAGE for the correspondence check of C06 (storagemodel vs the real binary).
   ExtrOcamlBasic only. *)
From Coq Require Import NArith List.
From XV Require Import Base.Amap Base.Bytes Storage.Model.
Require Import ExtrOcamlBasic.
Extraction Language OCaml.
Separate Extraction
  N.add N.mul N.div_eucl N.eqb N.ltb N.of_nat
  Model.world0 Model.wstep Model.ws_read Model.as_is Model.all_fixed Model.fitsb Model.committed.
