(* invalmodel: runs M-INVAL, one case per input line, one canonical output line each.
   Input line:   <mode> <variant> | <step>;<step>;... | <records> | <world> | <order>
     mode     run (one schedule; an empty order means the canonical one 0,0,1,1,..) | all (every maximal schedule)
     variant  code | three digits 0/1         (own_only, consult, glob_content), e.g. 111 = v_fixed, 000 = v_unfixed
     step     <when>:<deps>:<sdeps>:<ideps>:<ok>:<effs>   when = b|a|n ; lists comma separated ;
              a dependency number followed by g is a --glob dependency (s_globs) ;
              ok = 0|1 ; effs = d=s/t,...
     records, world   d=s/t,...
   Output (run):  exec=[..] states=[..] recs=[d=s/t,..] complete=0|1 topo=0|1 p15=0|1 dof=0|1 tainted=[..] globtouch=0|1 globfixed=0|1
     exec in execution order; states per step: I C D R Bd Bm Bx P; recs over all dependencies mentioned
   Output (all):  the distinct outcomes (exec printed as a sorted set), sorted, joined by " || " *)
open Common
open Model
open DiffTables

let ints s = Stdlib.List.map int_of_string (split_on ',' s)
let nats s = Stdlib.List.map nat_of_int (ints s)
let ns s = Stdlib.List.map n_of_string (split_on ',' s)
let wval s = match Stdlib.String.split_on_char '/' s with
  | [a; b] -> (n_of_string a, n_of_string b) | _ -> failwith ("wval " ^ s)
let binding s = match Stdlib.String.split_on_char '=' s with
  | [d; v] -> (n_of_string d, wval v) | _ -> failwith ("binding " ^ s)
let bindings s = Stdlib.List.map binding (split_on ',' (Stdlib.String.trim s))

let is_glob_tok t = Stdlib.String.length t > 0 && t.[Stdlib.String.length t - 1] = 'g'
let strip_g t = if is_glob_tok t then Stdlib.String.sub t 0 (Stdlib.String.length t - 1) else t

let parse_step s : stepcfg =
  match Stdlib.String.split_on_char ':' s with
  | [w; deps; sdeps; ideps; ok; effs] ->
    let toks = split_on ',' deps in
    { s_when = (match w with "b" -> WByDependencies | "a" -> WAlways | "n" -> WNever | _ -> failwith ("when " ^ w));
      s_deps = Stdlib.List.map (fun t -> n_of_string (strip_g t)) toks;
      s_globs = Stdlib.List.map (fun t -> n_of_string (strip_g t)) (Stdlib.List.filter is_glob_tok toks);
      s_sdeps = nats sdeps; s_ideps = nats ideps; s_ok = (ok = "1"); s_effs = bindings effs }
  | _ -> failwith ("step " ^ s)

let parse_variant = function
  | "code" -> v_code
  | s when Stdlib.String.length s = 3 && Stdlib.String.for_all (fun ch -> ch = '0' || ch = '1') s ->
    { v_own_only = (s.[0] = '1'); v_consult = (s.[1] = '1'); v_glob_content = (s.[2] = '1') }
  | s -> failwith ("variant " ^ s)

let show_state = function
  | LInit -> "I" | LSupChanged -> "C" | LDone true -> "R" | LDone false -> "D"
  | LBroken BDepSteps -> "Bd" | LBroken BMissingDep -> "Bm" | LBroken BExit -> "Bx" | LPanic -> "P"
let show_list f l = "[" ^ Stdlib.String.concat "," (Stdlib.List.map f l) ^ "]"
let b01 b = if b then "1" else "0"

let universe (cfg : stepcfg list) recs world =
  let ds = Stdlib.List.concat_map (fun c -> c.s_deps @ Stdlib.List.map fst c.s_effs) cfg
           @ Stdlib.List.map fst recs @ Stdlib.List.map fst world in
  Stdlib.List.sort_uniq compare (Stdlib.List.map int_of_n ds)

let show_recs univ recs =
  show_list (fun d -> match getN recs (n_of_int d) with
      | None -> string_of_int d ^ "=-"
      | Some (s, t) -> string_of_int d ^ "=" ^ string_of_n s ^ "/" ^ string_of_n t) univ

let show_outcome univ sorted (o : outcome) =
  let ex = Stdlib.List.map int_of_nat o.o_exec in
  let ex = if sorted then Stdlib.List.sort compare ex else ex in
  "exec=" ^ show_list string_of_int ex ^ " states=" ^ show_list show_state o.o_states
  ^ " recs=" ^ show_recs univ o.o_records ^ " complete=" ^ b01 o.o_complete

let handle line =
  match Stdlib.List.map Stdlib.String.trim (Stdlib.String.split_on_char '|' line) with
  | [head; steps; recs; world; order] ->
    let (mode, v) = match split_on ' ' head with
      | [m; v] -> (m, parse_variant v) | _ -> failwith "head" in
    let cfg = Stdlib.List.map parse_step (split_on ';' steps) in
    let recs = bindings recs and world = bindings world in
    let univ = universe cfg recs world in
    let tail = " topo=" ^ b01 (topo cfg) ^ " p15=" ^ b01 (coq_Known_P15 (msens v cfg) cfg recs world)
               ^ " dof=" ^ b01 (coq_Known_downstream_of_forced cfg)
               ^ " tainted=" ^ show_list b01 (tainted cfg)
               ^ " globtouch=" ^ b01 (coq_Known_glob_touch v cfg recs world)
               ^ " globfixed=" ^ b01 v.v_glob_content in
    (match mode with
     | "run" ->
       let order = if order = "" then canonical_order cfg else nats order in
       show_outcome univ false (run v cfg recs world order) ^ tail
     | "all" ->
       let outs = Stdlib.List.map (show_outcome univ true) (all_outcomes v cfg recs world) in
       Stdlib.String.concat " || " (Stdlib.List.sort_uniq compare outs) ^ " ;;" ^ tail
     | _ -> failwith "mode")
  | _ -> failwith "fields"

let () =
  iter_lines (fun line ->
      (try print_string (handle line) with Failure m -> print_string ("ERR " ^ m)
                                         | Not_found -> print_string "ERR not_found");
      print_newline ())
