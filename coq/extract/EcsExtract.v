(* Extraction of M-ECS for the correspondence check.  Directives in force: those of
   ExtrOcamlBasic only. *)
From Coq Require Import NArith List.
From XV Require Import Base.Amap Ecs.Model.
Require Import ExtrOcamlBasic.
Extraction Language OCaml.
Separate Extraction
  N.add N.mul N.div_eucl N.eqb N.ltb N.of_nat
  Model.run Model.step Model.init_st Model.insert Model.update Model.remove
  Model.entities_for Model.entity_by_value Model.index_map Model.from_dir Model.to_dir
  Model.dmerge Model.dsort Model.rrun
  Model.gen_init Model.gen_next Model.gen_load Model.gen_save Model.gen_session Model.gen_sessions
  Model.r11_insert Model.r11_remove Model.r1n_insert Model.r1n_remove_child Model.children_of
  Model.parent_of Model.new_store.
