(* Extraction of M-GITIGNORE (reference gitignore semantics, xvc's editing of .gitignore files with the
   real matcher of Glob/Match.v + Walker/Model.v) for the correspondence checks of C16:
   gitignoremodel vs `git check-ignore`, gitignoremodel vs the lines the xvc binary appends.
   Directives in force: those of ExtrOcamlBasic only. *)
From Coq Require Import NArith List.
From XV Require Import Glob.Match Glob.Pattern Walker.Model Gitignore.Model.
Require Import ExtrOcamlBasic.
Extraction Language OCaml.
Separate Extraction
  N.add N.mul N.div_eucl N.eqb N.ltb N.of_nat
  Gitignore.Model.ignored Gitignore.Model.ignored_dir Gitignore.Model.excluded Gitignore.Model.supported Gitignore.Model.content
  Gitignore.Model.run_cmd Gitignore.Model.xvc_build Gitignore.Model.xvc_chk
  Gitignore.Model.K_user_whitelist Gitignore.Model.K_engine_mismatch Gitignore.Model.file_targets
  Gitignore.Model.wf_cmd Gitignore.Model.all_end_nl Gitignore.Model.init_content Gitignore.Model.path_ok
  Gitignore.Model.escape_name Gitignore.Model.valid_name.
