(* Extraction of M-SCHED for trace validation and the model-side search.  Directives in force:
   those of ExtrOcamlBasic only. *)
From Coq Require Import NArith List.
From XV Require Import Base.Amap Gen.StepMachine Sched.Model.
Require Import ExtrOcamlBasic.
Extraction Language OCaml.
Separate Extraction
  N.add N.mul N.div_eucl N.eqb N.ltb N.of_nat N.to_nat
  StepMachine.all_sstates StepMachine.all_events StepMachine.sstate_eqb StepMachine.event_eqb
  StepMachine.allowed
  Model.init Model.run Model.run_sched Model.run_obs Model.step_fn Model.step_ex Model.accept Model.settle
  Model.stuckb Model.all_doneb Model.pool_okb Model.deps_okb Model.count_running Model.all_tids
  Model.edges Model.toposort Model.acyclicb Model.deps_of_id
  Model.Known_mixed Model.Known_big_stderr Model.Known_thread_error Model.Known_glob_on_absent_output
  Model.fixed_P11 Model.table_P14b Model.all_can_start.
