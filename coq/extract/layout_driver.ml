(* layoutmodel: runs M-LAYOUT on the cases layoutdrv runs on the real code (harness/src/bin/layoutdrv.rs).
     render <cur|doc> <algo> <digest: 64 hex> <tracked path hex|->  -> ok <cache path hex> <extension hex|->
     parse  <cur|doc> <cache path hex>                               -> ok <algo> <digest hex> <extension hex|-> <re-rendered path hex> | none
     table  <cur|doc>                                                -> <algo>=<prefix hex>,...
     recognised                                                      -> recognised | unrecognised
   cur = the layout read from the source (Gen/CacheLayout.v), doc = the documented layout.
   Parsing and printing only. *)
open Common
open Model

let bs f = if f = "-" then [] else bytes_of_string (string_of_hex f)
let hx l = if l = [] then "-" else hex_of_string (string_of_bytes l)
let layout = function "cur" -> CacheLayout.current_layout | "doc" -> documented_layout | s -> failwith ("layout " ^ s)
let algo = function
  | "asis" -> AsIs | "blake3" -> Blake3 | "blake2s" -> Blake2s | "sha2" -> SHA2_256 | "sha3" -> SHA3_256
  | s -> failwith ("algo " ^ s)
let algo_name = function AsIs -> "asis" | Blake3 -> "blake3" | Blake2s -> "blake2s" | SHA2_256 -> "sha2" | SHA3_256 -> "sha3"

let () =
  iter_lines (fun line ->
    let f = Stdlib.Array.of_list (Stdlib.List.filter (fun x -> x <> "") (Stdlib.String.split_on_char ' ' line)) in
    if Stdlib.Array.length f > 0 then begin
    let out =
      try
        match f.(0) with
        | "render" ->
            let l = layout f.(1) in
            let d = bs f.(3) in
            if not (wf_digestb d) then "bad digest" else
            let p = bs f.(4) in
            "ok " ^ hx (cache_path_of_tracked l (algo f.(2)) d p) ^ " " ^ hx (Bytes.extension p)
        | "parse" ->
            let l = layout f.(1) in
            (match parse_cache_path l (bs f.(2)) with
             | Some ((a, d), e) -> "ok " ^ algo_name a ^ " " ^ hx d ^ " " ^ hx e ^ " " ^ hx (cache_path l a d e)
             | None -> "none")
        | "table" ->
            let l = layout f.(1) in
            Stdlib.String.concat "," (Stdlib.List.map (fun a -> algo_name a ^ "=" ^ hx (prefix_of l a)) all_algos)
        | "recognised" -> if CacheLayout.recognised then "recognised" else "unrecognised"
        | _ -> "bad"
      with Failure m -> "bad " ^ m | Invalid_argument m -> "bad " ^ m in
    print_endline out end)
