(* Extraction of M-CONF (Config/Model.v) together with the tables regenerated from /repo
   (Gen/ConfigOrder.v, Gen/CliSwitches.v, Gen/CachePrefix.v) for the correspondence check of C20.
   Directives in force: those of ExtrOcamlBasic only. *)
From Coq Require Import NArith ZArith List.
From XV Require Import Base.Amap Config.Types Config.Model Gen.ConfigOrder Gen.CliSwitches Gen.CachePrefix.
Require Import ExtrOcamlBasic.
Extraction Language OCaml.
Separate Extraction
  N.add N.mul N.div_eucl N.eqb N.of_nat Z.of_N Z.opp Z.abs_N
  Model.build Model.cli_build Model.eff_params Model.track_prefix
  Model.get_str Model.get_bool Model.get_int Model.get_float
  Model.check_effective Model.effective Model.noop_switches Model.switch_ok
  Model.parse_to_value Model.env_key Model.parse_kv
  ConfigOrder.order ConfigOrder.translator_ok
  CliSwitches.declared_switches CliSwitches.params_init CliSwitches.root_init_tbl CliSwitches.translator_ok
  CachePrefix.alg_key CachePrefix.alg_table CachePrefix.translator_ok.
