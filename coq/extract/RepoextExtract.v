(* Extraction of M-REPO + its extension (copy / move / remove / untrack) for the correspondence
   checks of C19 and C05.  ExtrOcamlBasic only. *)
From Coq Require Import NArith List.
From XV Require Import Base.Amap Base.Bytes Repo.Model Glob.Match Repo.Ext Repo.ExtReach.
Require Import ExtrOcamlBasic.
Extraction Language OCaml.
Separate Extraction
  N.add N.mul N.div_eucl N.eqb N.ltb N.of_nat
  Model.init_repo Model.do_item Model.ws_read Model.obj_read Model.resolve
  Model.link_fuel Model.dget Model.iget Model.read_entry Model.cache_addr Model.digest_of Model.ws_exists Model.obj_exists
  ExtReach.xclean Ext.xinit Ext.do_xitem Ext.run_xitems Ext.as_is Ext.all_fixed Ext.select Ext.sources.
