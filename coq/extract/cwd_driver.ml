(* cwdmodel: runs M-CWD on the cases cwddrv runs on the real code (same line format, see
   harness/src/bin/cwddrv.rs), plus the mode (cur = sites read from the source, pin = pinned tree, fix).
     store <mode> <cwd|-> <proc: hex | - | O> <targets N|-|hex,..> <stored> <dirs>
     disk  <mode> <cwd|-> <proc> <targets> <disk paths> <dirs>
     xpath <rootabs hex,..> <base|-> <string>
     dirs  <mode> <cwd|-> <proc> <targets> <dirs> <rootabs>     track's directory targets
     dest  <mode> <copy|move> <cwd|-> <proc> <string> <rootabs>
   Parsing and printing only. *)
open Common
open Model

let bs f = if f = "-" then [] else bytes_of_string (string_of_hex f)
let hx l = hex_of_string (string_of_bytes l)
let lst f = if f = "-" then [] else Stdlib.List.map bs (Stdlib.String.split_on_char ',' f)
let tgts f = if f = "N" then None else Some (lst f)
let sites = function "cur" -> CwdSites.current_sites | "pin" -> sites_pinned | "fix" -> sites_fixed | s -> failwith s
let place c p = { cwd = bs c; proc = (if p = "O" then None else Some (bs p)) }
let gms gs p = Stdlib.List.exists (fun g -> Match.glob_matches g p) gs
let mem l x = Stdlib.List.mem x l
let show l =
  let l = Stdlib.List.sort compare (Stdlib.List.map hx l) in
  if l = [] then "ok -" else "ok " ^ Stdlib.String.concat "," l
let pres = function POk p -> "ok " ^ (if p = [] then "-" else hx p) | PErr -> "err" | PPanic -> "panic"

let () =
  iter_lines (fun line ->
    let f = Stdlib.Array.of_list (Stdlib.List.filter (fun x -> x <> "") (Stdlib.String.split_on_char ' ' line)) in
    let out =
      try
        match f.(0) with
        | "store" ->
            let dirs = lst f.(6) in
            show (resolve_store gms (mem dirs) (sites f.(1)) (place f.(2) f.(3)) (tgts f.(4)) (lst f.(5)))
        | "disk" ->
            let dirs = lst f.(6) in
            show (resolve_disk gms (mem dirs) (fun _ -> false) (lst f.(5)) (fun _ -> false) (sites f.(1)) (place f.(2) f.(3)) (tgts f.(4)))
        | "xpath" ->
            let b = bs f.(2) in
            pres (xvcpath_new (lst f.(1)) (Some (comps b)) (bs f.(3)))
        | "dirs" ->
            let dirs = lst f.(5) in
            (match track_dir_targets (mem dirs) (fun _ -> false) (lst f.(6)) (sites f.(1)) (place f.(2) f.(3)) (tgts f.(4)) with
             | Some l -> show l | None -> "panic")
        | "dest" ->
            let st = sites f.(1) in
            let (db, fb) = if f.(2) = "copy" then (st.st_copy_dirdest, st.st_copy_filedest) else (st.st_move_dirdest, st.st_move_filedest) in
            (match resolve_dest (lst f.(6)) db fb (place f.(3) f.(4)) (bs f.(5)) with
             | DDir p -> "dir " ^ pres p | DFile p -> "file " ^ pres p)
        | "sites" -> if CwdSites.recognised then "recognised" else "unrecognised"
        | _ -> "bad"
      with Failure m -> "bad " ^ m | Invalid_argument m -> "bad " ^ m in
    print_endline out)
