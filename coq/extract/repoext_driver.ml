(* repoextmodel (core part copied from repo_driver.ml): runs M-REPO on histories.  One history per line:
     repo <b3|b2|s2|s3> <copy|hardlink|symlink|reflink> <auto|text|binary> | item ; item ; ...
   items:  W <pathhex> <byteshex> | T <pathhex> <byteshex> | D <pathhex> | U <pathhex>
           track [m=<method>] [t=<tob>] [nc] [f] -- <pathhex>...
           carry [t=<tob>] [f] -- <pathhex>...
           recheck [m=<method>] [f] -- <pathhex>...
   Output: one observation per item, separated by " | " (see vlib/repo.py for the format). *)
open Common
open Model
open Ext

let bs h = bytes_of_string (string_of_hex h)
let hx l = hex_of_string (string_of_bytes l)
let words s = Stdlib.List.filter (fun x -> x <> "") (Stdlib.String.split_on_char ' ' s)

let algo_of = function "b3" -> B3 | "b2" -> B2 | "s2" -> S2 | "s3" -> S3 | s -> failwith ("algo " ^ s)
let algo_s = function B3 -> "b3" | B2 -> "b2" | S2 -> "s2" | S3 -> "s3"
let method_of = function "copy" -> Copy | "hardlink" -> Hardlink | "symlink" -> Symlink | "reflink" -> Reflink | s -> failwith ("method " ^ s)
let method_s = function Copy -> "copy" | Hardlink -> "hardlink" | Symlink -> "symlink" | Reflink -> "reflink"
let tob_of = function "auto" -> Auto | "text" -> Text | "binary" -> Binary | s -> failwith ("tob " ^ s)
let tob_s = function Auto -> "auto" | Text -> "text" | Binary -> "binary"

let split_opts ws =
  let rec go acc = function
    | "--" :: rest -> (Stdlib.List.rev acc, rest)
    | x :: rest -> go (x :: acc) rest
    | [] -> (Stdlib.List.rev acc, []) in
  go [] ws
let opt_val pre opts =
  let n = Stdlib.String.length pre in
  Stdlib.List.fold_left (fun a o ->
      if Stdlib.String.length o > n && Stdlib.String.sub o 0 n = pre
      then Some (Stdlib.String.sub o n (Stdlib.String.length o - n)) else a) None opts
let omap f = function None -> None | Some x -> Some (f x)

let parse_item s : item =
  match words s with
  | ["W"; p; c] -> UWrite (bs p, bs c)
  | ["W"; p] -> UWrite (bs p, [])
  | ["T"; p; c] -> UWriteThrough (bs p, bs c)
  | ["T"; p] -> UWriteThrough (bs p, [])
  | ["D"; p] -> UDelete (bs p)
  | ["U"; p] -> UTouch (bs p)
  | "track" :: rest ->
    let (opts, ps) = split_opts rest in
    XTrack ({ t_method = omap method_of (opt_val "m=" opts); t_tob = omap tob_of (opt_val "t=" opts);
              t_no_commit = Stdlib.List.mem "nc" opts; t_force = Stdlib.List.mem "f" opts },
            Stdlib.List.map bs ps)
  | "carry" :: rest ->
    let (opts, ps) = split_opts rest in
    XCarryIn ({ c_tob = omap tob_of (opt_val "t=" opts); c_force = Stdlib.List.mem "f" opts }, Stdlib.List.map bs ps)
  | "recheck" :: rest ->
    let (opts, ps) = split_opts rest in
    XRecheck ({ k_method = omap method_of (opt_val "m=" opts); k_force = Stdlib.List.mem "f" opts }, Stdlib.List.map bs ps)
  | _ -> failwith ("item " ^ s)

let addr_s (a : caddr) = "@" ^ algo_s a.a_digest.d_algo ^ "," ^ hx a.a_digest.d_norm ^ "," ^ hx a.a_ext ^ "@"
let digest_s (d : digest) = "@" ^ algo_s d.d_algo ^ "," ^ hx d.d_norm ^ ",@"

let observe (r : repo) (oc : outcome) =
  let f = r.fs in
  let ino_w i = match iget f i with Some n -> if n.i_w then "1" else "0" | None -> "?" in
  let rd e = match read_entry f e with Some c -> hx c | None -> "!" in
  (* the first cache address whose entry is the same inode *)
  let shares i = Stdlib.List.fold_left (fun acc (a, e) ->
      match acc, e with None, EFile j when j = i -> Some a | _ -> acc) None f.objs in
  let ws = Stdlib.String.concat "," (Stdlib.List.map (fun (p, e) ->
      match e with
      | EFile i -> hx p ^ ":" ^ (match shares i with Some a -> "H" ^ addr_s a | None -> "F") ^ ":" ^ ino_w i ^ ":" ^ rd e
      | ELink a -> hx p ^ ":L" ^ addr_s a ^ ":-:" ^ rd e) f.ws) in
  let objs = Stdlib.String.concat "," (Stdlib.List.map (fun (a, e) ->
      let dw = match dget f a.a_digest with Some true -> "1" | Some false -> "0" | None -> "?" in
      match e with
      | EFile i -> addr_s a ^ ":F:" ^ ino_w i ^ ":" ^ dw ^ ":" ^ rd e
      | ELink b -> addr_s a ^ ":L" ^ addr_s b ^ ":-:" ^ dw ^ ":" ^ rd e) f.objs) in
  let recs = Stdlib.String.concat "," (Stdlib.List.map (fun (_, x) ->
      hx x.r_path ^ ":" ^ (match x.r_digest with Some d -> digest_s d | None -> "-") ^ ":" ^ method_s x.r_method
      ^ ":" ^ tob_s x.r_tob ^ ":" ^ Stdlib.String.concat "+" (Stdlib.List.map digest_s x.r_hist)) r.recs) in
  "oc=" ^ (match oc with Ok -> "Ok" | Err -> "Err" | Panic -> "Panic") ^ " ws=" ^ ws ^ " objs=" ^ objs ^ " recs=" ^ recs


let norm_of s = if s = "_" then [] else bs s
let parse_xitem (a : algo) s : xitem =
  match words s with
  | "copy" :: rest ->
    let (opts, ps) = split_opts rest in
    (match ps with
     | [src; dst] ->
       XCopy ({ c_as = omap method_of (opt_val "as=" opts); c_cforce = Stdlib.List.mem "f" opts;
                c_no_recheck = Stdlib.List.mem "nr" opts; c_name_only = Stdlib.List.mem "no" opts }, bs src, bs dst)
     | _ -> failwith ("copy " ^ s))
  | "move" :: rest ->
    let (opts, ps) = split_opts rest in
    (match ps with
     | [src; dst] -> XMove ({ m_as = omap method_of (opt_val "as=" opts); m_no_recheck = Stdlib.List.mem "nr" opts }, bs src, bs dst)
     | _ -> failwith ("move " ^ s))
  | "remove" :: rest ->
    let (opts, ps) = split_opts rest in
    let v = match opt_val "v=" opts with
      | None | Some "cur" -> VCurrent
      | Some "all" -> VAll
      | Some "any" -> VOnly (true, [])
      | Some o when Stdlib.String.length o >= 5 && Stdlib.String.sub o 0 5 = "only:" ->
        let l = Stdlib.String.sub o 5 (Stdlib.String.length o - 5) in
        VOnly (false, Stdlib.List.map (fun n -> { d_algo = a; d_norm = norm_of n })
                 (Stdlib.List.filter (fun x -> x <> "") (Stdlib.String.split_on_char '+' l)))
      | Some o -> failwith ("versions " ^ o) in
    XRemove ({ rm_versions = v; rm_force = Stdlib.List.mem "f" opts }, Stdlib.List.map bs ps)
  | "untrack" :: rest ->
    let (_, ps) = split_opts rest in XUntrack (Stdlib.List.map bs ps)
  | _ -> XBase (parse_item s)

let xobserve (r : xrepo) (oc : outcome) =
  observe r.base oc ^ " dirs=" ^ Stdlib.String.concat "," (Stdlib.List.sort compare (Stdlib.List.map hx r.dirs))

let flags_of s =
  let b i = Stdlib.String.length s > i && s.[i] = '1' in
  { fixed_P7 = b 0; fixed_P8 = b 1; fixed_mv_absent = b 2; fixed_P45 = b 3; fixed_P47 = b 4; fixed_P3 = b 5;
    core = { Fix.fixed_P44 = b 6; Fix.fixed_P41 = b 7; Fix.fixed_P49 = b 8; Fix.fixed_P43 = b 9 };
    fixed_P50 = b 10 }

(* repo <algo> <method> <tob> <flags: up to eleven characters 0/1 = fixed_P7 fixed_P8 fixed_mv_absent fixed_P45 fixed_P47 fixed_P3, then the
   switches of the core commands (Repo/Fix.v) fixed_P44 fixed_P41 fixed_P49 fixed_P43, then fixed_P50 (XvcCachePath::remove); a missing character is 0> | item ; item ; ...
   additional items:  copy [as=<method>] [f] [nr] [no] -- <srchex> <dsthex>
                      move [as=<method>] [nr] -- <srchex> <dsthex>
                      remove [v=cur|all|any|only:<normhex>+...] [f] -- <targethex>...      (_ = the empty content)
                      untrack -- <targethex>...
   output: the core observation + " dirs=<hex>,..." (directory records) + " clean=0|1" (the step is outside the
   known classes of the reachability theorems) per item *)
let () =
  iter_lines (fun line ->
      let line = Stdlib.String.trim line in
      if line <> "" then begin
        let out =
          try
            match Stdlib.String.index_opt line '|' with
            | None -> failwith "no |"
            | Some i ->
              let head = Stdlib.String.sub line 0 i and rest = Stdlib.String.sub line (i + 1) (Stdlib.String.length line - i - 1) in
              (match words head with
               | ["repo"; a; m; t; fl] ->
                 let fl = flags_of fl in
                 let r = ref (xinit (algo_of a) (method_of m) (tob_of t)) in
                 let items = Stdlib.List.filter (fun s -> Stdlib.String.trim s <> "") (Stdlib.String.split_on_char ';' rest) in
                 Stdlib.String.concat " | " (Stdlib.List.map (fun s ->
                     let it = parse_xitem (algo_of a) s in
                     (* is the step inside the domain of the reachability theorems (ExtReach.xclean)? *)
                     let cl = if ExtReach.xclean !r it then "1" else "0" in
                     let (r1, oc) = do_xitem fl !r it in
                     r := r1; xobserve r1 oc ^ " clean=" ^ cl) items)
               | _ -> failwith "head")
          with Failure m -> "MODEL-ERROR " ^ m in
        print_string out; print_newline ()
      end)
