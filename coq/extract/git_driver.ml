(* gitmodel: runs M-GIT (extracted Git/Model.v) on one case per input line; parsing and printing only.

   Input line:  space separated fields K=V
     H=b:NAME | d:ID            HEAD on a branch / detached at a commit
     B=NAME:ID,...              branches            T=NAME:ID,...   tags
     I=<tree>  W=<tree>         index, work tree    <tree> = PATH:BLOB;PATH:BLOB...   BLOB = N.N.N
     S=<tree>|<tree>|<tree>~... stash entries (base|index|wt), newest first
     L=ID^PARENT^<tree>~...     commits, newest first; PARENT = - for a root commit
     O=op,op,...                operations:
         diff push cob:NAME con:NAME coi:ID addv add commit pop
         commitp            git commit -m <msg> -- <xvc dir> '*.gitignore' '*.xvcignore'  (git_commit_only)
         aco:TB             git_auto_commit after the repair of P24 (git_auto_commit_only)
         crp:n:NAME | crp:i:ID          git_checkout_ref after the repair of P24 (git_checkout_ref_plain)
         ac:FX:TB           git_auto_commit (FX 0/1, TB = branch or -)
         as                 git_auto_stage
         cr:FX:n:NAME | cr:FX:i:ID      git_checkout_ref
         disp!UG!AC!AS!SK!TB!FR!FX!F24!KIND!OK!DELTA!DELTA2   dispatch; FR = - | n:NAME | i:ID; KIND = init|other;
                            FX = fixed_P20, F24 = fixed_P24 (0/1); the result carries known=<Known_class>;
                            DELTA = PATH>BLOB+PATH>-+...  (or empty)
         wr!DELTA           writes / deletes work-tree files (apply_delta)
   Output line: R=<result>;<result>...  followed by the canonical final state (same syntax, sorted),
   and UV=<digest of user_view> ; a result is rc[/out] ; state DIRTY after a conflicted pop. *)
open Common
open Model

let sl = Stdlib.String.length
let split c s = if s = "" then [] else Stdlib.String.split_on_char c s
let concat = Stdlib.String.concat
let lmap = Stdlib.List.map

let name_of_string (s : string) : name = bytes_of_string s
let string_of_name (n : name) = string_of_bytes n
let path_of_string (s : string) : path = lmap bytes_of_string (split '/' s)
let string_of_path (p : path) = concat "/" (lmap string_of_bytes p)
let blob_of_string (s : string) : blob = lmap n_of_string (split '.' s)
let string_of_blob (b : blob) = concat "." (lmap string_of_n b)

let split2 c s =
  match Stdlib.String.index_opt s c with
  | None -> failwith ("expected '" ^ Stdlib.String.make 1 c ^ "' in " ^ s)
  | Some i -> (Stdlib.String.sub s 0 i, Stdlib.String.sub s (i + 1) (sl s - i - 1))

let tree_of_string (s : string) : tree =
  lmap (fun e -> let (p, b) = split2 ':' e in (path_of_string p, blob_of_string b)) (split ';' s)
let canon_tree (t : tree) : (string * string) list =
  (* first binding wins; sorted by path *)
  let seen = Hashtbl.create 16 in
  let l = Stdlib.List.filter_map (fun (p, b) ->
      let k = string_of_path p in
      if Hashtbl.mem seen k then None else (Hashtbl.add seen k (); Some (k, string_of_blob b))) t in
  Stdlib.List.sort compare l
let string_of_tree (t : tree) = concat ";" (lmap (fun (p, b) -> p ^ ":" ^ b) (canon_tree t))

let refs_of_string s = lmap (fun e -> let (n, i) = split2 ':' e in (name_of_string n, n_of_string i)) (split ',' s)
let string_of_refs (m : (name * BinNums.coq_N) list) =
  let seen = Hashtbl.create 8 in
  let l = Stdlib.List.filter_map (fun (n, i) ->
      let k = string_of_name n in
      if Hashtbl.mem seen k then None else (Hashtbl.add seen k (); Some (k ^ ":" ^ string_of_n i))) m in
  concat "," (Stdlib.List.sort compare l)

let head_of_string s = match split2 ':' s with
  | ("b", n) -> OnBranch (name_of_string n)
  | ("d", i) -> Detached (n_of_string i)
  | _ -> failwith ("head " ^ s)
let string_of_head = function OnBranch n -> "b:" ^ string_of_name n | Detached i -> "d:" ^ string_of_n i

let stash_of_string s = lmap (fun e -> match Stdlib.String.split_on_char '|' e with
    | [b; i; w] -> { s_base = tree_of_string b; s_index = tree_of_string i; s_wt = tree_of_string w }
    | _ -> failwith ("stash " ^ e)) (split '~' s)
let string_of_stash l = concat "~" (lmap (fun e ->
    string_of_tree e.s_base ^ "|" ^ string_of_tree e.s_index ^ "|" ^ string_of_tree e.s_wt) l)

let log_of_string s = lmap (fun e -> match Stdlib.String.split_on_char '^' e with
    | [i; p; t] -> { c_id = n_of_string i; c_parent = (if p = "-" then None else Some (n_of_string p)); c_tree = tree_of_string t }
    | _ -> failwith ("commit " ^ e)) (split '~' s)
let string_of_log l = concat "~" (lmap (fun c ->
    string_of_n c.c_id ^ "^" ^ (match c.c_parent with None -> "-" | Some p -> string_of_n p) ^ "^" ^ string_of_tree c.c_tree) l)

let string_of_state g =
  "H=" ^ string_of_head g.g_head ^ " B=" ^ string_of_refs g.g_branches ^ " T=" ^ string_of_refs g.g_tags
  ^ " I=" ^ string_of_tree g.g_index ^ " W=" ^ string_of_tree g.g_wt ^ " S=" ^ string_of_stash g.g_stash
  ^ " L=" ^ string_of_log g.g_log

let string_of_uview g =
  let v = user_view g in
  "UV=" ^ string_of_tree v.v_index ^ "#" ^ string_of_tree v.v_wt ^ "#" ^ string_of_tree v.v_headtree ^ "#"
  ^ string_of_stash v.v_stash ^ "#" ^ (match v.v_branch with Some n -> string_of_name n | None -> "-") ^ "#"
  ^ string_of_refs v.v_tags ^ "#" ^ string_of_refs v.v_branches

let delta_of_string s : delta =
  lmap (fun e -> let (p, b) = split2 '>' e in (path_of_string p, if b = "-" then None else Some (blob_of_string b))) (split '+' s)

let refarg_of_string s = match split2 ':' s with
  | ("n", n) -> RName (name_of_string n)
  | ("i", i) -> RId (n_of_string i)
  | _ -> failwith ("ref " ^ s)
let string_of_refarg = function RName n -> "n:" ^ string_of_name n | RId i -> "i:" ^ string_of_n i

let string_of_cmd = function
  | GDiffCached -> "diff" | GStashPushStaged -> "push" | GCheckoutB b -> "cob:" ^ string_of_name b
  | GCheckout r -> "co:" ^ string_of_refarg r | GAddVerbose -> "addv" | GAdd -> "add" | GCommit -> "commit"
  | GStashPopIndex -> "pop" | GCommitOnly -> "commitp"
let string_of_trace t = concat "," (lmap string_of_cmd t)

let paths_out (l : path list) =
  concat "," (Stdlib.List.sort_uniq compare (lmap string_of_path l))
let rc b = if b then "0" else "1"
let b01 s = (s = "1")
let opt_name s = if s = "-" then None else Some (name_of_string s)

exception Dirty_state of string list

(* one operation: returns (result string, new state) *)
let run_op (g : git) (op : string) : string * git =
  if sl op > 5 && Stdlib.String.sub op 0 5 = "disp!" then begin
    match Stdlib.String.split_on_char '!' op with
    | [_; ug; ac; ast; sk; tb; fr; fx; f24; kind; ok; d1; d2] ->
      let s = { use_git = b01 ug; auto_commit = b01 ac; auto_stage = b01 ast; skip_git = b01 sk;
                to_branch = opt_name tb; from_ref = (if fr = "-" then None else Some (refarg_of_string fr));
                fixed_P20 = b01 fx; fixed_P24 = b01 f24 } in
      let c = { c_kind = (if kind = "init" then KInit else KOther); c_ok = b01 ok;
                c_delta = delta_of_string d1; c_delta2 = delta_of_string d2 } in
      let ((st, g'), tr) = dispatch s c g in
      let sts = match st with
        | SOk -> "ok" | SCmdFailed -> "cmdfailed" | SFromRefFailed -> "fromref"
        | SAutoFailed k -> "auto" ^ string_of_int (int_of_nat k) in
      let known = coq_Known_class s c g in
      (sts ^ "/" ^ string_of_trace tr ^ "/known=" ^ rc (not known), g')
    | _ -> failwith ("dispatch " ^ op)
  end else
  if sl op > 3 && Stdlib.String.sub op 0 3 = "wr!" then
    ("0", apply_delta (delta_of_string (Stdlib.String.sub op 3 (sl op - 3))) g)
  else
  match Stdlib.String.split_on_char ':' op with
  | ["diff"] -> ("0/" ^ paths_out (diff_cached g), g)
  | ["push"] -> let (ok, g') = stash_push_staged g in (rc ok, g')
  | ["cob"; n] -> let (ok, g') = checkout_b (name_of_string n) g in (rc ok, g')
  | ["con"; n] -> let (ok, g') = checkout_ref (RName (name_of_string n)) g in (rc ok, g')
  | ["coi"; i] -> let (ok, g') = checkout_ref (RId (n_of_string i)) g in (rc ok, g')
  | ["addv"] | ["add"] -> let ((ok, out), g') = git_add g in (rc ok ^ "/" ^ paths_out out, g')
  | ["commit"] -> let (ok, g') = git_commit g in (rc ok, g')
  | ["commitp"] -> let (ok, g') = git_commit_only g in (rc ok, g')
  | ["aco"; tb] -> let ((ok, g'), tr) = git_auto_commit_only (opt_name tb) g in
    (rc ok ^ "/" ^ string_of_trace tr, g')
  | ["crp"; k; v] -> let ((ok, g'), tr) = git_checkout_ref_plain (refarg_of_string (k ^ ":" ^ v)) g in
    (rc ok ^ "/" ^ string_of_trace tr, g')
  | ["pop"] -> (match stash_pop_index g with
      | Done g' -> ("0", g') | Failed g' -> ("1", g') | Dirty -> raise (Dirty_state ["1"]))
  | ["ac"; fx; tb] -> let ((ok, g'), tr) = git_auto_commit (b01 fx) (opt_name tb) g in
    (rc ok ^ "/" ^ string_of_trace tr, g')
  | ["as"] -> let ((ok, g'), tr) = git_auto_stage g in (rc ok ^ "/" ^ string_of_trace tr, g')
  | ["cr"; fx; k; v] -> let ((ok, g'), tr) = git_checkout_ref (b01 fx) (refarg_of_string (k ^ ":" ^ v)) g in
    (rc ok ^ "/" ^ string_of_trace tr, g')
  | _ -> failwith ("op " ^ op)

let () =
  iter_lines (fun line ->
      let line = Stdlib.String.trim line in
      if line <> "" then begin
        let out =
          try
            let fields = lmap (split2 '=') (split ' ' line) in
            let f k = try Stdlib.List.assoc k fields with Not_found -> "" in
            let g = { g_head = head_of_string (f "H"); g_branches = refs_of_string (f "B");
                      g_tags = refs_of_string (f "T"); g_index = tree_of_string (f "I");
                      g_wt = tree_of_string (f "W"); g_stash = stash_of_string (f "S");
                      g_log = log_of_string (f "L") } in
            let rs = ref [] in
            (try
               let gf = Stdlib.List.fold_left (fun g op ->
                   try let (r, g') = run_op g op in rs := r :: !rs; g'
                   with Dirty_state r -> raise (Dirty_state (r @ !rs))) g (split ',' (f "O")) in
               "R=" ^ concat ";" (Stdlib.List.rev !rs) ^ " " ^ string_of_state gf ^ " " ^ string_of_uview gf
             with Dirty_state r -> "R=" ^ concat ";" (Stdlib.List.rev r) ^ " DIRTY")
          with Failure m -> "ERROR " ^ m in
        print_string out; print_newline ()
      end)
