(* storagemodel: runs M-STORAGE (coq/theories/Storage/Model.v) on scenarios.  One scenario per line:
     <p9><p10><sf> ; step ; step ; ...      p9, p10, sf in {0,1}: the switches fixed_P9, fixed_P10, fixed_send_force
   steps (hex-encoded paths and contents, "-" = empty):
     new <i> <guid> <b3|b2|s2|s3>
     track <i> <pathhex> <copy|hardlink|symlink|reflink> <byteshex>
     clone <i> <j> | drop <i> | udel <i> <pathhex> | uwrite <i> <pathhex> <byteshex>
     send <i> <L|G> <force 0|1> <pathhex,...|-> <faults>  faults: string over o (ok) c (clean) p (partial), or -
     bring <i> <L|G> <tmp_same_fs 0|1> <force 0|1> <pathhex,...|-> <faults>
   Output: one observation per step, separated by " | ":
     oc=<Ok|Err|Panic> st=<guid>/<addr>=<byteshex>,... r<i>=<addr>=<byteshex>,...;<pathhex>=<byteshex|!>,... ...
   with <addr> = <algo>:<normhex>:<exthex>; every list sorted.  Parsing and printing only. *)
open Common
open Model

let bs h = if h = "-" then [] else bytes_of_string (string_of_hex h)
let hx l = hex_of_string (string_of_bytes l)
let words s = Stdlib.List.filter (fun x -> x <> "") (Stdlib.String.split_on_char ' ' s)
let lst f = if f = "-" then [] else Stdlib.List.map bs (Stdlib.String.split_on_char ',' f)
let num s = n_of_string s
let algo_of = function "b3" -> B3 | "b2" -> B2 | "s2" -> S2 | "s3" -> S3 | s -> failwith ("algo " ^ s)
let algo_s = function B3 -> "b3" | B2 -> "b2" | S2 -> "s2" | S3 -> "s3"
let method_of = function "copy" -> Copy | "hardlink" -> Hardlink | "symlink" -> Symlink | "reflink" -> Reflink | s -> failwith ("method " ^ s)
let kind_of = function "L" -> Local | "G" -> Generic | s -> failwith ("kind " ^ s)
let flag = function "1" -> true | "0" -> false | s -> failwith ("flag " ^ s)
let faults s =
  if s = "-" then [] else
    Stdlib.List.init (Stdlib.String.length s) (fun i ->
        match s.[i] with 'o' -> FOk | 'c' -> FClean | 'p' -> FPartial | _ -> failwith "fault")

let parse_step s : step =
  match words s with
  | ["new"; i; g; a] -> SNew (num i, num g, algo_of a)
  | ["track"; i; p; m; c] -> STrack (num i, bs p, method_of m, bs c)
  | ["clone"; i; j] -> SClone (num i, num j)
  | ["drop"; i] -> SDropCache (num i)
  | ["udel"; i; p] -> SUserDel (num i, bs p)
  | ["uwrite"; i; p; c] -> SUserWrite (num i, bs p, bs c)
  | ["send"; i; k; f; ts; fs] -> SSend (num i, kind_of k, flag f, lst ts, faults fs)
  | ["bring"; i; k; t; f; ts; fs] -> SBring (num i, kind_of k, flag t, flag f, lst ts, faults fs)
  | _ -> failwith ("step " ^ s)

let addr_s (a : caddr) = algo_s a.a_digest.d_algo ^ ":" ^ hx a.a_digest.d_norm ^ ":" ^ hx a.a_ext
let sorted l = Stdlib.String.concat "," (Stdlib.List.sort compare l)

let observe (w : world) (oc : outcome) =
  let st = sorted (Stdlib.List.map (fun ((g, a), b) -> string_of_n g ^ "/" ^ addr_s a ^ "=" ^ hx b) w.stor) in
  let rp (i, r) =
    let c = sorted (Stdlib.List.map (fun (a, b) -> addr_s a ^ "=" ^ hx b) r.r_cache) in
    let ws = sorted (Stdlib.List.map (fun (p, _) ->
        hx p ^ "=" ^ (match ws_read r p with Some b -> hx b | None -> "!")) r.r_ws) in
    "r" ^ string_of_n i ^ "=" ^ c ^ ";" ^ ws in
  "oc=" ^ (match oc with Ok -> "Ok" | Err -> "Err" | Panic -> "Panic") ^ " st=" ^ st ^ " "
  ^ Stdlib.String.concat " " (Stdlib.List.map rp w.repos)

let () =
  iter_lines (fun line ->
    let out =
      try
        match Stdlib.String.split_on_char ';' line with
        | [] -> "bad empty"
        | c :: steps ->
            let c = Stdlib.String.trim c in
            let cf = { fixed_P9 = (c.[0] = '1'); fixed_P10 = (c.[1] = '1'); fixed_send_force = (c.[2] = '1') } in
            let (_, obs) = Stdlib.List.fold_left (fun (w, acc) s ->
                let (w', oc) = wstep cf w (parse_step s) in (w', observe w' oc :: acc)) (world0, []) steps in
            Stdlib.String.concat " | " (Stdlib.List.rev obs)
      with Failure m -> "bad " ^ m | Invalid_argument m -> "bad " ^ m in
    print_endline out)
