(* schemamodel: runs M-SCHEMA on command histories, one per input line, prints one canonical line each.
   Line format:   <fixed_rename 0|1> <default pipeline name, hex> <tok> <tok> ...
   Strings are hex encoded (the empty string is the empty field), lists are comma separated,
   an absent optional value is "~".  Tokens (every command runs with its own random word RND):
     N:RND:P:WD|~            pipeline -p P new [--workdir WD]
     R:RND:P:Q               pipeline -p P update --rename Q
     S:RND:P:S:C:W           step new -s S -c C [--when W]        W = ~ | d | a | n
     U:RND:P:S:C|~:W         step update
     D:RND:P:S:X,X,...       step dependency (payloads in CLI order)
     O:RND:P:S:X,X,...       step output
     C:RND:P:S:OLD:NEW       pipeline run recorded the state of one dependency
     I:RND:P:SRC:OW          import under the name P what `export SRC` prints now (de (ser s) = s)
     X:RND:P:OW:WD:STEP;...  import of a hand-written schema, STEP = NAME/CMD/W/X,X/X,X
     E:P                     query: export P
     L                       query: pipeline list
   Output: one token per input token, joined by " | ":
     ok | err:<Kind> | panic | noexport:<...>     for commands
     E{name=..;wd=..;steps=[name/cmd/w/deps/outs;...]} | E:err:<Kind> | E:panic   (export; "UNSTABLE" is
        appended when the result depends on the HashMap iteration order or on reloading the stores)
     L[..,..]
   Parsing and printing only; every decision is made by the extracted functions. *)
open Common
open Model0

let split c s = Stdlib.String.split_on_char c s
let str h = bytes_of_string (string_of_hex h)
let hex l = hex_of_string (string_of_bytes l)
let strs s = if s = "" then [] else Stdlib.List.map str (split ',' s)
let opt f s = if s = "~" then None else Some (f s)
let inval_of = function
  | "d" -> ByDependencies | "a" -> Always | "n" -> Never | s -> failwith ("when " ^ s)
let show_inval = function ByDependencies -> "d" | Always -> "a" | Never -> "n"
let show_err = function
  | CannotFindPipeline -> "CannotFindPipeline" | NoPipelinesFound -> "NoPipelinesFound"
  | PipelineAlreadyFound -> "PipelineAlreadyFound" | KeyAlreadyFound -> "KeyAlreadyFound"
  | StepAlreadyFoundInPipeline -> "StepAlreadyFoundInPipeline"
  | StepNotFoundInPipeline -> "StepNotFoundInPipeline" | KeyNotFound -> "KeyNotFound"
  | MultipleCorrespondingKeysFound -> "MultipleCorrespondingKeysFound"
  | DependencyNotFound -> "DependencyNotFound" | ParseError -> "ParseError"

let hid : Obj.t -> Obj.t list -> Obj.t list = fun _ l -> l
let hrev : Obj.t -> Obj.t list -> Obj.t list = fun _ l -> Stdlib.List.rev l

let show_step (ss : step_schema) =
  Stdlib.String.concat "/" [hex ss.ss_name; hex ss.ss_command; show_inval ss.ss_invalidate;
                            Stdlib.String.concat "," (Stdlib.List.map hex ss.ss_deps);
                            Stdlib.String.concat "," (Stdlib.List.map hex ss.ss_outs)]
let show_eres = function
  | EErr e -> "E:err:" ^ show_err e
  | EPanic -> "E:panic"
  | EOk s -> "E{v=" ^ string_of_n s.sc_version ^ ";name=" ^ hex s.sc_name ^ ";wd=" ^ hex s.sc_workdir ^ ";steps=["
             ^ Stdlib.String.concat ";" (Stdlib.List.map show_step s.sc_steps) ^ "]}"

let parse_step s : step_schema =
  match split '/' s with
  | [n; c; w; d; o] -> { ss_name = str n; ss_command = str c; ss_invalidate = inval_of w;
                         ss_deps = strs d; ss_outs = strs o }
  | _ -> failwith ("step " ^ s)

let show_res r = function
  | ROk r' -> r := r'; "ok"
  | RErr e -> "err:" ^ show_err e
  | RPanic -> "panic"

let run_case line =
  match Stdlib.List.filter (fun s -> s <> "") (split ' ' line) with
  | fr :: dflt :: toks ->
    let fixed = (fr = "1") in
    let r = ref (init_repo (n_of_int 77) (str dflt)) in
    let do_cmd rnd c = show_res r (exec fixed (set_rnd !r (n_of_string rnd)) c) in
    let one tok =
      match split ':' tok with
      | ["N"; rnd; p; wd] -> do_cmd rnd (CNew (str p, opt str wd))
      | ["R"; rnd; p; q] -> do_cmd rnd (CRename (str p, str q))
      | ["S"; rnd; p; s; c; w] -> do_cmd rnd (CStepNew (str p, str s, str c, opt inval_of w))
      | ["U"; rnd; p; s; c; w] -> do_cmd rnd (CStepUpdate (str p, str s, opt str c, opt inval_of w))
      | ["D"; rnd; p; s; l] -> do_cmd rnd (CDeps (str p, str s, strs l))
      | ["O"; rnd; p; s; l] -> do_cmd rnd (COuts (str p, str s, strs l))
      | ["C"; rnd; p; s; o; n] -> do_cmd rnd (CRecord (str p, str s, str o, str n))
      | ["I"; rnd; p; src; ow] ->
        (match export hid !r (str src) with
         | EOk s -> do_cmd rnd (CImport (str p, s, ow = "1"))
         | e -> "noexport:" ^ show_eres e)
      | ["X"; rnd; p; ow; wd; steps] ->
        let ss = if steps = "" then [] else Stdlib.List.map parse_step (split ';' steps) in
        do_cmd rnd (CImport (str p, { sc_version = n_of_int 1; sc_name = str p; sc_workdir = str wd;
                                      sc_steps = ss }, ow = "1"))
      | ["E"; p] ->
        let a = show_eres (export hid !r (str p)) in
        let b = show_eres (export hrev !r (str p)) in
        let c = show_eres (export hid (reload !r) (str p)) in
        if a = b && a = c then a else a ^ "UNSTABLE"
      | ["L"] -> "L[" ^ Stdlib.String.concat "," (Stdlib.List.map hex (list_names !r)) ^ "]"
      | _ -> failwith ("token " ^ tok) in
    Stdlib.String.concat " | " (Stdlib.List.map one toks)
  | _ -> failwith "line"

let () =
  iter_lines (fun line ->
      let out = try run_case line with Failure m -> "DRIVER-ERROR " ^ m in
      print_string out; print_newline ())
