(* Extraction of M-REPO for the correspondence checks.  ExtrOcamlBasic only. *)
From Coq Require Import NArith List.
From XV Require Import Base.Amap Base.Bytes Repo.Model Repo.Fix.
Require Import ExtrOcamlBasic.
Extraction Language OCaml.
Separate Extraction
  N.add N.mul N.div_eucl N.eqb N.ltb N.of_nat
  Model.init_repo Model.do_item Model.run_items Model.ws_read Model.obj_read Model.resolve
  Fix.do_item_x Fix.run_items_x Fix.as_is Fix.all_fixed
  Model.link_fuel Model.dget Model.iget Model.read_entry Model.cache_addr Model.digest_of Model.ws_exists Model.obj_exists.
