(* Extraction of M-LAYOUT for the correspondence check layoutmodel vs layoutdrv.  ExtrOcamlBasic only. *)
From Coq Require Import NArith List.
From XV Require Import Base.Bytes Layout.Model Gen.CacheLayout.
Require Import ExtrOcamlBasic.
Extraction Language OCaml.
Separate Extraction
  N.add N.mul N.div_eucl N.eqb N.ltb N.of_nat
  Bytes.extension
  Model.cache_path Model.cache_dir Model.cache_path_of_tracked Model.parse_cache_path Model.hex Model.unhex
  Model.wf_digestb Model.no_slash Model.documented_layout Model.all_algos Model.prefix_of
  CacheLayout.current_layout CacheLayout.recognised.
