(* ecsmodel: runs M-ECS on histories, one per input line, prints one canonical line each.
   Line formats
     plain <nv> <op> <op> ...      op = i:C.R:V | u:C.R:V | r:C.R | s:TS | l
     merge <nv> <opsA>|<opsB>|<opsC>   (ops comma separated) ancestor A, branches B and C from A
     gen <name>=<counter>,... ; <rnd>:<k>:<ts>:<save01> ...
     r1n <op> ...                  op = i:PE:PC:CE:CC | x:CE      (then children_of/parent_of dump)
*)
open Common
open Model

let ent s = match Stdlib.String.split_on_char '.' s with
  | [c; r] -> (n_of_string c, n_of_string r) | _ -> failwith ("entity " ^ s)
let show_ent (c, r) = string_of_n c ^ "." ^ string_of_n r
let veqb = BinNat.N.eqb

let parse_op s : BinNums.coq_N op =
  match Stdlib.String.split_on_char ':' s with
  | ["i"; e; v] -> OIns (ent e, n_of_string v)
  | ["u"; e; v] -> OUpd (ent e, n_of_string v)
  | ["r"; e] -> ORem (ent e)
  | ["s"; ts] -> OSave (n_of_string ts)
  | ["l"] -> OLoad
  | _ -> failwith ("op " ^ s)

let show_opt f = function None -> "-" | Some x -> f x
let show_list f l = "[" ^ Stdlib.String.concat "," (Stdlib.List.map f l) ^ "]"
let show_ev = function
  | Add (e, v) -> "A" ^ show_ent e ^ "=" ^ string_of_n v
  | Remove e -> "R" ^ show_ent e

let show_store nv (s : BinNums.coq_N store) =
  let m = show_list (fun (e, v) -> show_ent e ^ "=" ^ string_of_n v) s.smap in
  let vals = Stdlib.List.init nv (fun i -> n_of_int i) in
  let ef = Stdlib.String.concat ";" (Stdlib.List.map (fun v ->
      string_of_n v ^ ":" ^ show_opt (show_list show_ent) (entities_for veqb s v)
      ^ ":" ^ show_opt show_ent (entity_by_value veqb s v)) vals) in
  let im = match index_map s with
    | None -> "PANIC"
    | Some l ->
      let l = Stdlib.List.sort (fun (a, _) (b, _) -> compare (int_of_n a) (int_of_n b)) l in
      show_list (fun (v, e) -> string_of_n v ^ ">" ^ show_ent e) l in
  "map=" ^ m ^ " ef=" ^ ef ^ " im=" ^ im

let show_dir (d : BinNums.coq_N dir) =
  show_list (fun (n, c) -> string_of_n n ^ ":" ^ show_list show_ev c) d

let run_plain nv ops =
  let b = Buffer.create 256 in
  let st = ref (init_st veqb) in
  Stdlib.List.iter (fun o ->
      let (s, _) = !st in
      let ret = match o with
        | OIns (e, v) -> show_opt string_of_n (snd (insert veqb s e v))
        | OUpd (e, v) -> show_opt string_of_n (snd (update veqb s e v))
        | ORem e -> show_opt string_of_n (snd (remove veqb s e))
        | _ -> "." in
      st := step veqb !st o;
      Buffer.add_string b ("ret=" ^ ret ^ " " ^ show_store nv (fst !st) ^ " | ")) ops;
  Buffer.add_string b ("dir=" ^ show_dir (snd !st));
  Buffer.contents b

(* run ops from a given directory, starting with a load; returns the directory *)
let run_from (d : BinNums.coq_N dir) ops = snd (run veqb (OLoad :: ops) (new_store veqb, d))

let () =
  iter_lines (fun line ->
      let line = Stdlib.String.trim line in
      if line <> "" then begin
        let out =
          match Stdlib.String.index_opt line ' ' with
          | None -> failwith "bad line"
          | Some i ->
            let kind = Stdlib.String.sub line 0 i and rest = Stdlib.String.sub line (i + 1) (Stdlib.String.length line - i - 1) in
            (match kind with
             | "plain" ->
               (match split_on ' ' rest with
                | nv :: ops -> run_plain (int_of_string nv) (Stdlib.List.map parse_op ops)
                | [] -> failwith "plain")
             | "merge" ->
               (match split_on ' ' rest with
                | nv :: [spec] ->
                  let nv = int_of_string nv in
                  (match Stdlib.String.split_on_char '|' spec with
                   | [a; b; c] ->
                     let ops s = Stdlib.List.map parse_op (split_on ',' s) in
                     let da = run_from [] (ops a) in
                     let db = run_from da (ops b) and dc = run_from da (ops c) in
                     let dm1 = dmerge db dc and dm2 = dmerge dc db in
                     "A=" ^ show_store nv (from_dir veqb da)
                     ^ " | AB=" ^ show_store nv (from_dir veqb db) ^ " | AC=" ^ show_store nv (from_dir veqb dc)
                     ^ " | M=" ^ show_store nv (from_dir veqb dm1)
                     ^ " | M'=" ^ show_store nv (from_dir veqb dm2)
                     ^ " | dir=" ^ show_dir dm1
                   | _ -> failwith "merge spec")
                | _ -> failwith "merge")
             | "gen" ->
               (match Stdlib.String.split_on_char ';' rest with
                | [d; xs] ->
                  let d = Stdlib.List.map (fun s -> match Stdlib.String.split_on_char '=' s with
                      | [n; c] -> (n_of_string n, n_of_string c) | _ -> failwith "ecdir")
                      (split_on ',' (Stdlib.String.trim d)) in
                  let xs = Stdlib.List.map (fun s -> match Stdlib.String.split_on_char ':' s with
                      | [rnd; k; ts; sv] ->
                        { gs_rnd = n_of_string rnd; gs_k = nat_of_int (int_of_string k);
                          gs_ts = n_of_string ts; gs_save = (sv = "1") }
                      | _ -> failwith "gsession") (split_on ' ' (Stdlib.String.trim xs)) in
                  (match gen_sessions d xs with
                   | None -> "NOGEN"
                   | Some (l, d') ->
                     "ents=" ^ show_list show_ent l ^ " ecdir="
                     ^ show_list (fun (n, c) -> string_of_n n ^ "=" ^ string_of_n c) d')
                | _ -> failwith "gen")
             | "r1n" ->
               let teqb = BinNat.N.eqb and ueqb = BinNat.N.eqb in
               let r = ref { parents = new_store teqb; children = new_store ueqb;
                             child_parents = new_store Amap.eqe } in
               let pes = ref [] and ces = ref [] in
               Stdlib.List.iter (fun s -> match Stdlib.String.split_on_char ':' s with
                   | ["i"; pe; pc; ce; cc] ->
                     pes := pe :: !pes; ces := ce :: !ces;
                     r := r1n_insert teqb ueqb !r (ent pe) (n_of_string pc) (ent ce) (n_of_string cc)
                   | ["x"; ce] -> r := r1n_remove_child ueqb !r (ent ce)
                   | _ -> failwith ("r1n op " ^ s)) (split_on ' ' rest);
               let uniq l = Stdlib.List.sort_uniq compare l in
               let co = Stdlib.String.concat ";" (Stdlib.List.map (fun pe ->
                   pe ^ ":" ^ show_list (fun (e, u) -> show_ent e ^ "=" ^ string_of_n u)
                     (children_of !r (ent pe))) (uniq !pes)) in
               let po = Stdlib.String.concat ";" (Stdlib.List.map (fun ce ->
                   ce ^ ":" ^ show_opt (fun (pe, t) -> show_ent pe ^ "=" ^ string_of_n t)
                     (parent_of !r (ent ce))) (uniq !ces)) in
               "children_of=" ^ co ^ " parent_of=" ^ po
             | _ -> failwith ("kind " ^ kind)) in
        print_string out; print_newline ()
      end)
