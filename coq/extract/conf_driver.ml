(* confmodel: runs M-CONF (Config/Model.v) with the tables regenerated from /repo on the cases
   harness/src/bin/confdrv.rs runs with the real XvcConfig::new; same line format, same canonical
   output.  Parsing and printing only.

   input lines
     build F=<6x0/1> D=<file> S=<file> U=<file> P=<file> L=<file> E=@<hexname:hexval,..> C=@<hex,..> Q=@<hexkey,..>
           F: include_system include_user project_path=Some local_path=Some include_env cli=Some
           file: '-' missing | '!' not TOML | '/' a directory | '@' hexkey:val,...   val = b0|b1|i<dec>|f<hexlexeme>|s<hex>
     cli W=<5x0/1> D=.. S=.. U=.. P=.. L=.. E=.. C=.. Q=..
           W: --no-system-config --no-user-config --no-project-config --no-local-config --no-env-config;
           the params are computed by get_xvc_config_params + XvcRootInner::new (Gen/CliSwitches.v)
     check F=.. (as build)          -> check 1|0    boolean twin of effective_highest on the keys Q
     tables                         -> tables order=<src,..> stages=<field/src/reader,..> noop=<switch,..> ok=<3x0/1>
   output of build / cli
     ok <hexkey:val:source,...sorted> ; <hexkey:SBIF,...> ; alg=<prefix|err>      val: b0|b1|i<dec>|f<hexlexeme>|s<hex>
     panic
   (a float is printed as its lexeme; vlib/c20.py converts it to the IEEE bits confdrv prints) *)
open Common
open Types
open Model

let unhex h = bytes_of_string (string_of_hex h)
let hexb l = hex_of_string (string_of_bytes l)

let z_of_string s : BinNums.coq_Z =
  if Stdlib.String.length s > 0 && s.[0] = '-' then
    BinInt.Z.opp (BinInt.Z.of_N (n_of_string (Stdlib.String.sub s 1 (Stdlib.String.length s - 1))))
  else BinInt.Z.of_N (n_of_string s)
let string_of_z (z : BinNums.coq_Z) =
  match z with
  | BinNums.Zneg _ -> "-" ^ string_of_n (BinInt.Z.abs_N z)
  | _ -> string_of_n (BinInt.Z.abs_N z)

let parse_val v : value =
  let rest = Stdlib.String.sub v 1 (Stdlib.String.length v - 1) in
  match v.[0] with
  | 'b' -> VBool (rest = "1")
  | 'i' -> VInt (z_of_string rest)
  | 'f' -> VFloat (unhex rest)
  | 's' -> VStr (unhex rest)
  | _ -> failwith ("value " ^ v)

let show_val = function
  | VBool b -> if b then "b1" else "b0"
  | VInt z -> "i" ^ string_of_z z
  | VFloat l -> "f" ^ hexb l
  | VStr s -> "s" ^ hexb s

let show_src = function
  | Default -> "default" | System -> "system" | Global -> "global" | Project -> "project"
  | Local -> "local" | CommandLine -> "commandline" | Environment -> "environment" | Runtime -> "runtime"

let items spec = Stdlib.List.filter (fun x -> x <> "")
    (Stdlib.String.split_on_char ',' (Stdlib.String.sub spec 1 (Stdlib.String.length spec - 1)))

let pair s = match Stdlib.String.index_opt s ':' with
  | Some i -> (Stdlib.String.sub s 0 i, Stdlib.String.sub s (i + 1) (Stdlib.String.length s - i - 1))
  | None -> failwith ("pair " ^ s)

(* a configuration file: Some (flattened key/value list) or None *)
let parse_file spec =
  match spec.[0] with
  | '@' -> Some (Stdlib.List.map (fun kv -> let (k, v) = pair kv in (unhex k, parse_val v)) (items spec))
  | '-' | '!' | '/' -> None
  | _ -> failwith ("file " ^ spec)

let fields rest =
  Stdlib.List.filter_map (fun f ->
      if f = "" then None else
        match Stdlib.String.index_opt f '=' with
        | Some i -> Some (Stdlib.String.sub f 0 i, Stdlib.String.sub f (i + 1) (Stdlib.String.length f - i - 1))
        | None -> failwith ("field " ^ f))
    (Stdlib.String.split_on_char ' ' rest)

let field fs k = try Stdlib.List.assoc k fs with Not_found -> failwith ("missing field " ^ k)

let world fs = {
  w_default = parse_file (field fs "D");
  w_sys = parse_file (field fs "S");
  w_user = parse_file (field fs "U");
  w_proj = parse_file (field fs "P");
  w_local = parse_file (field fs "L");
  w_env = Stdlib.List.map (fun kv -> let (k, v) = pair kv in (unhex k, unhex v)) (items (field fs "E")) }

let cvec fs = Stdlib.List.map unhex (items (field fs "C"))
let queries fs = Stdlib.List.map unhex (items (field fs "Q"))

let params_of_flags fs =
  let f = field fs "F" in
  let b i = f.[i] = '1' in
  { p_sys = b 0; p_user = b 1;
    p_proj = (if b 2 then Some ProjectFile else None);
    p_local = (if b 3 then Some LocalFile else None);
    p_env = b 4;
    p_cli = (if b 5 then Some (cvec fs) else None);
    p_incl_proj = true; p_incl_local = true }

let switches_of fs =
  let f = field fs "W" in
  let b i = f.[i] = '1' in
  { sw_sys = b 0; sw_user = b 1; sw_proj = b 2; sw_local = b 3; sw_env = b 4 }

let code = function GOk (_, _) -> "O" | GMismatch -> "M" | GNotFound -> "N"

let show_outcome qs = function
  | Panic -> "panic"
  | Built c ->
    let ents = Stdlib.List.map (fun (k, (v, s)) ->
        (string_of_bytes k, hexb k ^ ":" ^ show_val v ^ ":" ^ show_src s)) c in
    let ents = Stdlib.List.sort (fun (a, _) (b, _) -> compare a b) ents in
    let getters = Stdlib.List.map (fun k ->
        hexb k ^ ":" ^ code (get_str c k) ^ code (get_bool c k) ^ code (get_int c k) ^ code (get_float c k)) qs in
    let alg = match track_prefix CachePrefix.alg_table CachePrefix.alg_key c with
      | Some p -> string_of_bytes p | None -> "err" in
    "ok " ^ Stdlib.String.concat "," (Stdlib.List.map snd ents) ^ " ; " ^ Stdlib.String.concat "," getters
    ^ " ; alg=" ^ alg

let show_field = function
  | FIncludeSystem -> "include_system_config" | FIncludeUser -> "include_user_config"
  | FProjectPath -> "project_config_path" | FLocalPath -> "local_config_path"
  | FIncludeEnv -> "include_environment_config" | FCliConfig -> "command_line_config"
  | FIncludeProject -> "include_project_config" | FIncludeLocal -> "include_local_config"
let show_reader = function
  | RSystemFile -> "system_config_file" | RUserFile -> "user_config_file" | RProjectPath -> "project_path"
  | RLocalPath -> "local_path" | REnvMap -> "env_map" | RCliVector -> "cli_vector"
let show_switch = function
  | NoSystem -> "no-system-config" | NoUser -> "no-user-config" | NoProject -> "no-project-config"
  | NoLocal -> "no-local-config" | NoEnv -> "no-env-config"

let b01 b = if b then "1" else "0"

let () =
  iter_lines (fun line ->
      let line = Stdlib.String.trim line in
      if line <> "" then begin
        let (kind, rest) = match Stdlib.String.index_opt line ' ' with
          | None -> (line, "")
          | Some i -> (Stdlib.String.sub line 0 i, Stdlib.String.sub line (i + 1) (Stdlib.String.length line - i - 1)) in
        let out =
          try
            match kind with
            | "build" ->
              let fs = fields rest in
              show_outcome (queries fs) (build ConfigOrder.order (world fs) (params_of_flags fs))
            | "cli" ->
              let fs = fields rest in
              show_outcome (queries fs)
                (cli_build ConfigOrder.order CliSwitches.params_init CliSwitches.root_init_tbl
                   (switches_of fs) (cvec fs) (world fs))
            | "check" ->
              let fs = fields rest in
              "check " ^ b01 (check_effective ConfigOrder.order (world fs) (params_of_flags fs) (queries fs))
            | "tables" ->
              let o = ConfigOrder.order in
              "tables order=" ^ Stdlib.String.concat "," (Stdlib.List.map (fun ((_, s), _) -> show_src s) o)
              ^ " stages=" ^ Stdlib.String.concat "," (Stdlib.List.map (fun ((f, s), r) ->
                  show_field f ^ "/" ^ show_src s ^ "/" ^ show_reader r) o)
              ^ " noop=" ^ Stdlib.String.concat "," (Stdlib.List.map show_switch
                                                       (noop_switches o CliSwitches.params_init CliSwitches.root_init_tbl))
              ^ " ok=" ^ b01 ConfigOrder.translator_ok ^ b01 CliSwitches.translator_ok ^ b01 CachePrefix.translator_ok
            | _ -> "error unknown line kind"
          with Failure m -> "error " ^ m in
        print_string out; print_newline ()
      end)
