#!/bin/bash
# usage: build.sh <Name>
# builds /verif/build/bin/<name>model from <Name>Extract.v + <name>_driver.ml (+ common.ml)
set -e
Name=$1; name=$(echo "$Name" | tr 'A-Z' 'a-z')
here=$(cd "$(dirname "$0")" && pwd)
root=$(cd "$here/../.." && pwd)
out=$root/build/extract/$name
mkdir -p "$root/build/bin" "$root/build/extract"
rm -rf "$root/build/extract/${name:?}"
mkdir -p "$out"
cp "$here/${Name}Extract.v" "$out/"
(cd "$out" && timeout 900 coqc -Q "$root/coq/theories" XV "${Name}Extract.v" > extract.log 2>&1) || { cat "$out/extract.log"; exit 1; }
cp "$here/common.ml" "$here/${name}_driver.ml" "$out/"
cd "$out"
files=$(ocamlfind ocamldep -sort *.mli *.ml)
timeout 900 ocamlfind ocamlopt -w -a -package str -linkpkg $files -o "$root/build/bin/${name}model"
