(* Extraction of M-SCHEMA (over M-ECS) for the correspondence check of C14.  Directives in force:
   those of ExtrOcamlBasic only.  Ecs/Model.v is extracted as module [Model], Schema/Model.v as
   module [Model0] (Coq renames the second library of the same short name). *)
From Coq Require Import NArith List.
From XV Require Import Base.Amap Ecs.Model Schema.Model.
Require Import ExtrOcamlBasic.
Extraction Language OCaml.
Separate Extraction
  N.add N.mul N.div_eucl N.eqb N.ltb N.of_nat
  Schema.Model.exec Schema.Model.export Schema.Model.import Schema.Model.init_repo
  Schema.Model.list_names Schema.Model.set_rnd Schema.Model.rename_schema Schema.Model.norm_schema
  Schema.Model.uniq_names Schema.Model.reload.
