(* Shared helpers for the model drivers: conversions between decimal strings / OCaml ints and
   the extracted binary numbers, and line-oriented IO.  Parsing and printing only. *)
open BinNums

let rec pos_of_int (i : int) : positive =
  if i = 1 then Coq_xH
  else if i land 1 = 0 then Coq_xO (pos_of_int (i lsr 1))
  else Coq_xI (pos_of_int (i lsr 1))
let n_of_int (i : int) : coq_N = if i = 0 then N0 else Npos (pos_of_int i)
let rec int_of_pos (p : positive) : int =
  match p with Coq_xH -> 1 | Coq_xO q -> 2 * int_of_pos q | Coq_xI q -> 2 * int_of_pos q + 1
let int_of_n (n : coq_N) : int = match n with N0 -> 0 | Npos p -> int_of_pos p

let ten = n_of_int 10
(* arbitrary size: decimal string <-> N through the extracted arithmetic *)
let n_of_string (s : string) : coq_N =
  let r = ref N0 in
  Stdlib.String.iter (fun c -> r := BinNat.N.add (BinNat.N.mul !r ten) (n_of_int (Char.code c - 48))) s;
  !r
let string_of_n (n : coq_N) : string =
  if n = N0 then "0" else begin
    let b = Buffer.create 24 in
    let rec go n acc = if n = N0 then acc else
      let (q, r) = BinNat.N.div_eucl n ten in go q (string_of_int (int_of_n r) :: acc) in
    Stdlib.List.iter (Buffer.add_string b) (go n []); Buffer.contents b end

let rec nat_of_int (i : int) : Datatypes.nat = if i <= 0 then Datatypes.O else Datatypes.S (nat_of_int (i - 1))
let rec int_of_nat (n : Datatypes.nat) : int = match n with Datatypes.O -> 0 | Datatypes.S m -> 1 + int_of_nat m

(* byte strings <-> list of N (one N per byte) *)
let bytes_of_string (s : string) : coq_N list = Stdlib.List.init (Stdlib.String.length s) (fun i -> n_of_int (Char.code s.[i]))
let string_of_bytes (l : coq_N list) : string =
  let b = Buffer.create 16 in Stdlib.List.iter (fun n -> Buffer.add_char b (Char.chr (int_of_n n land 255))) l; Buffer.contents b
let hex_of_string (s : string) : string =
  let b = Buffer.create 16 in Stdlib.String.iter (fun c -> Buffer.add_string b (Printf.sprintf "%02x" (Char.code c))) s; Buffer.contents b
let string_of_hex (h : string) : string =
  Stdlib.String.init (Stdlib.String.length h / 2) (fun i -> Char.chr (int_of_string ("0x" ^ Stdlib.String.sub h (2 * i) 2)))

let split_on c s = if s = "" then [] else Stdlib.String.split_on_char c s
let iter_lines (f : string -> unit) =
  try while true do f (input_line stdin) done with End_of_file -> ()
