(* globmodel: runs M-GLOB / IgnoreRules::check of M-WALK, one case per input line, one canonical
   answer line each.  Fields are separated by one space; every string field is the lowercase hex
   of its bytes, "-" for the empty string.
     m <globhex> <pathhex>              Match.glob_match           -> 1 | 0 | OOF
     p <g|f> <dirhex> <linehex> [<f36>] Pattern.pattern_new        -> glob=.. white=.. rel=.. dironly=.. | PANIC
     c <dirhex> <contenthex> [<f36>]    Pattern.content_to_patterns (SFile dir)
                                                                    -> <w|i>:<globhex>,... | - | PANIC
                                        (f36 = 0|1: the switch fixed_P36 of Pattern.pattern_new_panics, default 0)
     k <flags> <rules> <pathhex>        Model.check_str35 glob_matches flags (add_patterns empty_rules ..)
                                        rules = <dirhex>:<linehex>,... | -
                                                                    -> NoMatch | Ignore | Whitelist | PANIC
     K <flags> <globalshex> <rules> <pathhex>
                                        the same on add_patterns (global_rules globals) ..: IgnoreRules::from_global_patterns
                                        followed by add_patterns
     flags = <fixed_P17><fixed_P35><fixed_P36><fixed_P37>, four characters 0|1 (three: fixed_P37 = 0; one character:
                                        fixed_P17 only, the others 0).  fixed_P37 concerns the walks only (w, t): k / K are
                                        IgnoreRules::check on a string, which the repair of P37 leaves as it is
     w <flags> <nthreads> <globalshex> <entries> <sched> <rounds>
                                        entries = <d|f><pathhex>[:<contenthex>],... | -   (walkdrv's syntax; children
                                        of a directory are in the order of first appearance)
                                        sched = <thread>.<queuepos>,... | -     then <rounds> rounds of round robin
                                                                    -> spec=<paths>;serial=<paths>|OOF;par=<paths>;final=<0|1>;wf=<0|1>;panic=<0|1>
                                        (panic = Model.walk_panics: the real walk dies in Pattern::new)
                                        (spec and par sorted, serial in the order of the walk; a path is the hex
                                        of its '/'-joined components)
     t <flags> <nthreads> <globalshex> <entries> <events>
                                        events = <thread>.<start|pop|merge|check|push|exit>.<pathhex>[.<verdict>],...
                                        (thread 255 = the thread that called walk_parallel)
                                                                    -> ok <events accepted> <paths> | bad <events accepted> <reason>
   Parsing and printing only; the pieces of string preparation are [check_string], the path string
   IgnoreRules::check builds before it consults the patterns, and [tree_of_entries], which turns the
   flat entry list into the model's tree (the content of a directory's `.xvcignore` file entry is
   the directory's ignore text). *)
open Common

let unhex f = if f = "-" then "" else string_of_hex f
let hex s = if s = "" then "-" else hex_of_string s
let bytes_of_field f = bytes_of_string (unhex f)
let hex_of_bytes l = hex (string_of_bytes l)

let show_pattern (p : Pattern.pattern) =
  "glob=" ^ hex_of_bytes p.Pattern.p_glob
  ^ " white=" ^ (if p.Pattern.p_white then "1" else "0")
  ^ " rel=" ^ (match p.Pattern.p_rel with None -> "ANY" | Some d -> hex_of_bytes d)
  ^ " dironly=" ^ (if p.Pattern.p_dironly then "1" else "0")

let show_verdict = function
  | Model.NoMatch -> "NoMatch" | Model.Ignore -> "Ignore" | Model.Whitelist -> "Whitelist"

(* What IgnoreRules::check (root "/r") makes of the given path before matching:
   absolute path: "/" ^ path.strip_prefix("/r") (^ "/" when the given string ended in '/');
   Path::strip_prefix drops the separators around the remainder and panics (expect) when the path
   is not below the root; a relative path is used as given.
   Domain: no "." components, root written literally as "/r" (the generator keeps to that). *)
let check_string (p : string) : string option =
  let n = Stdlib.String.length p in
  if n > 0 && p.[0] = '/' then begin
    let final_slash = p.[n - 1] = '/' in
    if n >= 2 && p.[1] = 'r' && (n = 2 || p.[2] = '/') then begin
      let i = ref 2 and j = ref n in
      while !i < !j && p.[!i] = '/' do incr i done;
      while !j > !i && p.[!j - 1] = '/' do decr j done;
      Some ("/" ^ Stdlib.String.sub p !i (!j - !i) ^ (if final_slash then "/" else ""))
    end else None
  end else Some p

(* ---- trees ------------------------------------------------------------------------------------ *)
type node = { mutable kids : (string * node) list; (* newest first *) mutable isdir : bool; mutable content : string }
let new_node isdir content = { kids = []; isdir; content }

let tree_of_entries (entries : string) : (BinNums.coq_N list option) * ((BinNums.coq_N list * Model.tree) list) =
  let root = new_node true "" in
  if entries <> "-" then
    Stdlib.List.iter (fun e ->
        let kind = e.[0] in
        let rest = Stdlib.String.sub e 1 (Stdlib.String.length e - 1) in
        let (p, content) = match Stdlib.String.index_opt rest ':' with
          | Some i -> (Stdlib.String.sub rest 0 i, unhex (Stdlib.String.sub rest (i + 1) (Stdlib.String.length rest - i - 1)))
          | None -> (rest, "") in
        let comps = Stdlib.String.split_on_char '/' (unhex p) in
        let rec ins (n : node) = function
          | [] -> ()
          | [c] ->
            (match Stdlib.List.assoc_opt c n.kids with
             | Some k -> if kind = 'f' then (k.isdir <- false; k.content <- content)
             | None -> n.kids <- (c, new_node (kind = 'd') content) :: n.kids)
          | c :: r ->
            let k = match Stdlib.List.assoc_opt c n.kids with
              | Some k -> k
              | None -> let k = new_node true "" in n.kids <- (c, k) :: n.kids; k in
            ins k r in
        ins root comps)
      (Stdlib.String.split_on_char ',' entries);
  let rec conv (n : node) : Model.tree =
    if not n.isdir then Model.File
    else Model.Dir (ign_of n, kids_of n)
  and ign_of n =
    match Stdlib.List.assoc_opt ".xvcignore" n.kids with
    | Some k when not k.isdir -> Some (bytes_of_string k.content)
    | _ -> None
  and kids_of n = Stdlib.List.rev_map (fun (c, k) -> (bytes_of_string c, conv k)) n.kids in
  (ign_of root, kids_of root)

let show_path (p : BinNums.coq_N list list) = hex (Stdlib.String.concat "/" (Stdlib.List.map string_of_bytes p))
let show_paths ps = match ps with [] -> "-" | _ -> Stdlib.String.concat "," (Stdlib.List.map show_path ps)
let sorted_paths ps =
  match Stdlib.List.sort compare (Stdlib.List.map show_path ps) with [] -> "-" | l -> Stdlib.String.concat "," l
let path_of_field f : BinNums.coq_N list list =
  if f = "-" then [] else Stdlib.List.map bytes_of_string (Stdlib.String.split_on_char '/' (unhex f))
let bool_of_field = function "1" -> true | "0" -> false | x -> failwith ("bool " ^ x)
(* (fixed_P17, fixed_P35, fixed_P36, fixed_P37) *)
let flags_of_field f =
  let b c = match c with '1' -> true | '0' -> false | _ -> failwith ("flags " ^ f) in
  match Stdlib.String.length f with
  | 1 -> (b f.[0], false, false, false)
  | 3 -> (b f.[0], b f.[1], b f.[2], false)
  | 4 -> (b f.[0], b f.[1], b f.[2], b f.[3])
  | _ -> failwith ("flags " ^ f)
let verdict_of = function
  | "NoMatch" -> Model.NoMatch | "Ignore" -> Model.Ignore | "Whitelist" -> Model.Whitelist
  | x -> failwith ("verdict " ^ x)
let show_error = function
  | Trace.NotIdle -> "NotIdle" | Trace.NotInQueue -> "NotInQueue" | Trace.NotMerging -> "NotMerging"
  | Trace.WrongDirectory -> "WrongDirectory" | Trace.NotChecking -> "NotChecking" | Trace.WrongChild -> "WrongChild"
  | Trace.WrongVerdict v -> "WrongVerdict:model=" ^ show_verdict v | Trace.NotPushing -> "NotPushing"
  | Trace.StepRefused -> "StepRefused" | Trace.UnfinishedThread -> "UnfinishedThread"
  | Trace.QueueNotEmpty -> "QueueNotEmpty"

let source_of kind dir = match kind with
  | "g" -> Pattern.SGlobal
  | "f" -> Pattern.SFile (bytes_of_field dir)
  | _ -> failwith ("source " ^ kind)

let answer line =
  match Stdlib.String.split_on_char ' ' line with
  | ["m"; g; p] ->
    (match Match.glob_match (bytes_of_field g) (bytes_of_field p) with
     | Some true -> "1" | Some false -> "0" | None -> "OOF")
  | "p" :: kind :: dir :: l :: opt when Stdlib.List.length opt <= 1 ->
    let f36 = (match opt with [x] -> bool_of_field x | _ -> false) in
    let l = bytes_of_field l in
    if Pattern.pattern_new_panics f36 l then "PANIC"
    else show_pattern (Pattern.pattern_new (source_of kind dir) l)
  | "c" :: dir :: content :: opt when Stdlib.List.length opt <= 1 ->
    let f36 = (match opt with [x] -> bool_of_field x | _ -> false) in
    let content = bytes_of_field content in
    if Pattern.content_panics f36 content then "PANIC"
    else begin
      match Pattern.content_to_patterns (Pattern.SFile (bytes_of_field dir)) content with
      | [] -> "-"
      | ps -> Stdlib.String.concat "," (Stdlib.List.map (fun (p : Pattern.pattern) ->
          (if p.Pattern.p_white then "w:" else "i:") ^ hex_of_bytes p.Pattern.p_glob) ps)
    end
  | "k" :: flags :: rest | "K" :: flags :: rest when Stdlib.List.length rest = 2 || Stdlib.List.length rest = 3 ->
    let (fixed, f35, f36, _) = flags_of_field flags in
    let (globals, rules, path) = (match rest with
        | [r; p] -> (None, r, p)
        | [g; r; p] -> (Some (bytes_of_field g), r, p)
        | _ -> failwith "k") in
    let items = if rules = "-" then [] else Stdlib.List.map (fun it ->
        match Stdlib.String.split_on_char ':' it with
        | [d; l] -> (bytes_of_field d, bytes_of_field l)
        | _ -> failwith ("rule " ^ it)) (Stdlib.String.split_on_char ',' rules) in
    let global_panics = (match globals with
        | Some g -> Stdlib.List.exists (Pattern.pattern_new_panics f36) (Pattern.lines g)
        | None -> false) in
    if global_panics || Stdlib.List.exists (fun (_, l) -> Pattern.pattern_new_panics f36 l) items then "PANIC"
    else begin
      match check_string (unhex path) with
      | None -> "PANIC"
      | Some s ->
        let r0 = (match globals with Some g -> Model.global_rules g | None -> Model.empty_rules) in
        let r = Model.add_patterns r0
            (Stdlib.List.map (fun (d, l) -> Pattern.pattern_new (Pattern.SFile d) l) items) in
        show_verdict (Model.check_str35 Match.glob_matches fixed f35 r (bytes_of_string s))
    end
  | ["w"; flags; nth; globals; entries; sched; rounds] ->
    let (fixed, f35, f36, f37) = flags_of_field flags in
    let nth = nat_of_int (int_of_string nth) in
    let globals = bytes_of_field globals in
    let (ign, ch) = tree_of_entries entries in
    let sched = if sched = "-" then [] else Stdlib.List.map (fun it ->
        match Stdlib.String.split_on_char '.' it with
        | [i; k] -> (nat_of_int (int_of_string i), nat_of_int (int_of_string k))
        | _ -> failwith ("sched " ^ it)) (Stdlib.String.split_on_char ',' sched) in
    let gm = Match.glob_matches in
    let spec = Model.spec_walk gm fixed f35 f37 globals ign ch in
    let fuel = Datatypes.S (Model.dir_count (Model.Dir (ign, ch))) in
    let serial = Model.serial_walk gm fixed f35 f37 fuel globals ign ch in
    let c = Trace.par_walk_drained gm fixed f35 f37 nth globals ign ch sched (nat_of_int (int_of_string rounds)) in
    "spec=" ^ sorted_paths spec
    ^ ";serial=" ^ (match serial with Some l -> show_paths l | None -> "OOF")
    ^ ";par=" ^ sorted_paths c.Model.c_out
    ^ ";final=" ^ (if Model.final c then "1" else "0")
    ^ ";wf=" ^ (if Model.wf_tree (Model.Dir (ign, ch)) then "1" else "0")
    ^ ";panic=" ^ (if Model.walk_panics gm fixed f35 f37 f36 globals ign ch then "1" else "0")
  | ["t"; flags; nth; globals; entries; events] ->
    let (fixed, f35, _, f37) = flags_of_field flags in
    let nthreads = int_of_string nth in
    let globals = bytes_of_field globals in
    let (ign, ch) = tree_of_entries entries in
    let th_of s = let i = int_of_string s in nat_of_int (if i = 255 then nthreads else i) in
    let evs = if events = "-" then [] else Stdlib.List.map (fun it ->
        match Stdlib.String.split_on_char '.' it with
        | [th; "start"; _] -> Trace.EStart (th_of th)
        | [th; "pop"; p] -> Trace.EPop (th_of th, path_of_field p)
        | [th; "merge"; p] -> Trace.EMerge (th_of th, path_of_field p)
        | [th; "check"; p; v] -> Trace.ECheck (th_of th, path_of_field p, verdict_of v)
        | [th; "push"; p] -> Trace.EPush (th_of th, path_of_field p)
        | [th; "exit"; _] -> Trace.EExit (th_of th)
        | _ -> failwith ("event " ^ it)) (Stdlib.String.split_on_char ',' events) in
    (match Trace.tv_validate Match.glob_matches fixed f35 f37 (nat_of_int nthreads) globals ign ch evs with
     | (n, Datatypes.Coq_inl out) -> "ok " ^ string_of_n n ^ " " ^ sorted_paths out
     | (n, Datatypes.Coq_inr e) -> "bad " ^ string_of_n n ^ " " ^ show_error e)
  | _ -> failwith ("bad line: " ^ line)

let () =
  iter_lines (fun line ->
      let line = Stdlib.String.trim line in
      if line <> "" then begin
        (* a malformed line must not shift the answers of the lines after it *)
        let out = try answer line with e -> "ERROR " ^ Printexc.to_string e in
        print_string out; print_char '\n'
      end)
