(* globmodel: runs M-GLOB / IgnoreRules::check of M-WALK, one case per input line, one canonical
   answer line each.  Fields are separated by one space; every string field is the lowercase hex
   of its bytes, "-" for the empty string.
     m <globhex> <pathhex>              Match.glob_match           -> 1 | 0 | OOF
     p <g|f> <dirhex> <linehex>         Pattern.pattern_new        -> glob=.. white=.. rel=.. dironly=.. | PANIC
     c <dirhex> <contenthex>            Pattern.content_to_patterns (SFile dir)
                                                                    -> <w|i>:<globhex>,... | - | PANIC
     k <fixed01> <rules> <pathhex>      Model.check_str glob_matches fixed (add_patterns empty_rules ..)
                                        rules = <dirhex>:<linehex>,... | -
                                                                    -> NoMatch | Ignore | Whitelist | PANIC
   Parsing and printing only; the one piece of string preparation is [check_string], the path
   string IgnoreRules::check builds before it consults the patterns. *)
open Common

let unhex f = if f = "-" then "" else string_of_hex f
let hex s = if s = "" then "-" else hex_of_string s
let bytes_of_field f = bytes_of_string (unhex f)
let hex_of_bytes l = hex (string_of_bytes l)

let show_pattern (p : Pattern.pattern) =
  "glob=" ^ hex_of_bytes p.Pattern.p_glob
  ^ " white=" ^ (if p.Pattern.p_white then "1" else "0")
  ^ " rel=" ^ (match p.Pattern.p_rel with None -> "ANY" | Some d -> hex_of_bytes d)
  ^ " dironly=" ^ (if p.Pattern.p_dironly then "1" else "0")

let show_verdict = function
  | Model.NoMatch -> "NoMatch" | Model.Ignore -> "Ignore" | Model.Whitelist -> "Whitelist"

(* What IgnoreRules::check (root "/r") makes of the given path before matching:
   absolute path: "/" ^ path.strip_prefix("/r") (^ "/" when the given string ended in '/');
   Path::strip_prefix drops the separators around the remainder and panics (expect) when the path
   is not below the root; a relative path is used as given.
   Domain: no "." components, root written literally as "/r" (the generator keeps to that). *)
let check_string (p : string) : string option =
  let n = Stdlib.String.length p in
  if n > 0 && p.[0] = '/' then begin
    let final_slash = p.[n - 1] = '/' in
    if n >= 2 && p.[1] = 'r' && (n = 2 || p.[2] = '/') then begin
      let i = ref 2 and j = ref n in
      while !i < !j && p.[!i] = '/' do incr i done;
      while !j > !i && p.[!j - 1] = '/' do decr j done;
      Some ("/" ^ Stdlib.String.sub p !i (!j - !i) ^ (if final_slash then "/" else ""))
    end else None
  end else Some p

let source_of kind dir = match kind with
  | "g" -> Pattern.SGlobal
  | "f" -> Pattern.SFile (bytes_of_field dir)
  | _ -> failwith ("source " ^ kind)

let answer line =
  match Stdlib.String.split_on_char ' ' line with
  | ["m"; g; p] ->
    (match Match.glob_match (bytes_of_field g) (bytes_of_field p) with
     | Some true -> "1" | Some false -> "0" | None -> "OOF")
  | ["p"; kind; dir; l] ->
    let l = bytes_of_field l in
    if Pattern.pattern_new_panics l then "PANIC"
    else show_pattern (Pattern.pattern_new (source_of kind dir) l)
  | ["c"; dir; content] ->
    let content = bytes_of_field content in
    let rule_lines = Stdlib.List.map Pattern.strip_trailing_blanks
        (Stdlib.List.filter Pattern.is_rule_line (Pattern.lines content)) in
    if Stdlib.List.exists Pattern.pattern_new_panics rule_lines then "PANIC"
    else begin
      match Pattern.content_to_patterns (Pattern.SFile (bytes_of_field dir)) content with
      | [] -> "-"
      | ps -> Stdlib.String.concat "," (Stdlib.List.map (fun (p : Pattern.pattern) ->
          (if p.Pattern.p_white then "w:" else "i:") ^ hex_of_bytes p.Pattern.p_glob) ps)
    end
  | ["k"; fixed; rules; path] ->
    let fixed = (match fixed with "1" -> true | "0" -> false | _ -> failwith "fixed") in
    let items = if rules = "-" then [] else Stdlib.List.map (fun it ->
        match Stdlib.String.split_on_char ':' it with
        | [d; l] -> (bytes_of_field d, bytes_of_field l)
        | _ -> failwith ("rule " ^ it)) (Stdlib.String.split_on_char ',' rules) in
    if Stdlib.List.exists (fun (_, l) -> Pattern.pattern_new_panics l) items then "PANIC"
    else begin
      match check_string (unhex path) with
      | None -> "PANIC"
      | Some s ->
        let r = Model.add_patterns Model.empty_rules
            (Stdlib.List.map (fun (d, l) -> Pattern.pattern_new (Pattern.SFile d) l) items) in
        show_verdict (Model.check_str Match.glob_matches fixed r (bytes_of_string s))
    end
  | _ -> failwith ("bad line: " ^ line)

let () =
  iter_lines (fun line ->
      let line = Stdlib.String.trim line in
      if line <> "" then begin
        (* a malformed line must not shift the answers of the lines after it *)
        let out = try answer line with e -> "ERROR " ^ Printexc.to_string e in
        print_string out; print_char '\n'
      end)
