(* schedmodel: runs M-SCHED, one case per input line, one canonical output line each.
   Parsing and printing only; all decisions are made by the extracted functions.

   Line formats   (<cfg> and <events>/<tids> are separated by " | ")
     sched-info   <cfg>
     sched-accept <cfg> | <event> <event> ...
     sched-run    <cfg> | <tid> <tid> ...

   <cfg>   = pool=<n>;cap=<n>;fix=<7 bits: shared atomic P12 P13 P14 P14b P16>;exists=<p,p,..>;steps=<step>/<step>/..
   <step>  = <id>:<when D|A|N>:<deps>:<outs>:<proc>:<sup C|S|E>:<thor C|S|E>
   <deps>  = comma separated: S<id> | P<path> | G<p.p.p> | I<p.p~p.p> | N        (empty = none)
   <outs>  = <p.p.p>
   <proc>  = X | E<code>.<out bytes>.<err bytes>
   <event> = I:<i>:<state>:<from>:<slot> | P:<i>:<j>=<state>/<from>,.. | B:<i>:<state>:<from> | S:<i>
           | A:<i>:<slot> | X:<i>:<0|1> | R:<i>:<slot> | E:<i>:<0|1>
             states and events are indices into StepMachine.all_sstates / all_events; from "-" = FromInit
   <tid>   = s<i> | b<i> | p<i> | c<i>
*)
open Common
open Model

let nth_state k = Stdlib.List.nth StepMachine.all_sstates k
let nth_event k = Stdlib.List.nth StepMachine.all_events k
let index_in eqb x l =
  let rec go i = function [] -> -1 | y :: r -> if eqb x y then i else go (i + 1) r in go 0 l
let state_ix s = index_in StepMachine.sstate_eqb s StepMachine.all_sstates
let event_ix e = index_in StepMachine.event_eqb e StepMachine.all_events

let nlist sep s = Stdlib.List.map n_of_string (split_on sep s)

let parse_dep s =
  let body = Stdlib.String.sub s 1 (Stdlib.String.length s - 1) in
  match s.[0] with
  | 'S' -> DStep (n_of_string body)
  | 'P' -> DPath (n_of_string body)
  | 'G' -> DGlob (nlist '.' body)
  | 'I' -> (match Stdlib.String.split_on_char '~' body with
      | [m; r] -> DGlobItems (nlist '.' m, nlist '.' r)
      | _ -> failwith "glob items")
  | 'N' -> DNoPath
  | _ -> failwith ("dep " ^ s)

let parse_verdict = function "C" -> VChanged | "S" -> VSame | "E" -> VError | s -> failwith ("verdict " ^ s)

let parse_step s =
  match Stdlib.String.split_on_char ':' s with
  | [id; w; deps; outs; pr; sup; thor] ->
    { s_id = n_of_string id;
      s_when = (match w with "D" -> ByDeps | "A" -> Always | "N" -> Never | _ -> failwith "when");
      s_deps = Stdlib.List.map parse_dep (split_on ',' deps);
      s_outs = nlist '.' outs;
      s_proc = (if pr = "X" then CannotStart else
                  match Stdlib.String.split_on_char '.' (Stdlib.String.sub pr 1 (Stdlib.String.length pr - 1)) with
                  | [c; o; e] -> Exits (n_of_string c, n_of_string o, n_of_string e)
                  | _ -> failwith "proc");
      s_sup = parse_verdict sup; s_thor = parse_verdict thor }
  | _ -> failwith ("step " ^ s)

let parse_cfg s =
  let kv = Stdlib.List.map (fun f -> match Stdlib.String.index_opt f '=' with
      | Some i -> (Stdlib.String.sub f 0 i, Stdlib.String.sub f (i + 1) (Stdlib.String.length f - i - 1))
      | None -> failwith ("cfg field " ^ f)) (split_on ';' (Stdlib.String.trim s)) in
  let g k = try Stdlib.List.assoc k kv with Not_found -> failwith ("cfg key " ^ k) in
  let fx = g "fix" in
  if Stdlib.String.length fx <> 7 then failwith "fix: 7 bits expected";
  let b i = fx.[i] = '1' in
  { c_steps = Stdlib.List.map parse_step (split_on '/' (g "steps"));
    c_exists = nlist ',' (g "exists");
    c_pool = n_of_string (g "pool"); c_cap = n_of_string (g "cap");
    fix_shared_pool = b 0; fix_atomic_acquire = b 1; fixed_P12 = b 2; fixed_P13 = b 3; fixed_P14 = b 4;
    fixed_P14b = b 5; fixed_P16 = b 6 }

let parse_lstate st fr : lstate =
  (nth_state (int_of_string st), (if fr = "-" then None else Some (nth_event (int_of_string fr))))

let parse_event s =
  match Stdlib.String.split_on_char ':' s with
  | ["I"; i; st; fr; sl] -> TIter (n_of_string i, parse_lstate st fr, n_of_string sl)
  | ["P"; i; obs] ->
    TPoll (n_of_string i, Stdlib.List.map (fun o ->
        match Stdlib.String.split_on_char '=' o with
        | [j; l] -> (match Stdlib.String.split_on_char '/' l with
            | [st; fr] -> (n_of_string j, parse_lstate st fr) | _ -> failwith "obs")
        | _ -> failwith "obs") (split_on ',' obs))
  | ["B"; i; st; fr] -> TBull (n_of_string i, parse_lstate st fr)
  | ["S"; i] -> TStart (n_of_string i)
  | ["A"; i; sl] -> TAcquire (n_of_string i, n_of_string sl)
  | ["X"; i; ok] -> TExit (n_of_string i, ok = "1")
  | ["R"; i; sl] -> TRelease (n_of_string i, n_of_string sl)
  | ["E"; i; p] -> TEnd (n_of_string i, p = "1")
  | _ -> failwith ("event " ^ s)

let parse_tid s =
  let i = n_of_string (Stdlib.String.sub s 1 (Stdlib.String.length s - 1)) in
  match s.[0] with
  | 's' -> Step i | 'b' -> Bulletin i | 'p' -> Proc i | 'c' -> Crash i | _ -> failwith ("tid " ^ s)

let show_lstate ((st, fr) : lstate) =
  string_of_int (state_ix st) ^ "/" ^ (match fr with None -> "-" | Some e -> string_of_int (event_ix e))
let show_status = function TRun -> "run" | TFin -> "fin" | TDead true -> "panic" | TDead false -> "err"
let show_proc = function
  | NotStarted -> "-"
  | PRunning (o, e, ofl, efl) -> "r" ^ string_of_n o ^ "." ^ string_of_n e ^ "." ^ string_of_n ofl ^ "." ^ string_of_n efl
  | Exited c -> "x" ^ string_of_n c
let show_state (s : gstate) =
  Stdlib.String.concat ";" (Stdlib.List.map (fun (i, t) ->
      string_of_n i ^ ":" ^ show_lstate t.loc ^ ":" ^ show_status t.status ^ ":" ^ show_lstate t.bull
      ^ ":" ^ string_of_int (Stdlib.List.length t.chan) ^ ":" ^ show_proc t.proc) s.thr)
  ^ " slots=" ^ Stdlib.String.concat "," (Stdlib.List.map (fun (k, v) -> string_of_n k ^ "=" ^ string_of_n v) s.slots)
let b01 b = if b then "1" else "0"

let split2 line =
  (* "<a> | <b>" *)
  let n = Stdlib.String.length line in
  let rec find i = if i + 2 >= n then None
    else if line.[i] = ' ' && line.[i + 1] = '|' && line.[i + 2] = ' ' then Some i else find (i + 1) in
  match find 0 with
  | Some i -> (Stdlib.String.sub line 0 i, Stdlib.String.sub line (i + 3) (n - i - 3))
  | None -> if n >= 2 && Stdlib.String.sub line (n - 2) 2 = " |" then (Stdlib.String.sub line 0 (n - 2), "") else (line, "")

let verdict cfg s =
  let dn = all_doneb s in
  let s' = if dn then s else settle (nat_of_int 64) cfg s in
  "done=" ^ b01 dn ^ " stuck=" ^ b01 (stuckb cfg s') ^ " final=" ^ show_state s'

let () =
  iter_lines (fun line ->
      let line = Stdlib.String.trim line in
      if line <> "" then begin
        let out =
          try
            match Stdlib.String.index_opt line ' ' with
            | None -> failwith "bad line"
            | Some i ->
              let kind = Stdlib.String.sub line 0 i
              and rest = Stdlib.String.sub line (i + 1) (Stdlib.String.length line - i - 1) in
              let (c, body) = split2 rest in
              let cfg = parse_cfg c in
              (match kind with
               | "sched-info" ->
                 let ini = match init cfg with
                   | Accepted _ -> "ok" | Rejected Cycle -> "cycle" | Rejected StepNotFound -> "notfound"
                   | Rejected BadConfig -> "bad" in
                 "edges=" ^ Stdlib.String.concat "," (Stdlib.List.map (fun (a, b) -> string_of_n a ^ ">" ^ string_of_n b) (edges cfg))
                 ^ " topo=" ^ (match toposort cfg with
                     | Some o -> Stdlib.String.concat "," (Stdlib.List.map string_of_n o) | None -> "none")
                 ^ " init=" ^ ini
                 ^ " mixed=" ^ b01 (coq_Known_mixed cfg) ^ " bigerr=" ^ b01 (coq_Known_big_stderr cfg)
                 ^ " therr=" ^ b01 (coq_Known_thread_error cfg) ^ " globabs=" ^ b01 (coq_Known_glob_on_absent_output cfg)
                 ^ " tbl14b=" ^ b01 table_P14b
               | "sched-accept" ->
                 let evs = Stdlib.List.map parse_event (split_on ' ' (Stdlib.String.trim body)) in
                 (match accept cfg evs with
                  | None -> "NOINIT"
                  | Some (Datatypes.Coq_inl s) -> "ACCEPT " ^ verdict cfg s
                  | Some (Datatypes.Coq_inr (n, code)) -> "REJECT " ^ string_of_n n ^ " " ^ string_of_n code)
               | "sched-run" ->
                 let sch = Stdlib.List.map parse_tid (split_on ' ' (Stdlib.String.trim body)) in
                 (match init cfg with
                  | Rejected _ -> "NOINIT"
                  | Accepted s0 ->
                    let ((s, mx), ok) = run_obs cfg s0 sch Datatypes.O true in
                    "maxrun=" ^ string_of_int (int_of_nat mx) ^ " poolok=" ^ b01 (int_of_nat mx <= int_of_n cfg.c_pool)
                    ^ " depsok=" ^ b01 ok ^ " " ^ verdict cfg s)
               | _ -> failwith ("kind " ^ kind))
          with Failure m -> "ERROR " ^ m | Not_found -> "ERROR not found" | Invalid_argument m -> "ERROR " ^ m in
        print_string out; print_newline ()
      end)
