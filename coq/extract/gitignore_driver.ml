(* gitignoremodel: runs M-GITIGNORE (coq/theories/Gitignore/Model.v).  One case per line, one line out.
   A path is its components in hex joined by '/', the root is '-'.  Lists are comma separated, '-' = empty.
     init
         -> hex of the pattern lines of the initial root .gitignore (from Gen/GitignoreInitial.v)
     ref <files: dir=contenthex,..> <path> <f|d>
         -> "1"/"0" (reference semantics: ignored file / excluded directory), then " U" when a line of
            some file is outside the supported grammar
     esc <namehex>
         -> hex of escape_name (the name as repo-patches/75 writes it), then " V" when valid_name holds
     seq <flags: fixed_P17 fixed_nl fixed_P5 fixed_sn fixed_em fixed_P35 as six 0/1> <files> <dirs: path,..> <datehex> <watch: path,..>
         <stages separated by ';':  T:<dir targets>:<file targets> | H:<ops: D~path / F~path ,..> | M:<dests>>
         -> "ok|fuel <files after> <stage~target=WMP,..> <watch=I,..> sup=<0/1> wf=<0/1> nl=<0/1>"
            W = K_user_whitelist, M = K_engine_mismatch (both on the state before the stage), P = path_ok fixed_sn
            (not in the class special-name),
            I = ignored under the reference semantics in the final state
   Parsing and printing only. *)
open Common
open Model0

let bs f = bytes_of_string (string_of_hex f)
let hx l = hex_of_string (string_of_bytes l)
let path f = if f = "-" then [] else Stdlib.List.map bs (Stdlib.String.split_on_char '/' f)
let spath p = if p = [] then "-" else Stdlib.String.concat "/" (Stdlib.List.map hx p)
let lst f = if f = "-" then [] else Stdlib.String.split_on_char ',' f
let files f =
  Stdlib.List.map (fun kv ->
    match Stdlib.String.split_on_char '=' kv with
    | [k; v] -> (path k, bs v)
    | [k] -> (path k, [])
    | _ -> failwith "files") (lst f)
let sfiles gf =
  if gf = [] then "-" else
  Stdlib.String.concat "," (Stdlib.List.map (fun (k, v) -> spath k ^ "=" ^ hx v) gf)
let b c = c = '1'
let bit x = if x then "1" else "0"

let () =
  iter_lines (fun line ->
    let f = Stdlib.Array.of_list (Stdlib.List.filter (fun x -> x <> "") (Stdlib.String.split_on_char ' ' line)) in
    let out =
      try
        match f.(0) with
        | "init" -> hx init_content
        | "ref" ->
            let gf = files f.(1) in
            let p = path f.(2) in
            let r = if f.(3) = "d" then ignored_dir gf p else ignored gf p in
            bit r ^ (if supported gf then "" else " U")
        | "esc" ->
            let n = bs f.(1) in
            hx (escape_name n) ^ (if valid_name n then " V" else "")
        | "seq" ->
            let p17 = b f.(1).[0] and nl = b f.(1).[1] and p5 = b f.(1).[2] and sn = b f.(1).[3] and em = b f.(1).[4] in
            let p35 = Stdlib.String.length f.(1) > 5 && b f.(1).[5] in
            let gf0 = files f.(2) in
            let e = { e_dirs = Stdlib.List.map path (lst f.(3)); e_date = bs f.(4) } in
            let watch = Stdlib.List.map path (lst f.(5)) in
            let paths x = Stdlib.List.map path (lst x) in
            let stage s =
              match Stdlib.String.split_on_char ':' s with
              | ["T"; d; fl] -> CTrack (e, paths d, paths fl)
              | ["M"; d] -> CMoveRename (e, paths d)
              | ["H"; o] -> CHandler (e, Stdlib.List.map (fun o ->
                    let k = Stdlib.String.sub o 0 2 and p = path (Stdlib.String.sub o 2 (Stdlib.String.length o - 2)) in
                    if k = "D~" then IgnDir p else IgnFile p) (lst o))
              | _ -> failwith ("stage " ^ s) in
            let stages = if f.(6) = "-" then [] else Stdlib.List.map stage (Stdlib.String.split_on_char ';' f.(6)) in
            let build = xvc_build p17 p35 and chk = xvc_chk p17 p35 in
            let gf = ref gf0 and ok = ref true and bits = ref [] and wf = ref true and i = ref 0 in
            Stdlib.List.iter (fun c ->
              let per t =
                string_of_int !i ^ "~" ^ spath t ^ "=" ^ bit (coq_K_user_whitelist build chk nl sn em !gf c t)
                ^ bit (coq_K_engine_mismatch build chk nl sn em !gf c t) ^ bit (path_ok sn t) in
              bits := !bits @ Stdlib.List.map per (file_targets c);
              wf := !wf && wf_cmd sn c;
              let (gf', k) = run_cmd build chk nl p5 sn em !gf c in
              gf := gf'; ok := !ok && k; incr i) stages;
            (if !ok then "ok " else "fuel ") ^ sfiles !gf ^ " "
            ^ (if !bits = [] then "-" else Stdlib.String.concat "," !bits) ^ " "
            ^ (if watch = [] then "-" else Stdlib.String.concat "," (Stdlib.List.map (fun t -> spath t ^ "=" ^ bit (ignored !gf t)) watch))
            ^ " sup=" ^ bit (supported !gf) ^ " wf=" ^ bit !wf ^ " nl=" ^ bit (all_end_nl gf0)
        | _ -> "bad"
      with Failure m -> "bad " ^ m | Invalid_argument m -> "bad " ^ m | Not_found -> "bad notfound" in
    print_endline out)
