(* Extraction of M-GLOB (matcher, ignore-file lines) and of IgnoreRules::check from M-WALK for the
   correspondence check globmodel vs globdrv.  Directives in force: those of ExtrOcamlBasic only. *)
From Coq Require Import NArith List.
From XV Require Import Glob.Match Glob.Pattern Walker.Model.
Require Import ExtrOcamlBasic.
Extraction Language OCaml.
Separate Extraction
  N.add N.mul N.div_eucl N.eqb N.ltb N.of_nat
  Match.glob_match Match.glob_matches
  Pattern.pattern_new Pattern.pattern_new_panics Pattern.content_to_patterns Pattern.applies
  Pattern.lines Pattern.is_rule_line Pattern.strip_trailing_blanks
  Model.check_str Model.add_patterns Model.empty_rules.
