(* Extraction of M-GLOB (matcher, ignore-file lines) and of M-WALK (IgnoreRules::check, the reference
   walk, the serial walk, the parallel machine, the trace validator) for the correspondence checks
   globmodel vs globdrv / walkdrv.  Directives in force: those of ExtrOcamlBasic only. *)
From Coq Require Import NArith List.
From XV Require Import Glob.Match Glob.Pattern Walker.Model Walker.Trace.
Require Import ExtrOcamlBasic.
Extraction Language OCaml.
Separate Extraction
  N.add N.mul N.div_eucl N.eqb N.ltb N.of_nat
  Match.glob_match Match.glob_matches
  Pattern.pattern_new Pattern.pattern_new_panics Pattern.content_to_patterns Pattern.applies
  Pattern.lines Pattern.is_rule_line Pattern.strip_trailing_blanks
  Model.check_str Model.check_str35 Model.add_patterns Model.empty_rules Model.global_rules
  Model.walk_panics Pattern.content_panics
  Model.spec_walk Model.serial_walk Model.par_walk Model.final Model.dir_count Model.wf_tree
  Trace.par_walk_drained Trace.tv_validate.
