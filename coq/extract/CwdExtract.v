(* Extraction of M-CWD for the correspondence check cwdmodel vs cwddrv.  ExtrOcamlBasic only. *)
From Coq Require Import NArith List.
From XV Require Import Base.Bytes Glob.Match Cwd.Model Gen.CwdSites.
Require Import ExtrOcamlBasic.
Extraction Language OCaml.
Separate Extraction
  N.add N.mul N.div_eucl N.eqb N.ltb N.of_nat
  Match.glob_matches
  Model.resolve_store Model.resolve_disk Model.xvcpath_new Model.comps Model.plan_of Model.rebase_args
  Model.track_dir_targets Model.resolve_dest Model.list_name Model.sites_pinned Model.sites_fixed
  CwdSites.current_sites CwdSites.recognised.
