(* Extraction of M-GIT for the correspondence checks of C15 (gitmodel).  Directives in force: those
   of ExtrOcamlBasic only. *)
From Coq Require Import NArith List.
From XV Require Import Base.Amap Gen.GitignoreInitial Git.Model.
Require Import ExtrOcamlBasic.
Extraction Language OCaml.
Separate Extraction
  N.add N.mul N.div_eucl N.eqb N.ltb N.of_nat
  Model.diff_cached Model.stash_push_staged Model.checkout_b Model.checkout_ref Model.git_add
  Model.git_commit Model.stash_pop_index Model.git_auto_commit Model.git_auto_stage
  Model.git_checkout_ref Model.handle_git_automation Model.dispatch Model.user_view
  Model.git_commit_only Model.git_auto_commit_only Model.git_checkout_ref_plain Model.Known_class
  Model.Known_staged_and_unstaged_same_path Model.managed Model.ignored Model.head_tree
  Model.tget Model.tset Model.tree_eqb Model.delta_managed Model.apply_delta.
