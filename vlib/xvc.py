"""Running the real (hook-instrumented) xvc binary in scratch repositories."""
import os, subprocess, shutil, time
from . import common as C


class XvcRepo:
    """A scratch repository under $VERIF_TMP or the system temp dir (never under /repo or /verif).
    run() executes the xvc binary built from /repo's working tree; HOME and XDG_CONFIG_HOME are
    private to the repository so that no user/system configuration leaks in."""

    def __init__(self, xvc_bin, prefix="repo", git=True, init=True, init_args=()):
        self.xvc_bin = xvc_bin
        self.base = C.scratch_dir(prefix)
        self.root = os.path.join(self.base, "r")
        self.home = os.path.join(self.base, "home")
        os.makedirs(self.root); os.makedirs(os.path.join(self.home, ".config"))
        self.env = {"HOME": self.home, "XDG_CONFIG_HOME": os.path.join(self.home, ".config"),
                    "GIT_CONFIG_NOSYSTEM": "1", "GIT_AUTHOR_NAME": "u", "GIT_AUTHOR_EMAIL": "u@example.invalid",
                    "GIT_COMMITTER_NAME": "u", "GIT_COMMITTER_EMAIL": "u@example.invalid",
                    "RUST_BACKTRACE": "0", "TZ": "UTC"}
        if git:
            self.git("init", "-q", "-b", "main")
            self.git("config", "user.email", "u@example.invalid"); self.git("config", "user.name", "u")
        if init:
            r = self.xvc(*(["init"] + list(init_args) + ([] if git else ["--no-git"])))
            if r.failed:
                raise RuntimeError("xvc init failed: " + r.err)

    def path(self, *p):
        return os.path.join(self.root, *p)

    def git(self, *args, cwd=None, check=False):
        e = dict(C.BASE_ENV); e.update(self.env)
        p = subprocess.run(["git"] + list(args), cwd=cwd or self.root, env=e, stdout=subprocess.PIPE,
                           stderr=subprocess.PIPE, text=True, errors="replace")
        if check and p.returncode != 0:
            raise RuntimeError("git %s: %s" % (args, p.stderr))
        return p

    def xvc(self, *args, cwd=None, env=None, timeout=120, stdin=None):
        """runs `xvc <args>`; returns a Result (rc, out, err, failed, panicked).  xvc exits 0 on most
        errors, so `failed` also looks at stderr."""
        e = dict(C.BASE_ENV); e.update(self.env)
        if env:
            e.update(env)
        t0 = time.time()
        try:
            p = subprocess.run([self.xvc_bin] + [str(a) for a in args], cwd=cwd or self.root, env=e,
                               stdout=subprocess.PIPE, stderr=subprocess.PIPE, text=True, errors="replace",
                               timeout=timeout, input=stdin)
            return Result(p.returncode, p.stdout, p.stderr, time.time() - t0, False)
        except subprocess.TimeoutExpired as ex:
            def dec(x):
                return x.decode("utf-8", "replace") if isinstance(x, bytes) else (x or "")
            return Result(124, dec(ex.stdout), dec(ex.stderr), time.time() - t0, True)

    def write(self, rel, data, mtime_ns=None):
        p = self.path(rel)
        os.makedirs(os.path.dirname(p), exist_ok=True)
        # a user write replaces the entry: a symlink or a read-only (hard-linked) file is unlinked
        # first (we run as root, for whom the permission bits alone would not stop an in-place write)
        if os.path.lexists(p) and (os.path.islink(p) or not (os.lstat(p).st_mode & 0o200)):
            os.unlink(p)
        with open(p, "wb") as fh:
            fh.write(data if isinstance(data, bytes) else data.encode())
        if mtime_ns is not None:
            os.utime(p, ns=(mtime_ns, mtime_ns))

    def read(self, rel):
        try:
            with open(self.path(rel), "rb") as fh:
                return fh.read()
        except OSError:
            return None

    def cleanup(self):
        C.rm_rf(self.base)

    def __enter__(self):
        return self

    def __exit__(self, *a):
        self.cleanup()


class Result:
    def __init__(self, rc, out, err, secs, timed_out):
        self.rc, self.out, self.err, self.secs, self.timed_out = rc, out, err, secs, timed_out
        self.panicked = "panicked" in err or "panicked" in out
        self.failed = rc != 0 or self.panicked or "[ERROR]" in err or "[ERROR]" in out

    def __repr__(self):
        return "Result(rc=%s, failed=%s, out=%r, err=%r)" % (self.rc, self.failed, self.out[-300:], self.err[-300:])
