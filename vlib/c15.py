"""C15 -- xvc leaves the user's Git state alone.

The model has two control flows of the automation (switch fixed_P24 of Git/Model.v): the stash sandwich of the
pinned tree and the flow after the repair of P24 (repo-patches/83).  Which one the tree under test has is
decided on every run (probe_flow: argv of the binary; source_flow of the translator must agree); the class
predicate of P24 follows the switch, the formerly excluded inputs are generated for both flows.

proof (Props/C15.v over Git/Model.v, Gen/GitignoreInitial.v regenerated from /repo on every run)
 + (a) Git-model validation: generated Git states x the sub-commands xvc issues, real git vs gitmodel
 + (b) xvc correspondence: generated user states x xvc commands x settings; the argv sequence seen by
       tools/git-shim and the final Git state, predicted by the extracted model vs real
 + (c) an oracle written from the property text (plain git porcelain before/after), independent of
       the model, judging every real xvc run of (b).
Every scenario runs in its own scratch directory with its own HOME / XDG dirs, GIT_CONFIG_GLOBAL and
GIT_CONFIG_SYSTEM = /dev/null and the identity given through the environment."""
import os, re, json, hashlib, subprocess, itertools, shutil, importlib.util, time, threading
from concurrent.futures import ThreadPoolExecutor
from . import common as C

SHIM = os.path.join(C.ROOT, "tools", "git-shim")
KLASS_P24 = "staged-and-unstaged-same-path"
# which control flow the tree under test has: decided on every run by probe_flow (argv sequence of the binary
# through the git shim) and compared with what gen/gitignore_initial.py reads in the source.
# f24 = the repair of P24 is present (no stash; `git commit` limited by pathspecs; plain checkout for --from-ref)
FLOW = {"f24": False}
TRUSTED = [
    "Coq 8.16.1 kernel, coqc; vm_compute in Examples / *_refuted witnesses only; no native_compute",
    "axioms: none (Print Assumptions: Closed under the global context for every theorem of Props/C15.v)",
    "extraction: ExtrOcamlBasic only; ocamlfind ocamlopt 4.13.1; coq/extract/common.ml + git_driver.ml (parsing/printing)",
    "translator gen/gitignore_initial.py (regular expressions over core/src/lib.rs and core/src/util/git.rs): initial .gitignore table, xvc dir name, `git add` pathspecs, argv literals of the git calls; each construct it cannot parse turns a boolean false and an Example of Props/C15.v fails",
    "modelled, not verified: core/src/util/git.rs (stash_user_staged_files, unstash_user_staged_files, git_auto_commit, git_add_and_commit, git_auto_stage, git_checkout_ref, handle_git_automation) and the call pattern of lib/src/cli/mod.rs (command_matcher, dispatch_with_root) as Git/Model.v, with both control flows: the stash sandwich and the flow after the repair of P24 (git_auto_commit_only, git_checkout_ref_plain); what an xvc command writes is a parameter (delta) restricted to managed paths (.xvc/**, *.gitignore, *.xvcignore)",
    "switch fixed_P24 of the model: decided on every run by a probe run of the binary under test (argv sequence of `xvc file track` with a staged user file, recorded by tools/git-shim: stash push/pop and a bare `commit -m` = sandwich; no stash call and `commit -m <msg> -- <.xvc> *.gitignore *.xvcignore` = repaired; anything else is a correspondence failure) and compared with the flow gen/gitignore_initial.py source_flow() reads in core/src/util/git.rs (a half-applied repair is `mixed` = correspondence failure); every scenario's argv sequence and final state are then compared with the model under exactly this switch",
    "Git itself is an external program: M-GIT models diff --cached, stash push --staged, stash pop --index, checkout -b, checkout <ref>, add <pathspecs>, commit, commit -- <pathspecs> (commit --only) on trees of region-structured blobs; validated against the installed git (2.39.5) by part (a) on files whose lines are far apart (hunks = regions); merges inside one hunk, modes, symlinks, submodules, renames, sparse checkouts, hooks, a merge in progress and user git configuration are outside the model",
    "verdict of the Git-model validation: on generated states in which ignored files exist in the work tree only and the top stash entry has the shape of `git stash push --staged` or of a plain `git stash` of unstaged changes (everything xvc's automation can pop); other states (tracked ignored files, mixed stash entries) are explored and disagreements recorded in the evidence without verdict; after a conflicted or half-applied `stash pop` (model outcome Dirty) only exit codes are compared",
    "correspondence machinery: tools/git-shim (logs argv + exit status, delegates), vlib/c15.py (materialiser through git fast-import / update-index, snapshot through ls-files / ls-tree / for-each-ref / stash list, canonicaliser, oracle; the work-tree writes of a command handed to the model are inferred from the work tree before/after, minus what `git stash push --staged` reverted)",
    "oracle readings of the property text: a staged edit of a managed file (ignore file, file below .xvc/) may end up committed by xvc as it is in the work tree instead of staged (the property lets xvc commit these files), never lost; `read-only commands create no commit` is judged on states whose managed files have no pending work-tree change (hypothesis managed_clean of readonly_commands_commit_nothing)",
    "environment assumptions: the root .gitignore keeps the patterns written by xvc init and user ignore patterns do not cover managed paths; no concurrent git process; ideal blob identity (a blob is its content)",
]


# =================================================================================================
# scratch repositories
# =================================================================================================
def base_env(home):
    e = {k: v for k, v in C.BASE_ENV.items() if not (k.startswith("GIT_") or k.startswith("XVC_"))}
    e.update({
        "HOME": home, "XDG_CONFIG_HOME": os.path.join(home, ".config"), "XDG_DATA_HOME": os.path.join(home, ".local"),
        "GIT_CONFIG_GLOBAL": "/dev/null", "GIT_CONFIG_SYSTEM": "/dev/null", "GIT_CONFIG_NOSYSTEM": "1",
        "GIT_AUTHOR_NAME": "u", "GIT_AUTHOR_EMAIL": "u@example.invalid",
        "GIT_COMMITTER_NAME": "u", "GIT_COMMITTER_EMAIL": "u@example.invalid",
        "GIT_TERMINAL_PROMPT": "0", "GIT_PAGER": "cat", "PAGER": "cat", "GIT_EDITOR": "true",
        "TZ": "UTC", "LC_ALL": "C", "LANG": "C", "RUST_BACKTRACE": "0",
    })
    return e


class Repo:
    """a scratch Git repository (root = <base>/r) with a private HOME"""

    def __init__(self, prefix="c15", base=None):
        self.base = base or C.scratch_dir(prefix)
        self.root = os.path.join(self.base, "r")
        self.home = os.path.join(self.base, "home")
        os.makedirs(self.root, exist_ok=True)
        os.makedirs(os.path.join(self.home, ".config"), exist_ok=True)
        self.env = base_env(self.home)
        self.gitlog = os.path.join(self.base, "gitlog")
        self.tree_cache = {}     # commit/tree-ish sha -> {path: blob sha}
        self.blob_cache = {}     # blob sha -> bytes

    def git(self, *args, input=None, check=False):
        p = subprocess.run(["git"] + list(args), cwd=self.root, env=self.env, input=input,
                           stdout=subprocess.PIPE, stderr=subprocess.PIPE)
        out, err = p.stdout.decode("utf-8", "replace"), p.stderr.decode("utf-8", "replace")
        if check and p.returncode != 0:
            raise RuntimeError("git %s -> %d: %s" % (" ".join(args), p.returncode, err[-300:]))
        return p.returncode, out, err

    def xvc(self, xvc_bin, args, timeout=120):
        e = dict(self.env)
        e["XVC_VERIF_GIT_LOG"] = self.gitlog
        e["XVC_VERIF_REAL_GIT"] = shutil.which("git") or "git"
        try:
            p = subprocess.run([xvc_bin] + list(args), cwd=self.root, env=e, stdin=subprocess.DEVNULL,
                               stdout=subprocess.PIPE, stderr=subprocess.PIPE, timeout=timeout)
            return p.returncode, p.stdout.decode("utf-8", "replace"), p.stderr.decode("utf-8", "replace")
        except subprocess.TimeoutExpired:
            return 124, "", "timeout"

    def write(self, rel, data):
        p = os.path.join(self.root, rel)
        os.makedirs(os.path.dirname(p), exist_ok=True)
        if os.path.islink(p):
            os.unlink(p)
        with open(p, "wb") as fh:
            fh.write(data)

    def read(self, rel):
        p = os.path.join(self.root, rel)
        try:
            if os.path.islink(p):
                return b"link:" + os.readlink(p).encode()
            with open(p, "rb") as fh:
                return fh.read()
        except OSError:
            return None

    def cleanup(self):
        C.rm_rf(self.base)


# =================================================================================================
# blobs as regions
# =================================================================================================
PAD = 8


def initial_gitignore():
    spec = importlib.util.spec_from_file_location("gitignore_initial", os.path.join(C.ROOT, "gen", "gitignore_initial.py"))
    m = importlib.util.module_from_spec(spec); spec.loader.exec_module(m)
    src = open(os.path.join(C.REPO, "core", "src", "lib.rs")).read()
    c = m.rust_const(src, "GITIGNORE_INITIAL_CONTENT")
    return (c if c is not None else "\n.xvc/*\n!.xvc/store/\n!.xvc/ec/\n!.xvc/config.toml\n").replace("\\n", "\n")


def enc_blob(regs, header="", path=""):
    """region i = one line `# r<i>=<v>` followed by PAD lines that are the same in every version of the
    file and different for every path (so that git's rename detection never pairs two paths)"""
    out = [header]
    for i, v in enumerate(regs):
        out.append("# r%d=%d\n" % (i, v))
        for j in range(PAD):
            out.append("# pad %s %d.%d %s\n" % (path, i, j, hashlib.md5(("%s %d %d" % (path, i, j)).encode()).hexdigest()))
    return "".join(out).encode()


REG_RE = re.compile(r"# r(\d+)=(\d+)$")


def dec_blob(data, header="", path=""):
    """-> tuple of region values, or None when the bytes are not a region file"""
    try:
        s = data.decode()
    except UnicodeDecodeError:
        return None
    if not s.startswith(header):
        return None
    lines = s[len(header):].split("\n")
    if lines and lines[-1] == "":
        lines.pop()
    if len(lines) % (PAD + 1):
        return None
    regs = []
    for i in range(0, len(lines), PAD + 1):
        m = REG_RE.match(lines[i])
        if not m or int(m.group(1)) != i // (PAD + 1):
            return None
        k = i // (PAD + 1)
        if any(lines[i + 1 + j] != "# pad %s %d.%d %s" % (path, k, j, hashlib.md5(("%s %d %d" % (path, k, j)).encode()).hexdigest()) for j in range(PAD)):
            return None
        regs.append(int(m.group(2)))
    return tuple(regs)


def blob_sha(data):
    return hashlib.sha1(b"blob %d\0" % len(data) + data).hexdigest()


class Codec:
    """bytes <-> model blob.  strict=True (part a): every file is a region file (the root .gitignore
    after the initial content).  strict=False (part b): anything else is one region holding a hash."""

    def __init__(self, strict, header=""):
        self.strict, self.header = strict, header

    def enc(self, path, regs):
        return enc_blob(regs, self.header if path == ".gitignore" else "", path)

    def dec(self, path, data):
        r = dec_blob(data, self.header if (self.strict and path == ".gitignore") else "", path)
        if r is not None:
            return r
        if self.strict:
            raise ValueError("not a region file: %s" % path)
        return (int(hashlib.sha1(data).hexdigest()[:11], 16) + 1000,)


# =================================================================================================
# model state <-> text line of gitmodel
# =================================================================================================
def tree_s(t):
    return ";".join("%s:%s" % (p, ".".join(str(x) for x in t[p])) for p in sorted(t))


def tree_p(s):
    t = {}
    for e in s.split(";") if s else []:
        p, b = e.split(":", 1)
        if p not in t:
            t[p] = tuple(int(x) for x in b.split(".")) if b else ()
    return t


def refs_s(m):
    return ",".join("%s:%d" % (n, m[n]) for n in sorted(m))


def refs_p(s):
    m = {}
    for e in s.split(",") if s else []:
        n, i = e.rsplit(":", 1)
        m.setdefault(n, int(i))
    return m


def state_line(st, ops):
    """st: dict head/branches/tags/index/wt/stash/log(list of (id,parent,tree), newest first)"""
    h = st["head"]
    f = ["H=%s:%s" % (h[0], h[1]), "B=" + refs_s(st["branches"]), "T=" + refs_s(st["tags"]),
         "I=" + tree_s(st["index"]), "W=" + tree_s(st["wt"]),
         "S=" + "~".join("|".join(tree_s(x) for x in e) for e in st["stash"]),
         "L=" + "~".join("%d^%s^%s" % (i, "-" if p is None else p, tree_s(t)) for i, p, t in st["log"]),
         "O=" + ",".join(ops)]
    return " ".join(f)


def parse_model_out(line):
    """-> (results list, state dict or 'DIRTY' or None on error)"""
    if line.startswith("ERROR") or not line.startswith("R="):
        return None, None
    if line.endswith(" DIRTY"):
        return line[2:-6].split(";"), "DIRTY"
    fields = {}
    for tok in line.split(" "):
        k, _, v = tok.partition("=")
        fields[k] = v
    hk, _, hv = fields["H"].partition(":")
    st = {"head": (hk, int(hv) if hk == "d" else hv), "branches": refs_p(fields["B"]), "tags": refs_p(fields["T"]),
          "index": tree_p(fields["I"]), "wt": tree_p(fields["W"]),
          "stash": [tuple(tree_p(x) for x in e.split("|")) for e in fields["S"].split("~")] if fields["S"] else [],
          "log": []}
    for e in fields["L"].split("~") if fields["L"] else []:
        i, p, t = e.split("^")
        st["log"].append((int(i), None if p == "-" else int(p), tree_p(t)))
    return fields["R"].split(";") if fields["R"] else [], st


def reachable_log(st):
    """the commits reachable from HEAD, branches and tags (what a snapshot of a real repository sees)"""
    byid = {}
    for i, p, t in st["log"]:
        byid.setdefault(i, (p, t))
    todo = list(st["branches"].values()) + list(st["tags"].values())
    if st["head"][0] == "d":
        todo.append(st["head"][1])
    seen = {}
    while todo:
        i = todo.pop()
        if i in seen or i not in byid:
            continue
        seen[i] = byid[i]
        if byid[i][0] is not None:
            todo.append(byid[i][0])
    return seen


def canon(st):
    if st == "DIRTY" or st is None:
        return st
    return {"head": list(st["head"]), "branches": dict(st["branches"]), "tags": dict(st["tags"]),
            "index": {p: list(v) for p, v in st["index"].items()}, "wt": {p: list(v) for p, v in st["wt"].items()},
            "stash": [[{p: list(v) for p, v in t.items()} for t in e] for e in st["stash"]],
            "log": {str(i): [p, {q: list(v) for q, v in t.items()}] for i, (p, t) in sorted(reachable_log(st).items())}}


def diff_states(a, b):
    """first differences between two canonical states, as short strings"""
    if a == b:
        return []
    if not isinstance(a, dict) or not isinstance(b, dict):
        return ["%r vs %r" % (a if not isinstance(a, dict) else "state", b if not isinstance(b, dict) else "state")]
    out = []
    for k in ("head", "branches", "tags", "stash", "log"):
        if a[k] != b[k]:
            out.append("%s: model %s, git %s" % (k, json.dumps(a[k], sort_keys=True)[:300], json.dumps(b[k], sort_keys=True)[:300]))
    for k in ("index", "wt"):
        for p in sorted(set(a[k]) | set(b[k])):
            if a[k].get(p) != b[k].get(p):
                out.append("%s[%s]: model %s, git %s" % (k, p, a[k].get(p), b[k].get(p)))
    return out


# =================================================================================================
# materialise a model state in a real repository / take a snapshot of a real repository
# =================================================================================================
def materialise(repo, st, codec):
    """builds the Git state st in repo (freshly `git init`ed); returns sha -> id"""
    repo.git("init", "-q", "-b", "main", check=True)
    blobs, stream = {}, []
    marks = [0]

    def mark():
        marks[0] += 1
        return marks[0]

    def blob(path, regs):
        data = codec.enc(path, regs)
        k = blob_sha(data)
        if k not in blobs:
            m = mark(); blobs[k] = m
            stream.append(b"blob\nmark :%d\ndata %d\n" % (m, len(data)) + data + b"\n")
            repo.blob_cache[k] = data
        return blobs[k], k

    def commit(ref, tree, parents, msg):
        ms = [(p, blob(p, v)[0]) for p, v in sorted(tree.items())]
        m = mark()
        s = b"commit %s\nmark :%d\ncommitter u <u@example.invalid> 978307200 +0000\ndata %d\n%s\n" % (
            ref.encode(), m, len(msg), msg.encode())
        if parents:
            s += b"from :%d\n" % parents[0]
            for q in parents[1:]:
                s += b"merge :%d\n" % q
        s += b"deleteall\n"
        for p, bm in ms:
            s += b"M 100644 :%d %s\n" % (bm, p.encode())
        stream.append(s + b"\n")
        return m

    cmark, tmp_refs = {}, []
    for i, par, tree in reversed(st["log"]):
        ref = "refs/verif/c%d" % i
        cmark[i] = commit(ref, tree, [cmark[par]] if par is not None and par in cmark else [], "c%d" % i)
        tmp_refs.append(ref)
    stash_marks = []
    for k, (b, ix, w) in enumerate(reversed(st["stash"])):
        base = next((cmark[i] for i, par, tree in st["log"] if tree == b), None)
        if base is None:
            base = commit("refs/verif/s%db" % k, b, [], "stash base"); tmp_refs.append("refs/verif/s%db" % k)
        im = commit("refs/verif/s%di" % k, ix, [base], "index on x: stash %d" % k); tmp_refs.append("refs/verif/s%di" % k)
        wm = commit("refs/verif/s%dw" % k, w, [base, im], "On x: stash %d" % k); tmp_refs.append("refs/verif/s%dw" % k)
        stash_marks.append(wm)
    idx_blobs = {p: blob(p, v)[1] for p, v in st["index"].items()}
    mfile = os.path.join(repo.base, "marks")
    if stream:
        repo.git("fast-import", "--quiet", "--export-marks=" + mfile, input=b"".join(stream), check=True)
    sha_of = {}
    if os.path.exists(mfile):
        for ln in open(mfile):
            m, s = ln.split()
            sha_of[int(m[1:])] = s
    for wm in stash_marks:
        repo.git("stash", "store", "-m", "On x: stash", sha_of[wm], check=True)
    upd = ["delete %s" % r for r in tmp_refs]
    upd += ["create refs/heads/%s %s" % (n, sha_of[cmark[i]]) for n, i in st["branches"].items()]
    upd += ["create refs/tags/%s %s" % (n, sha_of[cmark[i]]) for n, i in st["tags"].items()]
    if upd:
        repo.git("update-ref", "--stdin", input=("\n".join(upd) + "\n").encode(), check=True)
    if st["head"][0] == "b":
        repo.git("symbolic-ref", "HEAD", "refs/heads/" + st["head"][1], check=True)
    else:
        repo.git("update-ref", "--no-deref", "HEAD", sha_of[cmark[st["head"][1]]], check=True)
    repo.git("read-tree", "--empty", check=True)
    if idx_blobs:
        repo.git("update-index", "--add", "--index-info", check=True,
                 input="".join("100644 %s\t%s\n" % (s, p) for p, s in sorted(idx_blobs.items())).encode())
    for p, v in st["wt"].items():
        repo.write(p, codec.enc(p, v))
    return {sha_of[m]: i for i, m in cmark.items()}


def ls_tree(repo, rev):
    if rev in repo.tree_cache:
        return repo.tree_cache[rev]
    rc, out, err = repo.git("ls-tree", "-r", "-z", rev, check=True)
    t = {}
    for e in out.split("\0"):
        if e:
            meta, p = e.split("\t", 1)
            t[p] = meta.split()[2]
    repo.tree_cache[rev] = t
    return t


def blob_bytes(repo, sha):
    if sha not in repo.blob_cache:
        p = subprocess.run(["git", "cat-file", "blob", sha], cwd=repo.root, env=repo.env, stdout=subprocess.PIPE, stderr=subprocess.PIPE)
        repo.blob_cache[sha] = p.stdout
    return repo.blob_cache[sha]


def walk_files(root):
    out = []
    for dp, dn, fn in os.walk(root):
        if dp == root and ".git" in dn:
            dn.remove(".git")
        for f in fn:
            out.append(os.path.relpath(os.path.join(dp, f), root))
        for d in list(dn):
            if os.path.islink(os.path.join(dp, d)):
                out.append(os.path.relpath(os.path.join(dp, d), root))
    return out


def snapshot(repo, ids, codec, wt_mode):
    """-> model state of the repository.  ids: sha -> id, extended in place (new commits get max+1 in
    parents-first order, as fresh_id does).  wt_mode 'all': every file below the root; 'git': tracked
    files and untracked files that are not ignored."""
    def tree_model(t):
        return {p: codec.dec(p, blob_bytes(repo, s)) for p, s in t.items()}
    st = {}
    rc, out, err = repo.git("for-each-ref", "--format=%(refname) %(objectname)")
    heads, tags = {}, {}
    for ln in out.splitlines():
        r, s = ln.split()
        if r.startswith("refs/heads/"):
            heads[r[11:]] = s
        elif r.startswith("refs/tags/"):
            tags[r[10:]] = s
    rc, out, err = repo.git("symbolic-ref", "-q", "HEAD")
    hsha = None
    if rc == 0:
        head = ("b", out.strip()[len("refs/heads/"):])
    else:
        hsha = repo.git("rev-parse", "HEAD", check=True)[1].strip()
        head = ("d", hsha)
    tips = sorted(set(list(heads.values()) + list(tags.values()) + ([hsha] if hsha else [])))
    commits = []
    if tips:
        rc, out, err = repo.git("rev-list", "--topo-order", "--reverse", "--parents", *tips, check=True)
        for ln in out.splitlines():
            f = ln.split()
            commits.append((f[0], f[1] if len(f) > 1 else None))
    for sha, par in commits:
        if sha not in ids:
            ids[sha] = (max(ids.values()) if ids else 0) + 1
    st["log"] = [(ids[s], ids[p] if p else None, tree_model(ls_tree(repo, s))) for s, p in reversed(commits)]
    st["branches"] = {n: ids[s] for n, s in heads.items()}
    st["tags"] = {n: ids[s] for n, s in tags.items()}
    st["head"] = head if head[0] == "b" else ("d", ids[hsha])
    rc, out, err = repo.git("ls-files", "-s", "-z", check=True)
    idx = {}
    for e in out.split("\0"):
        if e:
            meta, p = e.split("\t", 1)
            mode, sha, stage = meta.split()
            if stage != "0":
                return "DIRTY"
            idx[p] = sha
    st["index"] = tree_model(idx)
    if wt_mode == "all":
        paths = walk_files(repo.root)
    else:
        rc, out, err = repo.git("ls-files", "-z", "-c", "-o", "--exclude-standard", check=True)
        paths = sorted(set(p for p in out.split("\0") if p and (is_managed(p) or not p.startswith(DATA_DIR))))
    st["wt"] = {}
    for p in paths:
        d = repo.read(p)
        if d is not None:
            st["wt"][p] = codec.dec(p, d)
    rc, out, err = repo.git("stash", "list", "--format=%H")
    st["stash"] = []
    for s in out.split() if rc == 0 else []:
        st["stash"].append((tree_model(ls_tree(repo, s + "^1")), tree_model(ls_tree(repo, s + "^2")), tree_model(ls_tree(repo, s))))
    return st


# =================================================================================================
# (a) Git-model validation
# =================================================================================================
A_PATHS = [("a.txt", 2), ("d/b.txt", 1), ("c.txt", 1), (".xvc/ec/1", 1), (".xvc/store/s.json", 1), (".xvc/tmp/t", 1),
           (".xvc/config.toml", 1), ("d/.gitignore", 1), (".xvcignore", 1), (".gitignore", 1)]
A_OPS = ["diff", "push", "pop", "addv", "commit", "commitp", "commitp", "cob:nb", "cob:other", "con:other", "con:t1", "con:nosuch", "coi"]


def rnd_blob(rng, n):
    return tuple(rng.randrange(3) for _ in range(n))


IGNORED_PATHS = (".xvc/tmp/t",)


def mutate_tree(rng, t, p_edit, p_del, p_add, keep=(), paths=None):
    t = dict(t)
    for p, n in (paths or A_PATHS):
        r = rng.random()
        if p in t:
            if r < p_edit:
                v = list(t[p]); k = rng.randrange(n); v[k] = (v[k] + 1 + rng.randrange(2)) % 3; t[p] = tuple(v)
            elif r < p_edit + p_del and p not in keep:
                del t[p]
        elif r < p_add:
            t[p] = rnd_blob(rng, n)
    return t


def gen_git_state(rng, broad=False):
    """broad=False: the fragment the verdict is given on -- ignored files exist in the work tree only (never
    tracked, committed or stashed), and the top stash entry has one of the two shapes `git stash push --staged`
    (work-tree part = index part) and plain `git stash` of unstaged changes (index part = base) produce.
    broad=True: anything (explored, disagreements recorded without verdict)."""
    tracked = A_PATHS if broad else [(p, n) for p, n in A_PATHS if p not in IGNORED_PATHS]
    st = {"tags": {}, "stash": []}
    ncommits = rng.choice([0, 1, 1, 2, 2, 3])
    log, tree = [], {}
    for i in range(1, ncommits + 1):
        if i == 1:
            tree = {p: rnd_blob(rng, n) for p, n in tracked if rng.random() < 0.6 or p == ".gitignore"}
            par = None
        else:
            par = i - 1 if rng.random() < 0.8 else rng.randrange(1, i)
            tree = mutate_tree(rng, next(t for j, _, t in log if j == par), 0.3, 0.1, 0.2, keep=(".gitignore",), paths=tracked)
        log.insert(0, (i, par, tree))
    st["log"] = log
    if ncommits == 0:
        st["head"], st["branches"] = ("b", "main"), {}
    else:
        st["branches"] = {"main": rng.randrange(1, ncommits + 1)}
        if rng.random() < 0.6:
            st["branches"]["other"] = rng.randrange(1, ncommits + 1)
        if rng.random() < 0.4:
            st["tags"]["t1"] = rng.randrange(1, ncommits + 1)
        r = rng.random()
        if r < 0.7:
            st["head"] = ("b", "main")
        elif r < 0.8 and "other" in st["branches"]:
            st["head"] = ("b", "other")
        else:
            st["head"] = ("d", rng.randrange(1, ncommits + 1))
    hid = st["branches"].get(st["head"][1]) if st["head"][0] == "b" else st["head"][1]
    htree = next((t for j, _, t in log if j == hid), {})
    k = rng.random()
    idx = dict(htree) if k < 0.25 else mutate_tree(rng, htree, 0.25, 0.1, 0.15, paths=tracked)
    k = rng.random()
    wt = dict(idx) if k < 0.3 else mutate_tree(rng, idx, 0.2, 0.08, 0.15)      # the work tree may hold ignored files
    wt.setdefault(".gitignore", idx.get(".gitignore", (0,)))
    st["index"], st["wt"] = idx, wt
    if ncommits and rng.random() < 0.5:
        for k in range(rng.choice([1, 1, 2])):
            b = rng.choice(log)[2]
            shape = rng.choice(["staged", "plain"]) if (k == 0 and not broad) else "any"
            if shape == "staged":
                ix = mutate_tree(rng, b, 0.3, 0.1, 0.15, paths=tracked); w = dict(ix)
            elif shape == "plain":
                ix = dict(b); w = mutate_tree(rng, b, 0.3, 0.08, 0.0, paths=tracked)
            else:
                ix = dict(b) if rng.random() < 0.3 else mutate_tree(rng, b, 0.3, 0.1, 0.15, paths=tracked)
                w = dict(ix) if rng.random() < 0.6 else mutate_tree(rng, ix, 0.2, 0.05, 0.1, paths=tracked)
            if ix != b or w != b:
                st["stash"].append((b, ix, w))
    return st


def gen_git_case(rng, broad=False):
    st = gen_git_state(rng, broad)
    r = rng.random()
    if r < 0.15:
        ops = ["diff", "push", "addv", "commit", "pop"]          # the sandwich, all steps whatever the results
    elif r < 0.3:
        ops = ["addv", "commitp"]                                # the repaired flow (P24): add, commit limited by pathspecs
    elif r < 0.35:
        ops = rng.choice([["cob:nb", "addv", "commitp"], ["con:t1", "addv", "commitp"], ["commitp", "addv", "commitp"]])
    elif r < 0.42:
        ops = ["push", "pop"]
    else:
        op = rng.choice(A_OPS)
        if op == "coi":
            op = "coi:%d" % (rng.randrange(1, len(st["log"]) + 1) if st["log"] else 9)
        ops = [op]
    return {"kind": "git-op", "state": state_to_json(st), "ops": ops, "broad": broad}


def state_to_json(st):
    return {"head": list(st["head"]), "branches": st["branches"], "tags": st["tags"],
            "index": {p: list(v) for p, v in st["index"].items()}, "wt": {p: list(v) for p, v in st["wt"].items()},
            "stash": [[{p: list(v) for p, v in t.items()} for t in e] for e in st["stash"]],
            "log": [[i, p, {q: list(v) for q, v in t.items()}] for i, p, t in st["log"]]}


def state_from_json(j):
    tt = lambda t: {p: tuple(v) for p, v in t.items()}
    h = j["head"]
    return {"head": (h[0], h[1]), "branches": dict(j["branches"]), "tags": dict(j["tags"]), "index": tt(j["index"]),
            "wt": tt(j["wt"]), "stash": [tuple(tt(t) for t in e) for e in j["stash"]],
            "log": [(i, p, tt(t)) for i, p, t in j["log"]]}


def real_git_op(repo, op, ids):
    """-> result string in the format of gitmodel ('rc' or 'rc/paths')"""
    f = op.split(":")
    rid = {i: s for s, i in ids.items()}
    if f[0] == "diff":
        # the literal call of xvc decides emptiness; the set of names is compared without rename detection
        rc, out, err = repo.git("diff", "--name-only", "--cached")
        rc2, out2, err2 = repo.git("diff", "--name-only", "--cached", "--no-renames")
        if bool(out.strip()) != bool(out2.strip()):
            return "emptiness of diff --cached depends on rename detection"
        return "%d/%s" % (min(rc, 1), ",".join(sorted(set(out2.split()))))
    if f[0] == "push":
        rc, out, err = repo.git("stash", "push", "--staged")
    elif f[0] == "pop":
        rc, out, err = repo.git("stash", "pop", "--index")
    elif f[0] == "cob":
        rc, out, err = repo.git("checkout", "-b", f[1])
    elif f[0] == "con":
        rc, out, err = repo.git("checkout", f[1])
    elif f[0] == "coi":
        rc, out, err = repo.git("checkout", rid.get(int(f[1]), "0" * 40))
    elif f[0] in ("addv", "add"):
        rc, out, err = repo.git("add", "--verbose", os.path.join(repo.root, ".xvc"), "*.gitignore", "*.xvcignore")
        ps = sorted(set(m.group(1) for m in re.finditer(r"^(?:add|remove) '(.*)'$", out, re.M)))
        return "%d/%s" % (min(rc, 1), ",".join(ps))
    elif f[0] == "commit":
        rc, out, err = repo.git("commit", "-q", "-m", "m")
    elif f[0] == "commitp":
        rc, out, err = repo.git("commit", "-q", "-m", "m", "--", os.path.join(repo.root, ".xvc"), "*.gitignore", "*.xvcignore")
    else:
        raise ValueError(op)
    return str(min(rc, 1))


def run_git_case(case, gitmodel, codec):
    """-> (mismatch description or None, details)"""
    st = state_from_json(case["state"])
    line = state_line(st, case["ops"])
    rc, outl = C.run_lines(gitmodel, [line], timeout=60)
    mres, mst = parse_model_out(outl[0] if outl else "ERROR")
    if mres is None:
        return "gitmodel could not run the case: %s" % (outl[:1],), {}
    repo = Repo("c15a")
    try:
        ids = materialise(repo, st, codec)
        # the materialised repository must read back as the state (checks the machinery itself)
        back = snapshot(repo, ids, codec, "all")
        d0 = diff_states(canon(st), canon(back))
        if d0:
            return "materialise/snapshot round trip differs: " + "; ".join(d0[:3]), {"harness": True}
        rres = []
        for k, op in enumerate(case["ops"]):
            rres.append(real_git_op(repo, op, ids))
        rst = snapshot(repo, ids, codec, "all")
    finally:
        repo.cleanup()
    det = {"model_results": mres, "git_results": rres}
    # after a conflicted pop (model: Dirty) only the exit codes are compared
    if mst == "DIRTY" or rst == "DIRTY":
        # the model declares the state after a conflicted / half-applied pop unmodelled: exit codes only
        n = len(mres)
        if mst != "DIRTY" or [r.split("/")[0] for r in mres] != [r.split("/")[0] for r in rres[:n]]:
            return "conflict outcome differs: model %s %s, git %s %s" % (mres, "DIRTY" if mst == "DIRTY" else "clean", rres, "DIRTY" if rst == "DIRTY" else "clean"), det
        return None, det
    if mres != rres:
        return "results differ: model %s, git %s" % (mres, rres), det
    d = diff_states(canon(mst), canon(rst))
    if d:
        return "final state differs: " + "; ".join(d[:4]), det
    return None, det


# =================================================================================================
# (b) + (c) xvc scenarios
# =================================================================================================
FEATURES = ["staged_new", "staged_mod", "staged_del", "unstaged_edit", "untracked", "stash_entry", "detached",
            "staged_unstaged", "staged_gitignore", "staged_data_gitignore",
            # a staged hunk and an unstaged hunk on one MANAGED path: an ignore file, a file below .xvc/
            "staged_unstaged_gitignore", "staged_unstaged_xvc"]
COMMANDS = ["track", "list", "step", "checkignore", "root", "recheck"]
# `xvc init` in a Git repository that has no .xvc yet is run as well, judged by the oracle only: init builds
# its own configuration, so `-c git.command=<shim>` does not reach its Git calls and no argv can be compared
INIT = "init"
READONLY = {"list", "checkignore", "root"}
SETTINGS = ["default", "auto_stage", "nogit", "skipgit", "tobranch", "nogit_stage", "fromref"]
USER_FILES = {"src/a.txt": (1, 1), "notes.txt": (1,), "docs/u.txt": (1,), "del.txt": (1,), "p24.txt": (1, 1), "sub/.gitignore": (1,),
              "sub2/.gitignore": (1, 1)}
# a file of the user's below .xvc/ that Git does not ignore (!.xvc/store/) and xvc does not read
XVC_USER_FILE = ".xvc/store/verif-notes/n.txt"


class TemplateError(Exception):
    pass


def make_template(xvc_bin):
    """git init; xvc init; a tracked data file; user files committed by the user; a tag and a second branch"""
    t = Repo("c15tpl")
    t.git("init", "-q", "-b", "main", check=True)
    rc, out, err = t.xvc(xvc_bin, ["init"])
    if rc != 0 or "[ERROR]" in err or "panicked" in err:
        t.cleanup()
        raise TemplateError("`xvc init` fails in a fresh Git repository: %s %s" % (out[-300:], err[-300:]))
    t.write("data/t.bin", b"tracked data\n")
    rc, out, err = t.xvc(xvc_bin, ["file", "track", "data/t.bin"])
    if rc != 0 or "[ERROR]" in err or "panicked" in err:
        t.cleanup()
        raise TemplateError("`xvc file track` fails in a fresh repository: %s %s" % (out[-300:], err[-300:]))
    for p, v in USER_FILES.items():
        t.write(p, enc_blob(v, "", p))
    t.write(XVC_USER_FILE, enc_blob((1, 1), "", XVC_USER_FILE))
    t.git("add", XVC_USER_FILE, *sorted(USER_FILES), check=True)
    t.git("commit", "-q", "-m", "user files", check=True)
    t.git("tag", "v1", check=True)
    t.git("branch", "other", "HEAD~1", check=True)
    return t


def make_plain_template():
    """a Git repository with the user files and refs of make_template, but no xvc"""
    t = Repo("c15tpl0")
    t.git("init", "-q", "-b", "main", check=True)
    t.write("README", b"first\n")
    t.git("add", "README", check=True)
    t.git("commit", "-q", "-m", "first", check=True)
    for p, v in USER_FILES.items():
        t.write(p, enc_blob(v, "", p))
    t.git("add", *sorted(USER_FILES), check=True)
    t.git("commit", "-q", "-m", "user files", check=True)
    t.git("tag", "v1", check=True)
    t.git("branch", "other", "HEAD~1", check=True)
    return t


def apply_features(repo, feats):
    fs = set(feats)
    if "stash_entry" in fs:                      # an older stash entry of the user's (plain `git stash`)
        repo.write("docs/u.txt", enc_blob((4,), "", "docs/u.txt"))
        repo.git("stash", "push", "-q", "-m", "user stash", check=True)
    if "detached" in fs:
        repo.git("checkout", "-q", "--detach", check=True)
    if "staged_new" in fs:
        repo.write("new1.txt", enc_blob((5,), "", "new1.txt"))
        repo.git("add", "new1.txt", check=True)
    if "staged_mod" in fs:
        repo.write("src/a.txt", enc_blob((7, 1), "", "src/a.txt"))
        repo.git("add", "src/a.txt", check=True)
    if "staged_del" in fs:
        repo.git("rm", "-q", "del.txt", check=True)
    if "unstaged_edit" in fs:
        repo.write("notes.txt", enc_blob((9,), "", "notes.txt"))
    if "untracked" in fs:
        repo.write("untracked.txt", enc_blob((3,), "", "untracked.txt"))
    if "staged_unstaged" in fs:
        repo.write("p24.txt", enc_blob((2, 1), "", "p24.txt"))
        repo.git("add", "p24.txt", check=True)
        repo.write("p24.txt", enc_blob((2, 3), "", "p24.txt"))
    if "staged_gitignore" in fs:
        repo.write("sub/.gitignore", enc_blob((6,), "", "sub/.gitignore"))
        repo.git("add", "sub/.gitignore", check=True)
    if "staged_unstaged_gitignore" in fs:
        repo.write("sub2/.gitignore", enc_blob((2, 1), "", "sub2/.gitignore"))
        repo.git("add", "sub2/.gitignore", check=True)
        repo.write("sub2/.gitignore", enc_blob((2, 3), "", "sub2/.gitignore"))
    if "staged_unstaged_xvc" in fs and os.path.exists(os.path.join(repo.root, XVC_USER_FILE)):
        repo.write(XVC_USER_FILE, enc_blob((2, 1), "", XVC_USER_FILE))
        repo.git("add", XVC_USER_FILE, check=True)
        repo.write(XVC_USER_FILE, enc_blob((2, 3), "", XVC_USER_FILE))
    if "staged_data_gitignore" in fs and os.path.exists(os.path.join(repo.root, "data", ".gitignore")):
        with open(os.path.join(repo.root, "data", ".gitignore"), "ab") as fh:
            fh.write(b"# a line of the user's\n*.tmp\n")
        repo.git("add", "data/.gitignore", check=True)


def xvc_args(cmd, setting):
    g = ["-c", "git.command=" + SHIM]
    if setting == "auto_stage":
        g += ["-c", "git.auto_commit=false", "-c", "git.auto_stage=true"]
    elif setting == "nogit":
        g += ["-c", "git.use_git=false"]
    elif setting == "nogit_init":
        # `xvc init --no-git` INSIDE the user's Git repository: xvc must not use Git at all (only for the command init)
        return g + ["init", "--no-git"]
    elif setting == "nogit_stage":
        # Git use switched off wins over auto_stage: no Git call at all
        g += ["-c", "git.use_git=false", "-c", "git.auto_commit=false", "-c", "git.auto_stage=true"]
    elif setting == "skipgit":
        g += ["--skip-git"]
    elif setting == "tobranch":
        g += ["--to-branch", "feat"]
    elif setting == "fromref":
        g += ["--from-ref", "v1"]       # the tag on the commit HEAD is at: the switch asked for detaches HEAD, every tree stays
    c = {"track": ["file", "track", "data/n.bin"], "list": ["file", "list"],
         "step": ["pipeline", "step", "new", "-s", "s1", "-c", "echo hi"],
         "checkignore": ["check-ignore", "data/t.bin", "notes.txt"], "root": ["root"],
         "recheck": ["file", "recheck", "--as", "symlink", "data/t.bin"], "init": ["init"]}[cmd]
    return g + c


def setting_flags(setting):
    """use_git, auto_commit, auto_stage, skip_git, to_branch, from_ref"""
    return {"default": (1, 1, 0, 0, "-", "-"), "auto_stage": (1, 0, 1, 0, "-", "-"), "nogit": (0, 1, 0, 0, "-", "-"), "nogit_init": (0, 1, 0, 0, "-", "-"),
            "nogit_stage": (0, 0, 1, 0, "-", "-"), "skipgit": (1, 1, 0, 1, "-", "-"), "tobranch": (1, 1, 0, 0, "feat", "-"),
            "fromref": (1, 1, 0, 0, "-", "n:v1")}[setting]


MUTATING = {("stash", "push"), ("stash", "pop"), ("checkout",), ("add",), ("commit",)}
READ_ONLY_GIT = {"ls-files", "diff", "check-ignore", "rev-parse", "status", "config", "--version", "version"}


def parse_shim_log(path, root):
    """-> (trace tokens in the alphabet of the model, [(argv, rc)], unknown calls)"""
    toks, calls, unknown = [], [], []
    if not os.path.exists(path):
        return toks, calls, unknown
    for ln in open(path, errors="replace").read().split("\n"):
        if not ln.startswith("git\t"):
            continue
        f = ln.split("\t")
        rc = int(f[-1].split()[-1]) if f[-1].startswith("=> ") else -1
        a = f[1:-1]
        while a and a[0] in ("-C", "-c"):
            a = a[2:]
        calls.append((a, rc))
        if a[:3] == ["diff", "--name-only", "--cached"]:
            toks.append("diff")
        elif a[:3] == ["stash", "push", "--staged"] and len(a) == 3:
            toks.append("push")
        elif a[:3] == ["stash", "pop", "--index"] and len(a) == 3:
            toks.append("pop")
        elif a[:2] == ["checkout", "-b"] and len(a) == 3:
            toks.append("cob:" + a[2])
        elif a[:1] == ["checkout"] and len(a) == 2:
            toks.append("co:n:" + a[1])
        elif a[:1] == ["add"]:
            rest = [x for x in a[1:] if x != "--verbose"]
            if rest == [os.path.join(root, ".xvc"), "*.gitignore", "*.xvcignore"]:
                toks.append("addv" if "--verbose" in a else "add")
            else:
                unknown.append(a)
        elif a[:2] == ["commit", "-m"] and len(a) == 3:
            toks.append("commit")
        elif a[:2] == ["commit", "-m"] and len(a) > 3:
            # the repaired flow: the commit is limited to the pathspecs of the add
            if a[3:] == ["--", os.path.join(root, ".xvc"), "*.gitignore", "*.xvcignore"]:
                toks.append("commitp")
            else:
                unknown.append(a)
        elif a and a[0] in READ_ONLY_GIT:
            pass
        else:
            unknown.append(a)
    return toks, calls, unknown


DATA_DIR = "data/"     # where the scenarios keep the files xvc tracks (ignored by Git through data/.gitignore; C16's subject)


def is_managed(p):
    return p == ".xvc" or p.startswith(".xvc/") or p.endswith(".gitignore") or p.endswith(".xvcignore")


# ---- the oracle: plain git porcelain before / after (nothing of the model is used here) ---------
def observe(repo):
    o = {}
    g = lambda *a: repo.git(*a)[1]
    o["status"] = sorted(l for l in g("status", "--porcelain=v2", "--untracked-files=all").split("\n") if l)
    o["cached"] = g("diff", "--cached", "--no-color", "--no-ext-diff")
    o["cached_names"] = sorted(x for x in g("diff", "--cached", "--name-only", "-z").split("\0") if x)
    o["unstaged_names"] = sorted(x for x in g("diff", "--name-only", "-z").split("\0") if x)
    o["untracked"] = sorted(x for x in g("ls-files", "-z", "-o", "--exclude-standard").split("\0") if x)
    o["stash"] = g("stash", "list", "--format=%H %gs").strip().split("\n") if g("stash", "list").strip() else []
    o["refs"] = dict(l.split(" ", 1) for l in g("for-each-ref", "--format=%(refname) %(objectname)").split("\n") if l)
    rc, out, err = repo.git("symbolic-ref", "-q", "HEAD")
    o["branch"] = out.strip() if rc == 0 else None
    rc, out, err = repo.git("rev-parse", "-q", "--verify", "HEAD")
    o["head"] = out.strip() if rc == 0 else None
    # index entries (path -> blob) and hashes of every file below the root except .git, .xvc
    o["index"] = {}
    for e in g("ls-files", "-s", "-z").split("\0"):
        if e:
            meta, p = e.split("\t", 1)
            o["index"][p] = meta
    o["files"] = {}
    o["wt_blobs"] = {}                  # git blob ids of the managed work-tree files (what a commit of them would hold)
    for p in walk_files(repo.root):
        d = repo.read(p)
        if not p.startswith(".xvc/"):
            o["files"][p] = hashlib.sha256(d).hexdigest() if d is not None else None
        if is_managed(p) and d is not None and not os.path.islink(os.path.join(repo.root, p)):
            o["wt_blobs"][p] = blob_sha(d)
    return o


def status_unmanaged(lines):
    out = []
    for l in lines:
        f = l.split(" ")
        p = l[2:] if f[0] in ("?", "!") else (" ".join(f[8:]) if f[0] == "1" else " ".join(f[9:]).split("\t")[0] if f[0] == "2" else " ".join(f[10:]))
        if not is_managed(p) and not p.startswith(DATA_DIR):
            out.append(l)
    return out


def oracle(repo, before, after, cmd, setting, xvc_touched):
    """the property text, clause by clause -> list of violations (strings)"""
    bad = []
    commits_setting = setting in ("default", "tobranch", "fromref")

    def committed_as_is(p):
        """the managed file p, staged by the user before the run, is no longer staged because xvc committed it
        (the property lets xvc commit ignore files and files below .xvc/): HEAD moved, the work-tree file is
        what it was, and HEAD holds exactly that file"""
        if not commits_setting or after["head"] == before["head"]:
            return False
        w0, w1 = before["wt_blobs"].get(p), after["wt_blobs"].get(p)
        if w0 is None or w0 != w1:
            return False
        rc1, h, _ = repo.git("rev-parse", "-q", "--verify", "HEAD:" + p)
        return rc1 == 0 and h.strip() == w1
    # the clause on read-only commands presupposes that the managed files are committed/staged as they are in
    # the work tree (hypothesis managed_clean of readonly_commands_commit_nothing): pending edits of ignore
    # files and of files below .xvc/ are xvc's to commit after any command
    managed_clean_before = not any(is_managed(p) for p in before["unstaged_names"] + before["untracked"])
    # user's staged changes stay staged; unstaged and untracked stay as they were (paths xvc does not manage)
    if status_unmanaged(before["status"]) != status_unmanaged(after["status"]):
        b, a = set(status_unmanaged(before["status"])), set(status_unmanaged(after["status"]))
        bad.append("git status of user files changed: lost %s, new %s" % (sorted(b - a)[:3], sorted(a - b)[:3]))
    for p in sorted(set(before["cached_names"]) - set(after["cached_names"])):
        # a staged change of a managed file (the user staged an edit of a .gitignore) stays staged as well,
        # unless xvc is configured to stage/commit that very file because it wrote to it
        if not is_managed(p):
            bad.append("staged change of %s is no longer staged" % p)
        elif p not in xvc_touched and setting not in ("auto_stage",) and not committed_as_is(p):
            bad.append("staged change of %s (managed, not written by the command) is no longer staged and was not committed" % p)
    for p in sorted(set(after["cached_names"]) - set(before["cached_names"])):
        if not is_managed(p):
            bad.append("%s became staged" % p)
        elif setting in ("default", "tobranch", "fromref", "nogit", "nogit_init", "skipgit", "nogit_stage"):
            bad.append("managed file %s left staged although %s" % (p, "Git use is off" if setting == "nogit_stage" else "auto_stage is off"))
    for p in before["index"]:
        if not is_managed(p) and before["index"][p] != after["index"].get(p):
            bad.append("index entry of %s changed: %s -> %s" % (p, before["index"][p], after["index"].get(p)))
    for p in after["index"]:
        if not is_managed(p) and p not in before["index"]:
            bad.append("index entry of %s appeared" % p)
    # hashes of user files
    for p in sorted(set(before["files"]) | set(after["files"])):
        if is_managed(p) or p.startswith(DATA_DIR):
            continue
        if before["files"].get(p) != after["files"].get(p):
            bad.append("user file %s %s" % (p, "disappeared" if after["files"].get(p) is None else "changed" if p in before["files"] else "appeared"))
    # stash list
    if before["stash"] != after["stash"]:
        bad.append("stash list changed: %d -> %d entries (%s)" % (len(before["stash"]), len(after["stash"]), after["stash"][:1]))
    # current branch unless a switch was asked for
    if setting == "tobranch":
        # the switch was asked for: being on feat is fine, still being where we were (automation gave up) is
        # not a matter of this property; anything else is
        if after["branch"] not in ("refs/heads/feat", before["branch"]):
            bad.append("--to-branch feat ended on %s (was on %s)" % (after["branch"], before["branch"]))
    elif setting == "fromref":
        # the switch was asked for: `--from-ref v1` (a tag on the commit HEAD is at) detaches HEAD; when the
        # checkout was refused or the stash dance gave up, still being where we were is not a matter of this clause
        if after["branch"] not in (None, before["branch"]):
            bad.append("--from-ref v1 ended on %s (was on %s)" % (after["branch"], before["branch"]))
    elif before["branch"] != after["branch"]:
        bad.append("current branch changed: %s -> %s" % (before["branch"], after["branch"]))
    # all other refs
    cur = after["branch"]
    for r in sorted(set(before["refs"]) | set(after["refs"])):
        if r == "refs/stash" or r == cur:
            continue
        if before["refs"].get(r) != after["refs"].get(r):
            bad.append("ref %s changed: %s -> %s" % (r, before["refs"].get(r), after["refs"].get(r)))
    # new commits: on top of the old HEAD, only managed paths
    new = []
    if after["head"] != before["head"]:
        if before["head"] is None:
            bad.append("HEAD appeared")
        else:
            rc, out, err = repo.git("rev-list", "--first-parent", after["head"], "^" + before["head"])
            new = out.split()
            rc2, _, _ = repo.git("merge-base", "--is-ancestor", before["head"], after["head"])
            if rc2 != 0:
                bad.append("HEAD moved to %s which does not descend from the old HEAD %s" % (after["head"], before["head"]))
        for c in new:
            rc, out, err = repo.git("show", "--stat", "--format=", "--name-only", "-z", c)
            for p in (x.strip("\n") for x in out.split("\0")):
                if p and not is_managed(p):
                    bad.append("commit %s made by xvc contains user file %s" % (c[:8], p))
    if new and ((cmd in READONLY and managed_clean_before) or setting in ("nogit", "nogit_init", "skipgit", "auto_stage", "nogit_stage")):
        bad.append("%d commit(s) created by %s" % (len(new), "a read-only command" if cmd in READONLY else "a run with " + setting))
    return bad, len(new)


P24_SYMPTOMS = ("git status of user files changed", "staged change of ", "index entry of ", "user file ", "stash list changed")


def p24_symptoms_only(msgs):
    """what P24 does: the stash is not popped (or a stale entry is left), so staged changes leave index and work
    tree and the stash list grows.  Commits with user files, moved refs, a switched branch, newly staged
    files or a commit by a read-only command are never excused by the class."""
    return bool(msgs) and all(m.startswith(P24_SYMPTOMS) for m in msgs)


def sc_key(sc):
    return (tuple(sc["features"]), sc["command"], sc["setting"])


def known_class_real(before, xvc_touched, f24=False):
    """P24 class on the real before-state: a path with a staged change that also has an unstaged
    change or is written by the command.  The class follows the switch: with the repair of P24 in the tree
    under test it is empty (nothing is suppressed)"""
    if f24:
        return False
    st = set(before["cached_names"])
    return bool(st & (set(before["unstaged_names"]) | set(xvc_touched)))


# ---- one scenario ----------------------------------------------------------------------------------
def run_scenario(sc, xvc_bin, template, gitmodel, fixed=1, f24=None):
    """sc: {'features': [...], 'command': c, 'setting': s}.  -> result dict.  template: (with xvc, plain)"""
    repo = Repo("c15b")
    f24 = FLOW["f24"] if f24 is None else f24
    res = {"sc": sc, "oracle": [], "corr": [], "known": False}
    try:
        shutil.rmtree(repo.root)
        shutil.copytree(template[1 if sc["command"] == INIT else 0].root, repo.root, symlinks=True)
        apply_features(repo, sc["features"])
        if sc["command"] == "track":
            repo.write("data/n.bin", b"new data\n")
        codec = Codec(False)
        ids = {}
        st0 = snapshot(repo, ids, codec, "git")
        before = observe(repo)
        rc, out, err = repo.xvc(xvc_bin, xvc_args(sc["command"], sc["setting"]))
        res["xvc"] = {"rc": rc, "out": out[-400:], "err": err[-600:]}
        if rc == 124:                      # xvc did not finish in time: nothing can be judged (retried by the caller)
            res["timeout"] = True
            return res
        failed = rc != 0 or "[ERROR]" in err or "panicked" in err
        after = observe(repo)
        st1 = snapshot(repo, ids, codec, "git")
        toks, calls, unknown = parse_shim_log(repo.gitlog, repo.root)
        res["trace"] = toks
        # what the command wrote under managed paths (work tree after vs before)
        # (a managed path the user had staged and that now holds its HEAD version was reverted by
        #  `stash push --staged` and not restored by a refused pop: Git's doing, not a write of xvc)
        head0 = next((t for i, par, t in st0["log"] if i == (st0["branches"].get(st0["head"][1]) if st0["head"][0] == "b" else st0["head"][1])), {})

        def git_reverted(p):
            if p not in before["cached_names"] or st1 == "DIRTY":
                return False
            h, i, w, w1 = head0.get(p), st0["index"].get(p), st0["wt"].get(p), st1["wt"].get(p)
            if w1 == h:
                return True
            # a staged hunk reverted beside an unstaged hunk that stayed (region-wise reverse patch of the stash)
            if None not in (h, i, w, w1) and len(h) == len(i) == len(w) == len(w1):
                return all((w1[k] == w[k]) if h[k] == i[k] else (w[k] == i[k] and w1[k] == h[k]) for k in range(len(h)))
            return False
        touched = sorted(p for p in set(before["files"]) | set(after["files"])
                         if is_managed(p) and before["files"].get(p) != after["files"].get(p) and not git_reverted(p))
        xt = sorted(set(touched) | set(p for p in (st1["wt"] if st1 != "DIRTY" else {}) if p.startswith(".xvc/") and p not in st0["wt"]))
        res["known"] = known_class_real(before, xt, f24)
        ob, ncommits = oracle(repo, before, after, sc["command"], sc["setting"], xt)
        res["oracle"] = ob
        res["ncommits"] = ncommits
        res["staged_before"] = before["cached_names"]
        # ---- model prediction
        if sc["command"] == INIT:
            if failed and not res["known"]:
                res["corr"].append("xvc init failed: " + err[-200:].replace("\n", " "))
            return res
        if unknown:
            res["corr"].append("xvc issued git calls outside the model: %s" % (unknown[:3],))
        if st1 == "DIRTY":
            res["corr"].append("the index is unmerged after the run")
            return res
        delta = []
        for p in sorted(set(st0["wt"]) | set(st1["wt"])):
            if is_managed(p) and st0["wt"].get(p) != st1["wt"].get(p) and not git_reverted(p):
                delta.append("%s>%s" % (p, ".".join(str(x) for x in st1["wt"][p]) if p in st1["wt"] else "-"))
        ug, ac, ast, sk, tb, fr = setting_flags(sc["setting"])
        op = "disp!%d!%d!%d!%d!%s!%s!%d!%d!other!1!%s!" % (ug, ac, ast, sk, tb, fr, fixed, 1 if f24 else 0, "+".join(delta))
        rcm, outl = C.run_lines(gitmodel, [state_line(st0, [op])], timeout=60)
        mres, mst = parse_model_out(outl[0] if outl else "ERROR")
        if mres is None:
            res["corr"].append("gitmodel could not run the case: %s" % (outl[:1],))
            return res
        status, mtrace, mknown = mres[0].split("/")
        res["model"] = {"status": status, "trace": mtrace, "known": mknown}
        mt = [t for t in mtrace.split(",") if t]
        if mt != toks:
            res["corr"].append("argv sequence: model %s, xvc %s" % (",".join(mt), ",".join(toks)))
        if (status == "ok") != (not failed):
            res["corr"].append("outcome: model %s, xvc %s (%s)" % (status, "failed" if failed else "ok", err[-200:].replace("\n", " ")))
        d = diff_states(canon(mst), canon(st1))
        if d:
            res["corr"].append("final Git state: " + "; ".join(d[:4]))
        # the class predicate of the model and the one computed from plain git must agree
        if (mknown == "known=1") != res["known"]:
            res["corr"].append("class predicate: model %s, git-side %s" % (mknown, res["known"]))
        return res
    finally:
        repo.cleanup()


def all_scenarios():
    subs = [()]
    for k in (1, 2, 3):
        subs += list(itertools.combinations(FEATURES, k))
    for fs in subs:
        for c in COMMANDS:
            for s in SETTINGS:
                yield {"features": list(fs), "command": c, "setting": s}
        if "staged_data_gitignore" not in fs:
            yield {"features": list(fs), "command": INIT, "setting": "default"}
            # `xvc --skip-git init` in the user's Git repository: no Git operation at all (oracle only, like every init run)
            yield {"features": list(fs), "command": INIT, "setting": "skipgit"}
            yield {"features": list(fs), "command": INIT, "setting": "nogit_init"}


def pick_scenarios(rng, tier):
    al = list(all_scenarios())
    if tier != "quick":
        n = 1800
        must = [s for s in al if len(s["features"]) <= 1]
        rest = [s for s in al if len(s["features"]) > 1]
        rng.shuffle(rest)
        return must + rest[:max(0, n - len(must))]
    # quick: every single feature and the empty state with every command under the default setting and
    # with every setting under `track` and `list`; plus a seeded sample of the larger subsets
    must, seen = [], set()
    for s in al:
        k = (tuple(s["features"]), s["command"], s["setting"])
        if len(s["features"]) <= 1 and (s["setting"] == "default" or (s["command"] in ("track", "list") and s["setting"] in ("auto_stage", "tobranch"))
                                        or (s["command"] == "track" and s["setting"] in ("nogit", "skipgit", "nogit_stage", "fromref"))):
            must.append(s); seen.add(k)
    rest = [s for s in al if (tuple(s["features"]), s["command"], s["setting"]) not in seen]
    rng.shuffle(rest)
    return must + rest[:80]


# =================================================================================================
# the check
# =================================================================================================
def install_findings_fallback():
    """known_findings.json is assembled by the coordinator from findings.d/; until it contains the
    entries of this property, the fragment findings.d/C15.json is read directly (same content)."""
    orig = C.known_findings

    def kf(prop):
        r = orig(prop)
        try:
            data = json.load(open(os.path.join(C.ROOT, "known_findings.json")))
            if any(f.get("property") == prop for f in data.get("findings", [])):
                return r
        except (OSError, ValueError):
            pass
        p = os.path.join(C.ROOT, "findings.d", prop + ".json")
        if os.path.exists(p):
            return [f for f in json.load(open(p)) if f.get("property") == prop and f.get("status") == "open"]
        return r
    C.known_findings = kf


def regenerate():
    """-> (translator notes, control flow read in the source)"""
    spec = importlib.util.spec_from_file_location("gitignore_initial", os.path.join(C.ROOT, "gen", "gitignore_initial.py"))
    m = importlib.util.module_from_spec(spec); spec.loader.exec_module(m)
    return m.main(C.REPO, C.ROOT), m.source_flow(C.REPO)


PROBE_SC = {"features": ["staged_new"], "command": "track", "setting": "default"}


def probe_flow(xvc_bin, template, gitmodel, guess):
    """which control flow the binary under test has, from the argv sequence of one run with a staged user
    file: -> ('sandwich' | 'repaired' | 'inconclusive: ...', tokens).  Tried twice before 'inconclusive'."""
    toks = []
    for _ in range(2):
        r = _safe_sc(PROBE_SC, xvc_bin, template, gitmodel, f24=guess)
        toks = r.get("trace") or []
        stash = any(t in ("diff", "push", "pop") for t in toks)
        if "push" in toks and "pop" in toks and "commit" in toks and "commitp" not in toks:
            return "sandwich", toks
        if "commitp" in toks and not stash and "commit" not in toks:
            return "repaired", toks
    return "inconclusive: argv sequence %s" % ",".join(toks), toks


def shrink_scenario(sc, fails):
    feats = list(sc["features"])
    if len(feats) > 1:
        feats = C.shrink_list(feats, lambda fs: fails(dict(sc, features=fs)), max_rounds=12)
    return dict(sc, features=feats)


def run(chk, replay=None):
    tier, rng = chk.tier, chk.rng
    install_findings_fallback()
    chk.cov["trusted_base"] = TRUSTED
    chk.assumptions += ["the root .gitignore keeps the patterns written by xvc init; user ignore files do not cover managed paths",
                        "no other process touches the repository while xvc runs",
                        "data/ holds the files xvc tracks in the scenarios (ignored by Git through data/.gitignore): they are C16's subject and are left out of the user-file comparison",
                        "git version: " + C.sh("git --version")[1].strip()]
    notes, src_flow = regenerate()
    chk.cov["translator_notes"] = notes
    chk.cov["source_flow"] = src_flow
    chk.proof()
    gitmodel = C.ensure_model("Git", ["Base", "Git", "Gen"])
    xvc_bin = C.ensure_xvc()
    header = initial_gitignore()
    codec_a = Codec(True, header)
    threads = 10
    dist = {}

    corpus_dir = os.path.join(C.ROOT, "corpus", "C15")
    corpus = []
    if replay:
        corpus = [replay.get("input", replay)]
    elif os.path.isdir(corpus_dir):
        for f in sorted(os.listdir(corpus_dir)):
            if f.endswith(".json"):
                r = json.load(open(os.path.join(corpus_dir, f)))
                corpus.append(r.get("input", r))

    # ---------------- (a) Git-model validation
    acases = [c for c in corpus if c.get("kind") == "git-op"]
    if not replay:
        # verdict on the fragment xvc can reach (see gen_git_state); the broad generator explores the rest of
        # M-GIT: its disagreements are written to the evidence and to replay files, without verdict
        acases += [gen_git_case(rng, False) for _ in range(400 if tier == "quick" else 4500)]
        acases += [gen_git_case(rng, True) for _ in range(80 if tier == "quick" else 1500)]
    t0 = time.time()
    with ThreadPoolExecutor(threads) as ex:
        ares = list(ex.map(lambda c: _safe(run_git_case, c, gitmodel, codec_a), acases))
    # trouble of the machinery itself (e.g. the model binary being re-linked by a concurrent run of this check: exec
    # fails with EACCES for a moment) is not a verdict on the case: such cases are run again, one by one, after the
    # pool has drained; what still cannot run is reported
    transient = 0
    for k, (c, (err, det)) in enumerate(zip(acases, ares)):
        if err and (det or {}).get("harness"):
            for _ in range(3):
                time.sleep(2)
                ares[k] = _safe(run_git_case, c, gitmodel, codec_a)
                if not (ares[k][0] and (ares[k][1] or {}).get("harness")):
                    transient += 1
                    break
    abad, aexp = [], []
    for c, (err, det) in zip(acases, ares):
        key = ("a", json.dumps({k: v for k, v in c.items() if k != "broad"}, sort_keys=True))
        st = c["state"]
        nontrivial = bool(st["stash"]) or st["index"] != next((t for i, p, t in st["log"] if i == (st["branches"].get(st["head"][1]) if st["head"][0] == "b" else st["head"][1])), {})
        chk.count(key, nontrivial)
        for op in c["ops"]:
            dist["git:" + op.split(":")[0]] = dist.get("git:" + op.split(":")[0], 0) + 1
        if err:
            (aexp if c.get("broad") else abad).append((c, err, det))
    chk.cov["git_model_validation"] = {"cases": len(acases), "broad_cases": sum(1 for c in acases if c.get("broad")),
                                       "disagreements": len(abad), "exploratory_disagreements": len(aexp),
                                       "harness_errors_gone_on_rerun": transient,
                                       "wall_s": round(time.time() - t0, 1)}
    for k, (c, err, det) in enumerate(aexp[:5]):
        pth = chk.write_replay("explore%d" % k, {"kind": "exploratory-git-model-disagreement", "what": err, "input": c, "details": det})
        C.log("exploratory (no verdict): M-GIT vs git outside the validated fragment: %s -> %s" % (err[:160], pth))
    if acases:
        chk.sample(state_line(state_from_json(acases[-1]["state"]), acases[-1]["ops"])[:400])
    for c, err, det in abad[:3]:
        small = shrink_git_case(c, gitmodel, codec_a)
        e2, d2 = _safe(run_git_case, small, gitmodel, codec_a)
        chk.fail("correspondence", "M-GIT vs git: " + (e2 or err),
                 {"input": small, "details": d2 or det, "theorem_or_correspondence": "Git-model validation (gitmodel vs git %s)" % C.sh("git --version")[1].strip()},
                 name="gitop", has_input=False)

    # ---------------- (b) + (c) xvc scenarios
    scs = [c for c in corpus if c.get("kind") == "xvc-scenario"]
    if not replay:
        scs += [dict(s, kind="xvc-scenario") for s in pick_scenarios(rng, tier)]
    t0 = time.time()
    results = []
    if scs:
        try:
            template = (make_template(xvc_bin), make_plain_template())
        except TemplateError as e:
            # xvc cannot even set up a repository with Git automation on: nothing of (b)/(c) can run
            chk.fail("correspondence", str(e), {"theorem_or_correspondence": "dispatch vs xvc: template repository (git init; xvc init; xvc file track)"},
                     name="template", has_input=False)
            template, scs = None, []
        # ---- which control flow does the tree under test have?  (switch fixed_P24 of the model)
        if template:
            seen, ptoks = probe_flow(xvc_bin, template, gitmodel, src_flow["flow"] == "repaired")
            chk.cov["probe_flow"] = {"binary": seen, "argv": ptoks, "source": src_flow["flow"]}
            if seen.startswith("inconclusive") or src_flow["flow"] != seen:
                chk.fail("correspondence", "control flow of the Git automation: the binary shows %s, core/src/util/git.rs reads as %s (%s): "
                         "the model has the stash sandwich and the flow of the repair of P24, nothing in between"
                         % (seen, src_flow["flow"], ", ".join("%s=%s" % kv for kv in sorted(src_flow.items()) if kv[0] != "flow")),
                         {"theorem_or_correspondence": "switch fixed_P24: probe of the binary through tools/git-shim vs gen/gitignore_initial.py source_flow",
                          "probe_scenario": PROBE_SC, "argv": ptoks, "source_flow": src_flow}, name="flow", has_input=False)
            FLOW["f24"] = (seen == "repaired") if not seen.startswith("inconclusive") else (src_flow["flow"] == "repaired")
            chk.cov["switches"] = {"fixed_P20": True, "fixed_P24": FLOW["f24"]}
            chk.cov["claimed_for_this_tree"] = (
                ["C15_full_fixed", "known_class_empty_when_fixed", "fixed_flow_leaves_work_tree_and_stash_alone",
                 "from_ref_fixed_refused_changes_nothing", "checkout_carries_local_changes", "C15_full_holds_when_fixed"] if FLOW["f24"] else
                ["automation_preserves_user_view outside Known_class (P24 open)", "staged_and_unstaged_refuted"]) + [
                "readonly_commands_commit_nothing", "branch_switch_only_on_request", "automation_off_touches_nothing", "user_view_is_pointwise"]
            C.log("C15: control flow of the tree under test: %s (fixed_P24 = %s)" % (seen, FLOW["f24"]))
        try:
            with ThreadPoolExecutor(threads) as ex:
                results = list(ex.map(lambda s: _safe_sc(s, xvc_bin, template, gitmodel), scs))
            for k, r in enumerate(results):
                if any(m.startswith("harness error") for m in r["corr"]):
                    time.sleep(2)
                    results[k] = _safe_sc(r["sc"], xvc_bin, template, gitmodel)
            memo, memo_lock = {}, threading.Lock()
            for r in results:
                memo[sc_key(r["sc"])] = r

            def run_memo(s2):
                k = sc_key(s2)
                with memo_lock:
                    if k in memo:
                        return memo[k]
                r2 = _safe_sc(s2, xvc_bin, template, gitmodel)
                with memo_lock:
                    memo[k] = r2
                return r2

            def shrink_one(job):
                r, kind = job
                field = "oracle" if kind == "oracle" else "corr"
                small = shrink_scenario(r["sc"], lambda s2: bool(run_memo(s2)[field]))
                r2 = run_memo(small)
                if not r2[field]:
                    small, r2 = r["sc"], r
                return kind, small, r2

            jobs = []
            for r in results:
                sc = r["sc"]
                chk.count(("b",) + sc_key(sc), bool(r.get("staged_before")) and sc["setting"] not in ("nogit", "nogit_init", "skipgit", "nogit_stage"))
                for f in sc["features"] or ["none"]:
                    dist["feat:" + f] = dist.get("feat:" + f, 0) + 1
                dist["cmd:" + sc["command"]] = dist.get("cmd:" + sc["command"], 0) + 1
                dist["set:" + sc["setting"]] = dist.get("set:" + sc["setting"], 0) + 1
                if not r["corr"]:
                    chk.cov["traces_validated_against_impl"] += 1
                # an oracle failure and a disagreement with the model are two different reports: inside the
                # known class the model must still predict what xvc and git do
                if r["oracle"]:
                    jobs.append((r, "oracle"))
                if r["corr"]:
                    jobs.append((r, "correspondence"))
            with ThreadPoolExecutor(threads) as ex:
                shrunk = list(ex.map(shrink_one, jobs))
            reported = set()
            for kind, small, r2 in shrunk:
                msgs = r2["oracle"] if kind == "oracle" else r2["corr"]
                # the class is decided on the shrunk input, and only the symptoms of P24 are excused
                klass = KLASS_P24 if (kind == "oracle" and r2["known"] and p24_symptoms_only(msgs)) else None
                sig = (kind, klass) if klass else (kind, sc_key(small))
                if sig in reported or (not klass and len(reported) >= 6):
                    continue
                reported.add(sig)
                chk.fail(kind, ("after `xvc %s` (%s) on a user state with %s: " % (small["command"], small["setting"], "+".join(small["features"]) or "nothing pending")) + "; ".join(msgs[:3]),
                         {"input": dict(small, kind="xvc-scenario"), "oracle": r2["oracle"], "correspondence": r2["corr"],
                          "trace": r2.get("trace"), "model": r2.get("model"), "xvc": r2.get("xvc"),
                          "theorem_or_correspondence": "automation_preserves_user_view / dispatch vs xvc + git-shim"},
                         name="xvc", klass=klass, has_input=(kind == "oracle"))
        finally:
            if template:
                template[0].cleanup(); template[1].cleanup()
    ntimeout = sum(1 for r in results if r.get("timeout"))
    if results and ntimeout * 10 > len(results):
        chk.fail("correspondence", "%d of %d xvc runs did not finish within 120 s (twice each): the scenarios cannot be judged" % (ntimeout, len(results)),
                 {"theorem_or_correspondence": "dispatch vs xvc + git-shim"}, name="timeouts", has_input=False)
    chk.cov["xvc_scenarios"] = {"runs": len(results), "wall_s": round(time.time() - t0, 1), "timeouts_not_judged": ntimeout,
                                "oracle_failures": sum(1 for r in results if r["oracle"]),
                                "in_known_class": sum(1 for r in results if r["known"]),
                                "correspondence_failures": sum(1 for r in results if r["corr"]),
                                "commits_created": sum(r.get("ncommits", 0) for r in results)}
    for r in results[:3]:
        chk.sample({"scenario": r["sc"], "trace": r.get("trace"), "model": r.get("model")})
    chk.cov["rule"] = ("(a) one case = a generated Git state (0-3 commits, branches/tag/detached/unborn HEAD, index and work tree mutated from HEAD, 0-2 stash entries) x one sub-command "
                       "or the stash/add/commit/pop sandwich or the add/commit-with-pathspecs sequence of the repaired flow (also after checkout -b / checkout <tag>); non-trivial = the index differs from HEAD or the stash is not empty.  (b) one case = user-state feature subset (<=3 of 12: staged new file / modification / deletion, unstaged edit, untracked file, older stash entry, detached HEAD, staged+unstaged hunks on one path -- on a user file, on an ignore file, on a file below .xvc/ --, staged edit of a .gitignore xvc does not write, staged edit of the .gitignore xvc appends to) x xvc command (file track, file list, pipeline step new, check-ignore, root, file recheck; init in a plain Git repository, oracle only) x setting (default, auto_stage, use_git=false, use_git=false with auto_stage, --skip-git, --to-branch, --from-ref <tag on the current commit>); the class of P24 suppresses nothing when the probed flow is the repaired one; "
                       "non-trivial = something is staged before the run and Git automation is on.  distinct by input.")
    chk.cov["distribution"] = dist
    chk.cov["exhaustive"] = False
    return chk


def _safe(f, c, *a, retry=True):
    try:
        return f(c, *a)
    except Exception as e:                                   # harness trouble is a disagreement to look at, never silence
        if retry:
            return _safe(f, c, *a, retry=False)
        import traceback
        return "harness error: %r" % (e,), {"harness": True, "traceback": traceback.format_exc()[-500:]}


def _safe_sc(sc, xvc_bin, template, gitmodel, retry=True, f24=None):
    try:
        r = run_scenario(sc, xvc_bin, template, gitmodel, f24=f24)
        if r.get("timeout") and retry:
            return _safe_sc(sc, xvc_bin, template, gitmodel, retry=False, f24=f24)
        return r
    except Exception as e:
        if retry:
            return _safe_sc(sc, xvc_bin, template, gitmodel, retry=False, f24=f24)
        import traceback
        return {"sc": sc, "oracle": [], "corr": ["harness error: %r %s" % (e, traceback.format_exc()[-300:])], "known": False}


def shrink_git_case(case, gitmodel, codec):
    """drop stash entries, ops, then paths from all trees, while the disagreement stays"""
    def bad(c):
        e, d = _safe(run_git_case, c, gitmodel, codec)
        return bool(e) and not (d or {}).get("harness")
    cur = json.loads(json.dumps(case))
    if len(cur["ops"]) > 1:
        cur["ops"] = C.shrink_list(cur["ops"], lambda o: bad(dict(cur, ops=o)), max_rounds=10)
    if cur["state"]["stash"]:
        for k in range(len(cur["state"]["stash"]) - 1, -1, -1):
            c2 = json.loads(json.dumps(cur)); del c2["state"]["stash"][k]
            if bad(c2):
                cur = c2
    for p, _ in A_PATHS:
        if p == ".gitignore":
            continue
        c2 = json.loads(json.dumps(cur))
        s = c2["state"]
        trees = [s["index"], s["wt"]] + [t for e in s["stash"] for t in e] + [c[2] for c in s["log"]]
        if not any(p in t for t in trees):
            continue
        for t in trees:
            t.pop(p, None)
        if bad(c2):
            cur = c2
    return cur
