"""C17 -- each recheck method materialises what it promises.
proof (Props/C17.v) + correspondence repomodel (extracted M-REPO) vs the real xvc binary + an oracle
on lstat kind / mode / inode / link target of the workspace entry, the bytes through it, the cache
objects before and after an in-place edit of a copy, and the method recorded (store files and the rrm
column of `xvc file list`) against the method in force."""
from . import common as C, repo as R, repocheck as K


def nontrivial(sc):
    """the same path is materialised with >= 2 different methods in the history"""
    kinds = {}
    for j, it, b, a in K.before_after(sc):
        for p, e in a["ws"].items():
            if p in a["recs"]:
                k = e[0][0]
                kinds.setdefault(p, set()).add(k if k in ("L", "H") else ("F" if p in b["recs"] or it[0] != "W" else "-"))
    return any(len(v - {"-"}) >= 2 for v in kinds.values())


def run(chk, replay=None):
    chk.assumptions += ["reflink is a copy: the feature is off in the default build and on this file system"]
    return K.drive(chk, replay, "C17", K.gen_c17, K.c17_oracle, nontrivial, n_quick=90, n_thorough=500,
                   rule=("histories = track of 1-2 paths (often equal content) with a requested or the configured method, then a shuffled chain of "
                         "the 4 methods on one path (recheck --recheck-method m, sometimes --force, sometimes all paths) interleaved with deletion, "
                         "in-place edits, replacement + carry-in / track, touch + track --recheck-method, and plain rechecks after deletion (stored "
                         "method); 4 algorithms, 3 text-or-binary modes, 4 configured default methods; odd histories parallel, even --no-parallel; "
                         "`xvc file list` after every recheck. non-trivial = one path is materialised in >= 2 different kinds; distinct by whole history"),
                   theorems="method_materialises_recheck(_x) / method_materialises_track / method_materialises_track_all / C17_duplicates_full_fixed / track_method_unchanged_fixed / copy_independent / method_change_replaces_entry / stored_method_used_next_time",
                   list_kinds=("recheck",))
