"""C10 — pipeline steps run only after everything they depend on succeeded.
proof (Props/C10.v over Sched/Model.v + regenerated Gen/StepMachine.v) + trace validation of every real
`xvc pipeline run` against the extracted model + journal oracle written from the property text."""
import itertools, json
from . import common as C
from . import sched as S


def cases(chk, env):
    rng, tier = chk.rng, chk.tier
    out = list(S.load_corpus("C10"))
    nmax = 3 if tier == "quick" else 4
    for n in range(1, nmax + 1):
        dags = S.all_dags(n)
        if n == 4:
            dags = rng.sample(dags, 160)
        for es in dags:
            has_dependents = {j for _, j in es}
            durs = [60 if i in has_dependents else 0 for i in range(n)]
            exits_all = list(itertools.product([0, 1], repeat=n))
            if n == 4:
                exits_all = rng.sample(exits_all, 4)
            for exits in exits_all:
                out.append(S.explicit_spec(n, es, exits, ["D"] * n, 2, durs, rng.randrange(1, 1 << 30), "dag%d" % n))
            # when-modes on one step
            for i in range(n):
                for w in ("A", "N"):
                    pop = list(itertools.product([0, 1], repeat=n))
                    for exits in rng.sample(pop, min(len(pop), 1 if tier == "quick" else 3)):
                        whens = ["D"] * n
                        whens[i] = w
                        out.append(S.explicit_spec(n, es, exits, whens, rng.choice([1, 2]), durs, rng.randrange(1, 1 << 30), "when%d" % n))
    # cyclic graphs (self loops, 2- and 3-cycles), an unknown step name, cycles through files
    cyc = S.all_digraphs_with_cycle(2) + rng.sample(S.all_digraphs_with_cycle(3), 10 if tier == "quick" else 60)
    for es in cyc:
        n = 1 + max(max(e) for e in es)
        out.append(S.explicit_spec(n, es, [0] * n, ["D"] * n, 2, [0] * n, None, "cycle"))
    out.append(S.mkspec([S.step("a", deps=[("step", "ghost")]), S.step("b")], label="cycle:unknown-step"))
    out.append(S.mkspec([S.step("a", outs=["x.txt"], deps=[("file", "y.txt")]), S.step("b", outs=["y.txt"], deps=[("file", "x.txt")])], label="cycle:files"))
    out.append(S.mkspec([S.step("a", outs=["x.txt"], deps=[("file", "x.txt")])], label="cycle:self-file"))
    out.append(S.mkspec([S.step("a", outs=["d0/x.csv"], deps=[("glob", "d0/*.csv")]), S.step("b")], files={"d0/x.csv": "old\n"}, label="cycle:self-glob-present"))
    # implicit edges
    for k in range(50 if tier == "quick" else 400):
        out.append(S.random_graph_spec(rng, label="random"))
    # a second run after touching / editing inputs: up-to-date steps count as finished dependencies,
    # recorded glob items give edges
    for k in range(25 if tier == "quick" else 150):
        out.append(S.two_run_spec(rng, label="tworun"))
    # a producer added after the reader's glob items were recorded: the edge must exist in the second run too
    for k in range(4 if tier == "quick" else 20):
        out.append(S.late_producer_spec(rng, kind=["glob_items", "glob"][k % 2]))
    return out


def nontrivial(sp, rr, info):
    es = S.semantic_edges(sp)
    started = {n for k, n, _ in rr.journal if k == "S"}
    names = [s["name"] for s in sp["steps"]]
    if S.has_cycle(names, es):
        return True
    return any(i in started and j in started for i, j in es) or any(j in started and i not in started for i, j in es)


def run(chk, replay=None):
    S.install_findings(chk)
    chk.cov["trusted_base"] = S.TRUSTED
    chk.assumptions += ["step commands terminate", "journal lines are written with O_APPEND single writes (order of lines = order in time)"]
    with S.Env() as env:
        S.table_obligations(chk, env)
        chk.proof()
        S.probe_switches(chk, env)
        specs = ([replay["input"]] if "input" in replay else []) if replay else cases(chk, env)
        stats, rrs, infos, specs = S.drive(chk, env, "C10", specs, nontrivial)
        chk.cov["distribution"] = stats
        for sp in specs[:2] + specs[-2:]:
            chk.sample(json.dumps(S.strip_spec(sp))[:400])
    chk.cov["rule"] = ("one evaluation = one real `xvc pipeline run` (hook-instrumented binary) of a generated pipeline, its H1 trace replayed through the extracted model "
                       "and its journal judged by the C10 oracle. Cases: corpus; all labelled DAGs on <= %d steps from explicit step dependencies x all exit-code assignments; "
                       "always/never on each single step x sampled exit codes x pool 1/2; cyclic digraphs (self loops, 2-/3-cycles, through files, unknown step); random 4-6-step graphs with "
                       "file / lines / glob / glob-items edges, pre-existing outputs, durations 0/50/150 ms, jitter seeds. non-trivial = a dependent and its dependency both ran (ordering observed), "
                       "or a dependent was held back, or the graph is cyclic; distinct by spec" % (3 if chk.tier == "quick" else 4))
    chk.cov["exhaustive"] = False
    return chk
