"""Extra oracle-only probes of C01 (kept in a module of their own so that they can be called from vlib/c01.py).

invisible_damage_probe: `recheck --force` must replace a locally modified copy by the committed bytes ALSO when the
modification cannot be seen in the metadata (same size, same modification time) -- the model's environment
hypothesis `edits_visible` is about what the comparing commands can notice, not about what a forced restore does.
"""
import os
from .xvc import XvcRepo


def invisible_damage_probe(xvc, rng, parallel):
    """track (+ a carry-in that changes nothing, so that the recorded size / mtime are those of the workspace
    copy), damage some files in place keeping size and mtime, `recheck --force`: every damaged path must hold the
    committed bytes again.  Returns (scenario description, list of problems)."""
    n = rng.randint(2, 5)
    names = ["g%02d.%s" % (i, rng.choice(["txt", "dat", "bin"])) for i in range(n)]
    if rng.random() < 0.5:
        names = ["e/" + x if i % 2 else x for i, x in enumerate(names)]
    carry = rng.random() < 0.7
    targets = rng.random() < 0.5
    sc = {"files": names, "carry_in_first": carry, "explicit_targets": targets, "parallel": parallel}
    bad = []
    with XvcRepo(xvc, prefix="c01inv", git=False) as rp:
        want = {}
        for i, x in enumerate(names):
            want[x] = (("line %d of %s\n" % (i, x)) * (3 + i)).encode()
            rp.write(x, want[x])
        if rp.xvc("--skip-git", "file", "track", "--recheck-method", "copy", *names).failed:
            return sc, []
        if carry:
            rp.xvc("--skip-git", "file", "carry-in", *names)
        damaged = [x for x in names if rng.random() < 0.7] or names[:1]
        sc["damaged"] = damaged
        for x in damaged:
            full = rp.path(x)
            st = os.stat(full)
            os.chmod(full, 0o644)
            b = bytearray(want[x])
            k = rng.randrange(len(b))
            b[k] = (b[k] ^ 0x20) or 0x41            # one byte flipped: same size
            with open(full, "r+b") as fh:
                fh.write(bytes(b))
            os.utime(full, ns=(st.st_atime_ns, st.st_mtime_ns))
        args = ["--skip-git", "file", "recheck", "--force"] + (["--no-parallel"] if not parallel else []) + (names if targets else [])
        r = rp.xvc(*args)
        for x in damaged:
            got = rp.read(x)
            if got != want[x]:
                bad.append("`xvc file recheck --force%s%s` left %s with locally modified bytes (modified in place, same size and "
                           "modification time%s)%s" % ("" if parallel else " --no-parallel", " <targets>" if targets else "", x,
                                                        ", after a carry-in that changed nothing" if carry else "",
                                                        "; the command failed: " + (r.err or "")[-160:] if r.failed else ""))
    return sc, bad
