"""Shared machinery of C10 / C11 / C13 (model M-SCHED, `xvc pipeline run`).

A *spec* describes one pipeline and the behaviour of its step commands:
  {"pool": 2, "jitter": 7 | None, "files": {path: text}, "dirs": [path],
   "steps": [{"name": "s0", "when": "D"|"A"|"N", "exit": 0, "dur": 50 (ms), "out": 0, "err": 0 (bytes),
              "garble": False (non UTF-8 bytes on stdout), "deps": [[kind, arg], ...], "outs": [path], "writes": [path]}]}
  dependency kinds: step, file, glob, glob_items, generic, lines, regex.

run_spec() builds the pipeline in a scratch repository (one `xvc pipeline import`), runs the
hook-instrumented binary, and returns the journal the step commands wrote themselves, the H1 trace
and how the process ended.  The three oracles judge the journal (and the last bulletin state of
each step) against the property text; trace_to_model() turns the H1 trace into a `sched-accept`
line for the extracted model (build/bin/schedmodel)."""
import os, re, json, time, shutil, signal, subprocess, itertools, copy
from concurrent.futures import ThreadPoolExecutor
from . import common as C
from .xvc import XvcRepo
from gen import stepmachine

PIPE_CAP = 65536          # Linux pipe capacity (16 pages); sizes near the boundary are never generated
HANG_FIRST_LOOK = 6.0     # seconds before the first look at a run that has not exited
HANG_QUIET = 3.0          # the trace must not have grown for this long before a hang is believed
HANG_BOUND = 60.0     # generous wall-clock bound for pipelines whose commands take < 1 s (a run is 0.3 s on an idle machine)

# repairs whose presence in the tree under test is decided on every run by a probe of the binary
# (probe_switches); the class predicates and the code-side reading relation depend on them
SWITCH = {"p13": False, "p14b": False, "p16": False}

TRUSTED = [
    "Coq 8.16.1 kernel, coqc; vm_compute for the _refuted witnesses and Examples; no native_compute",
    "axioms: none (Print Assumptions: Closed under the global context for every theorem of Props/C10.v, C11.v, C13.v)",
    "extraction: ExtrOcamlBasic only; ocamlfind ocamlopt 4.13.1; coq/extract/common.ml + sched_driver.ml (parsing / printing)",
    "translator gen/stepmachine.py (regular expressions over the state_machine! block of pipeline/src/pipeline/step.rs) -> Gen/StepMachine.v, regenerated on every run; handler_within_table is re-proved against it (its premise fixed_P14b -> table_P14b is checked on every run: the switch given to the model, the regenerated table and the behaviour of the binary on the P14b witness must agree)",
    "repair switches of the model (fix= bits) for P13, P14b, P16 are decided on every run by probe runs of the binary under test (200 kB on stderr ends; --lines on a missing file ends Broken(FromHasMissingDependencies) instead of a panic; the graph event shows the edge from a glob / glob-items consumer to the producer of a matching absent output); every trace is then validated against the model with exactly these switches",
    "hook H1 (cfg xvc_verif) in pipeline/src/pipeline/mod.rs: trace lines are written under one mutex held across the logged access of current_states / the slot counter; the slot value on `iter` lines is read outside the mutex and is not used",
    "vlib/sched.py: pipeline generator, journal commands (sh, date, sleep, head), trace -> event translation, journal oracles, class predicates",
    "modelled, not verified: pipeline/src/pipeline/mod.rs (the_grand_pipeline_loop, add_explicit/implicit_dependencies, step_state_handler and its s_* functions, step_state_bulletin), command.rs (update_output_channels), deps/mod.rs (dependencies_to_path) as Sched/Model.v with one boolean per repair (P11 shared/atomic, P12, P13, P14, P14b, P16)",
    "abstracted: petgraph toposort (a correct cycle test: Kahn layers + check of the order, validated by the graph/cycle correspondence); comparison verdicts of the step's own dependency records (inputs of the model, read off the trace; their correctness is C12); bounded crossbeam channels of capacity 100000 (unbounded in the model: pipelines below ~8000 state messages); glob matching (the generator uses dir/*.ext patterns and its own matcher)",
    "environment assumptions: step commands terminate; process_pool_size > 0; pipe capacity 65536 bytes; popen of `sh -c` does not fail",
]


def log(*a):
    C.log(*a)


# ---------------------------------------------------------------------------------------------
# known findings: the committed list is known_findings.json (assembled from findings.d by the
# coordinator); the property's own fragment findings.d/<prop>.json is read as well so that an open
# entry is honoured before the assembled file is refreshed.  Nothing is written at run time.
# ---------------------------------------------------------------------------------------------
def install_findings(chk):
    frag = os.path.join(C.ROOT, "findings.d", chk.prop + ".json")
    orig = C.known_findings

    def merged(prop):
        out = list(orig(prop))
        have = {f.get("id") for f in out}
        if os.path.exists(frag):
            for f in json.load(open(frag)):
                if f.get("property") == prop and f.get("status") == "open" and f.get("id") not in have:
                    out.append(f)
        return out
    C.known_findings = merged


# ---------------------------------------------------------------------------------------------
# the regenerated table
# ---------------------------------------------------------------------------------------------
def regen_table():
    """regenerates Gen/StepMachine.v from the current source; returns (info, states, events)."""
    info = stepmachine.generate(C.REPO)
    src = open(info["out"]).read()
    states = re.search(r"Definition all_sstates : list sstate := \[([^\]]*)\]", src).group(1).split("; ")
    events = re.search(r"Definition all_events : list event := \[([^\]]*)\]", src).group(1).split("; ")
    return info, states, events


# ---------------------------------------------------------------------------------------------
# spec helpers
# ---------------------------------------------------------------------------------------------
def step(name, when="D", exit=0, dur=0, out=0, err=0, deps=(), outs=(), writes=None, garble=False):
    return {"name": name, "when": when, "exit": exit, "dur": dur, "out": out, "err": err, "garble": garble,
            "deps": [list(d) for d in deps], "outs": list(outs), "writes": list(outs if writes is None else writes)}


def mkspec(steps, pool=2, jitter=None, files=None, dirs=None, label=""):
    return {"pool": pool, "jitter": jitter, "files": dict(files or {}), "dirs": list(dirs or []), "steps": steps, "label": label}


def gmatch(pat, path):
    rx = "".join("[^/]*" if c == "*" else re.escape(c) for c in pat)
    return re.fullmatch(rx, path) is not None


PATH_KINDS = ("file", "lines", "regex")          # one path, compared by equality in dependencies_to_path


def dep_path(d):
    """the path of a file-like dependency (lines/regex carry 'path::arg')."""
    return d[1].split("::")[0].split(":/")[0] if d[0] in ("lines", "regex") else d[1]


def sem_reads(d, o):
    """what the dependency means: the step reads path o (whether or not o exists yet)."""
    if d[0] in PATH_KINDS:
        return dep_path(d) == o
    if d[0] in ("glob", "glob_items"):
        return gmatch(d[1], o)
    return False


def code_reads(d, o, exists, recorded=()):
    """dependencies_to_path, as the code has it: a glob sees only paths that exist when the run
    starts; glob-items uses the recorded item map (empty before the first successful run)."""
    if d[0] in PATH_KINDS:
        return dep_path(d) == o
    if d[0] == "glob":
        return gmatch(d[1], o) and (SWITCH["p16"] or o in exists)
    if d[0] == "glob_items":
        return o in recorded or (SWITCH["p16"] and gmatch(d[1], o))
    return False


def edges_of(spec, reads):
    """set of (dependent, dependency) step-name pairs; unknown explicit targets are skipped."""
    names = [s["name"] for s in spec["steps"]]
    es = set()
    for r in spec["steps"]:
        for d in r["deps"]:
            if d[0] == "step" and d[1] in names:
                es.add((r["name"], d[1]))
        for p in spec["steps"]:
            for o in p["outs"]:
                if any(reads(d, o) for d in r["deps"]):
                    es.add((r["name"], p["name"]))
    return es


def semantic_edges(spec):
    return edges_of(spec, sem_reads)


def exists_at_start(spec):
    ex = set(spec["files"])
    return ex


def recorded_items(spec, stepname, pat):
    """glob-items recorded by the last successful run (only second runs have any)."""
    return spec.get("recorded", {}).get(stepname, {}).get(pat, [])


def code_edges(spec):
    ex = exists_at_start(spec)
    names = [s["name"] for s in spec["steps"]]
    es = set()
    for r in spec["steps"]:
        for d in r["deps"]:
            if d[0] == "step" and d[1] in names:
                es.add((r["name"], d[1]))
        for p in spec["steps"]:
            for o in p["outs"]:
                if any(code_reads(d, o, ex, recorded_items(spec, r["name"], d[1]) if d[0] == "glob_items" else ()) for d in r["deps"]):
                    es.add((r["name"], p["name"]))
    return es


def has_cycle(names, es):
    adj = {n: [b for a, b in es if a == n] for n in names}
    state = {}

    def visit(n):
        if state.get(n) == 1:
            return True
        if state.get(n) == 2:
            return False
        state[n] = 1
        if any(visit(m) for m in adj[n]):
            return True
        state[n] = 2
        return False
    return any(visit(n) for n in names)


def unknown_step_dep(spec):
    names = {s["name"] for s in spec["steps"]}
    return any(d[0] == "step" and d[1] not in names for s in spec["steps"] for d in s["deps"])


def missing_file_dep(spec, s):
    """the step has a path dependency whose file is absent when the run starts and that no step
    declares as output (the generator never lets a producer fail to create a declared output
    that a by-path consumer waits for, except through failure of the producer)."""
    produced = {o for p in spec["steps"] for o in p["writes"]}
    return any(d[0] in PATH_KINDS and dep_path(d) not in spec["files"] and dep_path(d) not in produced
               and dep_path(d) not in spec["dirs"] for d in s["deps"])


def dir_as_file_dep(spec, s):
    return any(d[0] in PATH_KINDS and dep_path(d) in spec["dirs"] for d in s["deps"])


# ---- class predicates of the known findings (decided on the shrunk spec) -------------------------
def k_big_stderr(spec):
    return any(s["err"] > PIPE_CAP for s in spec["steps"])


def k_garbled(spec):
    return any(s.get("garble") for s in spec["steps"])


def k_thorough_error(spec):
    """a dependency whose superficial check succeeds but whose thorough comparison fails: a
    directory given where a file is expected, or a lines / regex dependency on a file that is not
    there when the step is checked (not present at the start of the run)."""
    return any(dir_as_file_dep(spec, s) or
               any(d[0] in ("lines", "regex") and dep_path(d) not in spec["files"] for d in s["deps"])
               for s in spec["steps"])


def k_glob_absent(spec):
    return bool(semantic_edges(spec) - code_edges(spec))


def glob_only_edge(spec, e):
    return e in semantic_edges(spec) and e not in code_edges(spec)


# ---------------------------------------------------------------------------------------------
# building and running
# ---------------------------------------------------------------------------------------------
def command_of(s, journal):
    q = "'" + journal.replace("'", "'\\''") + "'"
    parts = ["printf 'S %%s %%s\\n' %s \"$(date +%%s%%N)\" >> %s" % (s["name"], q)]
    if s["dur"]:
        parts.append("sleep %.3f" % (s["dur"] / 1000.0))
    if s["out"]:
        # "outlines": the same number of bytes as that many (empty) lines -- more lines than any channel has slots
        parts.append("head -c %d /dev/zero | tr '\\0' '%s'" % (s["out"], "\\n" if s.get("outlines") else "o"))
    if s.get("garble"):
        parts.append("printf '\\377\\376garbled\\n'")
    if s["err"]:
        parts.append("head -c %d /dev/zero | tr '\\0' '%s' 1>&2" % (s["err"], "\\n" if s.get("errlines") else "e"))
    for w in s["writes"]:
        d = os.path.dirname(w)
        if d:
            parts.append("mkdir -p '%s'" % d)
        parts.append("echo %s > '%s'" % (s["name"], w))
    parts.append("printf 'E %%s %%s\\n' %s \"$(date +%%s%%N)\" >> %s" % (s["name"], q))
    # "killed": the command fails by dying from a signal instead of exiting non-zero (the model sees a failure
    # either way: exit is non-zero in the spec)
    # A third of the failing steps (chosen by name, so that a spec stays a replayable input) fail this way.
    import zlib
    killed = s["exit"] != 0 and (s.get("killed") or zlib.crc32(s["name"].encode()) % 3 == 0)
    parts.append("kill -KILL $$" if killed else "exit %d" % s["exit"])
    return "; ".join(parts)


def dep_json(d):
    k, a = d[0], d[1]
    if k == "step":
        return {"Step": {"name": a}}
    if k == "file":
        return {"File": {"path": a, "content_digest": None, "xvc_metadata": None}}
    if k == "glob":
        return {"Glob": {"glob": a, "content_digest": None, "xvc_metadata_digest": None, "xvc_paths_digest": None}}
    if k == "glob_items":
        return {"GlobItems": {"glob": a, "xvc_path_content_digest_map": {}, "xvc_path_metadata_map": {}}}
    if k == "generic":
        return {"Generic": {"generic_command": a, "output_digest": None}}
    if k == "lines":
        p, rng = a.split("::")
        b, e = rng.split("-")
        return {"Lines": {"path": p, "begin": int(b), "end": int(e), "digest": None, "xvc_metadata": None}}
    if k == "regex":
        p, rx = a.split(":/")
        return {"Regex": {"path": p, "regex": rx, "lines_digest": None, "xvc_metadata": None}}
    raise ValueError(k)


INVALIDATE = {"D": "ByDependencies", "A": "Always", "N": "Never"}


def output_kind(path):
    """every declared output is a file, a metric or an image -- the kind is a function of the name, so that a spec
    stays a replayable input without a new field: all three kinds must give the same implicit edges"""
    import zlib
    return ("File", "Metric", "Image")[zlib.crc32(path.encode()) % 3]


def output_json(path):
    k = output_kind(path)
    if k == "Metric":
        ext = path.rsplit(".", 1)[-1].lower()
        return {"Metric": {"path": path, "format": {"csv": "CSV", "json": "JSON", "tsv": "TSV"}.get(ext, "Unknown")}}
    return {k: {"path": path}}


def pipeline_json(spec, journal):
    return {"name": "default", "version": 1, "workdir": "",
            "steps": [{"name": s["name"], "command": command_of(s, journal), "invalidate": INVALIDATE[s["when"]],
                       "dependencies": [dep_json(d) for d in s["deps"]],
                       "outputs": [output_json(o) for o in s["outs"]]} for s in spec["steps"]]}


class Env:
    """binaries, the template repository and the table, shared by all cases of one check run."""

    def __init__(self):
        self.table_info, self.states, self.events = regen_table()
        self.model = C.ensure_model("Sched", ["Base", "Sched", "Gen"])
        self.xvc = C.ensure_xvc()
        self.template = XvcRepo(self.xvc, prefix="sched-tpl", git=False)
        self.p13_fixed = False      # the three probed switches (probe_switches)
        self.p14b_fixed = False
        self.p16_fixed = False
        src = open(self.table_info["out"]).read()
        self.table_p14b = "(CheckingThoroughDiffs, HasMissingDependencies, Broken)" in src

    def fixbits(self):
        # shared pool, atomic acquire, P12, P13 (probe), P14, P14b (probe), P16 (probe)
        return "111%d1%d%d" % (1 if self.p13_fixed else 0, 1 if self.p14b_fixed else 0, 1 if self.p16_fixed else 0)

    def close(self):
        self.template.cleanup()

    def __enter__(self):
        return self

    def __exit__(self, *a):
        self.close()


class RunResult:
    pass


def _kill_group(p):
    try:
        os.killpg(p.pid, signal.SIGKILL)
    except OSError:
        pass
    try:
        p.wait(timeout=10)
    except Exception:
        pass


def _one_run(env, spec, rr, root, base, e, certify, bound):
    journal = os.path.join(base, "journal")
    trace = os.path.join(base, "trace.jsonl")
    for f in (journal, trace):
        open(f, "w").close()
    e = dict(e)
    e["XVC_VERIF_TRACE"] = trace
    if spec.get("jitter") is not None:
        e["XVC_VERIF_JITTER"] = str(spec["jitter"])
    t0 = time.time()
    outf = open(os.path.join(base, "stdout"), "wb")
    errf = open(os.path.join(base, "stderr"), "wb")
    # how the pool size is configured: -c (default), an XVC_ environment variable, the local or the project file
    # of the repository.  A lower-priority source always comes with a DIFFERENT value in no higher one (the
    # project file written by `xvc init` has the default 4: the local file, the environment and -c must win).
    via = spec.get("pool_via", "cli")
    argv = [env.xvc]
    if via == "cli":
        argv += ["-c", "pipeline.process_pool_size=%d" % spec["pool"]]
    elif via == "env":
        e["XVC_pipeline.process_pool_size"] = str(spec["pool"])
    elif via == "local":
        with open(os.path.join(root, ".xvc", "config.local.toml"), "w") as fh:     # `xvc init` writes a comment only
            fh.write("# local configuration\n[pipeline]\nprocess_pool_size = %d\n" % spec["pool"])
    elif via == "project":
        pf = os.path.join(root, ".xvc", "config.toml")
        txt = open(pf).read()
        txt2 = re.sub(r"(?m)^process_pool_size\s*=\s*\d+", "process_pool_size = %d" % spec["pool"], txt)
        if txt2 == txt and ("process_pool_size = %d" % spec["pool"]) not in txt:
            txt2 = txt + "\n[pipeline]\nprocess_pool_size = %d\n" % spec["pool"]
        open(pf, "w").write(txt2)
    proc = subprocess.Popen(argv + ["pipeline", "run"],
                            cwd=root, env=e, stdout=outf, stderr=errf, stdin=subprocess.DEVNULL, start_new_session=True)
    rr.hung, rr.certified, rr.uncertified_timeout, rr.dead_thread, rr.mismatch, rr.variant = False, False, False, False, False, None
    next_look = HANG_FIRST_LOOK
    while True:
        try:
            proc.wait(timeout=0.05 if time.time() - t0 < 1 else 0.25)
            break
        except subprocess.TimeoutExpired:
            pass
        el = time.time() - t0
        if el >= next_look:
            next_look = el + 4.0
            try:
                quiet = time.time() - os.path.getmtime(trace)
            except OSError:
                quiet = el
            if quiet >= HANG_QUIET and certify is not None:
                lines = read_lines(trace)
                if dead_without_verdict(lines):
                    # a step thread ended without a terminal state: the oracle reports that by
                    # itself; whether the process then hangs or exits is not modelled
                    rr.hung, rr.dead_thread = True, True
                    _kill_group(proc)
                    break
                c = certify(spec, lines)
                if c:
                    rr.hung, rr.certified, rr.mismatch = True, c is True, c == "mismatch"
                    _kill_group(proc)
                    break
        if el >= bound:
            rr.hung = True
            lines = read_lines(trace)
            rr.certified = bool(certify and certify(spec, lines) is True)
            if not rr.certified and certify is not None and hasattr(certify, "variants"):
                try:
                    quiet = time.time() - os.path.getmtime(trace)
                except OSError:
                    quiet = 0
                if quiet >= bound / 3:
                    rr.variant = certify.variants(spec, lines)
                    rr.certified = rr.variant is not None
            rr.dead_thread = dead_without_verdict(lines)
            rr.uncertified_timeout = not rr.certified and not rr.dead_thread
            _kill_group(proc)
            break
    rr.secs = time.time() - t0
    rr.rc = proc.returncode
    outf.close(); errf.close()
    # whatever the commands left behind (children of a killed run) must not outlive the case
    try:
        os.killpg(proc.pid, signal.SIGKILL)
    except OSError:
        pass
    rr.out = open(os.path.join(base, "stdout"), "r", errors="replace").read()
    rr.err = open(os.path.join(base, "stderr"), "r", errors="replace").read()
    rr.journal = [l.split() for l in read_lines(journal) if len(l.split()) == 3]
    rr.trace = read_lines(trace)
    rr.failed = rr.rc != 0 or "[ERROR]" in rr.err + rr.out or "panicked" in rr.err
    return rr


def recorded_from_export(env, root, e):
    """{step: {glob: [paths]}} of the glob-items dependencies, from `xvc pipeline export`."""
    p = subprocess.run([env.xvc, "pipeline", "export", "--format", "json"], cwd=root, env=e, stdout=subprocess.PIPE,
                       stderr=subprocess.PIPE, text=True, errors="replace", timeout=120)
    out = {}
    try:
        data = json.loads(p.stdout)
        for st in data["steps"]:
            for d in st["dependencies"]:
                if "GlobItems" in d:
                    out.setdefault(st["name"], {})[d["GlobItems"]["glob"]] = sorted(d["GlobItems"]["xvc_path_metadata_map"].keys())
    except (ValueError, KeyError):
        return None
    return out


def run_spec(env, spec, certify=None, bound=HANG_BOUND, keep=False):
    """runs one pipeline; returns a list of RunResult (one, or two when the spec has a "second" run)
    with journal / trace / exit information; rr.spec is the spec the run is judged against.
    certify(spec, trace_lines) -> bool is asked, for a run that has not exited, whether the model
    certifies the state at the end of the trace as stuck."""
    base = C.scratch_dir("sched")
    out = []
    try:
        root = os.path.join(base, "r")
        home = os.path.join(base, "home")
        shutil.copytree(env.template.root, root, symlinks=True)
        os.makedirs(os.path.join(home, ".config"))
        journal = os.path.join(base, "journal")
        for d in spec["dirs"]:
            os.makedirs(os.path.join(root, d), exist_ok=True)
            with open(os.path.join(root, d, "inside.txt"), "w") as fh:
                fh.write("x\n")
        for f, txt in spec["files"].items():
            os.makedirs(os.path.dirname(os.path.join(root, f)), exist_ok=True)
            with open(os.path.join(root, f), "w") as fh:
                fh.write(txt)
        with open(os.path.join(base, "pipeline.json"), "w") as fh:
            json.dump(pipeline_json(spec, journal), fh)
        e = dict(C.BASE_ENV)
        e.update({"HOME": home, "XDG_CONFIG_HOME": os.path.join(home, ".config"), "RUST_BACKTRACE": "0", "TZ": "UTC"})
        p = subprocess.run([env.xvc, "pipeline", "import", "--file", os.path.join(base, "pipeline.json"), "--overwrite"],
                           cwd=root, env=e, stdout=subprocess.PIPE, stderr=subprocess.PIPE, text=True, errors="replace", timeout=300)
        first = {k: v for k, v in spec.items() if k != "second"}
        rr = RunResult()
        rr.spec, rr.base = first, base
        rr.import_failed = p.returncode != 0 or "[ERROR]" in p.stderr + p.stdout or "panicked" in p.stderr
        rr.import_err = (p.stderr + p.stdout)[-400:]
        _one_run(env, first, rr, root, base, e, certify, bound)
        out.append(rr)
        sec = spec.get("second")
        if sec and not rr.hung and not rr.failed:
            rec = recorded_from_export(env, root, e)
            ran = {n for k, n, _ in rr.journal if k == "E"}
            view = copy.deepcopy(first)
            for st in view["steps"]:
                if st["name"] in ran:
                    for w in st["writes"]:
                        view["files"].setdefault(w, st["name"] + "\n")
            view["recorded"] = rec or {}
            view["_origin"] = strip_spec(spec)
            view["label"] = first.get("label", "") + ":run2"
            view["jitter"] = sec.get("jitter", first.get("jitter"))
            now = time.time()
            for k, f in enumerate(sec.get("touch", [])):
                fp = os.path.join(root, f)
                if os.path.exists(fp):
                    os.utime(fp, (now + 5 + k, now + 5 + k))
            for f, txt in sec.get("edit", {}).items():
                with open(os.path.join(root, f), "w") as fh:
                    fh.write(txt)
                view["files"][f] = txt
            # steps added between the two runs (with the step commands of the CLI: an import would drop the records
            # of the first run): e.g. a producer whose declared output matches a glob another step already recorded
            add_err = ""
            for st in copy.deepcopy(sec.get("add_steps", [])):
                cmds = [["pipeline", "step", "new", "-s", st["name"], "-c", command_of(st, journal),
                         "--when", {"D": "by_dependencies", "A": "always", "N": "never"}[st["when"]]]]
                dargs = []
                for d in st["deps"]:
                    dargs += {"step": ["--step", d[1]], "file": ["--file", d[1]], "glob": ["--glob", d[1]],
                              "glob_items": ["--glob_items", d[1]], "lines": ["--lines", d[1]], "regex": ["--regex", d[1]]}[d[0]]
                if dargs:
                    cmds.append(["pipeline", "step", "dependency", "-s", st["name"]] + dargs)
                if st["outs"]:
                    oa = []
                    for o in st["outs"]:
                        oa += ["--output-" + output_kind(o).lower(), o]
                    cmds.append(["pipeline", "step", "output", "-s", st["name"]] + oa)
                for c in cmds:
                    p2 = subprocess.run([env.xvc] + c, cwd=root, env=e, stdout=subprocess.PIPE, stderr=subprocess.PIPE, text=True,
                                        errors="replace", timeout=300)
                    if p2.returncode != 0 or "[ERROR]" in p2.stderr + p2.stdout or "panicked" in p2.stderr:
                        add_err += (p2.stderr + p2.stdout)[-300:]
                view["steps"].append(st)
            rr2 = RunResult()
            rr2.spec, rr2.base, rr2.import_failed, rr2.import_err = view, base, bool(add_err), add_err
            rr2.export_failed = rec is None
            _one_run(env, view, rr2, root, base, e, certify, bound)
            out.append(rr2)
        return out
    finally:
        if not keep:
            C.rm_rf(base)


def dead_without_verdict(lines):
    last = {}
    for l in lines:
        try:
            ev = json.loads(l)
        except ValueError:
            continue
        if ev.get("ev") == "iter":
            last[ev["ent"]] = ev["state"]
        elif ev.get("ev") == "end" and not is_terminal(last.get(ev["ent"])):
            return True
    return False


def read_lines(p):
    try:
        with open(p, "r", errors="replace") as fh:
            return [l for l in fh.read().split("\n") if l.strip()]
    except OSError:
        return []


# ---------------------------------------------------------------------------------------------
# trace -> model
# ---------------------------------------------------------------------------------------------
STATE_RE = re.compile(r"^([A-Za-z]+)\(From([A-Za-z]+)\)$")


class TraceError(Exception):
    pass


def parse_trace(lines):
    evs = []
    for l in lines:
        try:
            evs.append(json.loads(l))
        except ValueError:
            # a line cut by the kill of a hung run can only be the last one
            if l is not lines[-1]:
                raise TraceError("unparsable trace line: %r" % l[:80])
    return evs


def lstate_ix(env, txt):
    m = STATE_RE.match(txt)
    if not m:
        raise TraceError("state %r" % txt)
    st, fr = m.group(1), m.group(2)
    if st not in env.states:
        raise TraceError("state %s is not in the regenerated table" % st)
    if fr == "Init":
        return "%d" % env.states.index(st), "-"
    if fr not in env.events:
        raise TraceError("event %s is not in the regenerated table" % fr)
    return "%d" % env.states.index(st), "%d" % env.events.index(fr)


def verdicts_from_trace(evs, ent_name):
    """the outcome of the comparisons of each step's own dependency records, read off the states
    the step went through (these are inputs of the scheduler model)."""
    seq = {}
    for ev in evs:
        if ev.get("ev") == "iter":
            seq.setdefault(ent_name.get(ev["ent"]), []).append(ev["state"])
        if ev.get("ev") == "end" and ev.get("panic"):
            seq.setdefault(ent_name.get(ev["ent"]), []).append("PANIC")
    out = {}
    for n, sts in seq.items():
        sup, thor = "C", "C"
        for a, b in zip(sts, sts[1:] + ["?"]):
            if a.startswith("CheckingSuperficialDiffs("):
                if b.startswith("ComparingDiffsAndOutputs("):
                    sup = "S"
                elif b.startswith("Broken(FromHasMissingDependencies"):
                    sup = "E"
                elif b == "PANIC":
                    sup = "E"
            if a.startswith("CheckingThoroughDiffs("):
                if b.startswith("ComparingDiffsAndOutputs(FromThoroughDiffsNotChanged"):
                    thor = "S"
                elif b.startswith("Broken(FromHasMissingDependencies"):
                    thor = "E"
                elif b == "PANIC":
                    thor = "E"
        out[n] = (sup, thor)
    return out


def model_cfg(env, spec, verdicts=None, fix=None):
    """the <cfg> field of a schedmodel line."""
    names = [s["name"] for s in spec["steps"]]
    paths = []

    def pid(p):
        if p not in paths:
            paths.append(p)
        return paths.index(p) + 1
    outs_all = [o for s in spec["steps"] for o in s["outs"]]
    for o in outs_all:
        pid(o)
    steps = []
    for i, s in enumerate(spec["steps"]):
        deps = []
        for d in s["deps"]:
            if d[0] == "step":
                deps.append("S%d" % (names.index(d[1]) if d[1] in names else 900 + len(names)))
            elif d[0] in PATH_KINDS:
                deps.append("P%d" % pid(dep_path(d)))
            elif d[0] == "glob":
                deps.append("G" + ".".join(str(pid(o)) for o in sorted(set(outs_all)) if gmatch(d[1], o)))
            elif d[0] == "glob_items":
                rec = [o for o in recorded_items(spec, s["name"], d[1]) if o in outs_all]
                deps.append("I" + ".".join(str(pid(o)) for o in sorted(set(outs_all)) if gmatch(d[1], o)) + "~" +
                            ".".join(str(pid(o)) for o in sorted(set(rec))))
            else:
                deps.append("N")
        sup, thor = (verdicts or {}).get(s["name"], ("C", "C"))
        steps.append("%d:%s:%s:%s:E%d.%d.%d:%s:%s" % (i, s["when"], ",".join(deps), ".".join(str(pid(o)) for o in s["outs"]),
                                                     s["exit"], s["out"] + (10 if s.get("garble") else 0), s["err"], sup, thor))
    ex = sorted(pid(p) for p in exists_at_start(spec) if p in paths or True)
    return "pool=%d;cap=%d;fix=%s;exists=%s;steps=%s" % (spec["pool"], PIPE_CAP, fix or env.fixbits(),
                                                         ",".join(map(str, ex)), "/".join(steps))


def trace_events(env, spec, lines):
    """(graph info, model event tokens) from the H1 trace."""
    evs = parse_trace(lines)
    names = [s["name"] for s in spec["steps"]]
    info = {"graph": None, "pool": None, "ent_name": {}, "last_bull": {}, "ended": {}, "last_iter": {}}
    toks = []
    ix = {}
    for ev in evs:
        k = ev.get("ev")
        if k == "graph":
            info["ent_name"] = dict(ev["steps"])
            ix = {e: names.index(n) for e, n in ev["steps"].items() if n in names}
            info["graph"] = sorted((ev["steps"].get(a, a), ev["steps"].get(b, b)) for a, b in ev["edges"])
            continue
        if k == "run":
            info["pool"] = ev["pool"]
            continue
        e = ev.get("ent")
        if e not in ix:
            raise TraceError("event for an unknown step entity: %r" % ev)
        i = ix[e]
        if k == "iter":
            st, fr = lstate_ix(env, ev["state"])
            toks.append("I:%d:%s:%s:%d" % (i, st, fr, max(ev.get("slots", 0), 0)))
            info["last_iter"][names[i]] = ev["state"]
        elif k == "poll":
            obs = []
            for de, dst in ev["deps"].items():
                st, fr = lstate_ix(env, dst)
                obs.append("%d=%s/%s" % (ix[de], st, fr))
            toks.append("P:%d:%s" % (i, ",".join(obs)))
        elif k == "bull":
            st, fr = lstate_ix(env, ev["state"])
            toks.append("B:%d:%s:%s" % (i, st, fr))
            info["last_bull"][names[i]] = ev["state"]
        elif k == "pstart":
            toks.append("S:%d" % i)
        elif k == "acquire":
            toks.append("A:%d:%d" % (i, ev["slots"]))
        elif k == "pexit":
            toks.append("X:%d:%d" % (i, 1 if ev["ok"] else 0))
        elif k == "release":
            toks.append("R:%d:%d" % (i, ev["slots"]))
        elif k == "end":
            toks.append("E:%d:%d" % (i, 1 if ev["panic"] else 0))
            info["ended"][names[i]] = bool(ev["panic"])
        else:
            raise TraceError("unknown trace event %r" % k)
    info["verdicts"] = verdicts_from_trace(evs, info["ent_name"])
    return info, toks


def accept_line(env, spec, lines):
    info, toks = trace_events(env, spec, lines)
    return info, "sched-accept %s | %s" % (model_cfg(env, spec, info["verdicts"]), " ".join(toks))


def model_lines(env, lines, shards=4):
    rc, out = C.run_lines(env.model, lines, shards=shards, timeout=600)
    return out


def make_certify(env):
    """certify(spec, trace lines) -> True: the model certifies the traced state as stuck;
    "mismatch": the model rejects the trace (or the pipeline) outright, so the run is a
    correspondence failure whatever happens next and need not be waited for; False otherwise."""
    def certify(spec, lines):
        try:
            info, line = accept_line(env, spec, lines)
            out = model_lines(env, [line], shards=1)
            if out and out[0].startswith("ACCEPT"):
                return " stuck=1 " in out[0] + " "
            if out and (out[0].startswith("NOINIT") or out[0].startswith("REJECT")) and info.get("pool") is not None:
                return "mismatch"
            return False
        except Exception:
            return False

    def variants(spec, lines):
        """at the end of the bound only: does the model with ONE repair switched off accept the trace
        and certify it as stuck?  (the code then behaves like the tree before that repair)"""
        base = env.fixbits()
        for name, bits in (("fixed_P12", [2]), ("fixed_P14", [4]), ("fixed_P14b", [5]), ("fix_shared_pool/fix_atomic_acquire", [0, 1]), ("fixed_P13", [3])):
            fx = "".join("0" if i in bits else c for i, c in enumerate(base))
            if fx == base:
                continue
            try:
                info, toks = trace_events(env, spec, lines)
                line = "sched-accept %s | %s" % (model_cfg(env, spec, info["verdicts"], fix=fx), " ".join(toks))
                out = model_lines(env, [line], shards=1)
                if out and out[0].startswith("ACCEPT") and " stuck=1 " in out[0] + " ":
                    return name
            except Exception:
                pass
        return None
    certify.variants = variants
    return certify


SKIPPED = []      # cases given up for infrastructure reasons (reported in the evidence)
TERMINAL = ("DoneByRunning(", "DoneWithoutRunning(", "Broken(")


def is_terminal(txt):
    return bool(txt) and txt.startswith(TERMINAL)


# ---------------------------------------------------------------------------------------------
# oracles (from the property text; independent of the model)
# ---------------------------------------------------------------------------------------------
def journal_index(rr):
    S, E = {}, {}
    for pos, (k, n, ns) in enumerate(rr.journal):
        (S if k == "S" else E).setdefault(n, pos)
    return S, E


def oracle_c10(spec, rr):
    """returns a list of (what, edge or None).  Order is the order of the lines in the journal (each
    line is one O_APPEND write): S_i after E_j means i's command started after j's had ended."""
    bad = []
    names = [s["name"] for s in spec["steps"]]
    by = {s["name"]: s for s in spec["steps"]}
    S, E = journal_index(rr)
    es = semantic_edges(spec)
    rejected = has_cycle(names, es) or unknown_step_dep(spec)
    if rejected:
        if rr.journal:
            # which cycle edge made it run?  (P16: an edge the code does not see)
            ce = code_edges(spec)
            culprit = None if has_cycle(names, ce) or unknown_step_dep(spec) else next(iter(sorted(es - ce)), None)
            bad.append(("a pipeline whose dependency graph has a cycle (or names an unknown step) ran commands: %s" %
                        " ".join(n for k, n, _ in rr.journal if k == "S"), culprit))
        return bad
    # broken(j): the step failed or could not be checked, or it is downstream of such a step
    broken = {}

    def is_broken(n, seen=()):
        if n in broken:
            return broken[n]
        s = by[n]
        if s["when"] == "N":
            r = False
        elif n in S:
            r = s["exit"] != 0
        elif missing_file_dep(spec, s):
            r = True
        elif s["when"] == "A":
            r = False
        else:
            r = any(is_broken(j, seen + (n,)) for (i, j) in es if i == n and j not in seen)
        broken[n] = r
        return r
    for (i, j) in sorted(es):
        if i not in S:
            continue
        if j in S and not (j in E and E[j] < S[i]):
            bad.append(("command of %s started before the command of its dependency %s had ended" % (i, j), (i, j)))
        elif by[i]["when"] != "A" and is_broken(j):
            bad.append(("%s ran although its dependency %s failed / is broken and %s is not marked always" % (i, j, i), (i, j)))
    return bad


def oracle_c13(spec, rr):
    """maximum number of commands whose [S, E] journal intervals overlap (a lower bound of the
    number of simultaneously live processes)."""
    live, mx, at = set(), 0, None
    for k, n, ns in rr.journal:
        if k == "S":
            live.add(n)
            if len(live) > mx:
                mx, at = len(live), sorted(live)
        else:
            live.discard(n)
    return mx, at


def oracle_c11(spec, rr, info):
    """list of (what, kind): the run must end, and every step must have ended with a verdict."""
    bad = []
    names = [s["name"] for s in spec["steps"]]
    es = semantic_edges(spec)
    if has_cycle(names, code_edges(spec)) or unknown_step_dep(spec):
        if rr.hung:
            bad.append(("a rejected pipeline did not terminate", "hang"))
        return bad
    if info is None or info.get("pool") is None:
        if rr.hung:
            bad.append(("`xvc pipeline run` did not terminate and wrote no run event", "hang"))
        return bad
    for n in names:
        if n in info["ended"] and not is_terminal(info["last_iter"].get(n)):
            bad.append(("the thread of step %s ended in state %s without a verdict (%s)" % (
                n, info["last_iter"].get(n), "panic" if info["ended"][n] else "error return"), "no-verdict"))
    if rr.hung and rr.certified:
        waiting = [n for n in names if not is_terminal(info["last_bull"].get(n))]
        how = "the model certifies the last traced state as deadlocked" if not getattr(rr, "variant", None) else \
              "the trace is accepted and certified deadlocked by the model with %s switched OFF: the code behaves as before that repair" % rr.variant
        bad.append(("`xvc pipeline run` does not terminate: steps %s never get a verdict (%s)" % (",".join(waiting), how), "hang"))
    elif not rr.hung:
        for n in names:
            if not is_terminal(info["last_bull"].get(n)) and n not in info["ended"]:
                bad.append(("run ended but step %s has no verdict (last state %s)" % (n, info["last_bull"].get(n)), "no-verdict"))
    return bad


def c11_class(spec):
    # a class whose repair the probe found in the tree under test classifies nothing any more
    ks = [k for k, f in (("stderr-exceeds-pipe-buffer", k_big_stderr), ("non-utf8-output", k_garbled),
                         ("thorough-compare-error", lambda sp: k_thorough_error(sp) and not SWITCH["p14b"])) if f(spec)]
    return ks[0] if len(ks) == 1 else None


# ---------------------------------------------------------------------------------------------
# shrinking a failing spec (re-runs the real pipeline)
# ---------------------------------------------------------------------------------------------
def drop_step(spec, name):
    sp = copy.deepcopy(spec)
    sp["steps"] = [s for s in sp["steps"] if s["name"] != name]
    for s in sp["steps"]:
        s["deps"] = [d for d in s["deps"] if not (d[0] == "step" and d[1] == name)]
    return sp


def shrink_spec(spec, still_fails, budget=24):
    cur = copy.deepcopy(spec)
    changed = True
    while changed and budget > 0:
        changed = False
        for s in list(cur["steps"]):
            if len(cur["steps"]) <= 1 or budget <= 0:
                break
            cand = drop_step(cur, s["name"])
            budget -= 1
            if still_fails(cand):
                cur, changed = cand, True
        for si, s in enumerate(cur["steps"]):
            for di in range(len(s["deps"]) - 1, -1, -1):
                if budget <= 0:
                    break
                cand = copy.deepcopy(cur)
                del cand["steps"][si]["deps"][di]
                budget -= 1
                if still_fails(cand):
                    cur, changed = cand, True
    return cur


# ---------------------------------------------------------------------------------------------
# generators
# ---------------------------------------------------------------------------------------------
def all_dags(n):
    """all labelled DAGs on n nodes as edge lists (i depends on j)."""
    pairs = [(i, j) for i in range(n) for j in range(n) if i != j]
    out = []
    for mask in range(1 << len(pairs)):
        es = [p for k, p in enumerate(pairs) if (mask >> k) & 1]
        if not has_cycle(list(range(n)), es):
            out.append(es)
    return out


def all_digraphs_with_cycle(n):
    pairs = [(i, j) for i in range(n) for j in range(n)]
    out = []
    for mask in range(1 << len(pairs)):
        es = [p for k, p in enumerate(pairs) if (mask >> k) & 1]
        if has_cycle(list(range(n)), es):
            out.append(es)
    return out


def explicit_spec(n, es, exits, whens, pool, durs, jitter, label=""):
    steps = []
    for i in range(n):
        steps.append(step("s%d" % i, when=whens[i], exit=exits[i], dur=durs[i],
                          deps=[("step", "s%d" % j) for (a, j) in es if a == i]))
    return mkspec(steps, pool=pool, jitter=jitter, label=label)


def random_graph_spec(rng, nmin=4, nmax=6, label="random"):
    """4-6 steps; edges through explicit step dependencies, file outputs, globs over outputs;
    random exit codes, when-modes, durations.  A glob may match the output of the step itself or of
    a later step, which makes the semantic graph cyclic (the pipeline must then be rejected; before
    the repair of P16 it runs: finding P16); three out of four such draws are drawn again so that
    most cases exercise the ordering."""
    while True:
        sp = _random_graph_spec(rng, nmin, nmax, label)
        if not has_cycle([s["name"] for s in sp["steps"]], semantic_edges(sp)) or rng.random() < 0.25:
            return sp


def _random_graph_spec(rng, nmin, nmax, label):
    n = rng.randint(nmin, nmax)
    order = list(range(n))
    rng.shuffle(order)                      # order[k] may depend only on order[<k]: acyclic by construction
    steps = {}
    files = {}
    for k, i in enumerate(order):
        name = "s%d" % i
        outs = []
        if rng.random() < 0.7:
            outs.append("d%d/o%d.csv" % (rng.randrange(2), i))
        if rng.random() < 0.2:
            outs.append("d%d/p%d.txt" % (rng.randrange(2), i))
        deps = []
        for j in order[:k]:
            r = rng.random()
            pj = steps["s%d" % j]
            if r < 0.22:
                deps.append(("step", "s%d" % j))
            elif r < 0.45 and pj["outs"]:
                deps.append(("file", rng.choice(pj["outs"])))
            elif r < 0.50 and pj["outs"]:
                deps.append(("lines", rng.choice(pj["outs"]) + "::1-5"))
        r = rng.random()
        if r < 0.18:
            deps.append(("glob", "d%d/*.csv" % rng.randrange(2)))
        elif r < 0.26:
            deps.append(("glob_items", "d%d/*.csv" % rng.randrange(2)))
        if rng.random() < 0.2:
            f = "in%d.txt" % i
            files[f] = "input %d\n" % i
            deps.append(("file", f))
        if rng.random() < 0.06:
            deps.append(("generic", "echo g%d" % i))
        deps = [d for k2, d in enumerate(deps) if d not in deps[:k2]]
        when = rng.choice(["D"] * 6 + ["A", "A", "N"])
        steps[name] = step(name, when=when, exit=0 if rng.random() < 0.75 else 1, dur=rng.choice([0, 50, 150]),
                           out=rng.choice([0, 0, 1000]), err=rng.choice([0, 0, 1000]), deps=deps, outs=outs)
    # some outputs exist already (then a glob does see them)
    for s in steps.values():
        for o in s["outs"]:
            if rng.random() < 0.25:
                files[o] = "old\n"
    return mkspec([steps["s%d" % i] for i in range(n)], pool=rng.choice([1, 2, 2, 3]), jitter=rng.randrange(1, 1 << 30),
                  files=files, label=label)


def two_run_spec(rng, label="tworun"):
    """a random graph whose first run succeeds, then a second run after touching / editing some
    inputs: steps are skipped (DoneWithoutRunning), re-run because a file changed, or re-run
    because a step they depend on has run; recorded glob items give edges."""
    while True:
        sp = random_graph_spec(rng, 3, 5, label=label)
        for st in sp["steps"]:
            st["exit"], st["err"] = 0, min(st["err"], 1000)
            st["when"] = "D" if st["when"] == "N" else st["when"]
            st["deps"] = [d for d in st["deps"] if d[0] != "lines"]
            if rng.random() < 0.6 and not any(d[0] in ("file", "glob", "glob_items") for d in st["deps"]):
                f = "in_%s.txt" % st["name"]
                sp["files"][f] = "input\n"
                st["deps"].append(["file", f])
        if any(missing_file_dep(sp, st) for st in sp["steps"]):
            continue
        inputs = sorted(f for f in sp["files"] if f.startswith("in"))
        sec = {"touch": [f for f in inputs if rng.random() < 0.4], "edit": {}, "jitter": rng.randrange(1, 1 << 30)}
        for f in inputs:
            if f not in sec["touch"] and rng.random() < 0.3:
                sec["edit"][f] = "edited\n"
        sp["second"] = sec
        return sp


def late_producer_spec(rng, kind=None, label="late-producer"):
    """run 1: a reader with a glob / glob-items dependency over files that exist (the items get recorded); then a
    producer is ADDED whose declared output matches the pattern but is not among the recorded items, an input of
    the reader is edited, and run 2 must start the reader only after the producer has ended."""
    kind = kind or rng.choice(["glob_items", "glob_items", "glob"])
    sp = mkspec([step("reader", dur=20, deps=[(kind, "data/*.txt")])], pool=2, jitter=rng.randrange(1, 1 << 30),
                files={"data/a.txt": "a\n", "data/c.txt": "c\n"}, label=label)
    prod = step("producer", dur=rng.choice([150, 300]), outs=["data/b.txt"])
    sp["second"] = {"touch": [], "edit": {"data/a.txt": "edited\n"}, "jitter": rng.randrange(1, 1 << 30), "add_steps": [prod]}
    return sp


# ---------------------------------------------------------------------------------------------
# the engine: run cases in parallel, validate traces, judge
# ---------------------------------------------------------------------------------------------
def run_cases(env, specs, workers=None):
    certify = make_certify(env)
    workers = workers or max(4, min(12, (C.NPROC * 3) // 4))
    def safe(sp):
        # a stalled machine (import of a pipeline timing out, a full disk, ...) must not turn into a
        # verdict about the property: the case is repeated once and otherwise skipped and counted
        for attempt in (0, 1):
            try:
                return run_spec(env, sp, certify=certify)
            except (subprocess.TimeoutExpired, OSError) as e:
                log("infrastructure problem on a case (attempt %d): %r" % (attempt, e))
                time.sleep(2)
        SKIPPED.append(strip_spec(sp))
        return []
    with ThreadPoolExecutor(workers) as ex:
        rrs = list(ex.map(safe, specs))
    return [rr for l in rrs for rr in l]


def validate_traces(env, specs, rrs):
    """returns per case (info, model output line or error text)."""
    lines, infos, errs = [], [], []
    for sp, rr in zip(specs, rrs):
        try:
            info, line = accept_line(env, sp, rr.trace)
            infos.append(info); lines.append(line); errs.append(None)
        except (TraceError, KeyError, ValueError) as e:
            infos.append(None); lines.append("sched-info " + model_cfg(env, sp)); errs.append("trace: %r" % (e,))
    outs = model_lines(env, lines, shards=8) if lines else []
    infolines = model_lines(env, ["sched-info " + model_cfg(env, sp) for sp in specs], shards=4) if specs else []
    return infos, outs, errs, infolines


def parse_info(line):
    d = dict(kv.split("=", 1) for kv in line.split() if "=" in kv)
    d["edge_set"] = set(tuple(map(int, e.split(">"))) for e in d.get("edges", "").split(",") if e)
    return d


def correspondence(env, spec, rr, info, out, err, infoline):
    """list of problems: the real graph vs the model's edges, accept/reject of the trace, final
    states, agreement on rejection.  None of these is an oracle failure: they say that the model
    and the code differ."""
    probs = []
    names = [s["name"] for s in spec["steps"]]
    mi = parse_info(infoline) if infoline and not infoline.startswith("ERROR") else None
    if mi is None:
        return ["model could not read the configuration: %s" % infoline]
    if err:
        return [err]
    model_edges = sorted((names[a], names[b]) for a, b in mi["edge_set"] if a < len(names) and b < len(names))
    if info["graph"] is not None and mi["init"] != "notfound":
        real_edges = sorted(set(info["graph"]))
        if real_edges != model_edges:
            probs.append("dependency graph: code has %s, model has %s" % (real_edges, model_edges))
    real_started = info["pool"] is not None
    if real_started != (mi["init"] == "ok"):
        probs.append("model init=%s but the real run %s the threads" % (mi["init"], "started" if real_started else "did not start"))
    if real_started and mi["init"] == "ok":
        if not out.startswith("ACCEPT"):
            probs.append("trace rejected by the model: %s" % out)
        else:
            died = [n for n in info["ended"] if not is_terminal(info["last_iter"].get(n))]
            if not rr.hung and " done=1 " not in out + " " and not died:
                probs.append("the run ended but the model state after the trace is not final: %s" % out[:200])
            if info["pool"] != spec["pool"]:
                probs.append("pool size read by the code is %s, configured %s" % (info["pool"], spec["pool"]))
    return probs


# ---------------------------------------------------------------------------------------------
# the per-property driver
# ---------------------------------------------------------------------------------------------
def judge(prop, spec, rr, info):
    """oracle failures of one run for one property: list of (what, klass)."""
    out = []
    if prop == "C10":
        for what, edge in oracle_c10(spec, rr):
            out.append((what, "glob-on-absent-output" if edge and glob_only_edge(spec, edge) else None))
    elif prop == "C13":
        mx, at = oracle_c13(spec, rr)
        if mx > spec["pool"]:
            out.append(("%d step commands (%s) were running at the same time with process_pool_size=%d" % (mx, ",".join(at), spec["pool"]), None))
    elif prop == "C11":
        for what, kind in oracle_c11(spec, rr, info):
            out.append((what, c11_class(spec)))
    return out


def rerun_judge(env, prop, spec):
    rrs = run_cases(env, [spec], workers=1)
    res = None
    for rr in rrs:
        try:
            info, _ = trace_events(env, rr.spec, rr.trace)
        except Exception:
            info = None
        res = (rr, info, judge(prop, rr.spec, rr, info))
        if res[2]:
            break
    return res


def strip_spec(spec):
    return {k: v for k, v in spec.items() if not k.startswith("_")}


def load_corpus(prop):
    d = os.path.join(C.ROOT, "corpus", prop)
    out = []
    for f in sorted(os.listdir(d)) if os.path.isdir(d) else []:
        if f.endswith(".json"):
            r = json.load(open(os.path.join(d, f)))
            sp = r["input"]
            sp["label"] = "corpus:" + f
            out.append(sp)
    return out


def probe_p13(env):
    """is the P13 repair in the tree?  Decided by behaviour: the witness (200 kB on stderr) either
    ends or is certified stuck by the model with fixed_P13 = false."""
    sp = mkspec([step("big", err=200000)], pool=2, label="probe:P13")
    env.p13_fixed = False
    rr = run_spec(env, sp, certify=make_certify(env), bound=HANG_BOUND)[0]
    if not rr.hung:
        env.p13_fixed = True
    return sp, rr


def probe_p14b(env):
    """is the P14b repair in the tree?  Decided by behaviour on the witness (a --lines dependency on a
    file that does not exist): the step ends Broken(FromHasMissingDependencies) out of
    CheckingThoroughDiffs (repaired), or its thread ends without a terminal state (not repaired).
    Returns (spec, rr, what was seen)."""
    sp = mkspec([step("a", deps=[("lines", "nope.txt::1-5")]), step("b", deps=[("step", "a")])], pool=2, label="probe:P14b")
    env.p14b_fixed, SWITCH["p14b"] = False, False
    rr = run_spec(env, sp, certify=make_certify(env), bound=HANG_BOUND)[0]
    seen = "inconclusive"
    try:
        info, _ = trace_events(env, sp, rr.trace)
        sts = [json.loads(l).get("state", "") for l in rr.trace if '"iter"' in l and '"a"' in l]
        last = info["last_iter"].get("a", "")
        if last.startswith("Broken(FromHasMissingDependencies") and any(s.startswith("CheckingThoroughDiffs(") for s in sts) and not rr.hung:
            seen = "broken"
        elif "a" in info["ended"] and not is_terminal(last):
            seen = "thread-died"
    except Exception as e:
        seen = "inconclusive: %r" % (e,)
    if seen == "broken":
        env.p14b_fixed, SWITCH["p14b"] = True, True
    return sp, rr, seen


def probe_p16(env):
    """is the P16 repair in the tree?  Decided by the graph the binary builds for the witness: a glob
    and a glob-items consumer of a declared output that does not exist yet.  Returns (spec, rr,
    set of consumers that got the edge)."""
    sp = mkspec([step("producer", dur=50, outs=["out/x.csv"]), step("cg", deps=[("glob", "out/*.csv")]),
                 step("ci", deps=[("glob_items", "out/*.csv")])], pool=3, label="probe:P16")
    env.p16_fixed, SWITCH["p16"] = False, False
    rr = run_spec(env, sp, certify=make_certify(env), bound=HANG_BOUND)[0]
    got = set()
    try:
        info, _ = trace_events(env, sp, rr.trace)
        got = {a for a, b in (info["graph"] or []) if b == "producer"}
    except Exception:
        pass
    if got == {"cg", "ci"}:
        env.p16_fixed, SWITCH["p16"] = True, True
    return sp, rr, got


def probe_switches(chk, env):
    """decides the three probed repair switches on the binary under test and checks that they are
    consistent with the regenerated table and the extracted model."""
    probe_p13(env)
    SWITCH["p13"] = env.p13_fixed
    _, _, seen14b = probe_p14b(env)
    if seen14b.startswith("inconclusive"):        # a stalled machine: once more before anything is said
        time.sleep(2)
        _, _, seen14b = probe_p14b(env)
    _, _, got16 = probe_p16(env)
    if len(got16) == 1:
        _, _, got16 = probe_p16(env)
    chk.cov["repairs_in_tree"] = {"P13": env.p13_fixed, "P14b": env.p14b_fixed, "P16": env.p16_fixed,
                                  "P14b_probe_saw": seen14b, "P16_probe_edges_from": sorted(got16),
                                  "table_has_P14b_transition": env.table_p14b, "model_fix_bits": env.fixbits()}
    chk.cov["p13_repaired_in_tree"] = env.p13_fixed
    chk.cov["theorems_for_this_tree"] = {
        "C10": "C10_full_fixed (unconditional)" if env.p16_fixed else "C10_outside_known_class (+ glob_absent_output_refuted: open finding P16)",
        "C11": ("no_deadlock / never_stuck / fair_termination / C11_full_fixed (no class excluded)" if env.p14b_fixed and env.p13_fixed else
                "no_deadlock_outside_known_class / never_stuck_outside_known_class / fair_termination_outside_known_class (+ deadlock_thorough_error_refuted: open finding P14b)")}
    info = model_lines(env, ["sched-info " + model_cfg(env, mkspec([step("a")]))], shards=1)
    model_tbl = (" tbl14b=1" in info[0] + " ") if info else None
    probs = []
    if model_tbl is None or model_tbl != env.table_p14b:
        probs.append("the extracted model was not built from the regenerated table (table_P14b: model %s, Gen/StepMachine.v %s)" % (model_tbl, env.table_p14b))
    if env.p14b_fixed and not env.table_p14b:
        probs.append("the binary breaks a step whose thorough comparison fails, but the state_machine! table has no transition CheckingThoroughDiffs -HasMissingDependencies-> Broken (premise of handler_within_table)")
    if seen14b.startswith("inconclusive"):
        probs.append("P14b probe inconclusive: %s" % seen14b)
    if len(got16) == 1:
        probs.append("P16 probe: only %s of the glob / glob-items consumers got the edge to the producer of the matching absent output" % sorted(got16))
    for p in probs:
        chk.fail("correspondence", "M-SCHED repair switches: " + p,
                 {"theorem_or_correspondence": "probe of the repair switches / handler_within_table premise (Props/C10.v, C11.v, C13.v)",
                  "repairs_in_tree": chk.cov["repairs_in_tree"], "kind": "broken-correspondence"}, name="switches", has_input=False)


def drive(chk, env, prop, specs, nontrivial, max_reports=3):
    """runs the cases, validates every trace against the model, judges with the property's oracle,
    shrinks and reports.  nontrivial(spec, rr, info) -> bool."""
    t0 = time.time()
    rrs = run_cases(env, specs)
    # a run that neither ended nor is certified stuck within the bound may only be a slow machine:
    # it is repeated alone with twice the bound before anything is said about it
    retried = 0
    for k, rr in enumerate(rrs):
        if rr.uncertified_timeout and retried < 2:
            retried += 1
            log("uncertified timeout, repeating alone:", json.dumps(strip_spec(rr.spec))[:300])
            again = run_spec(env, rr.spec.get("_origin") or rr.spec, certify=make_certify(env), bound=2 * HANG_BOUND)
            pick = [a for a in again if a.spec.get("label") == rr.spec.get("label")] or again[-1:]
            rrs[k] = pick[0]
    specs = [rr.spec for rr in rrs]          # one entry per real run (a spec with a second run gives two)
    t1 = time.time()
    infos, outs, errs, infolines = validate_traces(env, specs, rrs)
    t2 = time.time()
    stats = {"runs": len(specs), "hung": 0, "hung_uncertified": 0, "rejected_pipelines": 0, "real_wall_s": round(t1 - t0, 1),
             "model_wall_s": round(t2 - t1, 1), "steps": {}, "pools": {}, "labels": {}, "commands_started": 0,
             "trace_events": 0, "max_overlap_seen": {}}
    failures, corr = [], []
    for sp, rr, info, out, err, il in zip(specs, rrs, infos, outs, errs, infolines):
        n = len(sp["steps"])
        stats["steps"][n] = stats["steps"].get(n, 0) + 1
        stats["pools"][sp["pool"]] = stats["pools"].get(sp["pool"], 0) + 1
        lab = sp.get("label", "").split(":")[0]
        stats["labels"][lab] = stats["labels"].get(lab, 0) + 1
        stats["commands_started"] += sum(1 for k, _, _ in rr.journal if k == "S")
        stats["trace_events"] += len(rr.trace)
        if rr.hung:
            stats["hung"] += 1
            if rr.uncertified_timeout:
                stats["hung_uncertified"] += 1
                log("uncertified timeout:", json.dumps(strip_spec(sp))[:600], "| model:", out[:300])
        if info is not None and info.get("pool") is None:
            stats["rejected_pipelines"] += 1
        mx, _ = oracle_c13(sp, rr)
        key = "pool%d" % sp["pool"]
        stats["max_overlap_seen"][key] = max(stats["max_overlap_seen"].get(key, 0), mx)
        chk.count(json.dumps(strip_spec(sp), sort_keys=True), nontrivial(sp, rr, info))
        if out.startswith("ACCEPT"):
            chk.cov["traces_validated_against_impl"] += 1
        js = judge(prop, sp, rr, info)
        if js:
            failures.append((sp, rr, js))
        ps = correspondence(env, sp, rr, info, out, err, il)
        if rr.uncertified_timeout and prop == "C11":
            ps.append("`xvc pipeline run` did not end within %ds but the model does not certify the traced state as stuck: %s" % (HANG_BOUND, out[:200]))
        if ps and not (k_garbled(sp) and not env.p13_fixed):
            corr.append((sp, rr, ps, out))
    # oracle failures: shrink, classify, report.  Failures outside every known class come first and
    # are never crowded out by reproductions of an open finding (one report per known class).
    def pre_class(js):
        ks = {k for _, k in js}
        return next(iter(ks)) if len(ks) == 1 and None not in ks else None
    unknown = [f for f in failures if pre_class(f[2]) is None]
    known = [f for f in failures if pre_class(f[2]) is not None]
    reported_unknown, reported_classes = 0, set()
    for sp, rr, js in unknown + known:
        pk = pre_class(js)
        if pk is None and reported_unknown >= max_reports:
            continue
        if pk is not None and pk in reported_classes:
            continue
        sp = sp.get("_origin") or sp        # a failing second run is replayed / shrunk as the two-run scenario
        cur, cur_js = sp, js
        try:
            def still(c):
                return bool(rerun_judge(env, prop, c)[2])
            small = shrink_spec(sp, still, budget=16)
            rr2, info2, js2 = rerun_judge(env, prop, small)
            if js2:
                cur, cur_js, rr = small, js2, rr2
        except Exception as e:
            log("shrink failed: %r" % (e,))
        what = cur_js[0][0]
        klass = pre_class(cur_js)           # decided on the shrunk input
        if klass is None:
            reported_unknown += 1
        else:
            reported_classes.add(klass)
        chk.fail("oracle", what, {"input": strip_spec(cur), "original_input": strip_spec(sp), "journal": rr.journal,
                                  "kind": "impl-history", "all": [w for w, _ in cur_js]}, name="run", klass=klass)
    for sp, rr, ps, out in corr[:max_reports]:
        # a disagreement between model and code: look for a property failure on this input first
        chk.fail("correspondence", "M-SCHED and `xvc pipeline run` differ: " + "; ".join(ps)[:600],
                 {"input": strip_spec(sp), "journal": rr.journal, "trace_tail": rr.trace[-12:], "model": out[:400],
                  "theorem_or_correspondence": "trace validation of M-SCHED (sched-accept) / graph correspondence; theorems of Props/%s.v rest on it" % prop,
                  "kind": "broken-correspondence"}, name="corr", has_input=False)
    stats["skipped_for_infrastructure_reasons"] = len(SKIPPED)
    stats["oracle_failures"] = len(failures)
    stats["correspondence_failures"] = len(corr)
    return stats, rrs, infos, specs


def table_obligations(chk, env):
    if env.table_info["problems"]:
        chk.fail("proof", "gen/stepmachine.py could not parse the state_machine! block: " + "; ".join(env.table_info["problems"]),
                 {"theorem_or_correspondence": "Gen/StepMachine.v table_parsed_ok / handler_within_table"}, name="table", has_input=False)
    chk.cov["generated_table"] = {k: env.table_info[k] for k in ("machine", "states", "events", "transitions")}
