"""C14 -- pipeline export and import are inverse.

proof (Props/C14.v over Schema/Model.v, Schema/Proofs.v) + correspondence schemamodel (extracted
M-SCHEMA) vs the real `xvc pipeline ...` commands + an oracle written from the property text:

  * pipelines are built in scratch repositories with `pipeline new / step new / step update /
    step dependency / step output` over every CLI-constructible dependency kind, all output kinds,
    all --when modes, names / commands / arguments from a pool of awkward strings;
  * before and after `pipeline run` (recorded dependency state): export (JSON and YAML, to stdout and
    --file) -> import under new names -> export: the texts must be equal except for the name; the
    listing and the export of every other pipeline must be unchanged; importing over an existing
    name must be refused without --overwrite (nothing under .xvc changes) and accepted with it;
  * the extracted model runs the same command history: command outcomes (accepted / refused), the
    listing and every JSON export (steps in entity order, dependencies / outputs in the order of
    their derived Ord) are compared.

The serde codecs are abstracted in the model (import takes the schema value), so the text level
round trip through serde_json / serde_yaml is judged by the oracle alone."""
import hashlib, json, os, re, shlex, sqlite3
from concurrent.futures import ThreadPoolExecutor
from . import common as C
from .xvc import XvcRepo

TRUSTED = [
    "Coq 8.16.1 kernel, coqc; vm_compute in Examples only; no native_compute",
    "axioms: none (Print Assumptions: Closed under the global context for all 9 theorems of Props/C14.v and for C14_full_refuted_dup_names)",
    "extraction: ExtrOcamlBasic only; ocamlfind ocamlopt 4.13.1; coq/extract/common.ml + schema_driver.ml (parsing/printing)",
    "correspondence: vlib/c14.py (generator, order-preserving encoding of XvcDependency / XvcOutput keys, canonicaliser, oracle), the hook-instrumented xvc binary built from /repo",
    "modelled, not verified: pipeline/src/pipeline/api/{export,import,new,update,step_new,step_update,step_dependency,step_output}.rs, "
    "XvcPipeline::from_name, XvcStep::from_name, R1NStore/R11Store inserts as Schema/Model.v over Ecs/Model.v",
    "abstracted: serde_json / serde_yaml codecs (the model imports the schema value: de (ser s) = Some s); XvcDependency / XvcOutput are opaque "
    "payloads ordered lexicographically (the derived Ord is reproduced by the order-preserving key encoding of vlib/c14.py and compared on every export); "
    "HashMap iteration order is a permutation parameter of the model",
    "environment assumptions: one process per command, event-file names increase (C08 fresh_names), fewer than 2^64 entities allocated",
]

# ---- string pools ----------------------------------------------------------------------------------
# awkward scalars: YAML 1.1/1.2 specials, quoting, blanks, newlines, non-ASCII, control characters
POOL = [
    "yes", "no", "~", "null", "1e3", "true", "false", "Null", "NULL", "TRUE", "y", "n", "on", "off",
    "0x1F", "012", "0o17", "+1", "-1", "1.", ".5", ".inf", "-.inf", ".nan", "1_000", "1:30", "2001-12-14",
    " lead", "trail ", "  ", "a: b", "a:b", "a :b", "key:", ": v", "a #b", "#c", "a#b", "'q'", "\"dq\"", "it's",
    "''", "\"\"", "a\nb", "a\n", "\nb", "a\n\nb\n", "a\r\nb", "a\rb", "a\tb", "\tt", "t\t", "a\\nb", "\\", "a\\",
    "\u00fc", "\u65e5\u672c\u8a9e", "emoji \U0001F600", "\u00a0nbsp", "\u2028ls", "\u2029ps", "\ufeffbom", "\u0085nel",
    "\x01ctl", "esc\x1b[0m", "del\x7f", "{x}", "{x: y}", "[y]", "[a, b]", "&a", "*a", "!t", "!!str x", "|", ">", "|-", ">+",
    "%", "%YAML 1.2", "@", "`", "a,b", "?", "? k", "- x", "-", "--", "---", "...", "<<", "=", "a=b", "$HOME", "${X}",
    "$(id)", "a;b", "a&&b", "a|b", "a>b", "<a>", "", "x" * 130, "word " * 30,
    "multi\n  indented\n\ttabbed\nlines", "trailing newlines\n\n\n", " \n ", "'", "\"", "'\"", "a'b\"c", "\u00e9\u0301",
]
# pipeline names (they also appear in the comfy-table listing): no line breaks / tabs / control characters
PNAMES = ["p", "yes", "~", "null", "1e3", " lead", "trail ", "a: b", "a #b", "'q'", "\"dq\"", "\u00fc\u65e5", "{x}", "[y]",
          "&a", "*a", "!t", "%", "@", "-n", "---", "true", "012", "a,b", "x" * 40]
FILES = {  # workspace fixture: name -> content
    "f.txt": "hello\n", "dir/g.txt": "g\n", "l.txt": "l1\nl2 a: #b\nyes\n~\n\u00fc 33\n", "a b.txt": "x\n",
    "yes": "1\n", "~": "2\n", "null": "3\n", "1e3": "4\n", " lead.txt": "5\n", "#c": "6\n", "a: b.txt": "7\n",
    "\u00fc.txt": "8\n", "data/\u65e5\u672c.csv": "a,b\n1,2\n",
    "params.yaml": ("a: 1\nf: 0.1\ne: 1e3\ns: 'yes'\nt: ~\nb: true\nn: null\nl: [1, two, 3.0]\nd: {x: 1, y: {z: '#'}}\n"
                    "big: 18446744073709551615\nneg: -5\nstr: \"a: b #c\"\nml: |\n  line1\n  line2\nuni: \u00fc\nyes: 2\n"),
    "params.json": json.dumps({"a": 1, "f": 0.1, "e": 1e3, "s": "yes", "t": None, "b": True, "l": [1, "two", 3.5],
                               "d": {"x": 1, "y": {"z": "#"}}, "big": 18446744073709551615, "neg": -5, "uni": "\u00fc\n"}),
    "params.toml": ("a = 1\nf = 0.1\ne = 1e3\ns = \"yes\"\nb = true\nl = [1, 2, 3]\nneg = -5\nuni = \"\u00fc\"\n"
                    "dt = 1979-05-27T07:32:00Z\n[d]\nx = 1\n[d.y]\nz = \"#\"\n"),
}
DEP_FILES = ["f.txt", "dir/g.txt", "a b.txt", "yes", "~", "null", "1e3", " lead.txt", "#c", "a: b.txt", "\u00fc.txt",
             "data/\u65e5\u672c.csv", "l.txt"]
FLAT_FILES = ["l.txt", "f.txt", "yes", "~", "null", "1e3", "#c", "\u00fc.txt", "a b.txt"]     # no ':' or '/'
GLOBS = ["*.txt", "dir/*", "**/*.txt", "[a-f]*.txt", "data/*.csv", "yes", "~", "nomatch-*", "l.???", "*b*"]
GENERICS = ["echo ~", "echo 'a: b'", "printf 'x\\ny'", "true # c", "echo \u00fc", "echo yes", "cat f.txt", "echo \"1e3\""]
PARAMS = [("params.yaml", k) for k in ("a", "f", "e", "s", "b", "l", "d", "d.y.z", "big", "neg", "str", "ml", "uni", "yes")] + \
         [("params.json", k) for k in ("a", "f", "e", "s", "b", "l", "d", "d.y", "big", "neg", "uni")] + \
         [("params.toml", k) for k in ("a", "f", "e", "s", "b", "l", "d", "d.y.z", "neg", "uni", "dt")]
LINES = ["1-2", "-", "2-", "-1", "0-0", "3-100000", "18446744073709551615-18446744073709551615"]
REGEXES = ["^l", "[0-9]+$", "a: #b", "yes|~", "\u00fc", ".", "^$", "l[12]"]
URLS = ["https://example.com/a?b=c#d", "http://example.com/", "https://example.com/%7Euser/yes", "ftp://example.com/null",
        "https://example.com/%C3%BC"]
NORUN_PATHS = ["no/such/file", "null.txt", "~/x", "a:b/c", "x\ny", "-f", "t\tu"]
OUT_FILES = ["o1.out", "out/o2.out", "yes.out", "~out", "o 3.out", "\u00fc.out"]
OUT_METRICS = ["m.json", "m.csv", "m.tsv", "m.out", "M.JSON", "yes.csv"]
OUT_IMAGES = ["i.png", "plots/i.out", "~.png"]
WHENS = [None, "always", "never", "by_dependencies"]
KIND_ORDER = ["file", "glob_items", "glob", "param", "step", "generic", "regex", "regex_items", "lines", "line_items", "url", "sqlite"]
DEP_FLAG = {"file": "--file", "glob_items": "--glob_items", "glob": "--glob", "param": "--param", "step": "--step",
            "generic": "--generic", "regex": "--regex", "regex_items": "--regex_items", "lines": "--lines",
            "line_items": "--line_items", "url": "--url"}
OUT_FLAG = {"file": "--output-file", "metric": "--output-metric", "image": "--output-image"}


# ---- order-preserving key encoding of XvcDependency / XvcOutput (derived Ord) ---------------------
def enc_str(s):
    b = s.encode("utf-8") if isinstance(s, str) else s
    out = []
    for x in b:
        out += [1 + (x >> 4), 1 + (x & 15)]
    return out + [0]


def enc_path(p):
    out = []
    for comp in [c for c in p.split("/") if c != ""]:
        out += [2] + enc_str(comp)
    return out + [1]


def enc_u64(n):
    return list(int(n).to_bytes(8, "big"))


PARAM_FMT = {"Unknown": 0, "YAML": 1, "JSON": 2, "TOML": 3}
METRIC_FMT = {"Unknown": 0, "CSV": 1, "JSON": 2, "TSV": 3}
U64MAX = 2 ** 64 - 1


def param_format(path):
    ext = path.rsplit(".", 1)[1] if "." in os.path.basename(path) and not os.path.basename(path).startswith(".") else ""
    return {"json": "JSON", "JSON": "JSON", "yaml": "YAML", "yml": "YAML", "toml": "TOML", "tom": "TOML", "tml": "TOML"}.get(ext, "Unknown")


def metric_format(path):
    ext = path.rsplit(".", 1)[1].lower() if "." in os.path.basename(path) else ""
    return {"csv": "CSV", "json": "JSON", "tsv": "TSV"}.get(ext, "Unknown")


def dep_key_cli(kind, arg):
    """key of the dependency `step dependency --<kind> <arg>` creates (recorded state empty)."""
    if kind == "step":
        return [0] + enc_str(arg)
    if kind == "generic":
        return [1] + enc_str(arg)
    if kind == "file":
        return [2] + enc_path(arg)
    if kind == "glob_items":
        return [3] + enc_str(arg)
    if kind == "glob":
        return [4] + enc_str(arg)
    # the three splitters are the regular expressions of step_dependency.rs (leftmost match, `.` stops at a line break)
    if kind in ("regex_items", "regex"):
        m = re.search(r"(?P<f>[^:/]+):/(?P<rx>.+)", arg)
        f, rx = m.group("f"), m.group("rx")
        return [5 if kind == "regex_items" else 6] + enc_path(f) + enc_str(rx)
    if kind == "param":
        m = re.search(r"((?P<f>.*)::)?(?P<k>.*)", arg)
        f, k = m.group("f") if m.group("f") is not None else "params.yaml", m.group("k")
        return [7, PARAM_FMT[param_format(f)]] + enc_path(f) + enc_str(k)
    if kind in ("line_items", "lines"):
        m = re.search(r"(?P<f>[^:]+)::(?P<b>[0-9]*)-(?P<e>[0-9]*)", arg)
        f, b, e = m.group("f"), m.group("b"), m.group("e")
        return [8 if kind == "line_items" else 9] + enc_path(f) + enc_u64(int(b) if b else 0) + enc_u64(int(e) if e else U64MAX)
    if kind == "url":
        return [10] + enc_str(arg)
    if kind == "sqlite":
        return [11] + enc_path(arg[0]) + enc_str(arg[1])
    raise ValueError(kind)


def nonempty(*xs):
    return any(x not in (None, [], {}, "") for x in xs)


def dep_payload_json(d):
    """(key ++ [recorded?]) of one entry of "dependencies" in a JSON export."""
    (var, v), = d.items()
    if var == "Step":
        return [0] + enc_str(v["name"]) + [0]
    if var == "Generic":
        return [1] + enc_str(v["generic_command"]) + [int(nonempty(v["output_digest"]))]
    if var == "File":
        return [2] + enc_path(v["path"]) + [int(nonempty(v["xvc_metadata"], v["content_digest"]))]
    if var == "GlobItems":
        return [3] + enc_str(v["glob"]) + [int(nonempty(v["xvc_path_metadata_map"], v["xvc_path_content_digest_map"]))]
    if var == "Glob":
        return [4] + enc_str(v["glob"]) + [int(nonempty(v["xvc_paths_digest"], v["xvc_metadata_digest"], v["content_digest"]))]
    if var == "RegexItems":
        return [5] + enc_path(v["path"]) + enc_str(v["regex"]) + [int(nonempty(v["lines"], v["xvc_metadata"]))]
    if var == "Regex":
        return [6] + enc_path(v["path"]) + enc_str(v["regex"]) + [int(nonempty(v["lines_digest"], v["xvc_metadata"]))]
    if var == "Param":
        return [7, PARAM_FMT[v["format"]]] + enc_path(v["path"]) + enc_str(v["key"]) + [int(nonempty(v["value"], v["xvc_metadata"]))]
    if var == "LineItems":
        return [8] + enc_path(v["path"]) + enc_u64(v["begin"]) + enc_u64(v["end"]) + [int(nonempty(v["lines"], v["xvc_metadata"]))]
    if var == "Lines":
        return [9] + enc_path(v["path"]) + enc_u64(v["begin"]) + enc_u64(v["end"]) + [int(nonempty(v["digest"], v["xvc_metadata"]))]
    if var == "UrlDigest":
        return [10] + enc_str(v["url"]) + [int(nonempty(v["etag"], v["last_modified"], v["url_content_digest"]))]
    if var == "SqliteQueryDigest":
        return [11] + enc_path(v["path"]) + enc_str(v["query"]) + [int(nonempty(v["query_digest"], v["xvc_metadata"]))]
    raise ValueError("unknown dependency variant " + var)


def out_key_cli(kind, path):
    if kind == "file":
        return [0] + enc_path(path)
    if kind == "metric":
        return [1] + enc_path(path) + [METRIC_FMT[metric_format(path)]]
    return [2] + enc_path(path)


def out_payload_json(o):
    (var, v), = o.items()
    if var == "File":
        return [0] + enc_path(v["path"])
    if var == "Metric":
        return [1] + enc_path(v["path"]) + [METRIC_FMT[v["format"]]]
    if var == "Image":
        return [2] + enc_path(v["path"])
    raise ValueError("unknown output variant " + var)


def hx(x):
    if isinstance(x, str):
        x = x.encode("utf-8")
    return bytes(x).hex()


KIND_BY_TAG = {0: "step", 1: "generic", 2: "file", 3: "glob_items", 4: "glob", 5: "regex_items", 6: "regex", 7: "param",
               8: "line_items", 9: "lines", 10: "url", 11: "sqlite"}
WHEN_TOK = {None: "~", "by_dependencies": "d", "always": "a", "never": "n"}
INV_TOK = {"ByDependencies": "d", "Always": "a", "Never": "n"}


def canon_export(text):
    """canonical token of a JSON export (the format schema_driver.ml prints)."""
    j = json.loads(text)
    steps = []
    for s in j["steps"]:
        steps.append("/".join([hx(s["name"]), hx(s["command"]), INV_TOK[s["invalidate"]],
                               ",".join(hx(dep_payload_json(d)) for d in s["dependencies"]),
                               ",".join(hx(out_payload_json(o)) for o in s["outputs"])]))
    return "E{v=%d;name=%s;wd=%s;steps=[%s]}" % (j["version"], hx(j["name"]), hx(j["workdir"]), ";".join(steps))


# ---- case generation ---------------------------------------------------------------------------
def gen_dep(rng, kind, earlier_steps, will_run):
    if kind == "file":
        return rng.choice(DEP_FILES if will_run else DEP_FILES + NORUN_PATHS)
    if kind in ("glob", "glob_items"):
        return rng.choice(GLOBS if will_run else GLOBS + POOL[:40])
    if kind == "param":
        f, k = rng.choice(PARAMS)
        if not will_run and rng.random() < 0.3:
            k = rng.choice(POOL)
        return "%s::%s" % (f, k)
    if kind == "step":
        if will_run:
            return rng.choice(earlier_steps) if earlier_steps else None
        return rng.choice(earlier_steps + POOL)
    if kind == "generic":
        return rng.choice(GENERICS if will_run else GENERICS + POOL)
    if kind in ("regex", "regex_items"):
        return "%s:/%s" % (rng.choice(FLAT_FILES), rng.choice(REGEXES))
    if kind in ("lines", "line_items"):
        return "%s::%s" % (rng.choice(FLAT_FILES), rng.choice(LINES))
    if kind == "url":
        return rng.choice(URLS)
    if kind == "sqlite":
        return ["db.sqlite", rng.choice(["select * from t", "select count(*) from t where s = 'yes'", "select '~' -- c"])]
    raise ValueError(kind)


class PoolCursor:
    """hands out the pool strings round-robin so that every string is used on every run."""
    def __init__(self, start):
        self.i = start
        self.used = set()

    def next(self):
        s = POOL[self.i % len(POOL)]
        self.i += 1
        self.used.add(s)
        return s


def gen_case(rng, idx, tier, cursor):
    will_run = (idx % 4 != 3)                     # three of four cases run the pipeline
    sqlite_ok = (tier == "thorough")
    target = PNAMES[idx % len(PNAMES)]
    other = PNAMES[(idx + 7) % len(PNAMES)]
    if other == target:
        other = other + "2"
    cmds = [["new", target, "wd" if idx % 5 == 2 else None], ["new", other, None]]
    kinds_cycle = [k for k in KIND_ORDER if k != "sqlite" and (k != "url" or not will_run)]
    for pi, pn in enumerate((target, other)):
        nsteps = rng.randint(2, 4) if pi == 0 else rng.randint(1, 2)
        names = []
        for si in range(nsteps):
            sname = cursor.next()
            while sname in names:
                sname = cursor.next()
            raw = cursor.next()
            if will_run and pi == 0:
                mode = rng.random()
                if mode < 0.3:
                    when, cmd = "never", raw                      # never started: any string will do
                else:
                    when = rng.choice([None, "always", "by_dependencies"])
                    cmd = rng.choice(["true ", ": ", "echo ", "printf %s "]) + shlex.quote(raw)
            else:
                when, cmd = rng.choice(WHENS), raw
            cmds.append(["step_new", pn, sname, cmd, when])
            deps = []
            nd = rng.randint(0, 5) if si or pi else 6
            for di in range(nd):
                kind = kinds_cycle[(idx * 5 + si * 3 + di * 7 + pi) % len(kinds_cycle)] if rng.random() < 0.7 else rng.choice(kinds_cycle)
                arg = gen_dep(rng, kind, names, will_run and pi == 0)
                if arg is not None:
                    deps.append([kind, arg])
            if sqlite_ok and rng.random() < 0.3:
                deps.append(["sqlite", gen_dep(rng, "sqlite", names, True)])
            if deps and rng.random() < 0.25:
                deps.append(list(rng.choice(deps)))               # the same dependency twice
            # at most one sqlite dependency per command (the option takes one pair)
            seen_sql = False
            deps2 = []
            for d in deps:
                if d[0] == "sqlite":
                    if seen_sql:
                        continue
                    seen_sql = True
                deps2.append(d)
            if deps2:
                half = len(deps2) // 2 if rng.random() < 0.4 else 0      # sometimes two commands
                if half:
                    cmds.append(["deps", pn, sname, deps2[:half]])
                cmds.append(["deps", pn, sname, deps2[half:]])
            outs = []
            for _ in range(rng.randint(0, 3)):
                ok = rng.choice(["file", "metric", "image"])
                outs.append([ok, rng.choice({"file": OUT_FILES, "metric": OUT_METRICS, "image": OUT_IMAGES}[ok])])
            if outs:
                cmds.append(["outs", pn, sname, outs])
            if rng.random() < 0.2:
                cmds.append(["step_update", pn, sname, None if rng.random() < 0.5 else cmd + " ", rng.choice(WHENS) if not (will_run and pi == 0) else when])
            names.append(sname)
        if pi == 0 and rng.random() < 0.15:
            cmds.append(["step_new", pn, names[0], "dup", None])     # refused: the step exists
    if rng.random() < 0.15:
        cmds.append(["new", target, None])                           # refused: the pipeline exists
    if rng.random() < 0.1:
        cmds.append(["deps", target, "no-such-step", [["file", "f.txt"]]])
    new_names = ["imp-j%d" % idx, PNAMES[(idx + 3) % len(PNAMES)] + "-y", "imp2-j", PNAMES[(idx + 11) % len(PNAMES)] + "-y2"]
    return {"cmds": cmds, "target": target, "other": other, "run": will_run, "new_names": new_names, "sqlite": sqlite_ok}


def rename_case():
    """two pipelines, one renamed onto the other's name, then export / import --overwrite of that name."""
    return {"cmds": [["new", "a", None], ["new", "b", None], ["step_new", "a", "sa", "echo a", None],
                     ["step_new", "b", "sb", "echo b", None], ["rename", "b", "a"]],
            "target": "a", "other": "default", "run": False, "new_names": ["n1", "n2", "n3", "n4"], "sqlite": False}


# ---- running a case on the real binary -----------------------------------------------------------
class CaseFailure(Exception):
    pass


def parse_list(text):
    """names in `pipeline list` (comfy-table): logical rows are separated by |---...| lines."""
    rows, cur = [], None
    for line in text.split("\n"):
        if line.startswith("+") or line.startswith("|--") or line.startswith("|=="):
            if cur is not None:
                rows.append(cur)
            cur = None
            continue
        if line.startswith("|"):
            cells = line.strip().strip("|").split("|")
            frag = cells[0].strip() if cells else ""
            cur = frag if cur is None else cur + "\n" + frag
    if cur is not None:
        rows.append(cur)
    return rows[1:] if rows and rows[0] == "Name" else rows


def norm_name(n):
    return " ".join(n.split())


def tree_digest(root):
    h = hashlib.sha256()
    for dp, dn, fn in sorted(os.walk(root)):
        dn.sort()
        for f in sorted(fn):
            p = os.path.join(dp, f)
            h.update(os.path.relpath(p, root).encode() + b"\0")
            with open(p, "rb") as fh:
                h.update(hashlib.sha256(fh.read()).digest())
    return h.hexdigest()


def strip_name(text, fmt):
    """the export text with the top-level name entry removed; returns (rest, name entry)."""
    lines = text.split("\n")
    if fmt == "json":
        idx = [i for i, l in enumerate(lines) if l.startswith('  "name": ')]
        if len(idx) != 1:
            raise CaseFailure("no unique top-level name line in JSON export")
        i = idx[0]
        return "\n".join(lines[:i] + lines[i + 1:]), lines[i]
    start = [i for i, l in enumerate(lines) if l.startswith("name:")]
    end = [i for i, l in enumerate(lines) if l.startswith("workdir:")]
    if len(start) != 1 or len(end) != 1 or end[0] <= start[0]:
        raise CaseFailure("no unique top-level name entry in YAML export")
    return "\n".join(lines[:start[0]] + lines[end[0]:]), "\n".join(lines[start[0]:end[0]])


class Runner:
    """executes one case; collects the tokens for the model, the real outcomes and the oracle verdicts."""

    def __init__(self, xvc_bin, case, rng_seed):
        self.case = case
        self.bin = xvc_bin
        self.toks, self.real = [], []         # model tokens / real canonical outcomes (same length)
        self.fail = []                        # oracle failures: (what, detail)
        self.errs = []                        # the first failed invocations (diagnosis of transient failures)
        self.stats = {"invocations": 0, "recorded_deps": 0, "run_ok": 0, "roundtrips": 0, "refusals": 0, "overwrites": 0,
                      "dep_kinds": {}, "out_kinds": {}, "whens": {}, "recorded_kinds": {}, "strings": set()}
        self.rnd = 1000 + rng_seed % 1000
        self.known = ["default"]              # pipeline names in creation order (as the oracle expects them)

    def x(self, *args, stdin=None):
        self.stats["invocations"] += 1
        r = self.repo.xvc("--skip-git", *args, stdin=stdin, timeout=300)
        if r.failed and len(self.errs) < 8:
            self.errs.append({"args": [str(a)[:60] for a in args[:6]], "rc": r.rc, "timed_out": r.timed_out, "err": r.err[-300:]})
        return r

    def nrnd(self):
        self.rnd += 7
        return self.rnd

    def both(self, tok, res):
        self.toks.append(tok)
        self.real.append("ok" if not res.failed else "err")
        return not res.failed

    # -- building commands
    def do_cmd(self, c):
        k = c[0]
        if k == "new":
            args = ["pipeline", "--pipeline-name=" + c[1], "new"] + (["--workdir=" + c[2]] if c[2] else [])
            ok = self.both("N:%d:%s:%s" % (self.nrnd(), hx(c[1]), hx(c[2]) if c[2] else "~"), self.x(*args))
            if ok:
                self.known.append(c[1])
        elif k == "rename":
            ok = self.both("R:%d:%s:%s" % (self.nrnd(), hx(c[1]), hx(c[2])),
                           self.x("pipeline", "--pipeline-name=" + c[1], "update", "--rename=" + c[2]))
            if ok and c[1] in self.known:
                self.known[self.known.index(c[1])] = c[2]
        elif k == "step_new":
            args = ["pipeline", "--pipeline-name=" + c[1], "step", "new", "--step-name=" + c[2], "--command=" + c[3]]
            if c[4]:
                args.append("--when=" + c[4])
            self.both("S:%d:%s:%s:%s:%s" % (self.nrnd(), hx(c[1]), hx(c[2]), hx(c[3]), WHEN_TOK[c[4]]), self.x(*args))
            self.stats["whens"][str(c[4])] = self.stats["whens"].get(str(c[4]), 0) + 1
            self.stats["strings"].update([c[2], c[3]])
        elif k == "step_update":
            args = ["pipeline", "--pipeline-name=" + c[1], "step", "update", "--step-name=" + c[2]]
            if c[3] is not None:
                args.append("--command=" + c[3])
            if c[4]:
                args.append("--when=" + c[4])
            self.both("U:%d:%s:%s:%s:%s" % (self.nrnd(), hx(c[1]), hx(c[2]), hx(c[3]) if c[3] is not None else "~", WHEN_TOK[c[4]]),
                      self.x(*args))
        elif k == "deps":
            deps = sorted(c[3], key=lambda d: KIND_ORDER.index(d[0]))      # the order cmd_step_dependency collects them in
            args = ["pipeline", "--pipeline-name=" + c[1], "step", "dependency", "--step-name=" + c[2]]
            for kind, arg in c[3]:
                if kind == "sqlite":
                    args += ["--sqlite-query", arg[0], arg[1]]
                else:
                    args.append("%s=%s" % (DEP_FLAG[kind], arg))
                self.stats["dep_kinds"][kind] = self.stats["dep_kinds"].get(kind, 0) + 1
            self.both("D:%d:%s:%s:%s" % (self.nrnd(), hx(c[1]), hx(c[2]), ",".join(hx(dep_key_cli(kd, a) + [0]) for kd, a in deps)),
                      self.x(*args))
        elif k == "outs":
            order = {"file": 0, "metric": 1, "image": 2}
            outs = sorted(c[3], key=lambda o: order[o[0]])
            args = ["pipeline", "--pipeline-name=" + c[1], "step", "output", "--step-name=" + c[2]]
            for kind, p in c[3]:
                args.append("%s=%s" % (OUT_FLAG[kind], p))
                self.stats["out_kinds"][kind] = self.stats["out_kinds"].get(kind, 0) + 1
            self.both("O:%d:%s:%s:%s" % (self.nrnd(), hx(c[1]), hx(c[2]), ",".join(hx(out_key_cli(kd, p)) for kd, p in outs)),
                      self.x(*args))
        else:
            raise ValueError(k)

    # -- observations
    def export(self, name, fmt):
        r = self.x("pipeline", "--pipeline-name=" + name, "export", "--format=" + fmt)
        if r.failed:
            return None
        return r.out[:-1] if r.out.endswith("\n") else r.out

    def observe(self, yaml_for=()):
        """listing + JSON export of every known pipeline (+ YAML export of some); also queried in the model."""
        r = self.x("pipeline", "list")
        names = parse_list(r.out)
        self.toks.append("L")
        self.real.append("L[" + ",".join(norm_name(n) for n in names) + "]")
        obs = {"list": [norm_name(n) for n in names], "json": {}, "yaml": {}}
        seen = []
        for n in self.known:
            if n in seen:
                continue
            seen.append(n)
            t = self.export(n, "json")
            obs["json"][n] = t
            self.toks.append("E:" + hx(n))
            try:
                self.real.append(canon_export(t) if t is not None else "E:err")
            except (ValueError, KeyError, TypeError) as e:
                self.real.append("E:unparsable %r" % (e,))
            if n in yaml_for:
                obs["yaml"][n] = self.export(n, "yaml")
        obs["digest"] = tree_digest(self.repo.path(".xvc"))
        return obs

    def bad(self, what, **detail):
        self.fail.append((what, detail))

    def import_(self, name, src, fmt, text, overwrite, via_file):
        args = ["pipeline", "--pipeline-name=" + name, "import", "--format=" + fmt]
        if overwrite:
            args.append("--overwrite")
        if via_file:
            p = self.repo.path("exp-%d.%s" % (len(self.toks), "yml" if fmt == "yaml" else "json"))
            with open(p, "w", encoding="utf-8", newline="") as fh:
                fh.write(text)
            args = [a for a in args if not a.startswith("--format")] + ["--file=" + p]
            r = self.x(*args)
        else:
            r = self.x(*args, stdin=text + "\n")
        self.toks.append("I:%d:%s:%s:%d" % (self.nrnd(), hx(name), hx(src), 1 if overwrite else 0))
        self.real.append("ok" if not r.failed else "err")
        return r

    def compare_obs(self, a, b, skip, what, phase):
        """everything except the pipelines in `skip` is the same in observations a and b."""
        for n, t in a["json"].items():
            if n in skip:
                continue
            if b["json"].get(n) != t:
                self.bad("%s: the JSON export of pipeline %r changed" % (what, n), phase=phase, before=t, after=b["json"].get(n))
        for n, t in a["yaml"].items():
            if n in skip:
                continue
            if n in b["yaml"] and b["yaml"][n] != t:
                self.bad("%s: the YAML export of pipeline %r changed" % (what, n), phase=phase, before=t, after=b["yaml"][n])

    def check_copy(self, obs_src, src, obs_new, new, what, phase, fmts=("json", "yaml")):
        for fmt in fmts:
            t1, t2 = obs_src[fmt].get(src), obs_new[fmt].get(new)
            if t1 is None or t2 is None:
                if t2 is None:
                    self.bad("%s: export (%s) of the imported pipeline fails" % (what, fmt), phase=phase, name=new)
                continue
            try:
                r1, n1 = strip_name(t1, fmt)
                r2, n2 = strip_name(t2, fmt)
            except CaseFailure as e:
                self.bad("%s: %s" % (what, e), phase=phase, fmt=fmt)
                continue
            if r1 != r2:
                self.bad("%s: %s export of the imported pipeline differs from the original beyond the name" % (what, fmt.upper()),
                         phase=phase, fmt=fmt, original=t1, imported=t2)
            elif fmt == "json":
                try:
                    if json.loads(n2.strip().rstrip(",").split(":", 1)[1]) != new:
                        self.bad("%s: the imported pipeline exports the name %s, not %r" % (what, n2, new), phase=phase)
                except ValueError:
                    self.bad("%s: unparsable name line %r" % (what, n2), phase=phase)

    def roundtrip(self, phase, nj, ny):
        """export P (JSON, YAML) -> import as nj / ny -> export; refusal; overwrite."""
        P, O = self.case["target"], self.case["other"]
        o0 = self.observe(yaml_for=(P, O))
        tj, ty = o0["json"].get(P), o0["yaml"].get(P)
        if tj is None or ty is None:
            self.bad("export of a pipeline built with the step commands fails", phase=phase, json=tj is not None, yaml=ty is not None)
            return
        # export --file writes the same text
        pf = self.repo.path("file-export-%s.yaml" % phase)
        r = self.x("pipeline", "--pipeline-name=" + P, "export", "--file=" + pf)
        try:
            tf = open(pf, encoding="utf-8", newline="").read()
        except OSError:
            tf = None
        if r.failed or tf is None or tf.rstrip("\n") != ty.rstrip("\n"):
            self.bad("export --file x.yaml writes a different text than export --format yaml", phase=phase, file=tf, stdout=ty)
        # 1. import under new names
        rj = self.import_(nj, P, "json", tj, False, via_file=(phase == "before"))
        ry = self.import_(ny, P, "yaml", ty, False, via_file=(phase != "before"))
        if rj.failed:
            self.bad("import of an exported JSON file under a new name fails", phase=phase, err=rj.err[-400:], text=tj)
        else:
            self.known.append(nj)
        if ry.failed:
            self.bad("import of an exported YAML file under a new name fails", phase=phase, err=ry.err[-400:], text=ty)
        else:
            self.known.append(ny)
        o1 = self.observe(yaml_for=(P, O, nj, ny))
        self.compare_obs(o0, o1, (), "import under a new name", phase)
        if not rj.failed:
            self.check_copy(o0, P, o1, nj, "JSON round trip", phase)
            self.stats["roundtrips"] += 1
        if not ry.failed:
            self.check_copy(o0, P, o1, ny, "YAML round trip", phase)
            self.stats["roundtrips"] += 1
        want = o0["list"] + ([norm_name(nj)] if not rj.failed else []) + ([norm_name(ny)] if not ry.failed else [])
        if sorted(o1["list"]) != sorted(want):
            self.bad("pipeline list after the imports is not the old list plus the new names", phase=phase, before=o0["list"], after=o1["list"])
        if rj.failed and ry.failed:
            return
        # 2. refused without --overwrite: over a freshly imported name and over the other pipeline
        exist1 = nj if not rj.failed else ny
        r1 = self.import_(exist1, P, "yaml", ty, False, via_file=False)
        r2 = self.import_(O, P, "json", tj, False, via_file=True)
        o2 = self.observe(yaml_for=(P, O, nj, ny))
        for r, n in ((r1, exist1), (r2, O)):
            self.stats["refusals"] += 1
            if not r.failed:
                self.bad("import over the existing name %r without --overwrite is not refused" % n, phase=phase)
        if o2["digest"] != o1["digest"] or o2["list"] != o1["list"]:
            self.bad("a refused import changed the repository (files under .xvc or the listing)", phase=phase)
        self.compare_obs(o1, o2, (), "refused import", phase)
        # 3. accepted with --overwrite (formats crossed)
        r3 = self.import_(exist1, P, "yaml", ty, True, via_file=True)
        r4 = self.import_(O, P, "json", tj, True, via_file=False)
        for r, n in ((r3, exist1), (r4, O)):
            self.stats["overwrites"] += 1
            if r.failed:
                self.bad("import over the existing name %r with --overwrite fails" % n, phase=phase, err=r.err[-400:])
        for n in (exist1, O):                       # an overwritten pipeline is a new entity: last in the listing
            if n in self.known:
                self.known.remove(n)
                self.known.append(n)
        o3 = self.observe(yaml_for=(P, O, nj, ny))
        self.compare_obs(o2, o3, (exist1, O), "import --overwrite", phase)
        if not r3.failed:
            self.check_copy(o0, P, o3, exist1, "overwrite with the YAML export", phase)
        if not r4.failed:
            self.check_copy(o0, P, o3, O, "overwrite with the JSON export", phase)
        if sorted(o3["list"]) != sorted(o2["list"]):
            self.bad("import --overwrite changed the set of names in pipeline list", phase=phase, before=o2["list"], after=o3["list"])
        # 4. a pipeline overwritten with its own export exports the same text
        r5 = self.import_(P, P, "json" if phase == "before" else "yaml", tj if phase == "before" else ty, True, via_file=False)
        self.stats["overwrites"] += 1
        if r5.failed:
            self.bad("import of a pipeline's own export over its name with --overwrite fails", phase=phase, err=r5.err[-400:])
            return
        if P in self.known:
            self.known.remove(P)
            self.known.append(P)
        o4 = self.observe(yaml_for=(P, O, nj, ny))
        self.compare_obs(o3, o4, (P,), "import --overwrite of a pipeline's own export", phase)
        for fmt in ("json", "yaml"):
            if o4[fmt].get(P) != o0[fmt].get(P):
                self.bad("overwrite with its own export: the %s export of the pipeline changed" % fmt.upper(), phase=phase,
                         original=o0[fmt].get(P), after=o4[fmt].get(P))

    def reordered_file(self, tj, name):
        """imports the JSON export with the dependencies and outputs of every step reversed (a hand-edited
        file); the model says the export is the normal form again.  Compared with the model only."""
        try:
            j = json.loads(tj)
        except ValueError:
            return
        steps = []
        for st in j["steps"]:
            st["dependencies"].reverse(); st["outputs"].reverse()
            steps.append("/".join([hx(st["name"]), hx(st["command"]), INV_TOK[st["invalidate"]],
                                   ",".join(hx(dep_payload_json(d)) for d in st["dependencies"]),
                                   ",".join(hx(out_payload_json(o)) for o in st["outputs"])]))
        r = self.x("pipeline", "--pipeline-name=" + name, "import", "--format=json", stdin=json.dumps(j) + "\n")
        self.toks.append("X:%d:%s:0:%s:%s" % (self.nrnd(), hx(name), hx(j["workdir"]), ";".join(steps)))
        self.real.append("ok" if not r.failed else "err")
        if not r.failed:
            self.known.append(name)
            self.observe()

    def record_run(self, before, after):
        """tells the model which dependencies `pipeline run` recorded (observed on the real export)."""
        P = self.case["target"]
        try:
            jb, ja = json.loads(before), json.loads(after)
        except (ValueError, TypeError):
            return
        nb = {s["name"]: s for s in jb["steps"]}
        for s in ja["steps"]:
            old = [dep_payload_json(d) for d in nb.get(s["name"], {"dependencies": []})["dependencies"]]
            for d in s["dependencies"]:
                p = dep_payload_json(d)
                if p[-1] == 1 and p[:-1] + [0] in old:
                    old.remove(p[:-1] + [0])
                    self.toks.append("C:%d:%s:%s:%s:%s" % (self.nrnd(), hx(P), hx(s["name"]), hx(p[:-1] + [0]), hx(p)))
                    self.real.append("ok")
                    self.stats["recorded_deps"] += 1
                    kind = KIND_BY_TAG.get(p[0], "?")
                    self.stats["recorded_kinds"][kind] = self.stats["recorded_kinds"].get(kind, 0) + 1

    def run(self):
        case = self.case
        self.repo = XvcRepo(self.bin, prefix="c14", git=False)
        try:
            for rel, data in FILES.items():
                self.repo.write(rel, data)
            os.makedirs(self.repo.path("wd"), exist_ok=True)
            if case.get("sqlite"):
                con = sqlite3.connect(self.repo.path("db.sqlite"))
                con.execute("create table t (i integer, s text)")
                con.executemany("insert into t values (?, ?)", [(1, "yes"), (2, "~"), (3, "\u00fc")])
                con.commit(); con.close()
            for c in case["cmds"]:
                self.do_cmd(c)
            nn = case["new_names"]
            self.roundtrip("before", nn[0], nn[1])
            tj = self.export(case["target"], "json")
            if tj is not None:
                self.reordered_file(tj, "reordered-file")
            if case["run"]:
                P = case["target"]
                before = self.export(P, "json")
                r = self.x("pipeline", "--pipeline-name=" + P, "run")
                after = self.export(P, "json")
                if not r.failed and not r.timed_out:
                    self.stats["run_ok"] += 1
                self.stats["run_err"] = (r.err[-300:] if r.failed else "")
                self.record_run(before, after)
                self.roundtrip("after", nn[2], nn[3])
        finally:
            self.repo.cleanup()
        self.stats["strings"] = sorted(self.stats["strings"])
        return self


def model_line(fixed, runner):
    return "%d %s %s" % (1 if fixed else 0, hx("default"), " ".join(runner.toks))


def probe_fixed_rename(xvc_bin):
    """does `pipeline update --rename` refuse a name that another pipeline has? (after the fix: yes)"""
    with XvcRepo(xvc_bin, prefix="c14p", git=False) as repo:
        repo.xvc("--skip-git", "pipeline", "-p", "a", "new")
        repo.xvc("--skip-git", "pipeline", "-p", "b", "new")
        r = repo.xvc("--skip-git", "pipeline", "-p", "b", "update", "--rename", "a")
        return r.failed


P53_WHAT = "overwrite with its own export"


def accepted_colliding_rename(runner):
    """class predicate of finding P53 on an executed (shrunk) history: the real binary ACCEPTED an
    `update --rename Q` although another pipeline was called Q.  (Together with the kind of alarm --
    the export of a pipeline changes when it is overwritten with its own export -- this is the class
    rename-onto-existing-name; Known_dup_names in Props/C14.v.)"""
    names = [hx("default")]
    for tok, real in zip(runner.toks, runner.real):
        f = tok.split(":")
        if real != "ok":
            continue
        if f[0] == "N":
            names.append(f[2])
        elif f[0] in ("I", "X") and f[2] not in names:
            names.append(f[2])
        elif f[0] == "R":
            if f[3] in names and f[2] != f[3]:
                return True
            if f[2] in names:
                names[names.index(f[2])] = f[3]
    return False


def run_one(xvc_bin, case, seed):
    return Runner(xvc_bin, case, seed).run()


def compare_model(runner, out):
    """first disagreement between the model's tokens and the real outcomes, or None."""
    mt = out.split(" | ")
    if len(mt) != len(runner.real):
        return "model printed %d tokens for %d" % (len(mt), len(runner.real)), None
    for i, (m, r) in enumerate(zip(mt, runner.real)):
        tok = runner.toks[i]
        if tok == "L":
            names = m[2:-1].split(",") if m.startswith("L[") and len(m) > 3 else []
            try:
                m2 = "L[" + ",".join(norm_name(bytes.fromhex(h).decode("utf-8")) for h in names) + "]"
            except ValueError:
                m2 = m
            if m2 != r:
                return "pipeline list: model %s, implementation %s" % (m2, r), i
        elif tok.startswith("E:"):
            if r == "E:err":
                if not m.startswith("E:err") and not m.startswith("E:panic"):
                    return "export %s: implementation fails, model %s" % (tok, m[:200]), i
            elif m != r:
                return "export %s: model %s, implementation %s" % (tok, m[:300], r[:300]), i
        else:
            mm = "ok" if m == "ok" else "err"
            if mm != r:
                return "command %s: model %s, implementation %s" % (tok[:80], m, r), i
    return None


def run(chk, replay=None):
    tier, rng = chk.tier, chk.rng
    chk.cov["trusted_base"] = TRUSTED
    chk.assumptions += ["de (ser s) = Some s for serde_json / serde_yaml on XvcPipelineSchema: not assumed by the check -- judged on every real round trip by the oracle",
                        "entity counters do not wrap (fewer than 2^64 entities)", "one process per command; event files are named by increasing timestamps"]
    chk.proof()
    model = C.ensure_model("Schema", ["Base", "Ecs", "Schema"])
    xvc_bin = C.ensure_xvc()
    fixed = probe_fixed_rename(xvc_bin)
    chk.cov["fixed_rename_observed"] = fixed

    cases = []
    cursor = PoolCursor(0)
    if replay and not isinstance(replay.get("input"), dict):
        replay = None          # a replay of a broken obligation / generator alarm names no input: run the whole check again
    if replay:
        cases = [("replay", replay["input"])]
    else:
        corpus = os.path.join(C.ROOT, "corpus", "C14")
        for f in sorted(os.listdir(corpus)) if os.path.isdir(corpus) else []:
            cases.append(("corpus/" + f, json.load(open(os.path.join(corpus, f)))["input"]))
        n = 30 if tier == "quick" else 200
        for i in range(n):
            cases.append(("gen%d" % i, gen_case(rng, i, tier, cursor)))
    workers = max(4, min(12, C.NPROC - 2))
    with ThreadPoolExecutor(workers) as ex:
        runners = list(ex.map(lambda ic: run_one(xvc_bin, ic[1][1], chk.seed + ic[0]), list(enumerate(cases))))
    lines = [model_line(fixed, r) for r in runners]
    rc, outs = C.run_lines(model, lines, shards=4)
    if rc != 0 or len(outs) != len(lines):
        chk.fail("correspondence", "schemamodel crashed or printed %d lines for %d cases" % (len(outs), len(lines)),
                 {"theorem_or_correspondence": "schemamodel"}, has_input=False)
        outs = outs + ["<missing>"] * (len(lines) - len(outs))

    dist = {"dep_kinds": {}, "out_kinds": {}, "whens": {}, "recorded_kinds": {}, "invocations": 0, "recorded_deps": 0, "runs_ok": 0, "runs": 0,
            "roundtrips": 0, "refusals": 0, "overwrites": 0, "cases": len(cases)}
    strings = set()
    reported = 0
    shrunk_once = False
    # Every alarm must reproduce: the property is deterministic in the history, so a case that raised an
    # alarm (oracle, model difference) is executed a second time, alone, and only alarms seen in both
    # executions count.  (A starved machine makes single invocations fail: fork/thread limits, timeouts.)
    transient = []
    confirmed = {}
    for idx, ((label, case), rn, out) in enumerate(zip(cases, runners, outs)):
        d = compare_model(rn, out)
        if not rn.fail and d is None:
            continue
        rn2 = run_one(xvc_bin, case, chk.seed + idx)
        _, o2 = C.run_lines(model, [model_line(fixed, rn2)])
        out2 = o2[0] if o2 else "<missing>"
        d2 = compare_model(rn2, out2)
        both = [f for f in rn.fail if any(g[0] == f[0] for g in rn2.fail)]
        if len(both) < len(rn.fail) or (d is not None and d2 is None):
            transient.append({"case": label, "not_reproduced": [f[0] for f in rn.fail if f not in both][:5],
                              "model_difference_not_reproduced": bool(d is not None and d2 is None),
                              "failed_invocations": rn.errs[:4]})
        confirmed[idx] = (both, d if d2 is not None else None)
    chk.cov["transient_alarms_not_reproduced"] = transient[:10]
    for idx, ((label, case), rn, out) in enumerate(zip(cases, runners, outs)):
        if idx in confirmed:
            rn.fail, dconf = confirmed[idx]
        else:
            dconf = None
        st = rn.stats
        for k in ("dep_kinds", "out_kinds", "whens", "recorded_kinds"):
            for a, b in st[k].items():
                dist[k][a] = dist[k].get(a, 0) + b
        for k in ("invocations", "recorded_deps", "roundtrips", "refusals", "overwrites"):
            dist[k] += st[k]
        dist["runs_ok"] += st["run_ok"]; dist["runs"] += 1 if case["run"] else 0
        strings.update(st["strings"])
        nontrivial = st["roundtrips"] >= 2 and any(c[0] == "deps" for c in case["cmds"])
        chk.count(json.dumps(case, sort_keys=True), nontrivial)
        if label in ("gen0", "gen1") or label.startswith("corpus"):
            chk.sample({"case": label, "cmds": case["cmds"][:6], "model_line": lines[cases.index((label, case))][:300]}, limit=4)
        klass = None
        if rn.fail and reported < 3:
            reported += 1
            # an alarm outside the family of the known finding goes first, so that it cannot hide behind it
            other = [f for f in rn.fail if not f[0].startswith(P53_WHAT)]
            what, detail = (other or rn.fail)[0]
            # corpus witnesses are minimal already; replays are re-executed as they are
            # (only the first alarm is shrunk: every evaluation of the shrinker is a whole case)
            if replay or label.startswith("corpus/") or shrunk_once:
                shrunk, rs = case, rn
            else:
                shrunk = shrink_case(xvc_bin, case, what, chk.seed)
                shrunk_once = True
                rs = run_one(xvc_bin, shrunk, chk.seed)
            klass = "rename-onto-existing-name" if (what.startswith(P53_WHAT) and accepted_colliding_rename(rs)) else None
            chk.fail("oracle", what, {"input": shrunk, "original_case": label, "detail": detail, "all_failures": [w for w, _ in rn.fail][:10],
                                      "kind": "impl-history"}, name="rt", klass=klass)
        d = dconf
        if d is not None and (not rn.fail or klass is not None) and reported < 3:    # (the model has the known class too)
            reported += 1
            msg, i = d
            chk.fail("correspondence", msg, {"input": case, "original_case": label, "token_index": i, "model_line": lines[runners.index(rn)],
                                             "model_out": out, "real": rn.real,
                                             "theorem_or_correspondence": "schemamodel vs xvc pipeline commands (export order, refusals, listing)"},
                     name="corr", has_input=False)
        if "UNSTABLE" in out and reported < 3:
            reported += 1
            chk.fail("proof", "the model's export depends on the HashMap iteration order or on reloading the stores (export_stable)",
                     {"input": case, "model_out": out, "theorem_or_correspondence": "export_stable"}, name="stable", has_input=False)
    chk.cov["traces_validated_against_impl"] = len(cases)
    dist["pool_strings_used"] = len(cursor.used) if not replay else 0
    dist["pool_size"] = len(set(POOL))
    chk.cov["distribution"] = dist
    chk.cov["rule"] = ("one evaluation = one scratch repository: a command history building two pipelines (2-4 steps, up to 7 dependencies per step over "
                       "file/glob/glob_items/param/regex/regex_items/lines/line_items/step/generic/url (+ sqlite-query in thorough), file/metric/image outputs, all --when modes, "
                       "names and commands round-robin from a pool of %d awkward strings), then export JSON+YAML -> import under new names -> export, refused import, "
                       "import --overwrite, before and (3 of 4 cases) after `pipeline run`; every command outcome, listing and JSON export also compared with the extracted model. "
                       "non-trivial = at least two completed round trips of a pipeline with dependencies; distinct by the command history" % len(POOL))
    if not replay:
        if dist["runs"] and dist["recorded_deps"] == 0:
            chk.fail("correspondence", "no pipeline run recorded any dependency state: the generator no longer reaches the after-run half of the property",
                     {"theorem_or_correspondence": "generator"}, name="gen", has_input=False)
        if dist["pool_strings_used"] < len(set(POOL)):
            chk.fail("correspondence", "the generator used only %d of %d pool strings" % (dist["pool_strings_used"], len(set(POOL))),
                     {"theorem_or_correspondence": "generator"}, name="gen", has_input=False)
    return chk


def shrink_case(xvc_bin, case, what, seed):
    """drops building commands while the same oracle failure is still observed (bounded effort)."""
    key = what.split(":")[0]

    def still(cmds):
        c2 = dict(case, cmds=cmds)
        try:
            rn = run_one(xvc_bin, c2, seed)
        except Exception:
            return False
        return any(w.split(":")[0] == key for w, _ in rn.fail)
    keep = [c for c in case["cmds"]]
    small = C.shrink_list(keep, still, max_rounds=16)
    return dict(case, cmds=small)
