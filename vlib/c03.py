"""C03 — no xvc command destroys workspace data it has not saved.
proof (Props/C03.v over M-REPO) + correspondence (repomodel vs the real binary on the core items)
+ an oracle written from the property text: before every command (without --force, not `file remove`)
  an inventory of the bytes reachable at every workspace path is taken; after it every one of those
  byte strings must be found at the same path, at the destination the user asked to move it to, or in the
  cache under the digest xvc records for that path."""
import os, json
from concurrent.futures import ThreadPoolExecutor
from . import common as C, repo as R, repocheck as K
from .xvc import XvcRepo

FILES = ["a.txt", "b.txt", "d/c.txt", "d/e.dat", "u.txt", "d/u2.txt", "n"]
CONTENT = [b"one\n", b"two\n", b"three", b"\x00\x01bin", b"one\r\n", b"", b"x" * 100, b"PRECIOUS\n"]


def gen_scenario(rng, idx):
    method = rng.choice(["copy", "copy", "hardlink", "symlink"])
    files = {p: rng.choice(CONTENT[:4] + [("%s-%d" % (p, idx)).encode()]) for p in rng.sample(FILES, rng.randint(3, 6))}
    tracked = [p for p in files if rng.random() < 0.6]
    if not tracked:
        tracked = [sorted(files)[0]]
    items = [["track", {"m": method}, sorted(tracked)]]
    n = rng.randint(2, 6)
    for _ in range(n):
        k = rng.random()
        p = rng.choice(sorted(files))
        if k < 0.2:
            items.append(["W", p, rng.choice(CONTENT).hex()])               # user edit (tracked: uncommitted change)
            if p in tracked and rng.random() < 0.4:
                # ... of a path xvc materialised as a link: the edit replaced the link by a regular file; moving
                # or copying it now must be refused (uncommitted changes)
                items.append(rng.choice([["move", {"as": None, "nr": False, "cwd": None}, p, rng.choice(["ed-moved.txt", "d/ed-moved.txt"])],
                                         ["copy", {"nr": False, "cwd": None}, p, "ed-copied.txt"]]))
        elif k < 0.27:
            items.append(["D", p])
        elif k < 0.37:
            items.append(["recheck", {"m": rng.choice([None, "copy", "hardlink", "symlink"])}, [rng.choice(tracked)] if rng.random() < 0.7 else []])
        elif k < 0.47:
            items.append(["carry", {}, [rng.choice(tracked)]])
        elif k < 0.57:
            nc = rng.random() < 0.35
            items.append(["track", {"m": rng.choice([None, method]), "nc": nc}, [p]])
            if p not in tracked:
                tracked.append(p)
            if nc and rng.random() < 0.6:
                # recorded but never carried in: no cache object.  A recheck that changes the method, or a move
                # that re-links, must not take the only copy away
                items.append(rng.choice([["recheck", {"m": rng.choice(["symlink", "hardlink", "copy"])}, [p]],
                                         ["move", {"as": rng.choice(["symlink", "hardlink", None]), "nr": rng.random() < 0.2, "cwd": None}, p, rng.choice(["nc-moved.txt", "d/nc-moved.txt"])]]))
        elif k < 0.6:
            # the object is removed from the cache on purpose (`file remove` is exempt from the property); what
            # the NEXT commands do to the workspace copy is not
            q = rng.choice(tracked)
            items.append(["remove-cache", {}, [q]])
            items.append(["recheck", {"m": rng.choice(["symlink", "hardlink", "copy"])}, [q]])
        elif k < 0.72:
            s = rng.choice(tracked)
            d = rng.choice(sorted(files) + ["new.txt", "d/new.txt", "o/", "d/"])     # existing (tracked or not) or new destinations
            if s.startswith("d/") and rng.random() < 0.5:
                d = rng.choice([q for q in sorted(files) if q.startswith("d/")] + ["d/new.txt", "d/u2.txt"])
            items.append(["copy", {"nr": rng.random() < 0.15, "cwd": "d" if (s.startswith("d/") and d.startswith("d/") and d != "d/" and rng.random() < 0.6) else None}, s, d])
        elif k < 0.87:
            s = rng.choice(tracked)
            d = rng.choice(sorted(files) + ["mv.txt", "d/mv.txt", "o/"])
            if s.startswith("d/") and rng.random() < 0.5:
                d = rng.choice([q for q in sorted(files) if q.startswith("d/")] + ["d/mv.txt", "d/u2.txt"])
            items.append(["move", {"as": rng.choice([None, None, "symlink", "hardlink", "copy"]), "nr": rng.random() < 0.15,
                                   "cwd": "d" if (s.startswith("d/") and d.startswith("d/") and d != "d/" and rng.random() < 0.6) else None}, s, d])
        elif k < 0.94:
            items.append(["untrack", {}, [rng.choice(tracked)]])
        else:
            items.append(["bring-nothing", {}, []])
    return {"idx": idx, "files": {p: b.hex() for p, b in files.items()}, "items": items}


def reach(root):
    """path -> bytes reachable at every workspace path (following links); ignore files excluded"""
    inv = {}
    for dp, dn, fn in os.walk(root):
        dn[:] = [d for d in dn if not (dp == root and d in (".xvc", ".git"))]
        for f in fn:
            if f in (".gitignore", ".xvcignore"):
                continue
            full = os.path.join(dp, f)
            try:
                inv[os.path.relpath(full, root)] = open(full, "rb").read()
            except OSError:
                pass          # dangling link: nothing reachable there
    return inv


def run_scenario(xvc, sc):
    rp = XvcRepo(xvc, prefix="c03", git=False)
    out = {"problems": [], "cmds": 0, "kinds": {}, "refused": 0, "alias": False}
    try:
        tick = 0
        for p, hx in sc["files"].items():
            tick += 1
            rp.write(p, bytes.fromhex(hx), mtime_ns=R.BASE_NS + tick * 1_000_000_000)
        for it in sc["items"]:
            k = it[0]
            if k == "W":
                tick += 1
                rp.write(it[1], bytes.fromhex(it[2]), mtime_ns=R.BASE_NS + tick * 1_000_000_000); continue
            if k == "D":
                if os.path.lexists(rp.path(it[1])):
                    os.unlink(rp.path(it[1]))
                continue
            before = reach(rp.root)
            o = it[1]
            dest_of = {}
            if k == "track":
                args = ["file", "track"] + (["--recheck-method", o["m"]] if o.get("m") else []) + (["--no-commit"] if o.get("nc") else []) + it[2]
            elif k == "carry":
                args = ["file", "carry-in"] + it[2]
            elif k == "recheck":
                args = ["file", "recheck"] + (["--recheck-method", o["m"]] if o.get("m") else []) + it[2]
            elif k == "copy":
                args = ["file", "copy"] + (["--no-recheck"] if o.get("nr") else []) + [it[2], it[3]]
            elif k == "move":
                args = ["file", "move"] + (["--recheck-method", o["as"]] if o.get("as") else []) + (["--no-recheck"] if o.get("nr") else []) + [it[2], it[3]]
                dest_of[it[2]] = (it[3] + it[2]) if it[3].endswith("/") else it[3]
            elif k == "untrack":
                args = ["file", "untrack"] + it[2]
            elif k == "remove-cache":
                args = ["file", "remove", "--from-cache"] + it[2]
            else:
                args = ["file", "list", "--no-summary"]
            cwd = None
            if k in ("copy", "move") and o.get("cwd"):
                pre = o["cwd"] + "/"
                args = [a[len(pre):] if (isinstance(a, str) and a.startswith(pre)) else a for a in args]
                cwd = rp.path(o["cwd"])
                os.makedirs(cwd, exist_ok=True)
            r = rp.xvc("--skip-git", *args, cwd=cwd)
            out["cmds"] += 1; out["kinds"][k] = out["kinds"].get(k, 0) + 1
            out["refused"] += 1 if r.failed and not r.panicked else 0
            after = reach(rp.root)
            if k == "remove-cache":
                continue
            obs = R.observe_real(rp.root, "Ok")
            cache_bytes_for = {}
            # "in the cache under the digest xvc records for that path": any object in the directory of that
            # digest (the file name 0.<ext> is not part of the digest; a wrong extension is C19's subject)
            for p, rec in obs["recs"].items():
                if rec[0] != "-":
                    for a, e in obs["objs"].items():
                        if a.startswith(rec[0] + "/") and e[0] == "F":
                            cache_bytes_for.setdefault(p, []).append(bytes.fromhex(e[3]))
            for p, b in before.items():
                ok = after.get(p) == b
                ok = ok or (p in dest_of and after.get(dest_of[p]) == b)
                ok = ok or b in cache_bytes_for.get(p, []) or (p in dest_of and b in cache_bytes_for.get(dest_of[p], []))
                if not ok:
                    # the CR/LF alias class (P2): the cache holds another byte string with the same text normal form
                    # (under the record of the path, or of the destination its record moved to -- the same places
                    #  the bytes themselves are looked for above)
                    held = cache_bytes_for.get(p, []) + (cache_bytes_for.get(dest_of[p], []) if p in dest_of else [])
                    alias = any(cb != b and R.strip_crlf(cb) == R.strip_crlf(b) for cb in held)
                    out["alias"] = out["alias"] or alias
                    out["problems"].append({"after": it, "path": p, "lost": b[:40].hex(), "now": (after.get(p) or b"")[:40].hex() if p in after else None,
                                            "klass": "alias" if alias else None, "stderr": r.err[-200:]})
            if r.panicked:
                break
        return out
    finally:
        rp.cleanup()


def run(chk, replay=None):
    chk.cov["trusted_base"] = K.REPO_TRUSTED
    chk.cov["rule"] = ("generated workspaces mixing tracked, modified-but-uncommitted and untracked files; commands track / carry-in / recheck / copy / move / untrack without --force, "
                       "with destinations that exist in the workspace (tracked or not) or are new; the inventory oracle runs around every command; "
                       "non-trivial = the scenario ran a copy or move onto an existing path, or a recheck/carry-in of a path with uncommitted changes; distinct by scenario")
    chk.proof()
    xvc = C.ensure_xvc()
    scs = []
    if replay:
        scs = [replay["input"]]
    else:
        cdir = os.path.join(C.ROOT, "corpus", "C03")
        for f in sorted(os.listdir(cdir)) if os.path.isdir(cdir) else []:
            scs.append(json.load(open(os.path.join(cdir, f)))["input"])
        for i in range(160 if chk.tier == "quick" else 1500):
            scs.append(gen_scenario(chk.rng, i))
    with ThreadPoolExecutor(12) as ex:
        results = list(ex.map(lambda s: run_scenario(xvc, s), scs))
    dist = {"scenarios": len(scs), "commands": 0, "kinds": {}, "refused_commands": 0}
    reported = set()
    for sc, res in zip(scs, results):
        dist["commands"] += res["cmds"]; dist["refused_commands"] += res["refused"]
        for k, v in res["kinds"].items():
            dist["kinds"][k] = dist["kinds"].get(k, 0) + v
        existing = set(sc["files"])
        nt = any((it[0] in ("copy", "move") and it[3] in existing) for it in sc["items"]) or \
            any(it[0] == "W" for it in sc["items"])
        chk.count(json.dumps(sc, sort_keys=True), nt)
        chk.cov["traces_validated_against_impl"] += res["cmds"]
        if len(chk.cov["samples"]) < 4:
            chk.sample(sc)
        for pr in res["problems"]:
            key = (pr["after"][0], pr["klass"])
            if key in reported:
                continue
            reported.add(key)
            chk.fail("oracle", "after `%s` the bytes %s… that were at %s are neither there, nor at the move destination, nor in the cache under the recorded digest" % (
                " ".join(str(x) for x in pr["after"]), pr["lost"][:24], pr["path"]), {"input": sc, "problem": pr}, name="lost", klass=pr["klass"])
    # ---- the tie of the theorem's model to the code: the core prefix (writes, deletes, track, carry-in,
    #      recheck) of the scenarios also runs on the extracted M-REPO and is compared item by item
    if not replay:
        model = C.ensure_model("Repo", ["Base", "Repo"])
        kscs = []
        for sc in scs[: (40 if chk.tier == "quick" else 300)]:
            items = [("W", p, bytes.fromhex(h)) for p, h in sc["files"].items()]
            for it in sc["items"]:
                if it[0] == "W":
                    items.append(("W", it[1], bytes.fromhex(it[2])))
                elif it[0] == "D":
                    items.append(("D", it[1]))
                elif it[0] in ("track", "carry", "recheck"):
                    if it[0] == "recheck" and not it[2]:
                        break                      # no targets = all tracked paths: target resolution is not in M-REPO
                    items.append((it[0], {"m": it[1].get("m")} if it[0] != "carry" else {}, list(dict.fromkeys(it[2]))))
                else:
                    break
            kscs.append(K.Scenario(len(kscs), {"algo": "b3", "method": "copy", "tob": "auto"}, items, parallel=False))
        K.run_scenarios(xvc, kscs)
        ncorr = 0
        for ks in kscs:
            mm = K.check_correspondence(chk, model, ks)
            ncorr += 1
            if mm and mm["klass"] is None and ncorr <= 400:
                chk.fail("correspondence", "repomodel and the implementation differ at item %d: %s" % (mm["item"], "; ".join(mm["diffs"][:3])),
                         {"theorem_or_correspondence": "repomodel vs xvc (core items of a C03 scenario)", "scenario": K.to_replay(ks, mm["item"]), "diffs": mm["diffs"]},
                         name="corr", has_input=False)
                break
        dist["core_prefixes_compared_with_model"] = ncorr
    chk.cov["distribution"] = dist
