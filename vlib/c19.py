"""C19 — copy and move preserve content identity without touching content.
proof (Props/C19.v over Repo/Ext.v) + correspondence repoextmodel (extracted model) vs the real xvc
binary on generated histories + an oracle written from the property text that judges every real
copy / move directly from the store event logs, the cache object set and the workspace."""
from . import common as C, repo as R, repoext as X

THEOREMS = ["copy_shares_object", "move_preserves_count", "refuses", "absent_source_ok", "cross_ext_refuted",
            "copy_across_extensions_fixed", "move_across_extensions_fixed", "C19_full_fixed", "K_cross_ext_empty_when_fixed"]

# the switch fixed_P3 of the model, read from the source of the working tree on every run (X.flags_from_source):
# with the repair present the class cross-ext is empty (nothing is suppressed) and the oracle asks for the
# destination's own object
FIXED_P3 = False


def dest_of(it, p):
    dst = it[3]
    if not dst.endswith("/"):
        return dst
    return dst + (p.rsplit("/", 1)[-1] if (it[0] == "copy" and it[1].get("no")) else p)


def unchanged(prev, cur):
    return all(prev[s] == cur[s] for s in ("ws", "objs", "recs", "dirs"))


def judge(sc, j):
    """[(what, class)] for the copy / move item j of an executed scenario"""
    it, prev, cur = sc.eff[j], sc.robs[j - 1], sc.robs[j]
    algo = sc.cfg["algo"]
    cmd, o = it[0], it[1]
    srcs = X.match_sources(prev, it[2])
    if not srcs:
        return []                      # nothing selected: the property says nothing
    bad = []
    pairs = [(p, dest_of(it, p)) for p in srcs]
    cross = any(R.ext_of(p) != R.ext_of(d) for p, d in pairs)
    force = cmd == "copy" and o.get("f")
    # -- refusals -----------------------------------------------------------------------------------
    whole = []
    if len(srcs) > 1 and not it[3].endswith("/"):
        whole.append("several sources need a directory destination")
    if any(X.modified(prev, p, algo) for p in srcs):
        whole.append("a source has uncommitted changes")
    taken = [(p, d) for p, d in pairs if (d in prev["recs"] or d in prev["dirs"]) and not force]
    if it[3].endswith("/") and it[3][:-1] in prev["recs"]:
        whole.append("the destination directory is recorded as a file")
    if taken and (cmd == "move" or not it[3].endswith("/")):
        whole.append("the destination is already tracked")
    # (after the repair of P4) an untracked file, link or directory at a destination is never replaced without --force
    def in_ws(d):
        return d in prev["ws"] or any(q.startswith(d + "/") for q in prev["ws"])
    if not force and any(in_ws(d) for p, d in pairs if (p, d) not in taken):
        whole.append("something untracked is at the destination")
    if whole:
        if cur["oc"] == "Ok":
            bad.append(("%s %s -> %s reported success although %s" % (cmd, it[2], it[3], whole[0]), None))
        if not unchanged(prev, cur):
            bad.append(("%s %s -> %s changed the repository although %s" % (cmd, it[2], it[3], whole[0]), None))
        return bad
    for p, d in taken:                 # copy into a directory: the conflicting pair alone is refused
        if cur["recs"].get(d) != prev["recs"].get(d) or cur["ws"].get(d) != prev["ws"].get(d):
            bad.append(("copy %s -> %s touched the tracked destination %s without --force" % (it[2], it[3], d), None))
        if cur["oc"] == "Ok":
            bad.append(("copy %s -> %s reported success although %s is already tracked" % (it[2], it[3], d), None))
    pairs = [(p, d) for p, d in pairs if (p, d) not in taken]
    if len({d for _, d in pairs}) < len(pairs):
        return bad                     # two sources with one destination name (--name-only): outside the property
    # -- the pairs that must go through --------------------------------------------------------------
    klass = None
    if cross and not FIXED_P3:
        klass = "cross-ext"
    elif cmd == "move" and any(p not in prev["ws"] and prev["recs"][p][1] in ("copy", "reflink") and (o.get("as") or "copy") in ("copy", "reflink")
                               for p, _ in pairs):
        klass = "move-absent-source"
    have_objects = all(X.committed_bytes(prev, p) is not None for p, _ in pairs)
    if not have_objects and (FIXED_P3 or not cross):
        if FIXED_P3 and not taken and (cur["oc"] == "Panic" or (cur["oc"] != "Ok" and not unchanged(prev, cur))):
            # (the repair of P3) a copy / move that cannot materialise a destination stops before any record changes
            bad.append(("%s %s -> %s failed (%s) and changed the repository" % (cmd, it[2], it[3], cur["oc"]), None))
        return bad                     # the committed content is not in the cache: nothing to share
    if cur["oc"] != "Ok" and not taken:
        bad.append(("%s %s -> %s failed (%s)" % (cmd, it[2], it[3], cur["oc"]), klass))
    # "sharing the same cache object": the address of a version is <digest>/<extension of the current path>.  With the same
    # extension it is literally one object and the object set must not change at all.  With another extension (the repair
    # of P3) content identity means: the same digest is recorded, and the destination's address holds a read-only regular
    # file with exactly the bytes of the source's object in a read-only directory; no other object appears, none changes
    # or disappears (move: also the earlier versions of the moved entity, which stay reachable through the new path)
    allowed = {}
    if cross and FIXED_P3:
        for p, d in pairs:
            if R.ext_of(p) != R.ext_of(d):
                rec = prev["recs"][p]
                for dg in ([rec[0]] + (list(rec[3]) if cmd == "move" else [])):
                    if dg != "-":
                        allowed["%s/%s" % (dg, R.ext_of(d))] = "%s/%s" % (dg, R.ext_of(p))
    for a in sorted(set(cur["objs"]) | set(prev["objs"])):
        pe, ce = prev["objs"].get(a), cur["objs"].get(a)
        if pe == ce:
            continue
        if pe is None and a in allowed and allowed[a] in prev["objs"]:
            if ce[:3] != ["F", "0", "0"] or ce[3] != prev["objs"][allowed[a]][3]:
                bad.append(("%s %s -> %s: the object %s made for the destination is %s, expected a read-only copy of %s" % (cmd, it[2], it[3], a, ce[:3] + [R.short(ce[3])], allowed[a]), klass))
            continue
        if pe is not None and ce is not None and [pe[0], pe[1], pe[3]] == [ce[0], ce[1], ce[3]] and ce[2] == "0" \
                and any(b.rsplit("/", 1)[0] == a.rsplit("/", 1)[0] and b not in prev["objs"] and b in cur["objs"] for b in allowed):
            continue                   # its directory received the destination's object and was left read-only (as after a carry-in)
        bad.append(("%s %s -> %s changed the cache objects: %s" % (cmd, it[2], it[3], a), klass))
    partial = cur["oc"] != "Ok"
    for p, d in pairs:
        src, dst = prev["recs"][p], cur["recs"].get(d)
        if dst is None:
            bad.append(("%s: destination %s is not tracked afterwards" % (cmd, d), klass)); continue
        if dst[0] != src[0]:
            bad.append(("%s: destination %s has digest %s, the source %s had %s" % (cmd, d, dst[0], p, src[0]), klass))
        if dst[2] != src[2]:
            bad.append(("%s: destination %s has text-or-binary %s, the source had %s" % (cmd, d, dst[2], src[2]), klass))
        want_m = o.get("as") or src[1]
        if dst[1] != want_m and not partial:
            bad.append(("%s: destination %s has recheck method %s, expected %s" % (cmd, d, dst[1], want_m), klass))
        want = X.committed_bytes(prev, p)
        if not o.get("nr") and want is not None and X.ws_bytes(cur, d) != want:
            bad.append(("%s: destination %s does not hold the committed bytes of %s" % (cmd, d, p), klass))
        if X.committed_bytes(cur, d) != want:
            bad.append(("%s: the object of destination %s is not the source's (unrestorable)" % (cmd, d), klass))
        if cmd == "move":
            if p in cur["recs"] and p != d:
                bad.append(("move: source %s is still tracked" % p, klass))
            if p in cur["ws"] and p != d and not partial:
                bad.append(("move: source %s is still in the workspace" % p, klass))
        elif cur["recs"].get(p) != src and p != d:
            bad.append(("copy: the record of source %s changed" % p, klass))
    if cmd == "move" and len(cur["recs"]) != len(prev["recs"]):
        bad.append(("move changed the number of tracked files from %d to %d" % (len(prev["recs"]), len(cur["recs"])), klass))
    if cmd == "copy" and len(cur["recs"]) != len(prev["recs"]) + len([1 for _, d in pairs if d not in prev["recs"]]):
        bad.append(("copy: %d tracked files before, %d after, %d new destinations" % (len(prev["recs"]), len(cur["recs"]), len(pairs)), klass))
    return bad


def oracle(sc):
    out = []
    for j, it in enumerate(sc.eff):
        if it[0] in ("copy", "move") and 0 < j < len(sc.robs):
            out += [(j, what, klass) for what, klass in judge(sc, j)]
    return out


def nontrivial(sc):
    """a copy or move that selected a tracked source and went through, and one that had to be refused or
    ran with the source absent"""
    if not sc.robs:
        return False
    for j, it in enumerate(sc.eff):
        if it[0] in ("copy", "move") and 0 < j < len(sc.robs) and X.match_sources(sc.robs[j - 1], it[2]) and sc.robs[j]["oc"] == "Ok":
            return True
    return False


def classify_corr(sc, j):
    return None


def algo_switch_probe(xvc, rng):
    """oracle only (M-REPO has one configured algorithm per repository): a source committed under one hash
    algorithm and edited afterwards must still be refused by copy and move when the configuration names
    another algorithm ("both refuse to proceed when the source has uncommitted changes")."""
    import os
    from .xvc import XvcRepo
    a1, a2 = rng.sample(["blake3", "blake2", "sha2", "sha3"], 2)
    kind = rng.choice(["copy", "move"])
    method = rng.choice(["copy", "hardlink", "symlink"])
    sc = {"tracked_with": a1, "command_with": a2, "kind": kind, "method": method}
    bad = []
    with XvcRepo(xvc, prefix="c19algo", git=False) as rp:
        rp.write("src.txt", "committed version\n", mtime_ns=R.BASE_NS + 1_000_000_000)
        r = rp.xvc("--skip-git", "-c", "cache.algorithm=" + a1, "file", "track", "--recheck-method", method, "src.txt")
        if r.failed:
            return sc, []
        rp.write("src.txt", "edited, not committed\n", mtime_ns=R.BASE_NS + 5_000_000_000)
        before = R.observe_real(rp.root, "Ok")
        r = rp.xvc("--skip-git", "-c", "cache.algorithm=" + a2, "file", kind, "src.txt", "dst.txt")
        after = R.observe_real(rp.root, "Ok")
        if not r.failed:
            bad.append("`xvc file %s src.txt dst.txt` went through although src.txt has uncommitted changes (tracked with %s, command run with %s)" % (kind, a1, a2))
        elif any(before[k] != after[k] for k in ("ws", "objs", "recs")):
            bad.append("`xvc file %s src.txt dst.txt` was refused but changed the repository" % kind)
        if rp.read("src.txt") != b"edited, not committed\n" and rp.read("dst.txt") != b"edited, not committed\n":
            bad.append("the uncommitted bytes of src.txt are gone after `xvc file %s`" % kind)
    return sc, bad


def run(chk, replay=None):
    import random
    if replay and replay.get("kind") == "algo-switch":
        chk.proof()
        sc, bad = algo_switch_probe(C.ensure_xvc(), random.Random(replay["rseed"]))
        for w in bad[:1]:
            chk.fail("oracle", w, {"kind": "algo-switch", "rseed": replay["rseed"], "scenario": sc}, name="algoswitch")
        return
    global FIXED_P3
    FIXED_P3 = X.flags_from_source()[5] == "1"
    res = _run(chk, replay)
    if not replay:
        xvc = C.ensure_xvc()
        n, nb = (6 if chk.tier == "quick" else 40), 0
        for i in range(n):
            rseed = chk.rng.randrange(1 << 30)
            sc, bad = algo_switch_probe(xvc, random.Random(rseed))
            chk.count(("algo-switch", rseed), True)
            if bad and nb < 2:
                nb += 1
                chk.fail("oracle", bad[0], {"kind": "algo-switch", "rseed": rseed, "scenario": sc, "all": bad}, name="algoswitch")
        chk.cov.setdefault("distribution", {})["algo_switch_probes"] = n
    return res


def _run(chk, replay=None):
    return X.run_property(
        chk, replay, "copy", oracle, classify_corr, nontrivial,
        "random histories: 2-4 tracked paths (shared extensions, nested directories, blanks, non-ASCII, no extension) with contents from a 2-3 element pool (so that paths and versions share objects), "
        "4 algorithms, 4 recheck methods, then 4-9 steps of new versions / uncommitted edits / deletions / recheck and copy / move with sources {file, dir/, glob}, destinations {new file with the same or another extension, new dir/, tracked path}, "
        "--as, --force, --no-recheck, --name-only, followed half of the time by deleting and rechecking the destination; every copy / move is judged from the store event logs, the object set and the workspace bytes. "
        "non-trivial = the history contains a copy or move that selected at least one tracked source and succeeded; distinct by the whole history",
        n_quick=120, n_thorough=1500, theorem_names=THEOREMS)
