"""C06 — send and bring through a storage form a lossless round trip (local and generic storages).
proof (Props/C06.v over Storage/Model.v, Storage/Proofs.v)
+ correspondence: the extracted model (build/bin/storagemodel) against the real xvc binary on generated
  scenarios: an origin repository, clones without cache, a second repository with another guid sharing the
  storage directory, `xvc storage new local|generic`, `xvc file send`, `xvc file bring`, with the generic
  storage's upload/download commands driven by a fault schedule (o = succeed, c = fail before writing,
  p = fail after writing half) and TMPDIR on the repository's file system or on /dev/shm; compared after
  every step: outcome, storage objects, cache objects and workspace bytes of every repository
+ an oracle written from the property text, independent of the model (see judge())."""
import os, re, json, shutil, tempfile, hashlib
from concurrent.futures import ThreadPoolExecutor
from . import common as C, repo as R
from .xvc import XvcRepo

TRUSTED = [
    "Coq 8.16.1 kernel (coqc; coqchk in the thorough tier); vm_compute for the witnesses; no axioms (all theorems closed under the global context)",
    "extraction (ExtrOcamlBasic only) + coq/extract/storage_driver.ml; this module (scenario runner, fault-schedule shell script, canonicaliser, oracle); reference hashes of vlib/repo.py (hashlib, tools/blake3_ref.py)",
    "modelled, not verified: file/src/send/mod.rs cmd_send, file/src/bring/mod.rs fetch + cmd_bring, file/src/common/mod.rs move_to_cache, the recheck bring ends with (file/src/recheck/mod.rs, without --as), "
    "storage/src/storage/local.rs send/receive, storage/src/storage/generic.rs send/receive/run_for_paths(_in_temp_dir), storage/src/storage/mod.rs XvcStorageTempDir / XvcStoragePath",
    "abstracted: hash functions (ideal: a digest is (algorithm, normalised content); the oracle re-hashes every object), target globs (explicit tracked paths; C18 covers resolution), "
    "the storage event store (Init/Send/Receive events are written but never read by send/bring), the directories move_to_cache creates and their permission bits, "
    "the commands of a generic storage (oracles: one of ok / fail before writing / fail after writing half per invocation), cloud storages (not claimed)",
    "environment assumptions: rename(2) is atomic inside a file system and fails with EXDEV across file systems; the visiting order of targets (HashMap iteration) is a parameter: observed from the "
    "fault script's log on the real side, universally quantified in the theorems; user edits are visible (size or mtime changes)",
]

SCRIPT = r'''#!/bin/sh
# fault-driven transfer command of the generic storage: <ctl> <up|down> <src> <dst> <dstdir> <key>
# $ctl/sched: lines "<fault sequence> <key>"; the n-th invocation for a key takes the n-th letter of its
# sequence (o = succeed, c = fail before writing, p = fail after writing half; o when the sequence has run out)
ctl="$1"; op="$2"; src="$3"; dst="$4"; dstdir="$5"; key="$6"
# exact match of the key (a cache path "…/0." is a prefix of "…/0.txt": a substring match would mix them up)
n=$(awk -v k="$key" '{ if (substr($0, length($0) - length(k)) == " " k) c++ } END { print c + 0 }' "$ctl/log")
seq=$(awk -v k="$key" '{ if (substr($0, length($0) - length(k)) == " " k) { print $1; exit } }' "$ctl/sched")
fault=$(printf '%s' "$seq" | cut -c$((n+1)))
[ -z "$fault" ] && fault=o
# P = like p (fail after writing half), but the command dies by a signal instead of exiting non-zero
killed=no; [ "$fault" = P ] && { fault=p; killed=yes; }
echo "$op $fault $key" >> "$ctl/log"
[ "$fault" = c ] && exit 1
[ -f "$src" ] || exit 1
mkdir -p "$dstdir" || exit 1
if [ "$fault" = p ]; then
  sz=$(wc -c < "$src"); half=$((sz/2))
  rm -f "$dst"; head -c "$half" "$src" > "$dst"
  [ "$killed" = yes ] && kill -KILL $$
  exit 1
fi
rm -f "$dst"; cat "$src" > "$dst"
'''

SHM = "/dev/shm"
KEY_RE = re.compile(r"^([0-9a-f]{16})/(b3|b2|s2|s3)/([0-9a-f]{3})/([0-9a-f]{3})/([0-9a-f]{58})/0\.([^/]*)$")
_hash_memo = {}


def ref_hash(algo, data):
    k = (algo, data)
    if k not in _hash_memo:
        _hash_memo[k] = R.ref_hash(algo, data)
    return _hash_memo[k]


def hx(s):
    b = s if isinstance(s, bytes) else s.encode()
    return b.hex() if b else "-"


def other_fs_available():
    if os.environ.get("VERIF_C06_NO_OTHER_FS"):
        return False
    try:
        return os.path.isdir(SHM) and os.access(SHM, os.W_OK) and os.stat(SHM).st_dev != os.stat(tempfile.gettempdir()).st_dev
    except OSError:
        return False


# ---------------------------------------------------------------------------------------------------------
# observations of the real side
# ---------------------------------------------------------------------------------------------------------
def read_tree(top):
    out = {}
    for dp, dn, fn in os.walk(top):
        for f in fn:
            full = os.path.join(dp, f)
            try:
                out[os.path.relpath(full, top)] = open(full, "rb").read()
            except OSError:
                out[os.path.relpath(full, top)] = None
    return out


def obs_cache(root):
    o = {}
    xd = os.path.join(root, ".xvc")
    for a in R.ALGOS:
        for rel, b in read_tree(os.path.join(xd, a)).items():
            addr = R.parse_cache_path(a + "/" + rel)
            o[addr if addr else "?" + a + "/" + rel] = b.hex() if b is not None else "!"
    return o


def obs_ws(root, paths):
    o = {}
    for p in paths:
        full = os.path.join(root, p)
        if os.path.lexists(full):
            try:
                o[p] = open(full, "rb").read().hex()
            except OSError:
                o[p] = "!"
    return o


class World:
    """a scenario executed on the real binary; self.obs[k] = observation after step k (obs[0] = after setup)"""

    def __init__(self, xvc, sc, tmp_override=None):
        self.sc, self.tmp_override = sc, tmp_override
        self.rp = XvcRepo(xvc, prefix="c06", git=False, init=False)
        self.base = self.rp.base
        self.shm = None
        self.roots, self.guids, self.paths, self.gidx = {}, {}, {}, {}
        self.obs, self.eff, self.logs = [], [], []
        self.cfg = ["--skip-git", "-c", "cache.algorithm=" + R.ALGOS[sc["algo"]]]

    def close(self):
        self.rp.cleanup()
        if self.shm:
            C.rm_rf(self.shm)

    def xvc(self, i, *args, tmp="same"):
        env = {"TMPDIR": self.tmpdir(tmp)}
        return self.rp.xvc(*(self.cfg + list(args)), cwd=self.roots[i], env=env, timeout=120)

    def tmpdir(self, which):
        if self.tmp_override:
            which = self.tmp_override
        if which == "other":
            if self.shm is None:
                self.shm = tempfile.mkdtemp(prefix="xvc-verif-c06-", dir=SHM)
            return self.shm
        d = os.path.join(self.base, "tmp")
        os.makedirs(d, exist_ok=True)
        return d

    def new_repo(self, i, files):
        root = os.path.join(self.base, "r%d" % i)
        os.makedirs(root)
        self.roots[i] = root
        r = self.xvc(i, "init", "--no-git")
        if r.failed:
            raise RuntimeError("xvc init failed: " + r.err)
        m = re.search(r'^guid\s*=\s*"([0-9a-f]+)"', open(os.path.join(root, ".xvc", "config.toml")).read(), re.M)
        self.guids[i] = m.group(1)
        self.gidx[m.group(1)] = i
        self.paths[i] = [f[0] for f in files]
        t = R.BASE_NS
        for p, meth, h in files:
            full = os.path.join(root, p)
            os.makedirs(os.path.dirname(full), exist_ok=True)
            with open(full, "wb") as fh:
                fh.write(bytes.fromhex(h))
            t += 1_000_000_000
            os.utime(full, ns=(t, t))
            r = self.xvc(i, "file", "track", "--recheck-method", meth, p)
            if r.failed:
                raise RuntimeError("setup track failed: " + r.err[-300:])
        st = os.path.join(self.base, "st")
        ctl = os.path.join(self.base, "ctl")
        sp = os.path.join(self.base, "cmd.sh")
        if not os.path.exists(ctl):
            os.makedirs(ctl)
            open(os.path.join(ctl, "log"), "w").close(); open(os.path.join(ctl, "sched"), "w").close()
            open(sp, "w").write(SCRIPT)
        # "exec": the shell xvc starts is replaced by the script, so a script killed by a signal (fault P) is a
        # command that xvc sees die by a signal, not a shell reporting 137
        up = 'exec sh %s %s up "{ABSOLUTE_CACHE_PATH}" "{FULL_STORAGE_PATH}" "{FULL_STORAGE_DIR}" {RELATIVE_CACHE_PATH}' % (sp, ctl)
        down = 'exec sh %s %s down "{FULL_STORAGE_PATH}" "{ABSOLUTE_CACHE_PATH}" "{ABSOLUTE_CACHE_DIR}" {RELATIVE_CACHE_PATH}' % (sp, ctl)
        r1 = self.xvc(i, "storage", "new", "local", "--name", "L", "--path", st)
        r2 = self.xvc(i, "storage", "new", "generic", "--name", "G", "--storage-dir", st + "/",
                      "--init", 'mkdir -p "{STORAGE_DIR}" && cp "{LOCAL_GUID_FILE_PATH}" "{STORAGE_GUID_FILE_PATH}"',
                      "--list", 'find "{STORAGE_DIR}" -type f', "--upload", up, "--download", down,
                      "--delete", 'rm -f "{FULL_STORAGE_PATH}"')
        if r1.failed or r2.failed:
            raise RuntimeError("storage new failed: " + r1.err[-200:] + r2.err[-200:])

    def observe(self, oc, stderr=""):
        st = {}
        for rel, b in read_tree(os.path.join(self.base, "st")).items():
            if rel == ".xvc-guid":
                continue
            m = KEY_RE.match(rel)
            if m and m.group(1) in self.gidx:
                st["%d/%s/%s/%s" % (self.gidx[m.group(1)], m.group(2), m.group(3) + m.group(4) + m.group(5), m.group(6))] = b.hex() if b is not None else "!"
            else:
                st["?" + rel] = b.hex() if b is not None else "!"
        repos = {}
        for i, root in self.roots.items():
            repos[i] = {"cache": obs_cache(root), "ws": obs_ws(root, self.paths[i])}
        return {"oc": oc, "st": st, "repos": repos, "stderr": stderr[-400:]}

    def set_sched(self, i, faults):
        """faults: {path: fault sequence}; the schedule is keyed by cache path, so the run does not depend on the
        order in which the command visits its targets (two paths of one address share the concatenated sequence)"""
        ctl = os.path.join(self.base, "ctl")
        seqs = {}
        for p, seq in sorted((faults or {}).items()):
            a = self.addr_of(i, p)
            if a is not None:
                algo, h, ext = a.split("/", 2)
                key = "%s/%s/%s/%s/0.%s" % (algo, h[:3], h[3:6], h[6:], ext)
                seqs[key] = seqs.get(key, "") + seq
        open(os.path.join(ctl, "sched"), "w").write("".join("%s %s\n" % (v, k) for k, v in seqs.items()))
        open(os.path.join(ctl, "log"), "w").close()

    def read_log(self):
        out = []
        for l in open(os.path.join(self.base, "ctl", "log")).read().split("\n"):
            f = l.split(" ", 2)
            if len(f) == 3:
                out.append((f[0], f[1], R.parse_cache_path(f[2])))
        return out

    def addr_of(self, i, p):
        """cache address of the tracked path p from the records of the repository (independent replay of the stores)"""
        if not hasattr(self, "_recs"):
            self._recs = {}
        key = self.guids[i]
        if key not in self._recs:
            paths, _ = R.replay_store(self.roots[i], "xvc-path-store")
            digs, _ = R.replay_store(self.roots[i], "content-digest-store")
            self._recs[key] = {p_: R.digest_str(digs[e]) for e, p_ in paths.items() if e in digs}
        d = self._recs[key].get(p)
        return None if d is None else "%s/%s" % (d, R.ext_of(p))

    def order_targets(self, i, targets, log, prev, cur, st):
        """the order in which the command visited its targets (a parameter of the model): from the fault
        script's log for a generic storage; for a local send that stopped at a missing object, the objects it
        copied first"""
        ts = list(targets)
        if st["kind"] == "G":
            out, used = [], set()
            for n, (_, _, a) in enumerate(log):
                later = any(b == a for _, _, b in log[n + 1:])
                cand = [p for p in ts if p not in used and self.addr_of(i, p) == a]
                for p in (cand[:1] if later else cand):
                    out.append(p); used.add(p)
            return out + [p for p in ts if p not in used]
        if st["op"] == "send":
            cache = prev["repos"][i]["cache"]
            gi = self.gidx[self.guids[i]]
            have = [p for p in ts if self.addr_of(i, p) in cache]
            copied = [p for p in have if cur["st"].get("%d/%s" % (gi, self.addr_of(i, p))) == cache[self.addr_of(i, p)]]
            rest = [p for p in ts if p not in copied]
            # a missing one first; among them the one whose stored object the command removed (--force)
            rest.sort(key=lambda p: (self.addr_of(i, p) in cache,
                                     not ("%d/%s" % (gi, self.addr_of(i, p)) in prev["st"] and "%d/%s" % (gi, self.addr_of(i, p)) not in cur["st"])))
            return copied + rest
        return ts

    def run(self):
        sc = self.sc
        self.new_repo(0, sc["files"])
        if sc.get("second"):
            self.new_repo(2, sc["second"])
        self.obs.append(self.observe("Ok"))
        for st in sc["steps"]:
            op = st["op"]
            oc, err, eff = "Ok", "", dict(st)
            prev = self.obs[-1]
            if op == "clone":
                src, dst = self.roots[st["src"]], os.path.join(self.base, "r%d" % st["dst"])
                shutil.copytree(src, dst, symlinks=True, ignore=lambda d, names: [n for n in names if d == os.path.join(src, ".xvc") and n in R.ALGOS])
                for p in self.paths[st["src"]]:
                    if os.path.lexists(os.path.join(dst, p)):
                        os.unlink(os.path.join(dst, p))
                self.roots[st["dst"]] = dst
                self.guids[st["dst"]] = self.guids[st["src"]]
                self.paths[st["dst"]] = list(self.paths[st["src"]])
            elif op == "drop":
                for a in R.ALGOS:
                    C.rm_rf(os.path.join(self.roots[st["repo"]], ".xvc", a))
            elif op == "udel":
                full = os.path.join(self.roots[st["repo"]], st["path"])
                if os.path.lexists(full):
                    os.unlink(full)
            elif op == "uwrite":
                full = os.path.join(self.roots[st["repo"]], st["path"])
                if os.path.lexists(full):
                    os.unlink(full)
                os.makedirs(os.path.dirname(full), exist_ok=True)
                with open(full, "wb") as fh:
                    fh.write(bytes.fromhex(st["hex"]))
                t = R.BASE_NS + (1000 + len(self.obs)) * 1_000_000_000
                os.utime(full, ns=(t, t))
            elif op in ("send", "bring"):
                i = st["repo"]
                self.set_sched(i, st.get("faults"))
                args = ["file", op, "--to" if op == "send" else "--from", st["kind"]]
                if st.get("force"):
                    args.append("--force")
                args += list(st["targets"]) if st["targets"] is not None else []
                r = self.xvc(i, *args, tmp=st.get("tmp", "same"))
                oc = "Panic" if r.panicked else ("Err" if r.failed else "Ok")
                err = r.err
                eff["log"] = self.read_log()
            else:
                raise ValueError(op)
            cur = self.observe(oc, err)
            if op in ("send", "bring"):
                ts = st["targets"] if st["targets"] is not None else list(self.paths[st["repo"]])
                eff["order"] = self.order_targets(st["repo"], ts, eff["log"], prev, cur, st)
            self.obs.append(cur)
            self.eff.append(eff)
        return self


# ---------------------------------------------------------------------------------------------------------
# the model side
# ---------------------------------------------------------------------------------------------------------
def model_line(sc, eff, flags, tmp_override=None):
    parts = ["%d%d%d" % (flags[0], flags[1], flags[2])]
    parts.append("new 0 100 %s" % sc["algo"])
    for p, m, h in sc["files"]:
        parts.append("track 0 %s %s %s" % (hx(p), m, h or "-"))
    if sc.get("second"):
        parts.append("new 2 102 %s" % sc["algo"])
        for p, m, h in sc["second"]:
            parts.append("track 2 %s %s %s" % (hx(p), m, h or "-"))
    nsetup = len(parts) - 1
    for st in eff:
        op = st["op"]
        if op == "clone":
            parts.append("clone %d %d" % (st["src"], st["dst"]))
        elif op == "drop":
            parts.append("drop %d" % st["repo"])
        elif op == "udel":
            parts.append("udel %d %s" % (st["repo"], hx(st["path"])))
        elif op == "uwrite":
            parts.append("uwrite %d %s %s" % (st["repo"], hx(st["path"]), st["hex"] or "-"))
        else:
            ts = ",".join(hx(p) for p in st["order"]) or "-"
            fs = "".join(f for _, f, _ in st.get("log", [])) or "-"
            if op == "send":
                parts.append("send %d %s %d %s %s" % (st["repo"], st["kind"], 1 if st.get("force") else 0, ts, fs))
            else:
                tmp = tmp_override or st.get("tmp", "same")
                parts.append("bring %d %s %d %d %s %s" % (st["repo"], st["kind"], 1 if tmp == "same" else 0, 1 if st.get("force") else 0, ts, fs))
    return " ; ".join(parts), nsetup


def conv_addr(s):
    algo, norm, ext = s.split(":")
    return "%s/%s/%s" % (algo, ref_hash(algo, bytes.fromhex(norm)), bytes.fromhex(ext).decode("utf-8", "replace"))


def parse_model(line, nsetup):
    """-> list of observations (after setup, then one per step) in the format of World.observe"""
    out = []
    if line.startswith("bad"):
        return None
    for sec in line.split(" | "):
        f = sec.split(" ")
        o = {"oc": f[0][3:], "st": {}, "repos": {}}
        for e in (f[1][3:].split(",") if len(f[1]) > 3 else []):
            k, v = e.split("=")
            g, a = k.split("/", 1)
            o["st"]["%d/%s" % (int(g) - 100, conv_addr(a))] = v
        for rp in f[2:]:
            if not rp:
                continue
            name, body = rp.split("=", 1)
            c, w = body.split(";")
            cache = {}
            for e in (c.split(",") if c else []):
                k, v = e.split("=")
                cache[conv_addr(k)] = v
            ws = {}
            for e in (w.split(",") if w else []):
                k, v = e.split("=")
                ws[bytes.fromhex(k).decode()] = v
            o["repos"][int(name[1:])] = {"cache": cache, "ws": ws}
        out.append(o)
    return out[nsetup - 1:]


def diff_obs(m, r):
    d = []
    if m["oc"] != r["oc"]:
        d.append("outcome: model %s, implementation %s" % (m["oc"], r["oc"]))
    for k in sorted(set(m["st"]) | set(r["st"])):
        if m["st"].get(k) != r["st"].get(k):
            d.append("storage[%s]: model %s, implementation %s" % (k, R.short(m["st"].get(k)), R.short(r["st"].get(k))))
    for i in sorted(set(m["repos"]) | set(r["repos"])):
        for sec in ("cache", "ws"):
            a, b = m["repos"].get(i, {}).get(sec, {}), r["repos"].get(i, {}).get(sec, {})
            for k in sorted(set(a) | set(b)):
                if a.get(k) != b.get(k):
                    d.append("repo %d %s[%s]: model %s, implementation %s" % (i, sec, k, R.short(a.get(k)), R.short(b.get(k))))
    return d


# ---------------------------------------------------------------------------------------------------------
# the oracle (from the property text; does not look at the model)
# ---------------------------------------------------------------------------------------------------------
def clean_transfer(st, log):
    """no injected fault was consumed by the command"""
    return all(f == "o" for _, f, _ in log) if st["kind"] == "G" else True


def judge(w):
    """-> [(step index, what, kind)] with kind in roundtrip | layout | collision | idempotent | wrong-object"""
    sc, bad = w.sc, []
    truth = {}      # guid index -> address -> bytes (hex) of the object committed by track, re-hashed here
    committed = {}  # guid index -> path -> bytes (hex) the path read right after it was tracked
    for i in (0, 2):
        if i in w.obs[0]["repos"]:
            truth[i] = dict(w.obs[0]["repos"][i]["cache"])
            committed[i] = dict(w.obs[0]["repos"][i]["ws"])
            for addr, b in truth[i].items():
                algo, h, _ = addr.split("/", 2)
                data = bytes.fromhex(b) if b != "!" else b""
                if addr.startswith("?") or h not in (ref_hash(algo, data), ref_hash(algo, R.strip_crlf(data))):
                    bad.append((0, "setup: object %s of the origin does not hash to its address" % addr, "wrong-object"))
    for k, st in enumerate(w.eff, 1):
        prev, cur = w.obs[k - 1], w.obs[k]
        # storage layout: <repository guid>/<b3|b2|s2|s3>/<3>/<3>/<58>/0.<ext>
        for key in cur["st"]:
            if key.startswith("?") and key not in prev["st"]:
                bad.append((k, "storage object outside <guid>/<cache path>: %s" % key[1:], "layout"))
        # a wrong or partial object at a cache address, in any repository, after any step
        for i, rp in cur["repos"].items():
            g = w.gidx[w.guids[i]]
            for addr, b in rp["cache"].items():
                if prev["repos"].get(i, {}).get("cache", {}).get(addr) == b:
                    continue
                if addr.startswith("?"):
                    bad.append((k, "unexpected file in the cache of repository %d: %s" % (i, addr[1:]), "wrong-object")); continue
                algo, h, _ = addr.split("/", 2)
                data = bytes.fromhex(b) if b != "!" else None
                if data is None or h not in (ref_hash(algo, data), ref_hash(algo, R.strip_crlf(data))) or truth[g].get(addr, b) != b:
                    bad.append((k, "repository %d: cache object %s holds %s, committed were %s" % (
                        i, addr, R.short(b), R.short(truth[g].get(addr))), "wrong-object"))
        if st["op"] == "send":
            i = st["repo"]
            g = w.gidx[w.guids[i]]
            for key in set(prev["st"]) | set(cur["st"]):
                if not key.startswith("%d/" % g) and prev["st"].get(key) != cur["st"].get(key):
                    bad.append((k, "send from repository %d changed the storage object %s of another repository" % (i, key), "collision"))
            # "sending again changes nothing": whatever fails, an object that was stored is still stored
            for key in prev["st"]:
                if key not in cur["st"]:
                    bad.append((k, "send %s%s from repository %d removed the stored object %s" % (
                        st["kind"], " --force" if st.get("force") else "", i, key), "lost-object"))
            # a local send stops at the first object the cache lacks: what it had not copied yet is not stored
            if clean_transfer(st, st["log"]) and (st["kind"] == "G" or cur["oc"] == "Ok"):
                for p in st["order"]:
                    a = w.addr_of(i, p)
                    if a in prev["repos"][i]["cache"] and cur["st"].get("%d/%s" % (g, a)) != prev["repos"][i]["cache"][a]:
                        bad.append((k, "send %s: storage does not hold the object of %s at <guid>/%s" % (st["kind"], p, a), "layout"))
        if st["op"] == "bring":
            i = st["repo"]
            g = w.gidx[w.guids[i]]
            def was_sent(p_):
                a_ = w.addr_of(i, p_)
                return a_ is not None and prev["st"].get("%d/%s" % (g, a_)) == truth[g].get(a_)
            # T' must be a subset of what was sent: XvcLocalStorage::receive stops at the first object the
            # storage lacks and nothing is brought; a generic storage downloads path by path
            covered = all(was_sent(p) for p in st["order"] if w.addr_of(i, p) is not None)
            if clean_transfer(st, st["log"]) and (covered or st["kind"] == "G"):
                for p in st["order"]:
                    a = w.addr_of(i, p)
                    want = committed[g].get(p)
                    if a is None or want is None or not was_sent(p):
                        continue              # never (completely) sent: the property says nothing
                    had = prev["repos"][i]["ws"].get(p)
                    if not (st.get("force") or had in (None, "!", want)):
                        continue              # a file the user changed, no --force: left alone
                    got = cur["repos"][i]["ws"].get(p)
                    if got != want:
                        bad.append((k, "bring %s (TMPDIR on %s file system%s): %s reads %s, committed were %s" % (
                            st["kind"], "the repository's" if st.get("tmp", "same") == "same" else "another",
                            ", --force" if st.get("force") else "", p, R.short(got), R.short(want)), "roundtrip"))
        if st.get("again") and k >= 2 and w.eff[k - 2]["op"] == st["op"] and prev["oc"] == "Ok" and clean_transfer(st, st["log"]) \
                and clean_transfer(w.eff[k - 2], w.eff[k - 2]["log"]):
            for what, a, b in (("storage", prev["st"], cur["st"]),
                               ("caches", {i: r["cache"] for i, r in prev["repos"].items()}, {i: r["cache"] for i, r in cur["repos"].items()}),
                               ("workspaces", {i: r["ws"] for i, r in prev["repos"].items()}, {i: r["ws"] for i, r in cur["repos"].items()})):
                if a != b:
                    bad.append((k, "repeating `%s` changed the %s" % (st["op"], what), "idempotent"))
            if cur["oc"] != "Ok":
                bad.append((k, "repeating a successful `%s` ended with %s" % (st["op"], cur["oc"]), "idempotent"))
    return bad


def public_obs(o):
    return {"oc": o["oc"], "st": o["st"], "repos": o["repos"]}


# ---------------------------------------------------------------------------------------------------------
# scenarios
# ---------------------------------------------------------------------------------------------------------
CONTENTS = [b"alpha\n", b"beta beta beta\n", b"", b"x", b"line1\r\nline2\r\n", b"line1\nline2\n", b"\0\1\2binary\xff\n", b"gamma-gamma-gamma-gamma",
            b"hello\n", b"hello", b"0123456789" * 30, b"a\n"]
PATHS = ["a.txt", "b.txt", "d/c.dat", "noext", "d/e.txt", "f.dat", "d/g h.txt"]
METHODS = ["copy", "copy", "hardlink", "symlink"]


def gen_scenario(rng, idx, allow_other=True):
    algo = rng.choice(["b3", "b3", "b2", "s2", "s3"])
    n = rng.randint(2, 4)
    paths = rng.sample(PATHS, n)
    files = []
    for p in paths:
        c = rng.choice(CONTENTS)
        if files and rng.random() < 0.25:
            c = bytes.fromhex(files[0][2])            # duplicate content: one address for two paths when the extension agrees
        files.append([p, rng.choice(METHODS), c.hex()])
    second = []
    if rng.random() < 0.3:
        second = [[rng.choice(PATHS), "copy", files[0][2]], [rng.choice(["z.txt", "d/z.dat"]), "copy", rng.choice(CONTENTS).hex()]]
        if second[0][0] == second[1][0]:
            second.pop()
    kind = rng.choice(["L", "G", "G"])
    steps = []

    def faults(n_, p_fault):
        out = {}
        for p in paths:
            if rng.random() < p_fault:
                out[p] = rng.choice(["c", "p", "p", "op", "oc", "po", "co", "P", "P", "oP", "Po"])
        return out

    def subset(ps, allow_none=True):
        if allow_none and rng.random() < 0.25:
            return None
        k = rng.randint(1, len(ps))
        return rng.sample(ps, k)
    faulty = rng.random() < 0.45
    sent = subset(paths)
    s1 = {"op": "send", "repo": 0, "kind": kind, "targets": sent, "faults": faults(n, 0.3) if (faulty and kind == "G" and rng.random() < 0.4) else {},
          "force": rng.random() < 0.2}
    steps.append(s1)
    if rng.random() < 0.35:
        steps.append(dict(s1, again=True, faults={}))
    if second and rng.random() < 0.8:
        steps.append({"op": "send", "repo": 2, "kind": rng.choice(["L", "G"]), "targets": None, "faults": {}, "force": False})
    where = rng.random()
    if where < 0.7:
        steps.append({"op": "clone", "src": 0, "dst": 1}); tgt = 1
    else:
        steps.append({"op": "drop", "repo": 0}); tgt = 0
        for p in paths:
            if rng.random() < 0.5:
                steps.append({"op": "udel", "repo": 0, "path": p})
    if rng.random() < 0.15:
        steps.append({"op": "uwrite", "repo": tgt, "path": rng.choice(paths), "hex": b"user edit\n".hex()})
    nb = rng.randint(1, 2)
    for j in range(nb):
        pool = (sent if sent is not None else paths)
        ts = subset(pool if rng.random() < 0.8 else paths)
        bk = kind if rng.random() < 0.8 else rng.choice(["L", "G"])
        b = {"op": "bring", "repo": tgt, "kind": bk, "tmp": "other" if (allow_other and rng.random() < 0.2) else "same",
             "force": rng.random() < 0.25, "targets": ts,
             "faults": faults(n, 0.45) if (faulty and bk == "G") else {}}
        steps.append(b)
        if rng.random() < 0.4:
            steps.append(dict(b, again=True, faults={}))
    if rng.random() < 0.2:
        # the clone sends what it has (a local send stops at the first object it lacks; the upload command of a
        # generic storage fails for it)
        steps.append({"op": "send", "repo": tgt, "kind": rng.choice(["L", "G"]), "targets": subset(paths), "faults": {}, "force": rng.random() < 0.3})
    if second and rng.random() < 0.5:
        steps.append({"op": "clone", "src": 2, "dst": 3})
        steps.append({"op": "bring", "repo": 3, "kind": rng.choice(["L", "G"]), "tmp": "same", "force": False, "targets": None, "faults": {}})
    return {"idx": idx, "algo": algo, "files": files, "second": second, "steps": steps}


# ---------------------------------------------------------------------------------------------------------
# running, classifying, shrinking
# ---------------------------------------------------------------------------------------------------------
def execute(xvc, sc, tmp_override=None):
    w = World(xvc, sc, tmp_override)
    try:
        w.run()
        return w
    finally:
        w.close()


def failing_kinds(xvc, sc, tmp_override=None):
    try:
        w = execute(xvc, sc, tmp_override)
    except Exception:   # noqa
        return set(), None
    return {(k, kind) for k, _, kind in judge(w)}, w


def with_faults(sc, op, frm, to):
    s = json.loads(json.dumps(sc))
    for st in s["steps"]:
        if st["op"] == op and st.get("faults"):
            st["faults"] = {p: v.replace(frm, to).replace(frm.upper(), to) for p, v in st["faults"].items()}
    return s


def has_fault(st, letters):
    return any(c in v.lower() for v in (st.get("faults") or {}).values() for c in letters)


def with_send_force_off(sc):
    s = json.loads(json.dumps(sc))
    for st in s["steps"]:
        if st["op"] == "send" and st["kind"] == "L":
            st["force"] = False
    return s


def with_tmp_same(sc):
    s = json.loads(json.dumps(sc))
    for st in s["steps"]:
        if st["op"] == "bring":
            st["tmp"] = "same"
    return s


def shrink(xvc, sc, kind):
    """drop steps and files while an oracle failure of the same kind remains"""
    def fails(s):
        ks, _ = failing_kinds(xvc, s)
        return any(kd == kind for _, kd in ks)
    cur = json.loads(json.dumps(sc))
    steps = C.shrink_list(cur["steps"], lambda l: fails(dict(cur, steps=l)), max_rounds=24)
    cur["steps"] = steps
    if cur.get("second") and fails(dict(cur, second=[], steps=[s for s in steps if s.get("repo") not in (2, 3) and s.get("src") != 2])):
        cur["steps"] = [s for s in steps if s.get("repo") not in (2, 3) and s.get("src") != 2]
        cur["second"] = []
    return cur


CLASSES = [("send-force-removes-stored-object", lambda sc: any(st["op"] == "send" and st["kind"] == "L" and st.get("force") for st in sc["steps"]), with_send_force_off),
           ("exdev-tmpdir", lambda sc: any(st["op"] == "bring" and st.get("tmp") == "other" for st in sc["steps"]), with_tmp_same),
           ("partial-download-enters-cache", lambda sc: any(st["op"] == "bring" and has_fault(st, "p") for st in sc["steps"]),
            lambda sc: with_faults(sc, "bring", "p", "c")),
           ("partial-upload-then-bring", lambda sc: any(st["op"] == "send" and has_fault(st, "p") for st in sc["steps"]),
            lambda sc: with_faults(sc, "send", "p", "c"))]


def classify(xvc, sc, kind, stderr="", step=None, memo=None):
    """class label of an oracle failure, decided on the input by counterfactual runs:
       exdev-tmpdir: some bring runs with TMPDIR on another file system and the same scenario with TMPDIR on the repository's passes
       partial-download-enters-cache: some download command fails after writing half, and the scenario passes when those fail before writing
       partial-upload-then-bring: some upload command fails after writing half, and the scenario passes when those fail before writing
       send-force-removes-stored-object: some send to the local storage runs with --force, and the scenario passes when it runs without
    (passes = the oracle no longer fails in this way at this step).  When only several of these changes together make the
    failure disappear, it is attributed to the first of them.  memo: counterfactual runs already made for this scenario."""
    import itertools
    if kind == "tmp-location":
        # by construction the two runs differ only in TMPDIR; the known class is the EXDEV failure of rename
        return "exdev-tmpdir" if re.search(r"CrossesDevices|cross-device|os error 18", stderr) else None
    memo = {} if memo is None else memo
    app = [(name, cf) for name, pred, cf in CLASSES if pred(sc)]
    for r in range(1, len(app) + 1):
        for combo in itertools.combinations(app, r):
            key = tuple(name for name, _ in combo)
            if key not in memo:
                s = sc
                for _, cf in combo:
                    s = cf(s)
                ks, w = failing_kinds(xvc, s)
                memo[key] = ks if w is not None else None
            ks = memo[key]
            if ks is not None and not any(kd == kind and (step is None or k == step) for k, kd in ks):
                return combo[0][0]
    return None


def state_class_wrong_object(w, k):
    """the class of a wrong-object failure at step k decided on the observed STATES (no re-run, so nothing
    depends on the timing of a second execution): every cache object that went wrong in this step holds
    exactly the bytes the storage held for it before the step, those stored bytes are a proper prefix of the
    committed ones, and an upload that fails after writing half has run before -> the bring copied faithfully
    what a partial upload had left behind (the open finding partial-upload-then-bring)"""
    if k < 1 or k >= len(w.obs) or w.eff[k - 1]["op"] != "bring":
        return None
    if not any(st["op"] == "send" and has_fault(st, "p") for st in w.eff[:k - 1]):
        return None
    prev, cur = w.obs[k - 1], w.obs[k]
    # objects whose OWN download fails after writing half in this step are not of this class
    st_ = w.eff[k - 1]
    partial_dl = set()
    for pth, f in (st_.get("faults") or {}).items():
        if "p" in f.lower():
            a_ = w.addr_of(st_["repo"], pth)
            if a_ is not None:
                partial_dl.add(a_)
    truth = {}
    for i in (0, 2):
        if i in w.obs[0]["repos"]:
            truth[i] = dict(w.obs[0]["repos"][i]["cache"])
    found = False
    for i, rp in cur["repos"].items():
        g = w.gidx[w.guids[i]]
        for addr, b in rp["cache"].items():
            if prev["repos"].get(i, {}).get("cache", {}).get(addr) == b or addr.startswith("?"):
                continue
            want = truth.get(g, {}).get(addr)
            if want is None or want == b:
                continue
            if addr in partial_dl:
                return None
            stored = prev["st"].get("%d/%s" % (g, addr))
            if stored != b or not (len(b) < len(want) and want.startswith(b)):
                return None
            found = True
    return "partial-upload-then-bring" if found else None


def classify_scenario(xvc, sc, fails, stderr_at, twin=None):
    """fails: [(kind, step)] of one scenario -> {(kind, step): class}; the paired run with TMPDIR on the repository's
    file system, when it was made, is the first counterfactual"""
    memo = {}
    if twin is not None:
        memo[("exdev-tmpdir",)] = {(k, kind) for k, _, kind in judge(twin)}
    return {(kind, k): classify(xvc, sc, kind, stderr_at(k), step=k, memo=memo) for kind, k in fails}


def merged_known_findings():
    """known_findings.json is assembled from findings.d/*.json by the coordinator (tools/mkmanifest.py); entries of
    the fragment findings.d/C06.json that are not in it yet are read from the fragment itself (same content)."""
    base = C.known_findings

    def kf(prop):
        r = list(base(prop))
        p = os.path.join(C.ROOT, "findings.d", prop + ".json")
        try:
            data = json.load(open(os.path.join(C.ROOT, "known_findings.json")))
            listed = {f.get("id") for f in data.get("findings", []) if f.get("property") == prop}
        except (OSError, ValueError):
            listed = set()
        if os.path.exists(p):
            r += [f for f in json.load(open(p)) if f.get("property") == prop and f.get("status") == "open" and f.get("id") not in listed]
        return r
    if getattr(base, "_c06", False):
        return base
    kf._c06 = True
    return kf


def run_one(xvc, sc, twin):
    try:
        w = execute(xvc, sc)
    except Exception as e:   # noqa
        return sc, None, None, "scenario crashed: %r" % (e,)
    tw = None
    # the paired run with TMPDIR on the repository's file system: only for scenarios without injected faults
    if twin and any(st["op"] == "bring" and st.get("tmp") == "other" for st in sc["steps"]) \
            and not any(has_fault(st, "cp") for st in sc["steps"]):
        try:
            tw = execute(xvc, sc, tmp_override="same")
        except Exception as e:   # noqa
            return sc, w, None, "twin crashed: %r" % (e,)
    return sc, w, tw, None


def damaged_object_probe(chk, xvc):
    """`bring --force` over a cache object with wrong bytes (disk damage): the outcome is the same with TMPDIR on the
    repository's file system and on another one, and a forced bring that reports success leaves the stored bytes at
    the cache address.  Oracle only (the model has no operation that damages an object)."""
    res = {}
    for tmp in (["same", "other"] if other_fs_available() else ["same"]):
        rp = XvcRepo(xvc, prefix="c06dmg", git=False, init=False)
        shm = None
        try:
            root = rp.root
            os.makedirs(root, exist_ok=True)
            st = os.path.join(rp.base, "st")
            tdir = os.path.join(rp.base, "tmp"); os.makedirs(tdir)
            if tmp == "other":
                shm = tempfile.mkdtemp(prefix="xvc-verif-c06-", dir=SHM); tdir = shm
            env = {"TMPDIR": tdir}
            x = lambda *a: rp.xvc(*(["--skip-git"] + list(a)), cwd=root, env=env, timeout=120)
            files = {"a.bin": b"\x00alpha-alpha-alpha\n" * 40, "d/b.txt": b"beta beta\n" * 30}
            if x("init", "--no-git").failed:
                continue
            for p, b in files.items():
                os.makedirs(os.path.dirname(os.path.join(root, p)) or root, exist_ok=True)
                open(os.path.join(root, p), "wb").write(b)
            if x("file", "track", *files).failed or x("storage", "new", "local", "--name", "L", "--path", st).failed or x("file", "send", "--to", "L").failed:
                continue
            objs = sorted(os.path.join(dp, fn) for dp, _, fns in os.walk(os.path.join(root, ".xvc", "b3")) for fn in fns)
            if len(objs) != 2:
                continue
            before = {o: open(o, "rb").read() for o in objs}
            victim = objs[0]
            os.chmod(os.path.dirname(victim), 0o755); os.chmod(victim, 0o644)
            open(victim, "wb").write(b"#" * len(before[victim]))
            os.chmod(victim, 0o444); os.chmod(os.path.dirname(victim), 0o555)
            r = x("file", "bring", "--force", "--from", "L")
            after = {o: (open(o, "rb").read() if os.path.exists(o) else None) for o in objs}
            ws = {p: (open(os.path.join(root, p), "rb").read() if os.path.exists(os.path.join(root, p)) else None) for p in files}
            res[tmp] = {"failed": bool(r.failed), "objects_restored": [after[o] == before[o] for o in objs],
                        "ws_intact": [ws[p] == files[p] for p in sorted(files)], "stderr": (r.err or "")[-200:]}
            if not r.failed and after[victim] != before[victim]:
                chk.fail("oracle", "`bring --force` reported success and left wrong bytes at a cache address (TMPDIR on %s file system)" % ("the repository's" if tmp == "same" else "another"),
                         {"input": {"kind": "damaged-object-probe", "tmp": tmp}, "result": res[tmp]}, name="damaged")
            chk.count(("damaged-object", tmp), True)
        finally:
            rp.cleanup()
            if shm:
                C.rm_rf(shm)
    if len(res) == 2 and {k: v for k, v in res["same"].items() if k != "stderr"} != {k: v for k, v in res["other"].items() if k != "stderr"}:
        chk.fail("oracle", "`bring --force` over a damaged cache object ends differently with TMPDIR on another file system: %r vs %r" % (res["same"], res["other"]),
                 {"input": {"kind": "damaged-object-probe", "tmp": "both"}, "result": res}, name="damaged")
    return res


def strip_volatile(o):
    return json.loads(json.dumps(public_obs(o)))


def run(chk, replay=None):
    C.known_findings = merged_known_findings()
    chk.cov["trusted_base"] = TRUSTED
    chk.cov["rule"] = ("one evaluation = one scenario (setup: 2-5 tracked files, two storages on one directory; then 3-12 steps) executed on the real binary, compared after every step "
                       "with the extracted model and judged by the oracle; non-trivial = at least one bring moved an object into a cache that did not hold it (a round trip happened); "
                       "distinct by the full scenario")
    chk.assumptions += ["the system temp dir is on the file system of the scratch repositories; /dev/shm is another file system (the tmp-location cases run with TMPDIR on the "
                        "repository's file system, and are counted, when it is not)"]
    chk.proof()
    model = None
    try:
        model = C.ensure_model("Storage", ["Base", "Storage"])
    except Exception as e:   # noqa
        C.log("storagemodel not available: %s" % e)
        chk.fail("correspondence", "the extracted model does not build: %s" % str(e)[-300:], {"theorem_or_correspondence": "storagemodel build"}, name="model", has_input=False)
    xvc = C.ensure_xvc()
    other_ok = other_fs_available()
    n = 60 if chk.tier == "quick" else 900
    corpus = []
    cdir = os.path.join(C.ROOT, "corpus", "C06")
    for f in sorted(os.listdir(cdir)) if os.path.isdir(cdir) else []:
        j = json.load(open(os.path.join(cdir, f)))
        corpus.append((f, j["input"]))
    scs = list(corpus)
    if replay:
        scs.append(("replay", replay["input"]))      # the corpus still runs: it tells which behaviour the code has now
    else:
        scs += [("gen%d" % i, gen_scenario(chk.rng, i, allow_other=other_ok)) for i in range(n)]
    if not other_ok:
        scs = [(nm, with_tmp_same(sc)) for nm, sc in scs]
    pool = ThreadPoolExecutor(10)
    results = list(pool.map(lambda t: (t[0],) + run_one(xvc, t[1], True), scs))
    # a scenario that could not be executed (a command timing out on a loaded machine) is tried again, alone
    for j, res in enumerate(results):
        for attempt in range(2):
            if res[4] is None:
                break
            C.log("%s: %s; running it again" % (res[0], res[4]))
            res = (res[0],) + run_one(xvc, res[1], True)
            results[j] = res
    dist = {"scenarios": len(scs), "steps": 0, "kinds": {"L": 0, "G": 0}, "ops": {}, "tmp_other": 0, "faulty_commands": 0, "force": 0,
            "outcomes": {"Ok": 0, "Err": 0, "Panic": 0}, "algos": {}, "second_repository": 0, "oracle_failures": {}, "oracle_failure_classes": {},
            "other_fs_available": other_ok, "model_compared_steps": 0, "brings_that_moved_objects": 0}
    if replay is None or (replay.get("input") or {}).get("kind") == "damaged-object-probe":
        dist["damaged_object_probe"] = damaged_object_probe(chk, xvc)
    # ---- oracle ------------------------------------------------------------------------------------------------
    pending, tasks = [], []
    for nm, sc, w, tw, crash in results:
        if crash or w is None:
            chk.fail("correspondence", "%s: %s" % (nm, crash), {"theorem_or_correspondence": "scenario runner", "input": sc}, name="crash", has_input=False)
            continue
        bad = judge(w)
        if tw is not None:
            for k in range(len(w.obs)):
                if strip_volatile(w.obs[k]) != strip_volatile(tw.obs[k]):
                    # attributed to the location only if a second run on the repository's file system agrees with the first
                    try:
                        tw2 = execute(xvc, sc, tmp_override="same")
                    except Exception:   # noqa
                        tw2 = None
                    if tw2 is None or any(strip_volatile(a) != strip_volatile(b) for a, b in zip(tw.obs, tw2.obs)):
                        dist["nondeterministic_pairs"] = dist.get("nondeterministic_pairs", 0) + 1
                        break
                    d = diff_obs(public_obs(tw.obs[k]), public_obs(w.obs[k]))
                    bad.append((k, "step %d (%s) ends differently with TMPDIR on another file system: %s" % (
                        k, w.eff[k - 1]["op"] if k else "setup", "; ".join(x.replace("model", "same fs").replace("implementation", "other fs") for x in d[:3])), "tmp-location"))
                    break
        kinds = {}
        for k, what, kind in bad:
            kinds.setdefault((kind, k), (k, what))
        pending.append((nm, sc, w, kinds))
        if kinds:
            tasks.append((len(pending) - 1, tw))
    per_scenario = list(pool.map(lambda t: classify_scenario(xvc, pending[t[0]][1], list(pending[t[0]][3]),
                                                             lambda k, w_=pending[t[0]][2]: w_.obs[k]["stderr"], twin=t[1]), tasks))
    klass_of = {}
    for t, d in zip(tasks, per_scenario):
        for key, kl in d.items():
            klass_of[(t[0], key)] = kl
    # which behaviour does the code have now?  decided by the corpus witnesses of P9 and P10
    flags = [1, 1, 1]
    for idx, (nm, sc, w, kinds) in enumerate(pending):
        for kind in kinds:
            if nm.startswith("p9") and klass_of[(idx, kind)] == "exdev-tmpdir":
                flags[0] = 0
            if nm.startswith("p10") and klass_of[(idx, kind)] == "partial-download-enters-cache":
                flags[1] = 0
            if nm.startswith("send_force") and klass_of[(idx, kind)] == "send-force-removes-stored-object":
                flags[2] = 0
    chk.cov["code_switches_observed"] = {"fixed_P9": bool(flags[0]), "fixed_P10": bool(flags[1]), "fixed_send_force": bool(flags[2]),
                                         "how": "corpus/C06/p9_*, p10_* and send_force_* run on the real binary; the model is compared under these switches"}
    reported = {}
    for idx, (nm, sc, w, kinds) in enumerate(pending):
        for (kind, _k), (k, what) in kinds.items():
            klass = klass_of[(idx, (kind, _k))]
            if kind == "wrong-object":
                klass = state_class_wrong_object(w, k) or klass
            dist["oracle_failures"][kind] = dist["oracle_failures"].get(kind, 0) + 1
            dist["oracle_failure_classes"][str(klass)] = dist["oracle_failure_classes"].get(str(klass), 0) + 1
            key = (kind, klass)
            if reported.get(key, 0) >= (1 if klass else 3):
                continue
            reported[key] = reported.get(key, 0) + 1
            small = sc
            if klass is None:
                try:
                    small = shrink(xvc, sc, kind) if kind != "tmp-location" else sc
                    if classify(xvc, small, kind, w.obs[k]["stderr"]) is not None:   # the shrunk input must stay outside every known class
                        small = sc
                except Exception:   # noqa
                    small = sc
            chk.fail("oracle", "%s: %s" % (nm, what), {"input": small, "original_input": sc if small is not sc else None, "step": k, "oracle": kind,
                                                     "stderr": w.obs[k]["stderr"] if k < len(w.obs) else ""}, name=kind, klass=klass)
    # ---- model on the same scenarios, with the order of visits the implementation used ---------------------------
    mlines = [model_line(sc, w.eff, flags) for nm, sc, w, kinds in pending]
    mout = []
    if model:
        rc, mout = C.run_lines(model, [l for l, _ in mlines], timeout=600)
    corr_reported = 0
    for idx, (nm, sc, w, kinds) in enumerate(pending):
        dist["steps"] += len(w.eff); dist["algos"][sc["algo"]] = dist["algos"].get(sc["algo"], 0) + 1
        dist["second_repository"] += bool(sc.get("second"))
        moved = False
        for k, st in enumerate(w.eff, 1):
            dist["ops"][st["op"]] = dist["ops"].get(st["op"], 0) + 1
            if st["op"] in ("send", "bring"):
                dist["kinds"][st["kind"]] += 1
                dist["outcomes"][w.obs[k]["oc"]] += 1
                dist["faulty_commands"] += not clean_transfer(st, st["log"])
                dist["force"] += bool(st.get("force"))
                dist["tmp_other"] += st.get("tmp") == "other"
            if st["op"] == "bring":
                i = st["repo"]
                m = any(a not in w.obs[k - 1]["repos"][i]["cache"] for a in w.obs[k]["repos"][i]["cache"])
                dist["brings_that_moved_objects"] += m
                moved = moved or m
        chk.count(json.dumps(sc, sort_keys=True), moved)
        chk.cov["traces_validated_against_impl"] += 1
        if len(chk.cov["samples"]) < 4 and moved and nm.startswith("gen"):
            chk.sample({"scenario": sc, "outcomes": [o["oc"] for o in w.obs], "visit_orders": [e.get("order") for e in w.eff],
                        "final": public_obs(w.obs[-1])})
        if not model or idx >= len(mout):
            continue
        mobs = parse_model(mout[idx], mlines[idx][1])
        if mobs is None or len(mobs) != len(w.obs):
            if corr_reported < 3:
                corr_reported += 1
                chk.fail("correspondence", "%s: storagemodel gave no usable answer: %s" % (nm, mout[idx][:200]),
                         {"theorem_or_correspondence": "storagemodel vs xvc", "input": sc, "model_line": mlines[idx][0]}, name="corr", has_input=False)
            continue
        for k in range(len(w.obs)):
            dist["model_compared_steps"] += 1
            d = diff_obs(mobs[k], w.obs[k])
            if d:
                if corr_reported < 3:
                    corr_reported += 1
                    chk.fail("correspondence", "%s: model and implementation differ after step %d (%s): %s" % (
                        nm, k, json.dumps({x: y for x, y in w.eff[k - 1].items() if x != "log"}) if k else "setup", "; ".join(d[:4])),
                        {"theorem_or_correspondence": "storagemodel vs xvc (switches fixed_P9=%d fixed_P10=%d fixed_send_force=%d)" % tuple(flags), "input": sc, "step": k,
                         "differences": d[:20], "model_line": mlines[idx][0], "stderr": w.obs[k]["stderr"]}, name="corr", has_input=False)
                break
    pool.shutdown()
    chk.cov["distribution"] = dist
    # a broken obligation or correspondence with a failing input found by the oracle is reported with that input
    unknown = [f for f in chk.failures if f.kind == "oracle" and f.klass is None]
    if unknown:
        for f in chk.failures:
            if f.kind in ("proof", "correspondence") and not f.has_input:
                f.has_input = True
                f.replay = unknown[0].replay
