"""C16 — tracked data files never enter Git.
proof (Props/C16.v over Gitignore/{Model,Proofs}.v; the initial root .gitignore and the walkers' global
       patterns are regenerated from the source by gen/gitignore_initial.py and gen/common_ignore.py)
+ correspondence 1: the reference gitignore semantics of the model vs the real `git check-ignore` on
  generated (.gitignore files, path) cases
+ correspondence 2: the bytes the real xvc binary appends to every .gitignore around every command of
  generated histories vs the extracted model's prediction (xvc's own matcher = Glob/Match.v + Walker/Model.v)
+ an oracle written from the property text, independent of the model: after track / recheck / copy / move /
  bring every path `xvc file list` reports as tracked passes `git check-ignore -q`, `git add -A -n` stages
  no tracked path and nothing under .xvc/{b3,b2,s2,s3}, and around EVERY command the old content of every
  .gitignore file is a byte prefix of the new content."""
import os, re, json, stat, subprocess, importlib.util, fnmatch
from concurrent.futures import ThreadPoolExecutor
from . import common as C
from .xvc import XvcRepo

PROP = "C16"
TRUSTED = [
    "Coq 8.16.1 kernel (coqc; coqchk in the thorough tier); vm_compute for the witnesses; no axioms (all theorems closed under the global context)",
    "translators gen/gitignore_initial.py (GITIGNORE_INITIAL_CONTENT -> Gen/GitignoreInitial.v) and gen/common_ignore.py (COMMON_IGNORE_PATTERNS -> Gen/CommonIgnore.v); the rendered initial content is also compared with the root .gitignore a real `xvc init` writes",
    "extraction (ExtrOcamlBasic only) + coq/extract/gitignore_driver.ml; this module (scenario runner, observation of which paths a command materialised, canonicalisation of the dated header line)",
    "reference gitignore semantics (Gitignore/Model.v: ignored/excluded/parse_line/lex/wm/pm) is hand-written from gitignore(5), dir.c and wildmatch.c for the grammar {names over all bytes, *, ?, **, /anchored, a/b, dir/, !negation, # comments, backslash escapes, trailing blanks dropped unless escaped}; validated against git 2.39 `check-ignore` by the differential test, with names and patterns over the metacharacter alphabet ([ ] \\ * ? # ! blank tab CR high bytes) and with the lines escape_name produces; lines with an unescaped [ or ], a backslash at the end or before /, a final carriage return, NUL, or `**` glued to other characters are outside the grammar (LUnsup); a UTF-8 byte order mark at the start of a file is not modelled",
    "modelled, not verified: file/src/common/gitignore.rs (update_dir_gitignores, update_file_gitignores, make_ignore_handler, escape_gitignore_name, paths_ignored_by_git) and core/src/util/git.rs git_ignored_paths (with fixed_em Git's answer is taken to be the reference semantics `ignored` / `ignored_dir` in the state before the write), the .gitignore phase of file/src/track/mod.rs cmd_track, the rename branch of file/src/mv/mod.rs cmd_move, core/src/util/git.rs build_gitignore + walker build_ignore_patterns; xvc's matcher is imported from Glob/{Match,Pattern}.v and Walker/Model.v (check_str, add_patterns), which C09 ties to the code; the theorems hold for EVERY matcher (Section variables build/chk)",
    "abstracted: which directory/file targets a command resolves and which paths it materialises (inputs of the model commands CTrack/CHandler/CMoveRename; observed from the real run), HashMap iteration order (lines of one block are compared as a multiset), the date (a parameter), read_dir order (taken from the disk), the interleaving of the handler thread with the command (rules are built when the thread starts)",
    "repair switches: fixed_P17 / fixed_nl / fixed_P5 read from the source, fixed_sn / fixed_em read from the source AND probed on the binary (probe_switches: one repository, five commands); the model runs with the probed values, any disagreement or half-applied repair is a correspondence failure",
    "environment: git 2.39.5; no core.excludesFile / info/exclude (private HOME); POSIX O_APPEND",
]

XVC_CACHE_DIRS = ("b3", "b2", "s2", "s3")
IGNORE_KINDS = ("track", "recheck", "copy", "move", "bring", "carry-in")


def hx(b):
    return (b if isinstance(b, bytes) else b.encode()).hex()


def ppath(rel):
    """'a/b' -> hex components joined by '/', '' -> '-'"""
    rel = rel.strip("/")
    return "/".join(hx(c) for c in rel.split("/")) if rel else "-"


def unppath(s):
    return "" if s == "-" else "/".join(bytes.fromhex(c).decode("utf-8", "surrogateescape") for c in s.split("/"))


def lst(l):
    return ",".join(l) if l else "-"


def install_findings_fallback():
    """known_findings.json is assembled by the coordinator from findings.d/; the fragment findings.d/C16.json is
    read directly (same content, never staler)."""
    orig = C.known_findings
    if getattr(orig, "_c16_fallback", False):
        return

    def kf(prop):
        # the fragment is the source the coordinator assembles known_findings.json from: it is never staler
        p = os.path.join(C.ROOT, "findings.d", prop + ".json")
        if prop == PROP and os.path.exists(p):
            return [f for f in json.load(open(p)) if f.get("property") == prop and f.get("status") == "open"]
        return orig(prop)
    kf._c16_fallback = True
    C.known_findings = kf


def run_gen(name):
    spec = importlib.util.spec_from_file_location(name, os.path.join(C.ROOT, "gen", name + ".py"))
    m = importlib.util.module_from_spec(spec); spec.loader.exec_module(m)
    return m.main(C.REPO)


def source_flags():
    """which of the three repairs are in the tree (they select the parameters of the model; a wrong guess
    shows up as a difference between the predicted and the appended lines)"""
    def rd(p):
        try:
            return open(os.path.join(C.REPO, p)).read()
        except OSError:
            return ""
    ir = rd("walker/src/ignore_rules.rs")
    p17 = bool(re.search(r"applies\(pattern\)\s*&&\s*glob_match", ir))
    # 9cb79112 (P35): the Source::Global ignore patterns are consulted before the whitelist patterns
    m35 = re.search(r"matches!\(pattern\.source,\s*Source::Global\)\s*&&\s*glob_match", ir)
    mwl = re.search(r"whitelist_patterns\s*=\s*self\.whitelist_patterns\.read", ir)
    p35 = bool(m35 and mwl and m35.start() < mwl.start())
    gi = rd("file/src/common/gitignore.rs")
    nl = bool(re.search(r"fn\s+append_rule_block", gi)) and "unterminated" in gi
    mv = rd("file/src/mv/mod.rs")
    p5 = "update_file_gitignores" in mv
    # repo-patches/59 (C19): a move whose source is absent rechecks the destination instead of failing in fs::rename
    mv_absent = bool(re.search(r"if\s+!source_path\.exists\(\)", mv))
    # repo-patches/75: both writers pass the name through escape_gitignore_name
    n_esc = len(re.findall(r"format!\(\s*\"/\{\}/?\"\s*,\s*escape_gitignore_name\(", gi))
    n_raw = len(re.findall(r"format!\(\s*\"/\{\}/?\"\s*,\s*[a-z]\s*\)", gi))
    sn = None if (n_esc and n_raw) or (n_esc + n_raw != 2) else (n_esc == 2 and bool(re.search(r"fn\s+escape_gitignore_name", gi)))
    # repo-patches/76: the writers ask Git (paths_ignored_by_git -> git check-ignore), the handler loop passes everything but Whitelist
    asks = len(re.findall(r"=\s*paths_ignored_by_git\(xvc_root,", gi))
    loop_new = len(re.findall(r"!matches!\(gitignore\.check\(&path\),\s*MatchResult::Whitelist\)", gi))
    loop_old = len(re.findall(r"[^!]matches!\(gitignore\.check\(&path\),\s*MatchResult::NoMatch\)", gi))
    git_rs = rd("core/src/util/git.rs")
    if asks == 0 and loop_new == 0 and loop_old == 2:
        em = False
    elif asks == 2 and loop_new == 2 and loop_old == 0 and "check-ignore" in git_rs and "fn git_ignored_paths" in git_rs:
        em = True
    else:
        em = None
    # repo-patches/72 (C19 P3): copy / move put the content at the cache path of the destination and stop BEFORE any record
    # changes when it cannot be materialised (the same reading of the source as the model switch of Repo/Ext.v)
    from . import repoext as X
    p3 = X.flags_from_source()[5] == "1"
    return {"fixed_P17": p17, "fixed_nl": bool(nl), "fixed_P5": p5, "fixed_move_absent": mv_absent, "fixed_sn": sn, "fixed_em": em, "fixed_P3": p3, "fixed_P35": p35}


def flag_str(fl, **over):
    f = dict(fl); f.update(over)
    return "%d%d%d%d%d%d" % (f["fixed_P17"], f["fixed_nl"], f["fixed_P5"], bool(f["fixed_sn"]), bool(f["fixed_em"]), bool(f.get("fixed_P35")))


def probe_switches(chk, xvc, flags):
    """decides fixed_sn / fixed_em on the binary under test (what the writers do with a name holding `[` and with
    a name xvc's own matcher wrongly finds ignored) and checks the answer against the reading of the source; a
    half-applied repair, or a binary that disagrees with the source, is a correspondence failure"""
    seen = {}
    try:
        rp = new_repo(xvc, "c16probe")
    except Overloaded:
        return {"skipped": "machine overloaded"}
    try:
        for p in ("p/a[1].txt", "a.txt", "d/a.txt", "q[1]/z.txt", "e/k.txt", "x/e2/k.txt", "y/other.txt"):
            rp.write(p, ("probe %s\n" % p).encode())
        with open(rp.path(".gitignore"), "ab") as fh:
            fh.write(b"/e2\n")          # a user line: Git reads it at the root only, xvc's matcher at any depth
        rs = [rp.xvc("file", "track", "p/a[[]1[]].txt", "a.txt", timeout=300),
              rp.xvc("file", "track", "q[1]", "e", timeout=300),
              rp.xvc("file", "track", "d/a.txt", timeout=300),        # xvc's matcher: /a.txt of the root "ignores" d/a.txt
              rp.xvc("file", "track", "x/e2", timeout=300),           # ... and the user's /e2 "ignores" the directory x/e2
              rp.xvc("file", "copy", "a.txt", "y/a.txt", timeout=300)]    # ... the same through the ignore handler (y exists: no directory rule)
        if any(r.timed_out for r in rs):
            return {"skipped": "machine overloaded"}
        def lines(rel):
            b = rp.read(rel) or b""
            return [l for l in b.split(b"\n") if l and not l.startswith(b"#")]
        pl, root, dl, xl, yl = lines("p/.gitignore"), lines(".gitignore"), lines("d/.gitignore"), lines("x/.gitignore"), lines("y/.gitignore")
        seen = {"p": [l.decode() for l in pl], "root": [l.decode() for l in root[-6:]], "d": [l.decode() for l in dl],
                "x": [l.decode() for l in xl], "y": [l.decode() for l in yl]}
        sn_file = True if b"/a\\[1\\].txt" in pl else (False if b"/a[1].txt" in pl else None)
        sn_dir = True if b"/q\\[1\\]/" in root else (False if b"/q[1]/" in root else None)
        em_track = b"/a.txt" in dl
        em_dir = b"/e2/" in xl
        em_handler = b"/a.txt" in yl
    finally:
        rp.cleanup()
    probs = []
    sn = sn_file if sn_file == sn_dir else None
    if sn is None:
        probs.append("escaping probe inconclusive or half-applied: file line %s, directory line %s (%r)" % (sn_file, sn_dir, seen))
    em = em_track if em_track == em_dir == em_handler else None
    if em is None:
        probs.append("Git-decides probe half-applied: track files %s, track directories %s, ignore handler %s (%r)" % (em_track, em_dir, em_handler, seen))
    for k, v in (("fixed_sn", sn), ("fixed_em", em)):
        if flags[k] is None:
            probs.append("%s cannot be read from file/src/common/gitignore.rs / core/src/util/git.rs (the repair is applied in part)" % k)
        elif v is not None and flags[k] != v:
            probs.append("%s: the source says %s, the binary behaves as %s" % (k, flags[k], v))
    for p in probs:
        chk.fail("correspondence", "M-GITIGNORE repair switches: " + p,
                 {"theorem_or_correspondence": "probe of the repair switches fixed_sn / fixed_em (Props/C16.v tracked_paths_git_ignored_fixed)", "seen": seen,
                  "source_flags": {k: flags[k] for k in ("fixed_sn", "fixed_em")}}, name="switches", has_input=False)
    # the model runs with what the binary does
    if sn is not None:
        flags["fixed_sn"] = sn
    if em is not None:
        flags["fixed_em"] = em
    flags["fixed_sn"] = bool(flags["fixed_sn"]); flags["fixed_em"] = bool(flags["fixed_em"])
    return {"probe_fixed_sn": sn, "probe_fixed_em": em, "seen": seen}


# ---------------------------------------------------------------------------------------------------------
# correspondence 1: reference semantics vs git check-ignore
# ---------------------------------------------------------------------------------------------------------
NAMES = ["a", "b", "d", "e", "a.t", "b.t", "ab", "a.dat", "keep.dat"]
DIRS_R = ["", "d", "e", "d/e", "d/d", "ab"]
# names over the metacharacter alphabet (and near misses of them), patterns that escape them or fail to
META_NAMES = ["a[1]", "a1", "a[1", "q\\w", "qw", "q\\", "c ", "c", "c  ", " c", "s*r", "sxr", "s?r", "#h", "!k", "h", "k", "t\t", "]x[", "x",
              "\u00e9t\u00e9", "a b", "cr\r", "cr\rx", "cr", "\x01", "\x7f", "**", "*", "?", "\\"]
META_PATTERNS = ["a\\[1\\]", "a[1]", "a\\[1", "q\\\\w", "q\\w", "c\\ ", "c ", "c  ", "c \\ ", "s\\*r", "s*r", "s\\?r", "s?r", "\\#h", "#h", "\\!k", "!k", "/#h", "/!k",
                 "t\t", "\\]x\\[", "\u00e9t\u00e9", "\u00e9?\u00e9", "a b", "a\\ b", "cr?", "cr\rx", "\\a", "\\**", "\\*\\*", "\\*", "\\?", "\\\\", " c", "\x01", "\x7f", "* ", "c\\",
                 "a\\/b", "d/c\\ ", "/d/a\\[1\\]", "d/\\#h/"]


def gen_pattern(rng):
    def nm():
        k = rng.random()
        if k < 0.45:
            return rng.choice(NAMES)
        if k < 0.6:
            return rng.choice(["*", "*.t", "a*", "*b", "?", "a?", "*.dat", "a.*", "?.t", "**"])
        if k < 0.7:
            # (`**` glued to other characters is outside the grammar: one such line in 40)
            return rng.choice(["*a*", "a*t", "*.*", "a**"] if rng.random() < 0.1 else ["*a*", "a*t", "*.*"])
        return rng.choice(NAMES)
    k = rng.random()
    if k < 0.05:
        return rng.choice(["", "# c", "#a", "!"])
    n = rng.choice([1, 1, 1, 2, 2, 3])
    segs = [nm() for _ in range(n)]
    if rng.random() < 0.2:
        segs[rng.randrange(len(segs))] = "**"
    body = "/".join(segs)
    if rng.random() < 0.25:
        body = "/" + body
    if rng.random() < 0.25:
        body += "/"
    if rng.random() < 0.25:
        body = "!" + body
    return body


def gen_ref_group(rng, meta=False):
    """meta: names and patterns over the metacharacter alphabet"""
    files = {}
    for d in rng.sample(DIRS_R, rng.randint(1, 3)):
        lines = [gen_pattern(rng) for _ in range(rng.randint(1, 4))]
        if meta:
            lines = []
            for _ in range(rng.randint(1, 4)):
                l = rng.choice(META_PATTERNS)
                k = rng.random()
                if k < 0.15:
                    l = "!" + l
                elif k < 0.3:
                    l = "/" + l
                elif k < 0.4:
                    l = l + "/"
                lines.append(l)
        txt = "\n".join(lines) + ("\n" if rng.random() < 0.85 else "")
        files[d] = txt
    paths = set()
    for _ in range(rng.randint(6, 12)):
        depth = rng.choice([1, 1, 2, 2, 3, 4])
        comps = [rng.choice(["d", "e", "ab", "a"]) for _ in range(depth - 1)] + [rng.choice(META_NAMES if meta and rng.random() < 0.8 else NAMES)]
        if meta and depth > 1 and rng.random() < 0.2:
            comps[rng.randrange(depth - 1)] = rng.choice(["#h", "c ", "a[1]"])
        paths.add("/".join(comps))
    # prefix-free: a path that is a directory of another one becomes a directory
    paths = sorted(paths)
    fpaths = [p for p in paths if not any(q.startswith(p + "/") for q in paths)
              and not any(d == p or d.startswith(p + "/") for d in files)]
    return {"files": files, "paths": fpaths, "kind": "meta" if meta else "plain"}


ESC_ALPHABET = ["a", "b", ".", "[", "]", "\\", "*", "?", " ", "#", "!", "\t", "\r", "\u00e9", "1", "-", "^", "{", "}", "~", "\x01", "\x7f", "\n"]


def gen_escape_groups(chk, model, n):
    """one .gitignore holding the line(s) xvc writes for a name drawn from the metacharacter alphabet (escape_name of
    the model, through the driver), asked about the name itself and about near misses of it"""
    rng = chk.rng
    names = []
    for _ in range(n):
        k = rng.randint(1, 5)
        nm = "".join(rng.choice(ESC_ALPHABET) for _ in range(k))
        if nm in (".", ".."):
            nm = "a" + nm
        names.append(nm)
    names += ["a[1].txt", "c ", "q\\w", "s*r", "#h", "!k", "**", "\\", " ", "cr\r", "l\nf", "[", "]", "?", "a  "][:max(0, min(15, n))]
    rc, out = C.run_lines(model, ["esc " + hx(nm) for nm in names])
    groups = []
    for nm, o in zip(names, out):
        f = o.split()
        if not f or not re.fullmatch(r"[0-9a-f]+", f[0]):
            chk.fail("correspondence", "the model driver cannot escape %r: %r" % (nm, o), {"theorem_or_correspondence": "gitignoremodel esc"},
                     name="escdrv", has_input=False)
            continue
        esc = bytes.fromhex(f[0]).decode("utf-8", "surrogateescape")
        strict = "\n" not in nm and not nm.endswith("\r")
        as_dir = rng.random() < 0.3
        d = rng.choice(["", "d", "d/e"])
        line = "/" + esc + ("/" if as_dir else "")
        # near misses: the name with one character dropped / doubled / replaced, the raw reading of the escaped text
        near = set()
        for i in range(len(nm)):
            near.add(nm[:i] + nm[i + 1:]); near.add(nm[:i] + "x" + nm[i + 1:]); near.add(nm[:i] + nm[i] + nm[i:])
        near |= {nm.strip(" "), nm + "x", "x" + nm, esc}
        near = {x for x in near if x and x != nm and "/" not in x and "\0" not in x and x not in (".", "..", "zz") and len(x.encode()) < 200}
        near = rng.sample(sorted(near), min(len(near), 5))
        pre = (d + "/") if d else ""
        g = {"kind": "escape", "name": nm, "files": {d: line + "\n"}, "paths": [pre + nm] + [pre + x for x in near], "as_dir": as_dir,
             "expect": {pre + nm: True}}
        if strict:
            for x in near:
                g["expect"][pre + x] = False
        # one level deeper the anchored line must not match (a `?` written for a line break can match the directory zz itself)
        if not as_dir:
            g["paths"].append(pre + "zz/" + nm)
            if strict:
                g["expect"][pre + "zz/" + nm] = False
        groups.append(g)
    return groups


def ref_vs_git(chk, model, n_groups, groups=None):
    base = C.scratch_dir("c16ref")
    env = dict(C.BASE_ENV)
    env.update({"HOME": base, "XDG_CONFIG_HOME": os.path.join(base, ".config"), "GIT_CONFIG_NOSYSTEM": "1"})
    if groups is None:
        groups = [gen_ref_group(chk.rng) for _ in range(n_groups)]
        groups += [gen_ref_group(chk.rng, meta=True) for _ in range(n_groups // 2)]
        groups += gen_escape_groups(chk, model, n_groups // 2)
    dist = {"groups": len(groups), "cases": 0, "ignored": 0, "dir_cases": 0, "negation_lines": 0, "nested_files": 0, "unterminated": 0,
            "meta_groups": sum(1 for g in groups if g.get("kind") == "meta"), "escape_groups": sum(1 for g in groups if g.get("kind") == "escape"),
            "escape_expectations": 0, "backslash_lines": 0}
    lines, meta = [], []
    bad_esc = [0]
    try:
        def one(ig):
            i, g = ig
            root = os.path.join(base, "g%d" % i)
            os.makedirs(root)
            subprocess.run(["git", "init", "-q", root], env=env, stdout=subprocess.DEVNULL, stderr=subprocess.DEVNULL)
            for p in g["paths"]:
                if g.get("as_dir"):
                    os.makedirs(os.path.join(root, p, "zz"), exist_ok=True)
                    continue
                os.makedirs(os.path.dirname(os.path.join(root, p)), exist_ok=True)
                open(os.path.join(root, p), "w").close()
            for d, txt in g["files"].items():
                os.makedirs(os.path.join(root, d), exist_ok=True)
                with open(os.path.join(root, d, ".gitignore"), "wb") as fh:
                    fh.write(txt.encode("utf-8", "surrogateescape"))
            dirs = sorted({"/".join(p.split("/")[:k]) for p in g["paths"] for k in range(1, len(p.split("/")))})
            if g.get("as_dir"):
                dirs = sorted(set(dirs) | set(g["paths"]))
            q = [p for p in g["paths"] if p not in dirs] + dirs      # a directory is asked for WITHOUT a final slash (Git sees its type on disk)
            # bytes, not text: the universal-newline reading of text mode would turn a carriage return of a name into a line feed
            pr = subprocess.run(["git", "check-ignore", "-z", "--stdin"], cwd=root, env=env, input=("\0".join(q) + "\0").encode("utf-8", "surrogateescape"),
                                stdout=subprocess.PIPE, stderr=subprocess.PIPE)
            if pr.returncode not in (0, 1):
                raise RuntimeError("git check-ignore failed: %s" % pr.stderr[-300:])
            got = set(pr.stdout.decode("utf-8", "surrogateescape").split("\0"))
            return [(p + ("/" if p in dirs else ""), p in got) for p in q]
        with ThreadPoolExecutor(8) as ex:
            res = list(ex.map(one, enumerate(groups)))
        for g, r in zip(groups, res):
            fs = lst(["%s=%s" % (ppath(d), hx(t)) for d, t in sorted(g["files"].items())])
            dist["negation_lines"] += sum(l.startswith("!") for t in g["files"].values() for l in t.split("\n"))
            dist["nested_files"] += sum(1 for d in g["files"] if d)
            dist["unterminated"] += sum(1 for t in g["files"].values() if t and not t.endswith("\n"))
            dist["backslash_lines"] += sum("\\" in l for t in g["files"].values() for l in t.split("\n"))
            # the lines escape_name wrote: Git itself must ignore the name, and (strict names) nothing else
            for p, want in (g.get("expect") or {}).items():
                dist["escape_expectations"] += 1
                got_p = dict((x.rstrip("/"), y) for x, y in r).get(p)
                if got_p != want and bad_esc[0] < 3:
                    bad_esc[0] += 1
                    chk.fail("correspondence", "the line escape_name wrote for %r (%r): `git check-ignore` says ignored=%s for %r, expected %s" % (
                        g.get("name"), g["files"], got_p, p, want),
                        {"theorem_or_correspondence": "Gitignore.Model.escape_name vs git check-ignore (escape_matches_exactly)", "files": g["files"], "path": p,
                         "git": got_p, "expected": want}, name="escgit", has_input=False)
            for p, ign in r:
                isdir = p.endswith("/")
                lines.append("ref %s %s %s" % (fs, ppath(p), "d" if isdir else "f"))
                meta.append((g, p, ign))
        rc, out = C.run_lines(model, lines, timeout=600, shards=4)
    finally:
        C.rm_rf(base)
    bad = 0
    for (g, p, ign), o in zip(meta, out):
        dist["cases"] += 1; dist["ignored"] += ign; dist["dir_cases"] += p.endswith("/")
        m = o.split()[0] if o else "?"
        unsup = o.endswith(" U")
        chk.count(("ref", json.dumps(g["files"], sort_keys=True), p), ign and any(d for d in g["files"]) or ign)
        if len(chk.cov["samples"]) < 2:
            chk.sample({"gitignore_files": g["files"], "path": p, "git_check_ignore": ign, "reference_model": m})
        if unsup:
            dist["unsupported"] = dist.get("unsupported", 0) + 1
            continue
        if m != ("1" if ign else "0") and bad < 3:
            bad += 1
            chk.fail("correspondence", "reference gitignore semantics and `git check-ignore` differ on %r with %r: model %s, git %s" % (
                p, g["files"], m, ign),
                {"theorem_or_correspondence": "Gitignore.Model.ignored vs git check-ignore", "files": g["files"], "path": p,
                 "model": m, "git": ign}, name="refgit", has_input=False)
    return dist


# ---------------------------------------------------------------------------------------------------------
# scenarios on the real binary
# ---------------------------------------------------------------------------------------------------------
FILE_POOL = ["a.txt", "b.bin", "keep.dat", "x.dat", "d/a.txt", "d/b.bin", "d/keep.dat", "d/e/a.txt", "d/e/c.bin", "d/e/f/g.txt",
             "sub/data.bin", "sub/z.txt", "other/data.bin", "other/a.txt", "x/d/b.txt", "x/d/a.txt", "m/n.dat", "m/e/c.bin"]
SPECIAL_FILES = ["m/a[1].txt", "m/c ", "m/q\\w", "m/s*r", "m/#h", "m/!k"]
# with the escaping of repo-patches/75 in the tree: every kind of name the writer has to get right, also directories
SPECIAL_FILES_FIXED = SPECIAL_FILES + [":top.txt", "m/]x[", "m/t\t", "m/cr\r", "m/l\nf", "m/ a  b  ", "m/**", "m/?", "m/\\", "m/\u00e9 [", "m/w[1]/in.txt", "m/sp /in.txt",
                                       "m/#d/in.txt", "m/b\\s/in.txt"]
SPECIAL_DIR_TARGETS = ["m/w[1]", "m/sp ", "m/#d", "m/b\\s"]
SPECIAL_DESTS = ["w[2]/", "sp2 /", "m/w[1]/n", "o]/p[/"]


def glob_escape(p):
    """the path as a literal xvc target (targets are globs)"""
    return "".join("[" + ch + "]" if ch in "*?[]" else ("\\\\" if ch == "\\" else ch) for ch in p)
USER_LINES = ["*.bin", "*.dat", "!keep.dat", "data.bin", "/a.txt", "a.txt", "d/", "/d/", "e/", "d/e/", "**/a.txt", "d/**", "!a.txt",
              "!*.txt", "*.txt", "# note", "", "/d/e/", "!d/", "b.*", "?.txt", "x/**/b.txt", "!/d/a.txt", "/d/a.txt", "c.bin", "z.txt",
              "!data.bin", "/x/", "sub/", "*.t?t", "keep.dat"]
GI_DIRS = ["", "", "", "d", "sub", "other", "d/e", "x", "m"]
TRACK_TARGETS = ["a.txt", "b.bin", "keep.dat", "x.dat", "d/a.txt", "d/b.bin", "d/keep.dat", "d/e/a.txt", "d/e/c.bin", "sub/data.bin",
                 "other/data.bin", "other/a.txt", "x/d/b.txt", "x/d/a.txt", "m/n.dat", "d", "d/", "d/e", "d/e/", "sub", "other/", "x/d", "x", "m",
                 "*.txt", "*.dat", "d/*.bin", "d/e/*", "other/*", "d/e/f", "m/e"]
METHODS = ["copy", "hardlink", "symlink"]


def gen_scenario(rng, idx, flags=None):
    flags = flags or {}
    sn = bool(flags.get("fixed_sn"))
    sc = {"idx": idx, "files": {}, "gitignores": [], "cmds": []}
    # a quarter of the histories run with git.auto_commit=false, git.auto_stage=true: xvc then stages what it
    # would have committed, and the index shows directly whether the cache or a data file got in
    if rng.random() < 0.25:
        sc["stage_only"] = True
    pool = list(FILE_POOL)
    # names outside the plain ones: a known class without repo-patches/75 (a few histories), ordinary inputs with it
    special = rng.random() < (0.3 if sn else 0.08)
    for p in rng.sample(pool, rng.randint(4, 9)):
        sc["files"][p] = hx("content of %s %d\n" % (p, rng.randint(0, 3)))
    if special:
        for p in rng.sample(SPECIAL_FILES_FIXED if sn else SPECIAL_FILES, 5 if sn else 3):
            sc["files"][p] = hx("special %d\n" % rng.randint(0, 9))
    dirs_present = sorted({os.path.dirname(p) for p in sc["files"]})
    k = rng.random()
    ngi = 0 if k < 0.2 else (1 if k < 0.65 else 2)
    for d in rng.sample([d for d in GI_DIRS if d in dirs_present or d == ""], min(ngi, 2)) if ngi else []:
        if any(g["dir"] == d for g in sc["gitignores"]):
            continue
        lines = [rng.choice(USER_LINES) for _ in range(rng.randint(1, 4))]
        txt = "\n".join(lines) + ("" if rng.random() < 0.12 else "\n")
        sc["gitignores"].append({"dir": d, "content": hx(txt), "commit": rng.random() < 0.85})
    tracked_guess = []
    present = sorted(sc["files"])
    ncmd = rng.randint(2, 5)
    have_storage = False
    for ci in range(ncmd):
        k = rng.random()
        pre = []
        if ci == 0 or k < 0.45 or not tracked_guess:
            ts = []
            for _ in range(rng.choice([1, 1, 2, 3])):
                r2 = rng.random()
                if r2 < 0.5:
                    ts.append(rng.choice(present))
                elif r2 < 0.6 and tracked_guess:
                    ts.append(glob_escape(rng.choice(tracked_guess)))        # the same path again
                else:
                    ts.append(rng.choice(TRACK_TARGETS))
            if special and rng.random() < 0.7:
                if sn:
                    # the files themselves (each gets its own line), a directory with such a name, or the whole of m
                    k2 = rng.random()
                    sp = [p for p in present if p not in FILE_POOL]
                    if k2 < 0.4:
                        ts.append("m/*")
                    elif k2 < 0.65 and sp:
                        ts += [glob_escape(p) for p in rng.sample(sp, min(len(sp), 2))]
                    elif k2 < 0.85:
                        cand = [d for d in SPECIAL_DIR_TARGETS if any(p.startswith(d + "/") for p in present)]
                        ts.append(rng.choice(cand) if cand else "m")
                    else:
                        ts.append("m")
                else:
                    ts.append("m")
            argv = ["file", "track"] + (["--recheck-method", rng.choice(METHODS)] if rng.random() < 0.4 else []) + ts
            for t in ts:
                t0 = t.rstrip("/")
                tracked_guess += [p for p in present if p == t0 or p.startswith(t0 + "/") or (t0 == "m/*" and p.startswith("m/") and p.count("/") == 1)
                                  or glob_escape(p) == t0]
        elif k < 0.6:
            for p in rng.sample(tracked_guess, min(len(tracked_guess), rng.randint(0, 2))):
                pre.append(["rm", p])
            argv = ["file", "recheck"] + (["--recheck-method", rng.choice(METHODS)] if rng.random() < 0.5 else []) \
                + (["--force"] if rng.random() < 0.3 else []) + ([glob_escape(rng.choice(tracked_guess))] if rng.random() < 0.5 else [])
        elif k < 0.75:
            src = rng.choice(tracked_guess)
            ext = os.path.splitext(src)[1]      # another extension is another cache address (not this property)
            dst = rng.choice(["o/", "o/p/n", "d/c2", "c3", "q/r/", "d/e/k", "x/d/c4"] + (SPECIAL_DESTS if special and sn else []))
            dst += "" if dst.endswith("/") else ext
            argv = ["file", "copy"] + (["--recheck-method", rng.choice(METHODS)] if rng.random() < 0.3 else []) + [glob_escape(src), dst]
            tracked_guess.append(dst + src if dst.endswith("/") else dst)
            if rng.random() < 0.3:
                # a record made without a file (and so without a rule), the file put there by hand, the path tracked:
                # the path is recorded already, the rule must still be written
                full = dst + src if dst.endswith("/") else dst
                sc["cmds"].append({"argv": argv[:2] + ["--no-recheck"] + argv[2:], "pre": pre})
                pre, argv = [["write", full, sc["files"].get(src, hx("by hand\n"))]], ["file", "track", glob_escape(full)]
        elif k < 0.92:
            src = rng.choice(tracked_guess)
            ext = os.path.splitext(src)[1]
            dst = rng.choice(["v", "q/", "d/e/m", "w/z/v2", "d/v3", "x/d/v4"] + (SPECIAL_DESTS if special and sn else []))
            dst += "" if dst.endswith("/") else ext
            argv = ["file", "move"] + (["--recheck-method", rng.choice(METHODS)] if rng.random() < 0.25 else []) + [glob_escape(src), dst]
            tracked_guess = [p for p in tracked_guess if p != src] + [dst + src if dst.endswith("/") else dst]
        else:
            # bring round trip: storage, send, drop the cache and a workspace file, bring
            if not have_storage:
                sc["cmds"].append({"argv": ["storage", "new", "local", "--name", "s", "--path", "@STORAGE"], "pre": []})
                have_storage = True
            sc["cmds"].append({"argv": ["file", "send", "--to", "s"], "pre": []})
            pre = [["rmcache"]] + [["rm", p] for p in rng.sample(tracked_guess, min(len(tracked_guess), 2))]
            argv = ["file", "bring", "--from", "s"] + (["--recheck-method", rng.choice(METHODS)] if rng.random() < 0.3 else [])
        sc["cmds"].append({"argv": argv, "pre": pre})
    return sc


def snapshot(root):
    """(.gitignore contents by directory, directories in read_dir order, lstat identity of every other file)"""
    gis, dirs, ident = {}, [], {}

    def walk(rel):
        full = os.path.join(root, rel) if rel else root
        try:
            ents = list(os.scandir(full))
        except OSError:
            return
        for e in ents:
            r = (rel + "/" + e.name) if rel else e.name
            if not rel and e.name in (".git", ".xvc"):
                continue
            if e.is_dir(follow_symlinks=False):
                dirs.append(r)
            elif e.name == ".gitignore":
                try:
                    gis[rel] = open(e.path, "rb").read()
                except OSError:
                    gis[rel] = None
                # xvc tracks a .gitignore that is not in the Git index like any other file: it can be a file target
                st = e.stat(follow_symlinks=False)
                ident[r] = (st.st_ino, 0, stat.S_IFMT(st.st_mode), 0, st.st_nlink)
            else:
                st = e.stat(follow_symlinks=False)
                ident[r] = (st.st_ino, st.st_mtime_ns, stat.S_IFMT(st.st_mode), st.st_size, st.st_nlink)
        for e in ents:
            if e.is_dir(follow_symlinks=False) and not (not rel and e.name in (".git", ".xvc")):
                walk((rel + "/" + e.name) if rel else e.name)
    walk("")
    return gis, dirs, ident


class _ListResult:
    def __init__(self, out, failed, timed_out):
        self.out, self.failed, self.timed_out = out, failed, timed_out


def tracked_paths(rp):
    # bytes, not the text mode of XvcRepo.xvc: its universal-newline reading would drop the carriage return that ends a name
    e = dict(C.BASE_ENV); e.update(rp.env)
    try:
        p = subprocess.run([rp.xvc_bin, "file", "list", "--format", "{{rcd8}}|{{name}}", "--no-summary"], cwd=rp.root, env=e,
                           stdout=subprocess.PIPE, stderr=subprocess.PIPE, timeout=300)
        r = _ListResult(p.stdout.decode("utf-8", "surrogateescape"), p.returncode != 0, False)
    except subprocess.TimeoutExpired:
        r = _ListResult("", True, True)
    out = []
    cur = None
    for l in r.out.split("\n"):
        if re.match(r"^[0-9a-f ]{8}\|", l):
            d, n = l.split("|", 1)
            cur = n if d.strip() and n else None
            if cur is not None:
                out.append(cur)
        elif cur is not None and l and not l.startswith("Total #"):
            # a name with a line break goes on in the next line
            out[-1] = cur = cur + "\n" + l
        elif "|" in l and cur is None:
            d, n = l.split("|", 1)
            if d.strip() and n:
                out.append(n)
    return sorted(set(out)), r


def target_matches(t, p):
    t0 = t.rstrip("/")
    if p == t0 or p.startswith(t0 + "/") or glob_escape(p) == t0:
        return True
    if any(ch in t0 for ch in "*?["):
        tc, pc = t0.split("/"), p.split("/")
        return len(tc) == len(pc) and all(fnmatch.fnmatchcase(b, a) for a, b in zip(tc, pc))
    return False


HEADER_RE = re.compile(rb"### Following (\d+) lines are added by xvc on [^\n]*")


def canon_suffix(b):
    """the appended bytes with the date removed and the lines of every block sorted (HashMap order)"""
    if b is None:
        return None
    out = []
    ms = list(HEADER_RE.finditer(b))
    if not ms:
        return [["raw", b.hex()]]
    if ms[0].start() > 0:
        out.append(["lead", b[:ms[0].start()].hex()])
    for i, m in enumerate(ms):
        end = ms[i + 1].start() if i + 1 < len(ms) else len(b)
        body = b[m.end():end]
        lines = body.split(b"\n")[1:-1] if body.endswith(b"\n") else body.split(b"\n")[1:]
        out.append(["block", int(m.group(1)), sorted(x.hex() for x in lines), body.endswith(b"\n")])
    return out


class Overloaded(Exception):
    """the machine is too slow right now (an xvc invocation exceeded its generous timeout): not a verdict"""


def new_repo(xvc, prefix):
    """a Git repository with `xvc init` done; retried when the only problem is a timeout"""
    last = None
    for attempt in range(3):
        rp = XvcRepo(xvc, prefix=prefix, git=True, init=False)
        r = rp.xvc("init", timeout=300)
        if not r.failed:
            return rp
        rp.cleanup()
        last = r
        if not r.timed_out:
            raise RuntimeError("xvc init failed: rc=%s %s" % (r.rc, (r.err or r.out)[-400:]))
    raise Overloaded("xvc init timed out three times")


def run_scenario(xvc, sc, flags, model):
    """runs a scenario on the real binary; returns the list of per-command observations (cut short, with the
    last entry marked, when the machine is too loaded for an invocation to finish in time)"""
    try:
        rp = new_repo(xvc, "c16")
    except Overloaded:
        return [{"overloaded": True}]
    obs = []
    try:
        for p, h in sc["files"].items():
            rp.write(p, bytes.fromhex(h))
        commit = []
        for g in sc["gitignores"]:
            full = rp.path(g["dir"], ".gitignore") if g["dir"] else rp.path(".gitignore")
            os.makedirs(os.path.dirname(full), exist_ok=True)
            with open(full, "ab") as fh:
                fh.write(bytes.fromhex(g["content"]))
            if g.get("commit", True):
                commit.append(os.path.relpath(full, rp.root))
        if commit:
            rp.git("add", "-f", "--", *commit); rp.git("commit", "-q", "-m", "user ignore files")
        for ci, cmd in enumerate(sc["cmds"]):
            for a in cmd.get("pre", []):
                if a[0] == "rm":
                    try:
                        os.unlink(rp.path(a[1]))
                    except OSError:
                        pass
                elif a[0] == "rmcache":
                    for cd in XVC_CACHE_DIRS:
                        C.rm_rf(rp.path(".xvc", cd))
                elif a[0] == "write":
                    if not os.path.lexists(rp.path(a[1])):
                        rp.write(a[1], bytes.fromhex(a[2]))
            gis0, dirs0, id0 = snapshot(rp.root)
            argv = [os.path.join(rp.base, "storage") if a == "@STORAGE" else a for a in cmd["argv"]]
            pre = ["-c", "git.auto_commit=false", "-c", "git.auto_stage=true"] if sc.get("stage_only") else []
            r = rp.xvc(*(pre + argv), timeout=300)
            if r.timed_out:
                obs.append({"overloaded": True})
                return obs
            gis1, dirs1, id1 = snapshot(rp.root)
            kind = argv[1] if argv[0] == "file" else argv[0]
            # .gitignore files that are symbolic links now (xvc tracked the file itself and rechecked it as a link): Git does not read them
            gi_links = sorted(d for d in gis1 if os.path.islink(os.path.join(rp.root, d, ".gitignore") if d else os.path.join(rp.root, ".gitignore")))
            o = {"ci": ci, "kind": kind, "argv": cmd["argv"], "failed": bool(r.failed), "panicked": bool(r.panicked), "gi_links": gi_links,
                 "stderr": (r.err or "")[-400:], "prefix_violations": [], "not_ignored": [], "staged": [], "tracked": [],
                 "gis0": {k: (v.hex() if v is not None else None) for k, v in gis0.items()},
                 "gis1": {k: (v.hex() if v is not None else None) for k, v in gis1.items()}, "dirs1": dirs1}
            # oracle 1: append only (byte prefix) on every .gitignore file
            for d, old in gis0.items():
                new = gis1.get(d)
                if old is None:
                    continue
                if new is None or not new.startswith(old):
                    o["prefix_violations"].append({"file": (d + "/" if d else "") + ".gitignore", "old": old.hex(),
                                                   "new": new.hex() if new is not None else None})
            if kind in IGNORE_KINDS:
                tracked, lr = tracked_paths(rp)
                o["tracked"] = tracked
                o["absent"] = [q for q in tracked if not os.path.lexists(rp.path(q))]
                if tracked:
                    # Git reads the input as pathspecs: `./` keeps a leading colon literal; --no-index because a name like `**` is
                    # also matched as a glob against the index (m/.gitignore is in it) and would then count as tracked by Git --
                    # what IS in the index is looked at below (ls-files --cached).  bytes: text mode would read a carriage
                    # return of a name as a line feed
                    pr = subprocess.run(
                        ["git", "-c", "core.quotepath=off", "check-ignore", "--no-index", "--stdin", "-z"], cwd=rp.root, env=dict(C.BASE_ENV, **rp.env),
                        input=("".join("./" + q + "\0" for q in tracked)).encode("utf-8", "surrogateescape"), stdout=subprocess.PIPE, stderr=subprocess.PIPE)
                    if pr.returncode not in (0, 1):
                        raise RuntimeError("git check-ignore failed: %s" % pr.stderr[-300:])
                    ign = set(x[2:] for x in pr.stdout.decode("utf-8", "surrogateescape").split("\0") if x)
                    o["not_ignored"] = [p for p in tracked if p not in ign]
                pa = subprocess.run(["git", "-c", "core.quotepath=off", "add", "-A", "-n"], cwd=rp.root, env=dict(C.BASE_ENV, **rp.env),
                                    stdout=subprocess.PIPE, stderr=subprocess.PIPE)
                pa_out = pa.stdout.decode("utf-8", "surrogateescape")
                staged = [m.group(1) for m in re.finditer(r"^add '(.*)'$", pa_out, re.M)]
                # (a name with a line break spans two lines of this listing)
                staged += [q for q in tracked if "\n" in q and ("add '%s'" % q) in pa_out]
                ts = set(tracked)
                o["staged"] = [p for p in staged if p in ts or any(p.startswith(".xvc/%s/" % c) or p == ".xvc/" + c for c in XVC_CACHE_DIRS)]
                # ... and what IS in the index after the command (xvc stages or commits by itself)
                li = subprocess.run(["git", "-c", "core.quotepath=off", "ls-files", "--cached", "-z"], cwd=rp.root, env=dict(C.BASE_ENV, **rp.env),
                                    stdout=subprocess.PIPE, stderr=subprocess.PIPE)
                for p in (x for x in li.stdout.decode("utf-8", "surrogateescape").split("\0") if x):
                    if (p in ts or any(p.startswith(".xvc/%s/" % c) for c in XVC_CACHE_DIRS)) and p not in o["staged"]:
                        o["staged"].append(p)
                # what the command did, for the model: directory targets, file targets, materialised paths
                stages = []
                regular0 = {p for p, i in id0.items() if i[2] == stat.S_IFREG}
                changed = sorted(p for p in tracked if p in id1 and id1[p] != id0.get(p))
                inos0 = {i[0]: p for p, i in id0.items()}
                if kind == "track":
                    targs = [a for a in argv[2:] if not a.startswith("--") and a not in METHODS]
                    # (cmd_track takes a target that IS a directory, read literally, as a directory target)
                    dts = [t.rstrip("/") for t in targs if os.path.isdir(rp.path(t)) and t.strip("/") and (t.rstrip("/") in dirs0)]
                    fts = sorted(p for p in tracked if p in regular0 and any(target_matches(t, p) for t in targs))
                    stages.append("T:%s:%s" % (lst([ppath(d) for d in dts]), lst([ppath(f) for f in fts])))
                renamed = []
                if kind == "move":
                    # fs::rename keeps the inode of a plain copy (link count 1); a hard link re-created from the
                    # cache shares the inode of the object, so the link count tells the two apart
                    # (inode numbers are reused: the vanished source must also have been a regular file with the
                    # same size and modification time -- fs::rename keeps them, a fresh copy has a new mtime)
                    renamed = [p for p in changed if p not in id0 and id1[p][0] in inos0 and inos0[id1[p][0]] not in id1
                               and id1[p][2] == stat.S_IFREG and id1[p][4] == 1
                               and id0[inos0[id1[p][0]]][1:4] == id1[p][1:4]]
                    if renamed:
                        stages.append("M:%s" % lst([ppath(p) for p in renamed]))
                mat = [p for p in changed if p not in renamed]
                if mat:
                    ops = []
                    d0 = set(dirs0)
                    for p in mat:
                        par = os.path.dirname(p)
                        if par and par not in d0 and ("D~" + ppath(par)) not in ops:
                            ops.append("D~" + ppath(par))
                    ops += ["F~" + ppath(p) for p in mat]
                    stages.append("H:%s" % lst(ops))
                o["stages"] = stages
                o["model_line"] = "seq %s %s %s %s %s %s" % (
                    "@FLAGS", lst(["%s=%s" % (ppath(d), v.hex()) for d, v in sorted(gis0.items()) if v is not None]),
                    lst([ppath(d) for d in dirs1]), hx("D"), lst([ppath(p) for p in tracked]), ";".join(stages) if stages else "-")
            obs.append(o)
        return obs
    finally:
        rp.cleanup()


def parse_seq_out(line):
    """'ok <files> <stage~path=WMP,..> <watch=I,..>' -> dict"""
    f = line.split(" ")
    if len(f) < 4 or f[0] not in ("ok", "fuel"):
        return None
    files = {}
    if f[1] != "-":
        for kv in f[1].split(","):
            k, v = kv.split("=")
            files[unppath(k)] = bytes.fromhex(v)
    bits = {}
    if f[2] != "-":
        for kv in f[2].split(","):
            k, v = kv.split("=")
            st, p = k.split("~")
            bits.setdefault(unppath(p), []).append((int(st), v))
    watch = {}
    if f[3] != "-":
        for kv in f[3].split(","):
            k, v = kv.split("=")
            watch[unppath(k)] = v == "1"
    extra = dict(x.split("=") for x in f[4:] if "=" in x)
    return {"ok": f[0] == "ok", "files": files, "bits": bits, "watch": watch, "extra": extra}


def anchored_floats(model, gis0, path):
    """is there an anchored (non-final slash) positive line in a .gitignore of a directory D above the path
    that Git reads as not matching the path (nor a directory of it) but that matches the path with one or
    more leading components below D removed -- what xvc's glob  D/**/line  accepts"""
    comps = path.split("/")
    lines, keys = [], []
    for d, c in gis0.items():
        if c is None:
            continue
        dc = d.split("/") if d else []
        if comps[:len(dc)] != dc or len(dc) >= len(comps):
            continue
        rel = comps[len(dc):]
        for l in c.split(b"\n"):
            l = l.rstrip(b"\r")
            body = l[:-1] if l.endswith(b"/") else l
            if not l or l.startswith((b"#", b"!")) or b"/" not in body:
                continue
            one = "%s=%s" % (ppath(d), (l + b"\n").hex())
            lines.append("ref %s %s f" % (one, ppath(path)))
            keys.append(("here", l))
            for k in range(1, len(rel)):
                lines.append("ref %s %s f" % (one, ppath("/".join(dc + rel[k:]))))
                keys.append(("shifted", l))
    if not lines:
        return False
    rc, out = C.run_lines(model, lines)
    res = {}
    for (k, l), o in zip(keys, out):
        res.setdefault(l, {"here": False, "shifted": False})
        if o.startswith("1"):
            res[l][k] = True
    return any(v["shifted"] and not v["here"] for v in res.values())


def nested_above(model, gis0, path):
    """is there a positive line WITHOUT a non-final slash in the .gitignore of a directory D (not the root) above
    the path that Git, reading it relative to D, does not match, but that matches when read from the repository
    root -- xvc matches the glob **/line against the whole path, including the components at and above D"""
    comps = path.split("/")
    lines, keys = [], []
    for d, c in gis0.items():
        if c is None or not d:
            continue
        dc = d.split("/")
        if comps[:len(dc)] != dc or len(dc) >= len(comps):
            continue
        for l in c.split(b"\n"):
            l = l.rstrip(b"\r")
            body = l[:-1] if l.endswith(b"/") else l
            if not l or l.startswith((b"#", b"!")) or b"/" in body:
                continue
            lines.append("ref %s=%s %s f" % (ppath(d), (l + b"\n").hex(), ppath(path))); keys.append((l, "here"))
            lines.append("ref -=%s %s f" % ((l + b"\n").hex(), ppath(path))); keys.append((l, "root"))
    if not lines:
        return False
    rc, out = C.run_lines(model, lines)
    res = {}
    for (l, k), o in zip(keys, out):
        res.setdefault(l, {})[k] = o.startswith("1")
    return any(v.get("root") and not v.get("here") for v in res.values())


def symlinked_gitignore_above(o, path):
    """the .gitignore of the path's directory or of a directory above it is a symbolic link after the command (or the
    path is such a .gitignore): Git does not read a linked .gitignore, whatever it contains"""
    comps = path.split("/")
    dirs_above = ["/".join(comps[:k]) for k in range(len(comps))]
    return any(d in dirs_above for d in o.get("gi_links", []))


def classify(model, flags, o, path, mo, history):
    """class label of `path` (tracked, not ignored by Git after command o), decided from the failing command,
    the .gitignore files before it and the model's class predicates evaluated on exactly that input"""
    if symlinked_gitignore_above(o, path):
        return "gitignore-symlinked"
    # recorded by `copy --no-recheck` / `move --no-recheck` and not in the workspace since: there is no file Git could stage
    if path in o.get("absent", []) and history.get(("no_recheck", path)):
        return "no-recheck-destination-absent"
    if mo is None:
        return None
    bits = mo["bits"].get(path)
    if bits is None and history.get(("born_in_failure", path)) and not flags.get("fixed_P3"):
        return "record-left-by-failed-command"      # (with the repair of P3 in the tree the class is empty: nothing is suppressed)
    if bits is None:
        # not handled by this command: ignored before, not after?
        prev = history.get(path)
        if prev is True:
            # the command appended to a file whose last line had no line break
            appended = [d for d, old in o["gis0"].items() if old is not None and o["gis1"].get(d) not in (None, old)]
            if any(o["gis0"][d] and not bytes.fromhex(o["gis0"][d]).endswith(b"\n") for d in appended):
                return "unterminated-last-line"
        return None
    stage_kinds = [s[0] for s in o.get("stages", [])]
    for st, v in bits:
        w, m, pl = v[0] == "1", v[1] == "1", v[2] == "1"
        if not pl:
            return "special-name"
        if w:
            return "user-whitelist"
        if m:
            # which disagreement between xvc's matcher and Git
            line17 = o["model_line"].replace("@FLAGS", flag_str(flags, fixed_P17=True))
            rc, out = C.run_lines(model, [line17])
            mo17 = parse_seq_out(out[0]) if out else None
            still = mo17 and any(v2[1] == "1" for s2, v2 in mo17["bits"].get(path, []))
            if not flags["fixed_P17"] and not still:
                return "engine-mismatch-nonlocal"
            if anchored_floats(model, {k: (bytes.fromhex(v) if v is not None else None) for k, v in o["gis0"].items()}, path) or \
               anchored_floats(model, {k: (bytes.fromhex(v) if v is not None else None) for k, v in o["gis1"].items()}, path):
                return "engine-mismatch-anchored-floats"
            if nested_above(model, {k: (bytes.fromhex(v) if v is not None else None) for k, v in o["gis0"].items()}, path):
                return "engine-mismatch-nested-matches-above"
            return None
    if stage_kinds and all(k == "M" for k in [stage_kinds[st] for st, v in bits]) and not flags["fixed_P5"]:
        return "move-rename-destination"
    # handled, outside every class, and an unterminated last line swallowed the header
    appended = [d for d, old in o["gis0"].items() if old is not None and o["gis1"].get(d) not in (None, old)]
    if any(o["gis0"][d] and not bytes.fromhex(o["gis0"][d]).endswith(b"\n") for d in appended):
        return "unterminated-last-line"
    return None


def judge(chk, model, flags, sc, obs, dist, reported, corpus_name=None, quiet=False, xvc=None):
    """oracle + model comparison on the observations of one scenario"""
    history = {}      # path -> ignored by Git after the previous command
    lines = [o["model_line"].replace("@FLAGS", flag_str(flags)) for o in obs if o.get("model_line")]
    rc, out = C.run_lines(model, lines) if lines else (0, [])
    outs = iter(out)
    found = []
    if obs and obs[-1].get("overloaded"):
        dist["cut_short_by_timeouts"] = dist.get("cut_short_by_timeouts", 0) + 1
        obs = obs[:-1]
    for o in obs:
        dist["commands"][o["kind"]] = dist["commands"].get(o["kind"], 0) + 1
        dist["failed_commands"] += o["failed"]
        for pv in o["prefix_violations"]:
            found.append(("append-only", o, pv["file"], None))
            if reported["n"] < 6:
                reported["n"] += 1
                small = None
                if xvc is not None and not quiet and reported["n"] <= 2:
                    sc_cut = dict(sc, cmds=sc["cmds"][:o["ci"] + 1])
                    small, nruns = shrink_scenario(xvc, model, flags, sc_cut,
                                                   lambda cand: any(k == "append-only" for k, _ in failure_signature(_Quiet(), xvc, model, flags, cand)))
                chk.fail("oracle", "`xvc %s` rewrote %s: the old content is not a prefix of the new content" % (" ".join(o["argv"]), pv["file"]),
                         {"input": small or sc, "unshrunk_input": sc if small else None, "command_index": o["ci"], "violation": pv}, name="prefix")
        if not o.get("model_line"):
            continue
        mo = parse_seq_out(next(outs, ""))
        nontrivial = bool(o["tracked"]) and not o["panicked"]
        chk.count(("cmd", json.dumps(sc, sort_keys=True), o["ci"]), nontrivial)
        chk.cov["traces_validated_against_impl"] += 1
        appended = {d: bytes.fromhex(new)[len(bytes.fromhex(o["gis0"].get(d) or "")):] for d, new in o["gis1"].items()
                    if new is not None and new != o["gis0"].get(d)}
        dist["commands_appending"] += bool(appended)
        dist["tracked_paths_checked"] += len(o["tracked"])
        if len(chk.cov["samples"]) < 6 and appended:
            chk.sample({"command": " ".join(o["argv"]), "appended": {(d or ".") + "/.gitignore": b.decode("utf-8", "replace") for d, b in appended.items()},
                        "tracked": o["tracked"], "not_ignored": o["not_ignored"]})
        # model comparison: appended bytes
        if o.get("gi_links"):
            # xvc reads and appends through the link, Git does not read the file at all: outside the model (finding gitignore-symlinked)
            dist["symlinked_gitignore_not_compared"] = dist.get("symlinked_gitignore_not_compared", 0) + 1
        elif mo is not None and mo["ok"] and not o["failed"] and flags["fixed_em"] and mo["extra"].get("sup", "1") != "1":
            # with repo-patches/76 the lines depend on what Git ignores in the state before the command; a line of that
            # state outside the grammar of the reference semantics leaves the model without a prediction
            dist["unsupported_state_not_compared"] = dist.get("unsupported_state_not_compared", 0) + 1
        elif mo is not None and mo["ok"] and not o["failed"]:
            pred = {}
            for d, new in mo["files"].items():
                old = bytes.fromhex(o["gis0"].get(d) or "")
                if new != old:
                    pred[d] = new[len(old):]
            real = {d: HEADER_RE.sub(lambda m: b"### Following " + m.group(1) + b" lines are added by xvc on D", b) for d, b in appended.items()}
            if {d: canon_suffix(b) for d, b in pred.items()} != {d: canon_suffix(b) for d, b in real.items()}:
                dist["model_differs"] += 1
                if reported["corr"] < 3:
                    reported["corr"] += 1
                    chk.fail("correspondence", "the lines `xvc %s` appended differ from the model's prediction: real %r, model %r" % (
                        " ".join(o["argv"]), {d: b.decode("utf-8", "replace") for d, b in real.items()}, {d: b.decode("utf-8", "replace") for d, b in pred.items()}),
                        {"theorem_or_correspondence": "Gitignore.Model.run_cmd vs the xvc binary", "scenario": sc, "command_index": o["ci"],
                         "stages": o.get("stages"), "model_line": o["model_line"]}, name="lines", has_input=False)
            else:
                dist["model_agrees"] += 1
            # reference semantics vs git on the real final state (the model's final state has the same rules)
            if mo["extra"].get("sup", "1") == "1":
                for p, ig in mo["watch"].items():
                    real_ig = p not in o["not_ignored"]
                    if ig != real_ig and {d: canon_suffix(b) for d, b in pred.items()} == {d: canon_suffix(b) for d, b in real.items()}:
                        dist["ref_differs"] += 1
                        if reported["corr"] < 3:
                            reported["corr"] += 1
                            chk.fail("correspondence", "reference semantics says ignored=%s for %r after `xvc %s`, git check-ignore says %s" % (ig, p, " ".join(o["argv"]), real_ig),
                                     {"theorem_or_correspondence": "Gitignore.Model.ignored vs git check-ignore (scenario)", "scenario": sc, "command_index": o["ci"],
                                      "model_line": o["model_line"]}, name="refscn", has_input=False)
        # a path recorded by copy / move --no-recheck stays outside the workspace until something materialises it
        for p in o["tracked"]:
            if p not in o.get("absent", []):
                history.pop(("no_recheck", p), None)
            elif "--no-recheck" in o["argv"] and o["kind"] in ("copy", "move") and ("seen", p) not in history and p not in history:
                history[("no_recheck", p)] = True
        # a path first recorded by a command that failed (error or panic) and never materialised it
        for p in o["tracked"]:
            if p not in history and ("seen", p) not in history:
                history[("seen", p)] = True
                if o["failed"] and p in o.get("absent", []):
                    history[("born_in_failure", p)] = True
        # oracle 2 and 3
        bad = sorted(set(o["not_ignored"]) | set(o["staged"]))
        for p in bad:
            klass = None
            if p.startswith(".xvc/"):
                what = "the cache path %s is in the Git index (or `git add -A -n` would stage it) after `xvc %s`" % (p, " ".join(o["argv"]))
            else:
                klass = classify(model, flags, o, p, mo, history)
                if klass is None and history.get(p) is False:
                    klass = history.get(("class", p))        # still the same unrepaired path as after an earlier command
                what = "tracked path %s is not ignored by Git after `xvc %s`%s" % (p, " ".join(o["argv"]), " (git add -A -n stages it)" if p in o["staged"] else "")
            found.append(("not-ignored", o, p, klass))
            history[("class", p)] = klass
            dist["classes"][klass or "unclassified"] = dist["classes"].get(klass or "unclassified", 0) + 1
            key = klass or "unclassified"
            if reported["by_class"].get(key, 0) < (2 if klass else 4):
                reported["by_class"][key] = reported["by_class"].get(key, 0) + 1
                small = None
                if klass is None and xvc is not None and not quiet and reported["by_class"][key] <= 2:
                    sc_cut = dict(sc, cmds=sc["cmds"][:o["ci"] + 1])
                    small, nruns = shrink_scenario(xvc, model, flags, sc_cut,
                                                   lambda cand: ("not-ignored", None) in failure_signature(_Quiet(), xvc, model, flags, cand))
                chk.fail("oracle", what, {"input": small or sc, "unshrunk_input": sc if small else None, "command_index": o["ci"], "path": p, "class": klass, "stages": o.get("stages"),
                                          "gitignore_before": {(d or ".") + "/.gitignore": bytes.fromhex(v).decode("utf-8", "replace") for d, v in o["gis0"].items() if v},
                                          "gitignore_after": {(d or ".") + "/.gitignore": bytes.fromhex(v).decode("utf-8", "replace") for d, v in o["gis1"].items() if v},
                                          "corpus": corpus_name}, name="ignore", klass=klass)
        for p in o["tracked"]:
            history[p] = p not in o["not_ignored"]
    return found


def shrink_scenario(xvc, model, flags, sc, still_fails, budget=14):
    """greedy: drop commands (never the last one), user .gitignore files and lines, files -- while the
    failure (same kind, same class) is still observed; at most `budget` re-runs"""
    cur = json.loads(json.dumps(sc))
    runs = [0]

    def ok(cand):
        if runs[0] >= budget:
            return False
        runs[0] += 1
        try:
            return still_fails(cand)
        except Exception:   # noqa
            return False
    i = 0
    while i < len(cur["cmds"]) - 1:
        cand = dict(cur, cmds=cur["cmds"][:i] + cur["cmds"][i + 1:])
        if ok(cand):
            cur = cand
        else:
            i += 1
    i = 0
    while i < len(cur["gitignores"]):
        cand = dict(cur, gitignores=cur["gitignores"][:i] + cur["gitignores"][i + 1:])
        if ok(cand):
            cur = cand
            continue
        g = cur["gitignores"][i]
        lines = bytes.fromhex(g["content"]).split(b"\n")
        j = 0
        while j < len(lines) and len(lines) > 1:
            l2 = lines[:j] + lines[j + 1:]
            cand = dict(cur, gitignores=cur["gitignores"][:i] + [dict(g, content=b"\n".join(l2).hex())] + cur["gitignores"][i + 1:])
            if ok(cand):
                cur, lines, g = cand, l2, cand["gitignores"][i]
            else:
                j += 1
        i += 1
    used = " ".join(a for c in cur["cmds"] for a in c["argv"])
    for p in sorted(cur["files"]):
        if p in used or any(p.startswith(t.rstrip("/") + "/") for c in cur["cmds"] for t in c["argv"]):
            continue
        cand = dict(cur, files={k: v for k, v in cur["files"].items() if k != p})
        if ok(cand):
            cur = cand
    return cur, runs[0]


def failure_signature(chk_like, xvc, model, flags, sc):
    """the set of (kind, class) failures a scenario shows (used by the shrinker and by --replay)"""
    obs = run_scenario(xvc, sc, flags, model)
    dist = {"commands": {}, "failed_commands": 0, "commands_appending": 0, "tracked_paths_checked": 0, "model_agrees": 0,
            "model_differs": 0, "ref_differs": 0, "classes": {}}
    found = judge(chk_like, model, flags, sc, obs, dist, {"n": 99, "corr": 99, "by_class": {}}, quiet=True)
    return {(k, klass) for k, _, _, klass in found}


class _Quiet:
    """a Check stand-in for re-runs inside the shrinker: counts nothing, reports nothing"""
    def __init__(self):
        self.cov = {"samples": [0] * 99, "traces_validated_against_impl": 0}

    def count(self, *a):
        pass

    def sample(self, *a):
        pass

    def fail(self, *a, **k):
        pass


def load_corpus():
    d = os.path.join(C.ROOT, "corpus", PROP)
    out = []
    for f in sorted(os.listdir(d)) if os.path.isdir(d) else []:
        if f.endswith(".json"):
            out.append((f, json.load(open(os.path.join(d, f)))))
    return out


def scenarios(chk, xvc, model, flags, replay=None):
    n = 60 if chk.tier == "quick" else 520
    items = []
    if replay and (replay.get("input") or {}).get("kind") != "init-probe":
        items.append(("replay", {"input": replay.get("input") or replay.get("scenario"), "expect": None}))
    else:
        items += load_corpus()
        for i in range(n):
            items.append((None, {"input": gen_scenario(chk.rng, i, flags)}))
    dist = {"scenarios": len(items), "corpus": sum(1 for n_, _ in items if n_), "commands": {}, "failed_commands": 0, "commands_appending": 0,
            "tracked_paths_checked": 0, "model_agrees": 0, "model_differs": 0, "ref_differs": 0, "classes": {},
            "user_gitignores": 0, "unterminated_user_files": 0, "special_name_scenarios": 0}
    for _, it in items:
        sc = it["input"]
        dist["user_gitignores"] += len(sc.get("gitignores", []))
        dist["unterminated_user_files"] += sum(1 for g in sc.get("gitignores", []) if g["content"] and not bytes.fromhex(g["content"]).endswith(b"\n"))
        dist["special_name_scenarios"] += any(p in sc["files"] for p in SPECIAL_FILES_FIXED)
    with ThreadPoolExecutor(10) as ex:
        results = list(ex.map(lambda it: run_scenario(xvc, it[1]["input"], flags, model), items))
    reported = {"n": 0, "corr": 0, "by_class": {}}
    for (name, it), obs in zip(items, results):
        cut = bool(obs and obs[-1].get("overloaded"))
        found = judge(chk, model, flags, it["input"], obs, dist, reported, corpus_name=name, xvc=xvc)
        exp = it.get("expect")
        if name and name != "replay" and exp is not None and not cut:
            got = sorted({k for _, _, _, k in found if k})
            # a witness of an open finding must still reproduce its class (the class predicate and the defect are alive);
            # a witness of a fixed finding must be clean -- any failure there was reported above without a matching open class
            if exp.get("status") == "open" and exp.get("class") not in got and not flags_fix(flags, exp.get("class")) \
               and not flags.get(exp.get("gone_with"), False):
                chk.fail("correspondence", "corpus witness %s no longer reproduces class %s (got %s): the finding entry or the class predicate is stale" % (name, exp.get("class"), got),
                         {"theorem_or_correspondence": "findings.d/C16.json witness", "witness": name}, name="corpus", has_input=False)
    return dist


def flags_fix(flags, klass):
    return {"move-rename-destination": flags["fixed_P5"], "engine-mismatch-nonlocal": flags["fixed_P17"] or flags["fixed_em"],
            "unterminated-last-line": flags["fixed_nl"], "special-name": flags["fixed_sn"],
            "engine-mismatch-anchored-floats": flags["fixed_em"], "engine-mismatch-nested-matches-above": flags["fixed_em"],
            "record-left-by-failed-command": flags.get("fixed_P3", False)}.get(klass, False)


def init_content_check(chk, xvc, model):
    """the rendered initial rules of the model (from Gen/GitignoreInitial.v) are the rule lines a real init writes"""
    rc, out = C.run_lines(model, ["init"])
    try:
        rp = new_repo(xvc, "c16init")
    except Overloaded:
        return {"skipped": "machine overloaded"}
    try:
        real = rp.read(".gitignore") or b""
    finally:
        rp.cleanup()
    real_rules = [l for l in real.split(b"\n") if l.strip() and not l.startswith(b"#")]
    mod_rules = [l for l in bytes.fromhex(out[0]).split(b"\n") if l] if out and re.fullmatch(r"[0-9a-f]*", out[0]) else None
    if mod_rules != real_rules:
        chk.fail("correspondence", "initial root .gitignore: model %r, `xvc init` wrote %r" % (mod_rules, real_rules),
                 {"theorem_or_correspondence": "Gitignore.Model.init_content vs xvc init"}, name="init", has_input=False)
    return {"init_rule_lines": [l.decode() for l in real_rules], "init_ends_with_newline": real.endswith(b"\n")}


def init_probe(chk, xvc, only=None):
    """`xvc init` in a Git repository that already has a root .gitignore: the user's bytes stay a prefix, an
    unterminated last line stays a line of its own, and what Git ignored before it ignores afterwards"""
    cases = [("build\n*.o\n", ["build/x.o", "y.o"]), ("build", ["build/x.o"]), ("*.o\n!keep.o", ["y.o"]), ("# note\nout/", ["out/z"]),
             ("build\r\n", []), ("", []), ("# .xvc/*\n", []), ("legacy/.xvc/*\nnotes.txt\n", ["notes.txt"])]
    if only is not None:
        cases = [(bytes.fromhex(only["gitignore"]).decode("utf-8", "surrogateescape"), only["ignored"])]
    n = 0
    for old_txt, ignored in cases:
        rp = XvcRepo(xvc, prefix="c16initp", git=True, init=False)
        try:
            old = old_txt.encode()
            rp.write(".gitignore", old)
            for p in ignored:
                rp.write(p, b"x\n")
            r = rp.xvc("init", timeout=300)
            if r.timed_out:
                continue
            n += 1
            new = rp.read(".gitignore") or b""
            what = None
            if r.failed:
                what = "`xvc init` failed in a repository with a root .gitignore %r: %s" % (old_txt, (r.err or "")[-200:])
            elif not new.startswith(old):
                what = "`xvc init` rewrote the user's root .gitignore: %r is not a prefix of %r" % (old, new[:80])
            elif old and not old.endswith(b"\n") and new != old and new[len(old):len(old) + 1] != b"\n":
                what = "`xvc init` appended to the unterminated last line %r of the user's .gitignore: %r" % (old.split(b"\n")[-1], new[:len(old) + 40])
            else:
                for p in ignored:
                    if rp.git("check-ignore", "-q", "--no-index", "./" + p).returncode != 0:
                        what = "%s was ignored by the user's .gitignore %r and is not after `xvc init`" % (p, old_txt); break
                if what is None:
                    # whatever the user's file says, the rules of `xvc init` are in force: after a track, neither the cache nor
                    # the tracked file can be staged
                    rp.write("data.bin", b"\x00payload\n")
                    r2 = rp.xvc("file", "track", "data.bin", timeout=300)
                    if not r2.timed_out and not r2.failed:
                        out = rp.git("-c", "core.quotepath=off", "add", "-A", "-n").stdout
                        staged = [m.group(1) for m in re.finditer(r"^add '(.*)'$", out, re.M)]
                        # (xvc's own auto-commit runs `git add .xvc`: what it took is in the index already)
                        staged += [q for q in rp.git("-c", "core.quotepath=off", "ls-files", "--cached").stdout.split("\n") if q]
                        bad = sorted(set(q for q in staged if q == "data.bin" or any(q.startswith(".xvc/" + cd + "/") for cd in XVC_CACHE_DIRS)))
                        if bad:
                            what = "after `xvc init` over the user's .gitignore %r and `xvc file track data.bin`, `git add -A` would stage %s" % (old_txt, ", ".join(bad[:3]))
            if what:
                chk.fail("oracle", what, {"input": {"kind": "init-probe", "gitignore": old.hex(), "ignored": ignored}}, name="initprobe")
            chk.count(("initprobe", old_txt), True)
        finally:
            rp.cleanup()
    return n


def run(chk, replay=None):
    install_findings_fallback()
    chk.cov["trusted_base"] = TRUSTED
    chk.cov["rule"] = ("reference semantics: one (set of .gitignore files, path) case judged by `git check-ignore` and by the extracted reference; non-trivial = Git ignores the path. "
                       "Histories: one command of a generated history on the real binary (tree, user .gitignore files from the grammar incl. covering / whitelisting / unterminated ones, "
                       "2-5 commands of track / recheck / copy / move / bring with repeated paths), judged by the three oracles and compared with the model's predicted appended lines; "
                       "non-trivial = the command is one of the five kinds, did not panic, and at least one tracked path was checked; distinct by (scenario, command index)")
    chk.assumptions += ["no core.excludesFile and no .git/info/exclude rules (private HOME)", "the rules are asked with `git check-ignore --no-index` (paths as ./path: no pathspec magic, no glob match of a name like ** against the index); whether a tracked path or the cache IS in the index is read with `git ls-files --cached` and `git add -A -n`",
                        "user .gitignore lines of the histories come from the grammar of Gitignore.Model.parse_line"]
    notes = (run_gen("gitignore_initial") or []) + (run_gen("common_ignore") or [])
    chk.cov["translator_notes"] = [str(x) for x in notes]
    flags = source_flags()
    chk.cov["source_flags"] = dict(flags)
    a = chk.proof()
    model = None
    try:
        model = C.ensure_model("Gitignore", ["Base", "Glob", "Walker", "Gitignore", "Gen"])
    except Exception as e:   # noqa
        C.log("gitignoremodel not available: %s" % str(e)[-800:])
        chk.fail("proof", "the model no longer builds: " + str(e)[-300:], {"theorem_or_correspondence": "Gitignore/Model.v extraction"}, name="model", has_input=False)
        model = None
    xvc = C.ensure_xvc()
    dist = {}
    if model is None:
        chk.cov["distribution"] = dist
        return
    dist["init"] = init_content_check(chk, xvc, model)
    if replay is None:
        dist["init_probes"] = init_probe(chk, xvc)
    elif replay.get("input", {}).get("kind") == "init-probe":
        dist["init_probes"] = init_probe(chk, xvc, only=replay["input"])
    dist["switches"] = probe_switches(chk, xvc, flags)
    chk.cov["repairs_in_tree"] = {k: flags[k] for k in ("fixed_P17", "fixed_P35", "fixed_nl", "fixed_P5", "fixed_sn", "fixed_em")}
    both = flags["fixed_sn"] and flags["fixed_em"]
    chk.cov["theorems_for_this_tree"] = (
        "tracked_paths_git_ignored_fixed / tracked_paths_git_ignored_history_fixed (every valid name, whatever xvc's own matcher says; the only class left is user-whitelist, P26), "
        "special_name_class_empty_when_fixed, engine_mismatch_class_empty_when_fixed, escape_matches_exactly, escape_ignores_name" if both else
        "tracked_paths_git_ignored / _history with fixed_sn=%s fixed_em=%s (outside %s)" % (
            flags["fixed_sn"], flags["fixed_em"],
            ", ".join(["K_user_whitelist"] + ([] if flags["fixed_em"] else ["K_engine_mismatch"]) + ([] if flags["fixed_sn"] else ["K_special_name"]))))
    if replay and "files" in replay and "path" in replay and not (replay.get("input") or replay.get("scenario")):
        # a reference-semantics replay: the one (files, path) case again
        dist["reference_vs_git"] = ref_vs_git(chk, model, 1, groups=[{"files": replay["files"], "paths": [replay["path"].rstrip("/")],
                                                                      "as_dir": replay["path"].endswith("/")}])
        chk.cov["distribution"] = dist
        return
    if not replay:
        dist["reference_vs_git"] = ref_vs_git(chk, model, 100 if chk.tier == "quick" else 1500)
    dist["histories"] = scenarios(chk, xvc, model, flags, replay)
    chk.cov["distribution"] = dist
    if any(f.kind == "oracle" and not known_class(f.klass) for f in chk.failures):
        for f in chk.failures:
            if f.kind == "proof":
                f.has_input = True
                f.replay = next(g.replay for g in chk.failures if g.kind == "oracle" and not known_class(g.klass))


def known_class(klass):
    return klass is not None and any(k.get("class") == klass for k in C.known_findings(PROP))
