"""C08 — metadata stores replay to exactly what was written.
proof (Props/C08.v) + correspondence ecsmodel (extracted M-ECS) vs ecsdrv (real xvc-ecs) + an oracle
written from the property text (Python dict replay), on exhaustive small and random histories."""
import itertools, os, re, json, subprocess
from . import common as C

ENTS2 = ["1.7", "2.7"]
TRUSTED = [
    "Coq 8.16.1 kernel, coqc; vm_compute in Examples only; no native_compute",
    "axioms: none (Print Assumptions: Closed under the global context for all 6 theorems)",
    "extraction: ExtrOcamlBasic only (Extract Inductive bool/option/unit/list/prod/sumbool/sumor; inlined andb/orb); ocamlfind ocamlopt 4.13.1; coq/extract/common.ml + ecs_driver.ml (parsing/printing)",
    "correspondence: harness/src/bin/ecsdrv.rs (calls the real XvcStore/R1NStore/load_generator), vlib/c08.py generators, canonicaliser and dict-replay oracle",
    "modelled, not verified: ecs/src/ecs/{xvcstore,event,mod,r1nstore}.rs as Ecs/Model.v; serde_json codec and fs::read_dir+sort abstracted (file = decoded event list, names sorted numerically)",
    "environment assumptions: fresh_names (a save uses a name greater than all names in the directory); hook H3 pins the random word",
]


# ---- history generation -------------------------------------------------------------------------
def small_ops(ents, nv):
    ops = []
    for e in ents:
        for v in range(nv):
            ops.append("i:%s:%d" % (e, v)); ops.append("u:%s:%d" % (e, v))
        ops.append("r:" + e)
    return ops


def with_boundaries(seq, mask, ts0=100):
    """inserts 's:<ts> l' after op i when bit i of mask is set; always ends with save+load."""
    out, ts = [], ts0
    for i, o in enumerate(seq):
        out.append(o)
        if (mask >> i) & 1 or i == len(seq) - 1:
            out += ["s:%d" % ts, "l"]; ts += 1
    return out


def exhaustive(maxlen):
    ops = small_ops(ENTS2, 2)
    for n in range(1, maxlen + 1):
        for seq in itertools.product(ops, repeat=n):
            for mask in range(1 << (n - 1)):
                yield "plain 2 " + " ".join(with_boundaries(seq, mask))


def random_history(rng, nents=4, nv=3, maxlen=40):
    ents = ["%d.%d" % (c, r) for c, r in [(1, 9), (2, 9), (2, 3), (10, 1)]][:nents]
    n = rng.randint(3, maxlen)
    out, ts = [], rng.randint(1, 50)
    for _ in range(n):
        k = rng.random()
        e = rng.choice(ents)
        if k < 0.35:
            out.append("i:%s:%d" % (e, rng.randrange(nv)))
        elif k < 0.6:
            out.append("u:%s:%d" % (e, rng.randrange(nv)))
        elif k < 0.8:
            out.append("r:" + e)
        elif k < 0.9:
            ts += rng.randint(1, 5); out.append("s:%d" % ts)
            if rng.random() < 0.7:
                out.append("l")
        else:
            out.append("l")
    ts += 1
    out += ["s:%d" % ts, "l"]
    return "plain %d %s" % (nv, " ".join(out))


def random_merge(rng, disjoint=True):
    nv = 3
    ea = ["1.5", "2.5", "3.5", "4.5"]
    eb, ec = (ea[:2], ea[2:]) if disjoint else (ea[:3], ea[1:])

    def ops(ents, n):
        o = []
        for _ in range(n):
            e = rng.choice(ents); k = rng.random()
            o.append("i:%s:%d" % (e, rng.randrange(nv)) if k < 0.4 else
                     "u:%s:%d" % (e, rng.randrange(nv)) if k < 0.7 else "r:" + e)
        return o
    a = ops(ea, rng.randint(0, 5)) + ["s:10"]
    # file names of both branches: a random interleaving of fresh distinct names
    names = list(range(11, 11 + 8)); rng.shuffle(names)
    nb, nc = sorted(names[:4]), sorted(names[4:])

    def branch(ents, nm):
        o = []
        for t in nm[:rng.randint(1, len(nm))]:
            o += ops(ents, rng.randint(1, 4)) + ["s:%d" % t, "l"]
        return o
    b, c = branch(eb, nb), branch(ec, nc)
    return "merge %d %s|%s|%s" % (nv, ",".join(a), ",".join(b), ",".join(c)), (eb, ec, disjoint)


def random_r1n(rng):
    pes, ces = ["1.0", "2.0", "3.0"], ["10.0", "11.0", "12.0", "13.0"]
    o = []
    for _ in range(rng.randint(1, 12)):
        if rng.random() < 0.75:
            o.append("i:%s:%d:%s:%d" % (rng.choice(pes), rng.randrange(3), rng.choice(ces), rng.randrange(3)))
        else:
            o.append("x:" + rng.choice(ces))
    return "r1n " + " ".join(o)


# ---- oracle (independent of the model: plain dict replay on the implementation's output) --------
STORE_RE = re.compile(r"map=\[([^\]]*)\] ef=(\S*) im=(\S+)")


def parse_store(txt):
    m = STORE_RE.search(txt)
    if not m:
        return None
    mp = dict(kv.split("=") for kv in m.group(1).split(",") if kv)
    ef = {}
    for part in m.group(2).split(";"):
        if not part:
            continue
        v, l, first = part.split(":")
        ef[v] = None if l == "-" else [x for x in l.strip("[]").split(",") if x]
    return mp, ef, m.group(3)


def index_ok(mp, ef):
    for v, l in ef.items():
        holders = sorted(e for e, x in mp.items() if x == v)
        if l is None:
            if holders:
                return "entities_for(%s)=None but held by %s" % (v, holders)
        else:
            if sorted(l) != holders or len(set(l)) != len(l):
                return "entities_for(%s)=%s but holders are %s" % (v, l, holders)
    return None


def oracle_plain(line, out):
    toks = line.split()[2:]
    parts = out.split(" | ")
    if len(parts) != len(toks) + 1:
        return "malformed output"
    cur, saved, prev_dir = {}, {}, None
    for o, p in zip(toks, parts):
        f = o.split(":")
        if f[0] in ("i", "u"):
            cur[f[1]] = f[2]
        elif f[0] == "r":
            cur.pop(f[1], None)
        elif f[0] == "s":
            saved = dict(cur)
        elif f[0] == "l":
            cur = dict(saved)
        st = parse_store(p)
        if st is None:
            return "unparsable store"
        mp, ef, im = st
        if mp != cur:
            return "after %s map is %s, an ordinary map holds %s" % (o, mp, cur)
        e = index_ok(mp, ef)
        if e:
            return "after %s %s" % (o, e)
        if im == "PANIC":
            return "index_map panics after %s" % o
    return None


def oracle_merge(line, out, info):
    eb, ec, disjoint = info
    if not disjoint:
        return None
    try:
        secs = dict(s.split("=", 1) for s in out.split(" | "))
        st = {k: parse_store(v) for k, v in secs.items() if k != "dir"}
        if any(st[k] is None for k in ("A", "AB", "AC", "M")):
            return "unparsable output: " + out[:80]
    except (ValueError, KeyError):
        return "unparsable output: " + out[:80]
    A, AB, AC, M = st["A"][0], st["AB"][0], st["AC"][0], st["M"][0]
    for e in set(A) | set(AB) | set(AC) | set(M):
        want = AB.get(e) if e in eb else AC.get(e) if e in ec else A.get(e)
        if M.get(e) != want:
            return "merged store has %s=%s, expected %s" % (e, M.get(e), want)
    # M' is the same set of files arrived in another order (other branch first, modification times running
    # against the names): "combined in any order"
    if st.get("M'") is not None:
        M2 = st["M'"][0]
        for e in set(A) | set(AB) | set(AC) | set(M2):
            want = AB.get(e) if e in eb else AC.get(e) if e in ec else A.get(e)
            if M2.get(e) != want:
                return "merged store (files arrived in another order) has %s=%s, expected %s" % (e, M2.get(e), want)
    e = index_ok(M, st["M"][1])
    return e


# ---- generator sessions (one process per session: load_generator works once per process) --------
def gen_case(rng):
    nsess = rng.randint(1, 6)
    start = rng.choice([1, 1, 5, 2 ** 32, 2 ** 64 - 50])
    sess = [(rng.randint(0, 5), 100 + i, 1) for i in range(nsess)]
    return start, sess


def run_gen_real(ecsdrv, start, sess, rnd=12345):
    d = C.scratch_dir("ec")
    try:
        with open(os.path.join(d, "%016d" % 1), "w") as fh:
            fh.write(str(start))
        ents = []
        for k, ts, sv in sess:
            rc, out = C.sh([ecsdrv, "gensession", d, str(k), str(ts), str(sv)], env={"XVC_VERIF_RANDOM": str(rnd)}, timeout=60)
            line = out.strip().split("\n")[-1]
            if not line.startswith("["):
                return "ERR " + line
            ents += [x for x in line.strip("[]").split(",") if x]
        files = sorted(os.listdir(d))
        ecd = ",".join("%d=%s" % (int(f), open(os.path.join(d, f)).read().strip()) for f in files)
        return "ents=[%s] ecdir=[%s]" % (",".join(ents), ecd)
    finally:
        C.rm_rf(d)


def gen_model_line(start, sess, rnd=12345):
    return "gen 1=%d ; %s" % (start, " ".join("%d:%d:%d:%d" % (rnd, k, ts, sv) for k, ts, sv in sess))


# ---- the check ----------------------------------------------------------------------------------
def nontrivial_plain(line):
    toks = line.split()[2:]
    held = {}
    over = False
    for o in toks:
        f = o.split(":")
        if f[0] in ("i", "u"):
            if f[1] in held:
                over = True
            held[f[1]] = 1
        elif f[0] == "r" and f[1] in held:
            over = True; held.pop(f[1])
    return over and "l" in toks


def cli_failed_command_probe(chk):
    """`xvc file track d/a.txt` where d/.gitignore is a directory: the stores are saved, then the command fails;
    the next command allocates again.  With the random word pinned (hook H3) equal counters are equal entities."""
    import json
    from .xvc import XvcRepo
    xvc = C.ensure_xvc()
    n = 0
    for variant in ("gitignore-is-a-directory", "second-target-missing"):
        with XvcRepo(xvc, prefix="c08cli", git=False, init=False) as rp:
            rp.env["XVC_VERIF_RANDOM"] = "4242"
            if rp.xvc("init", "--no-git").failed:
                continue
            rp.write("d/a.txt", b"a\n"); rp.write("b.txt", b"b\n"); rp.write("c.txt", b"c\n")
            if variant == "gitignore-is-a-directory":
                os.makedirs(rp.path("d", ".gitignore"))
                r1 = rp.xvc("--skip-git", "file", "track", "d/a.txt")
                os.rmdir(rp.path("d", ".gitignore"))
            else:
                r1 = rp.xvc("--skip-git", "file", "track", "d/a.txt")
                r1 = rp.xvc("--skip-git", "file", "copy", "d/a.txt", "d/")           # fails: source and destination are the same
            r2 = rp.xvc("--skip-git", "file", "track", "b.txt", "c.txt")
            ents = {}
            sd = rp.path(".xvc", "store", "xvc-path-store")
            for fn in sorted(os.listdir(sd)) if os.path.isdir(sd) else []:
                for ev in json.load(open(os.path.join(sd, fn))):
                    if "Add" in ev:
                        ents.setdefault(tuple(ev["Add"]["entity"]), set()).add(ev["Add"]["value"])
            n += 1
            chk.count(("cli-failed-command", variant), True)
            clash = {e: sorted(v) for e, v in ents.items() if len(v) > 1}
            if clash and not r2.failed:
                chk.fail("oracle", "an entity was handed out twice by consecutive commands (the first one failed after saving its stores): %r" % clash,
                         {"input": {"kind": "cli-failed-command", "variant": variant}, "entities": {str(k): sorted(v) for k, v in ents.items()},
                          "first_command_failed": bool(r1.failed)}, name="clifail")
    return n


def run(chk, replay=None):
    tier, rng = chk.tier, chk.rng
    chk.cov["trusted_base"] = TRUSTED
    chk.assumptions += ["fresh_names: saves use increasing file names (the harness renames each saved file to the name the history asks for)",
                        "serde_json round trip of String components (exercised by every save/load of the real side)"]
    chk.proof()
    model = C.ensure_model("Ecs", ["Base", "Ecs"])
    ecsdrv = C.ensure_harness(["ecsdrv"])["ecsdrv"]

    cases = []   # (line, oracle_info)
    if replay:
        cases = [(replay["input"], replay.get("info"))]
    else:
        corpus = os.path.join(C.ROOT, "corpus", "C08")
        for f in sorted(os.listdir(corpus)) if os.path.isdir(corpus) else []:
            r = json.load(open(os.path.join(corpus, f)))
            cases.append((r["input"], r.get("info")))
        cases += [(l, None) for l in exhaustive(3 if tier == "quick" else 4)]
        cases += [(random_history(rng), None) for _ in range(300 if tier == "quick" else 5000)]
        for _ in range(100 if tier == "quick" else 1500):
            cases.append(random_merge(rng, disjoint=rng.random() < 0.8))
        cases += [(random_r1n(rng), None) for _ in range(100 if tier == "quick" else 2000)]
    lines = [c[0] for c in cases]
    rc_m, out_m = C.run_lines(model, lines, shards=8)
    rc_r, out_r = C.run_lines(ecsdrv, lines, shards=8)
    kinds = {}
    bad = []
    for (line, info), om, orr in zip(cases, out_m, out_r):
        kind = line.split(" ", 1)[0]
        kinds[kind] = kinds.get(kind, 0) + 1
        nt = nontrivial_plain(line) if kind == "plain" else True
        chk.count(line, nt)
        err = None
        if kind == "plain":
            err = oracle_plain(line, orr)
        elif kind == "merge" and info:
            err = oracle_merge(line, orr, info)
        if err:
            bad.append(("oracle", line, info, err, om, orr))
        elif om != orr:
            bad.append(("correspondence", line, info, "model and implementation differ", om, orr))
    for s in (lines[0], lines[len(lines) // 2], lines[-1]):
        chk.sample(s)
    if rc_m != 0 or rc_r != 0 or len(out_m) != len(lines) or len(out_r) != len(lines):
        chk.fail("correspondence", "a driver crashed or produced a different number of lines (model rc=%s n=%d, impl rc=%s n=%d)" % (
            rc_m, len(out_m), rc_r, len(out_r)), {"theorem_or_correspondence": "ecsmodel vs ecsdrv"}, has_input=False)

    # entity generator
    ngen = 0
    if not replay:
        for _ in range(12 if tier == "quick" else 150):
            start, sess = gen_case(rng)
            ml = gen_model_line(start, sess)
            rc, om = C.run_lines(model, [ml])
            orr = run_gen_real(ecsdrv, start, sess)
            ngen += 1
            chk.count(ml, sum(k for k, _, _ in sess) > 1 and len(sess) > 1)
            m = re.match(r"ents=\[([^\]]*)\]", orr)
            ents = [x for x in m.group(1).split(",") if x] if m else None
            total = sum(k for k, _, _ in sess)
            if ents is None or len(ents) != total or (len(set(ents)) != len(ents) and start + total < 2 ** 64):
                chk.fail("oracle", "entities handed out twice in a linear history with equal random words: %s" % orr,
                         {"input": ml, "observed": orr, "kind": "impl-history"}, name="gen")
            elif om[0] != orr:
                chk.fail("correspondence", "generator: model %s, implementation %s" % (om[0], orr),
                         {"input": ml, "model": om[0], "observed": orr,
                          "theorem_or_correspondence": "entities_fresh_linear / gen_sessions vs load_generator"},
                         name="gen", has_input=False)
            if ngen == 1:
                chk.sample(ml)
        kinds["gen"] = ngen
        # the same generator shared by the threads of one process: next_element is one atomic step in the
        # model (fetch_add); this run validates that reading on the real code
        npar = 0
        for (nt, per) in ([(8, 20000), (16, 5000)] if tier == "quick" else [(8, 200000), (16, 100000), (4, 50000), (2, 50000)]):
            d = C.scratch_dir("ecpar")
            try:
                start = rng.choice([1, 7, 2 ** 32])
                with open(os.path.join(d, "%016d" % 1), "w") as fh:
                    fh.write(str(start))
                rc, out = C.sh([ecsdrv, "genpar", d, str(nt), str(per)], env={"XVC_VERIF_RANDOM": "12345"}, timeout=300)
            finally:
                C.rm_rf(d)
            line = out.strip().split("\n")[-1]
            npar += 1
            case = "genpar start=%d threads=%d per_thread=%d" % (start, nt, per)
            chk.count(case, True)
            want = "total=%d distinct=%d min=%d max=%d saved=%d" % (nt * per, nt * per, start, start + nt * per - 1, start + nt * per)
            if line != want:
                m = re.match(r"total=(\d+) distinct=(\d+)", line)
                dup = bool(m) and int(m.group(2)) < int(m.group(1))
                chk.fail("oracle" if dup else "correspondence",
                         ("entities handed out twice within one session by concurrent allocations: " if dup else "parallel allocation: ") + "%s gives %s, expected %s" % (case, line, want),
                         {"input": case, "observed": line, "expected": want, "kind": "impl-history",
                          "theorem_or_correspondence": "entities_fresh_linear (next_element atomic)"}, name="genpar", has_input=dup)
        kinds["genpar"] = npar
        # the counter across COMMANDS of the binary, one of which fails after it saved stores: the entities the failed
        # command used must not be handed out by the next command (XvcRoot saves the counter when it is dropped)
        kinds["cli_failed_command"] = cli_failed_command_probe(chk)

    # shrink and report (at most 3 distinct reports)
    reported = 0
    for kind, line, info, err, om, orr in bad[:3]:
        head = line.split()[:2]
        toks = line.split()[2:]
        shrunk = line
        if head[0] == "plain":
            def still(ts):
                l = " ".join(head + ts)
                _, a = C.run_lines(model, [l]); _, b = C.run_lines(ecsdrv, [l])
                if kind == "oracle":
                    return oracle_plain(l, b[0]) is not None
                return a != b
            shrunk = " ".join(head + C.shrink_list(toks, still))
            _, b = C.run_lines(ecsdrv, [shrunk]); _, a = C.run_lines(model, [shrunk])
            om, orr = a[0], b[0]
            o2 = oracle_plain(shrunk, orr)
            if kind == "correspondence" and o2:
                kind, err = "oracle", o2
            elif kind == "oracle":
                err = o2 or err
        chk.fail(kind, err, {"input": shrunk, "info": info, "model": om, "observed": orr,
                             "theorem_or_correspondence": "replay_refines_map / index_exact / merge_disjoint_union; correspondence ecsmodel vs ecsdrv"},
                 name="hist", has_input=(kind == "oracle"))
        reported += 1
    chk.cov["rule"] = ("exhaustive: all op sequences of length <= %d over 2 entities x 2 values x {insert,update,remove} with every placement of save+reload boundaries; "
                       "random histories (4 entities x 3 values, length <= 40, save / load / save+load mixed in); divergent branch pairs merged under random interleavings of file names; "
                       "R1N histories; generator sessions with pinned equal random words. non-trivial = contains an overwrite or a remove of an occupied entity and a reload (plain), every merge / r1n case, generator cases with >1 session and >1 allocation; distinct by input line" % (3 if tier == "quick" else 4))
    chk.cov["distribution"] = kinds
    chk.cov["exhaustive"] = False
    chk.cov["disagreements"] = len(bad)
    return chk
