"""Scenario machinery shared by the file-repository properties (C01–C07, C16–C19): histories of user
actions and xvc file commands, executed on the real binary in a scratch repository and on the
extracted model M-REPO; canonical observations of both; independent reference hashes."""
import os, re, json, hashlib, stat, sys
from . import common as C
from .xvc import XvcRepo
sys.path.insert(0, os.path.join(C.ROOT, "tools"))
from blake3_ref import blake3  # noqa: E402

ALGOS = {"b3": "blake3", "b2": "blake2", "s2": "sha2", "s3": "sha3"}
ALGO_JSON = {"Blake3": "b3", "Blake2s": "b2", "SHA2_256": "s2", "SHA3_256": "s3"}
METHODS = ["copy", "hardlink", "symlink", "reflink"]
TOBS = ["auto", "text", "binary"]
BASE_NS = 1_000_000_000_000_000_000   # 2001-09-09: logical clock for user writes


def ref_hash(algo, data: bytes) -> str:
    if algo == "b3":
        return blake3(data).hex()
    if algo == "b2":
        return hashlib.blake2s(data, digest_size=32).hexdigest()
    if algo == "s2":
        return hashlib.sha256(data).hexdigest()
    if algo == "s3":
        return hashlib.sha3_256(data).hexdigest()
    raise ValueError(algo)


def is_text(data: bytes) -> bool:
    return b"\0" not in data[:8000]


def strip_crlf(data: bytes) -> bytes:
    return data.replace(b"\r", b"").replace(b"\n", b"")


def ext_of(path: str) -> str:
    name = path.rsplit("/", 1)[-1]
    if "." not in name:
        return ""
    stem, ext = name.rsplit(".", 1)
    return ext if stem else ""


# ---- histories ------------------------------------------------------------------------------------
# an item is a tuple:
#   ("W", path, bytes) | ("T", path, bytes) | ("D", path) | ("U", path)
#   ("track", {"m":..,"t":..,"nc":bool,"f":bool}, [paths]) | ("carry", {"t":..,"f":bool}, [paths])
#   ("recheck", {"m":..,"f":bool}, [paths])
def hx(b):
    return (b if isinstance(b, bytes) else b.encode()).hex()


def item_to_model(it):
    k = it[0]
    if k in ("W", "T"):
        return "%s %s %s" % (k, hx(it[1]), hx(it[2]))
    if k in ("D", "U"):
        return "%s %s" % (k, hx(it[1]))
    o = it[1]
    opts = []
    if o.get("m"):
        opts.append("m=" + o["m"])
    if o.get("t"):
        opts.append("t=" + o["t"])
    if o.get("nc"):
        opts.append("nc")
    if o.get("f"):
        opts.append("f")
    return "%s %s -- %s" % (k, " ".join(opts), " ".join(hx(p) for p in it[2]))


def history_to_model(cfg, items, fx="0000"):
    """fx: the switches of Repo/Fix.v the model runs under, "<fixed_P44><fixed_P41><fixed_P49><fixed_P43>" """
    return "repo %s %s %s fx=%s | %s" % (cfg["algo"], cfg["method"], cfg["tob"], fx, " ; ".join(item_to_model(i) for i in items))


def item_to_json(it):
    return [it[0]] + [x.hex() if isinstance(x, bytes) else x for x in it[1:]]


def item_from_json(j):
    k = j[0]
    if k in ("W", "T"):
        return (k, j[1], bytes.fromhex(j[2]))
    return tuple(j)


# ---- canonical observation ---------------------------------------------------------------------------
ADDR_RE = re.compile(r"@(b3|b2|s2|s3),([0-9a-f]*),([0-9a-f]*)@")


def subst_addr(s):
    def f(m):
        h = ref_hash(m.group(1), bytes.fromhex(m.group(2)))
        ext = bytes.fromhex(m.group(3)).decode("utf-8", "replace")
        return "%s/%s/%s" % (m.group(1), h, ext)
    return ADDR_RE.sub(f, s)


def parse_model_obs(txt):
    """one model observation -> canonical dict"""
    m = re.match(r"oc=(\w+) ws=(\S*) objs=(\S*) recs=(\S*)$", txt)
    if not m:
        return {"error": txt[:200]}
    oc, ws, objs, recs = m.groups()
    o = {"oc": oc, "ws": {}, "objs": {}, "recs": {}}
    for e in filter(None, subst_addr(ws).split(",")):
        p, kind, w, b = e.split(":")
        o["ws"][bytes.fromhex(p).decode("utf-8", "replace")] = [kind.rstrip("/") if kind in ("F",) else kind, w, b]
    for e in filter(None, subst_addr(objs).split(",")):
        a, kind, w, dw, b = e.split(":")
        o["objs"][a] = [kind, w, dw, b]
    for e in filter(None, subst_addr(recs).split(",")):
        p, d, meth, tob, hist = e.split(":")
        o["recs"][bytes.fromhex(p).decode("utf-8", "replace")] = [d.rstrip("/"), meth, tob,
                                                                 [h.rstrip("/") for h in hist.split("+") if h]]
    return o


def parse_cache_path(rel):
    """.xvc-relative 'b3/abc/def/<58>/0.ext' -> 'b3/<64hex>/ext' or None"""
    parts = rel.split("/")
    if len(parts) != 5 or parts[0] not in ALGOS or not parts[4].startswith("0."):
        return None
    return "%s/%s/%s" % (parts[0], parts[1] + parts[2] + parts[3], parts[4][2:])


def replay_store(root, name):
    """independent replay of an event-sourced store directory -> (map entity -> value, events per entity)"""
    d = os.path.join(root, ".xvc", "store", name)
    cur, hist = {}, {}
    if not os.path.isdir(d):
        return cur, hist
    for f in sorted(os.listdir(d)):
        for ev in json.load(open(os.path.join(d, f))):
            if "Add" in ev:
                e = tuple(ev["Add"]["entity"]); cur[e] = ev["Add"]["value"]; hist.setdefault(e, []).append(ev["Add"]["value"])
            else:
                e = tuple(ev["Remove"]["entity"]); cur.pop(e, None)
    return cur, hist


def digest_str(v):
    return "%s/%s" % (ALGO_JSON.get(v["algorithm"], v["algorithm"]), bytes(v["digest"]).hex())


def observe_real(root, oc):
    o = {"oc": oc, "ws": {}, "objs": {}, "recs": {}, "ino": {}, "wino": {}, "raw": {}}
    xvc = os.path.join(root, ".xvc")
    ino_to_addr = {}
    # cache objects
    for a in ALGOS:
        top = os.path.join(xvc, a)
        for dp, dn, fn in os.walk(top):
            for f in fn:
                full = os.path.join(dp, f)
                addr = parse_cache_path(os.path.relpath(full, xvc))
                if addr is None:
                    o["objs"]["?" + os.path.relpath(full, xvc)] = ["?", "?", "?", "?"]
                    continue
                st = os.lstat(full)
                o["ino"][addr] = st.st_ino
                o["raw"][addr] = os.path.relpath(full, xvc)
                dw = "1" if os.stat(dp).st_mode & 0o222 else "0"
                if stat.S_ISLNK(st.st_mode):
                    tgt = os.readlink(full)
                    ta = parse_cache_path(os.path.relpath(tgt, xvc)) if tgt.startswith(xvc) else None
                    kind, w = "L" + (ta or "?" + tgt), "-"
                else:
                    kind, w = "F", ("1" if st.st_mode & 0o222 else "0")
                    ino_to_addr.setdefault(st.st_ino, addr)
                try:
                    b = open(full, "rb").read().hex()
                except OSError:
                    b = "!"
                o["objs"][addr] = [kind, w, dw, b]
    # workspace
    for dp, dn, fn in os.walk(root):
        dn[:] = [d for d in dn if not (dp == root and d in (".xvc", ".git"))]
        for f in fn:
            full = os.path.join(dp, f)
            rel = os.path.relpath(full, root)
            if f in (".gitignore", ".xvcignore"):
                continue
            st = os.lstat(full)
            o["wino"][rel] = st.st_ino
            if stat.S_ISLNK(st.st_mode):
                tgt = os.readlink(full)
                ta = parse_cache_path(os.path.relpath(tgt, xvc)) if tgt.startswith(xvc) else None
                kind, w = "L" + (ta or "?" + tgt), "-"
            else:
                a = ino_to_addr.get(st.st_ino)
                kind, w = ("H" + a if a else "F"), ("1" if st.st_mode & 0o222 else "0")
            try:
                b = open(full, "rb").read().hex()
            except OSError:
                b = "!"
            o["ws"][rel] = [kind, w, b]
        for d in list(dn):   # symlinks to directories are listed in dn: not produced by our scenarios
            pass
    # records
    paths, _ = replay_store(root, "xvc-path-store")
    metas, _ = replay_store(root, "xvc-metadata-store")
    digs, dhist = replay_store(root, "content-digest-store")
    meths, _ = replay_store(root, "recheck-method-store")
    tobs, _ = replay_store(root, "file-text-or-binary-store")
    for e, p in paths.items():
        md = metas.get(e)
        if md is not None and md.get("file_type") == "Directory":
            continue
        d = digs.get(e)
        o["recs"][p] = [digest_str(d) if d else "-", (meths.get(e) or "-").lower(), (tobs.get(e) or "-").lower(),
                        [digest_str(x) for x in reversed(dhist.get(e, []))]]
    return o


def diff_obs(m, r, ignore_oc_err=False):
    """list of human-readable differences between a model observation and a real one"""
    out = []
    if "error" in m:
        return ["model error: " + m["error"]]
    moc, roc = m["oc"], r["oc"]
    if ignore_oc_err:
        moc = "Ok" if moc == "Err" else moc
        roc = "Ok" if roc == "Err" else roc
    if moc != roc:
        out.append("outcome: model %s, implementation %s" % (m["oc"], r["oc"]))
    for sec in ("ws", "objs", "recs"):
        for k in sorted(set(m[sec]) | set(r[sec])):
            if m[sec].get(k) != r[sec].get(k):
                out.append("%s[%s]: model %s, implementation %s" % (sec, k, short(m[sec].get(k)), short(r[sec].get(k))))
    return out


def short(v):
    s = json.dumps(v)
    return s if len(s) < 300 else s[:300] + "..."


# ---- real execution ---------------------------------------------------------------------------------------
class RealRun:
    """executes a history on the real binary, observing after every item"""

    def __init__(self, xvc_bin, cfg, parallel=True, git=False):
        self.cfg = cfg
        self.repo = XvcRepo(xvc_bin, prefix="hist", git=git)
        self.root = self.repo.root
        self.tick = 0
        self.parallel = parallel
        self.git = git
        self.log = []
        self.list_kinds = ()      # item kinds after which `xvc file list` is recorded in the observation

    def cfg_args(self):
        a = ["-c", "cache.algorithm=" + ALGOS[self.cfg["algo"]], "-c", "file.recheck.method=" + self.cfg["method"],
             "-c", "file.track.text_or_binary=" + self.cfg["tob"]]
        return a

    def user_stamp(self, p):
        self.tick += 1
        ns = BASE_NS + self.tick * 1_000_000_000
        os.utime(p, ns=(ns, ns), follow_symlinks=False)

    def do(self, it):
        k = it[0]
        if k == "W":
            self.repo.write(it[1], it[2])
            os.chmod(self.repo.path(it[1]), (0o644, 0o664, 0o666)[(self.tick + len(it[1])) % 3])
            self.user_stamp(self.repo.path(it[1])); return "Ok", None
        if k == "T":
            p = self.repo.path(it[1])
            if not os.path.lexists(p):
                self.repo.write(it[1], it[2]); self.user_stamp(p); return "Ok", None
            try:
                real = os.path.realpath(p)
                if os.access(real, os.W_OK) and os.stat(real).st_mode & 0o200:
                    with open(real, "r+b") as fh:
                        fh.truncate(0); fh.write(it[2])
                    self.tick += 1
                    ns = BASE_NS + self.tick * 1_000_000_000
                    os.utime(real, ns=(ns, ns))
            except OSError:
                pass
            return "Ok", None
        if k == "D":
            p = self.repo.path(it[1])
            if os.path.lexists(p):
                os.unlink(p)
            return "Ok", None
        if k == "U":
            p = self.repo.path(it[1])
            if os.path.lexists(p) and not os.path.islink(p):
                self.user_stamp(p)
            return "Ok", None
        o = it[1]
        args = ["-vv"] + self.cfg_args() + ["file"]
        if k == "track":
            args += ["track"]
            if o.get("m"):
                args += ["--recheck-method", o["m"]]
            if o.get("t"):
                args += ["--text-or-binary", o["t"]]
            if o.get("nc"):
                args += ["--no-commit"]
            if o.get("f"):
                args += ["--force"]
        elif k == "carry":
            args += ["carry-in"]
            if o.get("t"):
                args += ["--text-or-binary", o["t"]]
            if o.get("f"):
                args += ["--force"]
        elif k == "recheck":
            args += ["recheck"]
            if o.get("m"):
                args += ["--recheck-method", o["m"]]
            if o.get("f"):
                args += ["--force"]
        else:
            raise ValueError(k)
        if not self.parallel:
            args += ["--no-parallel"]
        args += list(it[2])
        res = self.repo.xvc(*args, timeout=900)
        if res.timed_out:
            # a loaded machine, not a verdict: the caller retries or sets the history aside
            raise TimeoutError("xvc %s did not finish within 900 s" % " ".join(args[-4:]))
        self.log.append((args, res.rc, "\n".join(l for l in res.err.split("\n") if "[ERROR]" in l or "panicked" in l)[-400:]))
        oc = "Panic" if res.panicked else ("Err" if res.failed else "Ok")
        return oc, res

    def run(self, items, stop_on_panic=True):
        """returns (observations, effective items): in the effective items the targets of every
        track / carry-in command are listed in the order in which the implementation processed
        them (read from its [RECHECK] log lines; HashMap iteration and rayon make that order
        arbitrary, and it is a parameter of the model)"""
        obs, eff = [], []
        for it in items:
            oc, res = self.do(it)
            if res is not None and it[0] in ("track", "carry"):
                order = []
                for l in (res.err + "\n" + res.out).split("\n"):
                    m = re.search(r"\[CARRY\] (.+) -> \S+$", l) or re.search(r"\[EXISTS\] \S+ for (.+)$", l)
                    if m and m.group(1) in it[2] and m.group(1) not in order:
                        order.append(m.group(1))
                it = (it[0], it[1], order + [p for p in it[2] if p not in order])
            eff.append(it)
            obs.append(observe_real(self.root, oc))
            if it[0] in self.list_kinds and oc != "Panic":
                obs[-1]["list"] = self.file_list()
            if oc == "Panic" and stop_on_panic:
                break
        return obs, eff

    def file_list(self):
        """`xvc file list`: path -> (recorded digest hex, recorded recheck method letter)"""
        res = self.repo.xvc(*(self.cfg_args() + ["file", "list", "--format", "{{rcd64}} {{rrm}} {{name}}", "--no-summary"]))
        out = {}
        for l in res.out.split("\n"):
            m = re.match(r"(\S*) (\S*) (.+)$", l)
            if m:
                out[m.group(3)] = (m.group(1), m.group(2))
        return out

    def close(self):
        self.repo.cleanup()


# ---- which repairs does the binary under test contain? ---------------------------------------------------
# The switches of Repo/Fix.v are never assumed: every run probes the binary with small histories whose outcome
# differs between the code as Repo/Model.v has it and the repaired code.  A probe that fits neither (a half-applied
# or altered repair) raises ProbeError: the caller reports it as a correspondence failure.
class ProbeError(Exception):
    pass


_SAME, _CRLF = b"same", b"a\r\nb\r\n"
PROBES = {
    # P42: two equal files, track --force --recheck-method hardlink, serial
    "p42": (False, [("W", "p.txt", _SAME), ("W", "q.txt", _SAME), ("track", {"m": "hardlink", "f": True}, ["p.txt", "q.txt"])]),
    # P41, hard link: a hard-linked path re-committed under another text-or-binary mode
    "p41h": (False, [("W", "a.txt", _CRLF), ("track", {"m": "hardlink"}, ["a.txt"]), ("U", "a.txt"), ("track", {"t": "binary"}, ["a.txt"])]),
    # P41, symlink: b.txt is a symlink to an object that came from a.txt (other stamp), re-committed in binary mode
    "p41s": (False, [("W", "a.txt", _CRLF), ("track", {}, ["a.txt"]), ("W", "b.txt", _CRLF), ("track", {"m": "symlink"}, ["b.txt"]),
                     ("track", {"t": "binary"}, ["b.txt"])]),
    # P41, carry-in --force of a path that is a hard link to its own object, another path linked to it as well
    "p41f": (False, [("W", "a.txt", _SAME), ("W", "b.txt", _SAME), ("track", {"m": "hardlink"}, ["a.txt", "b.txt"]), ("carry", {"f": True}, ["a.txt"])]),
    # P49: carry-in of a deleted path together with a changed one
    "p49": (False, [("W", "a.txt", _SAME), ("W", "b.txt", b"two"), ("track", {}, ["a.txt", "b.txt"]), ("D", "a.txt"), ("W", "b.txt", b"changed"),
                    ("carry", {}, ["a.txt", "b.txt"]), ("recheck", {}, ["a.txt"])]),
    # P43: track --recheck-method on tracked, unchanged paths: after a touch (a.txt, a copy); without one (b.txt, a symlink: the book's scenario)
    "p43": (False, [("W", "a.txt", _SAME), ("W", "b.txt", b"two"), ("track", {}, ["a.txt"]), ("track", {"m": "symlink"}, ["b.txt"]), ("U", "a.txt"),
                    ("track", {"m": "hardlink"}, ["a.txt"]), ("track", {"m": "copy"}, ["b.txt"])]),
}
P44_PROBE = (True, [("W", "f%d.txt" % i, _SAME) for i in range(8)] + [("track", {"m": "hardlink"}, ["f%d.txt" % i for i in range(8)])])
PROBE_CFG = {"algo": "b3", "method": "copy", "tob": "auto"}


def _probe_run(xvc, probe, all_obs=False, attempts=2):
    """a run that could not be completed (time-out on an overloaded machine, scratch directory trouble) is repeated once"""
    par, items = probe
    for k in range(attempts):
        rr = None
        try:
            rr = RealRun(xvc, PROBE_CFG, parallel=par)
            obs, _ = rr.run(items)
            if all_obs:
                return obs
            return obs[-1] if len(obs) == len(items) else None
        except (OSError, TimeoutError):
            if k + 1 == attempts:
                raise
        finally:
            if rr is not None:
                try:
                    rr.close()
                except Exception:   # noqa: BLE001
                    pass


def probe_fixes(xvc):
    """-> (fx, details): fx = "<fixed_P44><fixed_P41><fixed_P49><fixed_P43>" for Repo/Fix.v; raises ProbeError when inconclusive"""
    from concurrent.futures import ThreadPoolExecutor
    names = list(PROBES)
    with ThreadPoolExecutor(len(names)) as ex:
        res = dict(zip(names, ex.map(lambda n: _probe_run(xvc, PROBES[n], all_obs=(n == "p49")), names)))
    det = {}

    def kinds(o, paths):
        return [(o["ws"].get(p) or ["-"])[0][:1] for p in paths] if o else None
    # P42 / P44
    k = kinds(res["p42"], ["p.txt", "q.txt"])
    if k is None or res["p42"]["oc"] != "Ok" or len(res["p42"]["objs"]) != 1 or sorted(k) not in (["H", "H"], ["F", "H"]):
        raise ProbeError("probe p42 (track --force --recheck-method hardlink of two equal files) fits neither the code as modelled nor the repair: %s" % short(res["p42"] and res["p42"]["ws"]))
    p44 = sorted(k) == ["H", "H"]
    det["p42"] = "both targets linked to the object" if p44 else "one target left unlinked"
    if p44:
        # the repair also serialises the targets of one cache path in parallel mode: no run may show the race
        with ThreadPoolExecutor(4) as ex:
            runs = list(ex.map(lambda _: _probe_run(xvc, P44_PROBE), range(4)))
        bad = [o for o in runs if o is None or o["oc"] != "Ok" or any(e[0][:1] != "H" for e in o["ws"].values()) or len(o["ws"]) != 8]
        det["p44"] = "%d of 4 parallel runs of 8 equal files show the race" % len(bad)
        if bad:
            raise ProbeError("track --force of duplicates is repaired in serial mode, but parallel mode still races on one cache path (half-applied repair of P44): %s" % short(bad[0] and bad[0]["ws"]))
    # P41
    o = res["p41h"]
    if o is None or o["oc"] != "Ok" or len(o["objs"]) != 2:
        raise ProbeError("probe p41h (hard-linked path re-committed in binary mode) did not create a second object: %s" % short(o and o["objs"]))
    h = len(set(o["ino"].values())) == 2
    o = res["p41s"]
    if o is None or o["oc"] != "Ok" or len(o["objs"]) != 2:
        raise ProbeError("probe p41s (symlinked path re-committed in binary mode) did not create a second object: %s" % short(o and o["objs"]))
    sk = sorted(e[0][:1] for e in o["objs"].values())
    if sk not in (["F", "F"], ["F", "L"]):
        raise ProbeError("probe p41s: unexpected cache entries %s" % short(o["objs"]))
    sl = sk == ["F", "F"]
    o = res["p41f"]
    k = kinds(o, ["a.txt", "b.txt"])
    if o is None or o["oc"] != "Ok" or k is None or k[0] != "H":
        raise ProbeError("probe p41f (carry-in --force of a hard link to its own object): %s" % short(o and o["ws"]))
    det["p41"] = "hard link: %s; symlink: %s; forced hard link: other path %s" % (
        "content copied" if h else "link renamed", "content copied" if sl else "link renamed", "still linked" if k[1] == "H" else "detached")
    if h != sl or k[1] != "H":
        raise ProbeError("the probes of P41 disagree (half-applied repair): " + det["p41"])
    # P49: as the code was, carry-in panics on the deleted path (the run stops there: no last observation); repaired, the
    # changed path is committed, the deleted one keeps its record and recheck restores it
    obs = res["p49"]
    if len(obs) == 6 and obs[5]["oc"] == "Panic" and obs[5]["recs"].get("b.txt", ["-"])[0] == obs[2]["recs"].get("b.txt", ["?"])[0] and len(obs[5]["objs"]) == 2:
        p49 = False
        det["p49"] = "carry-in of a deleted path panics, nothing is committed"
    else:
        o = obs[-1] if len(obs) == 7 else None
        ok = (o is not None and o["oc"] == "Ok" and obs[5]["oc"] == "Ok" and (o["ws"].get("a.txt") or ["-", "-", ""])[2] == _SAME.hex() and len(o["objs"]) == 3
              and o["recs"].get("b.txt", ["-"])[0].endswith(ref_hash("b3", b"changed")) and o["recs"].get("a.txt") == obs[2]["recs"].get("a.txt"))
        if not ok:
            raise ProbeError("probe p49 (carry-in of a deleted and a changed path, then recheck of the deleted one) fits neither the code as modelled nor the repair: %s" % short([(x["oc"], x["recs"], sorted(x["ws"])) for x in obs[5:]]))
        p49 = True
        det["p49"] = "the deleted path is left alone and stays restorable, the changed path is committed"
    # P43: as the code was, a.txt stays a copy (only the record says hardlink) and b.txt stays a symlink; repaired, a.txt is a hard
    # link and b.txt a copy, and the records say so
    o = res["p43"]
    k = kinds(o, ["a.txt", "b.txt"])
    meth = [o["recs"].get(p, ["-", "-"])[1] for p in ("a.txt", "b.txt")] if o else None
    if o is None or o["oc"] != "Ok" or (k, meth) not in ((["F", "L"], ["hardlink", "symlink"]), (["H", "F"], ["hardlink", "copy"])):
        raise ProbeError("probe p43 (track --recheck-method on tracked, unchanged paths) fits neither the code as modelled nor the repair: kinds %s, recorded methods %s" % (k, meth))
    p43 = k == ["H", "F"]
    det["p43"] = "unchanged targets are re-materialised with the method of the command line" if p43 else "unchanged targets keep their entries"
    return ("1" if p44 else "0") + ("1" if h else "0") + ("1" if p49 else "0") + ("1" if p43 else "0"), det


_FIXES = {}


def current_fixes(xvc=None, details=False):
    """the switches of the binary under test, probed once per process"""
    xvc = xvc or C.ensure_xvc()
    if xvc not in _FIXES:
        _FIXES[xvc] = probe_fixes(xvc)
    return _FIXES[xvc] if details else _FIXES[xvc][0]


def run_model(model_bin, cfg, items_list, fx=None):
    """items_list: list of histories; returns list of lists of canonical observations.  fx: the model
    switches; None = those the binary under test was found to have (probe_fixes)"""
    fx = current_fixes() if fx is None else fx
    lines = [history_to_model(cfg_i, items, fx) for cfg_i, items in items_list]
    rc, out = C.run_lines(model_bin, lines, shards=4)
    res = []
    for l in out:
        res.append([parse_model_obs(x) for x in l.split(" | ")])
    return res


def first_mismatch(mobs, robs):
    for j, (m, r) in enumerate(zip(mobs, robs)):
        d = diff_obs(m, r, ignore_oc_err=True)
        if d:
            return j, d
        if r["oc"] == "Panic":
            break
    return None


def correspond(model_bin, cfg, eff_items, robs, max_tries=48, fx=None):
    """compares the model with the real observations.  The order in which a multi-target command
    visits its targets is a parameter of the model (HashMap iteration order, rayon): the order read
    from the implementation's log is tried first, then, on a mismatch, the permutations of the
    targets of the multi-target track / carry-in commands up to the mismatching item.
    Returns None (agreement for some visiting order) or (item index, differences, tries)."""
    import itertools
    fx = current_fixes() if fx is None else fx
    mobs = run_model(model_bin, None, [(cfg, eff_items)], fx)[0]
    mm = first_mismatch(mobs, robs)
    if mm is None:
        return None
    j0 = mm[0]
    multi = [i for i, it in enumerate(eff_items[:j0 + 1]) if it[0] in ("track", "carry") and 1 < len(it[2]) <= 4]
    if not multi:
        return mm + (1,)
    tries = 0
    cands = []
    for combo in itertools.product(*[list(itertools.permutations(eff_items[i][2])) for i in multi]):
        items = list(eff_items)
        for i, perm in zip(multi, combo):
            items[i] = (items[i][0], items[i][1], list(perm))
        cands.append(items)
        if len(cands) >= max_tries:
            break
    allobs = run_model(model_bin, None, [(cfg, c) for c in cands], fx)
    best = mm
    for items, mo in zip(cands, allobs):
        tries += 1
        m2 = first_mismatch(mo, robs)
        if m2 is None:
            return None
        if m2[0] > best[0]:
            best = m2
    return best + (tries,)


# ---- independent content-address oracle (C02) -------------------------------------------------------------
def cas_check(obs):
    """every regular cache object sits at the address of its own bytes (binary, or CR/LF-stripped),
    is read-only, and so is its directory.  Returns a list of violations."""
    bad = []
    for addr, (kind, w, dw, b) in obs["objs"].items():
        if addr.startswith("?"):
            bad.append("unexpected file in cache: " + addr); continue
        if kind != "F":
            bad.append("cache entry %s is not a regular file (%s)" % (addr, kind)); continue
        if b == "!":
            bad.append("cache object %s unreadable" % addr); continue
        algo, h, ext = addr.split("/", 2)
        data = bytes.fromhex(b)
        if h not in (ref_hash(algo, data), ref_hash(algo, strip_crlf(data))):
            bad.append("object %s does not hash to its address (binary %s, text %s)" % (addr, ref_hash(algo, data)[:8], ref_hash(algo, strip_crlf(data))[:8]))
        if w != "0":
            bad.append("object %s is writable" % addr)
        if dw != "0":
            bad.append("directory of object %s is writable" % addr)
    return bad


# ---- history generation -------------------------------------------------------------------------------------
CONTENTS = [b"", b"hello\n", b"hello\r\n", b"hello", b"he\nllo", b"a\nb\n", b"a\r\nb\r\n", b"\0bin\n", b"x" * 7999 + b"\0", b"x" * 8000 + b"\0",
            b"x" * 7998 + b"\n\0", b"x" * 8001 + b"\0", b"y" * 7999 + b"\r\n", b"line1\nline2\n", b"\xff\xfe\n", b"other", b"other\n",
            # CR/LF content whose first NUL sits just outside the 8000-byte window is TEXT (and just inside: binary):
            # the raw and the CR/LF-stripped digests differ, so a shifted window changes the address
            b"a\r\nb\n" + b"x" * 7994 + b"\0", b"a\r\nb\n" + b"x" * 7995 + b"\0", b"a\r\nb\n" + b"x" * 8100 + b"\0tail",
            b"a\nb\r\n" + b"z" * 8186 + b"\0", b"a\nb\r\n" + b"z" * 8187 + b"\0"]
PATHS = ["a.txt", "b.txt", "d/a.txt", "d/e/c.dat", "noext", "sp ace.txt", "ü.txt", "a.dat", ".hidden", "x.tar.gz"]


def gen_history(rng, n_items=(4, 12), paths=None, cmds=("track", "carry", "recheck"), p_force=0.25):
    paths = paths or rng.sample(PATHS, rng.randint(1, 3))
    cfg = {"algo": rng.choice(list(ALGOS)) if rng.random() < 0.4 else "b3",
           "method": rng.choice(METHODS) if rng.random() < 0.4 else "copy",
           "tob": rng.choice(TOBS) if rng.random() < 0.3 else "auto"}
    items = []
    pool = rng.sample(CONTENTS, rng.randint(2, 5))
    for p in paths:
        items.append(("W", p, rng.choice(pool)))
    items.append(("track", {"m": rng.choice(METHODS) if rng.random() < 0.5 else None,
                            "t": rng.choice(TOBS) if rng.random() < 0.2 else None}, list(paths)))
    for _ in range(rng.randint(*n_items)):
        k = rng.random()
        p = rng.choice(paths)
        if k < 0.22:
            items.append(("W", p, rng.choice(pool)))
        elif k < 0.27:
            items.append(("T", p, rng.choice(pool)))
        elif k < 0.37:
            items.append(("D", p))
        elif k < 0.42:
            items.append(("U", p))
        else:
            c = rng.choice(cmds)
            tg = [p] if rng.random() < 0.6 else list(paths)
            if c == "track":
                items.append(("track", {"m": rng.choice(METHODS) if rng.random() < 0.4 else None,
                                        "t": rng.choice(TOBS) if rng.random() < 0.15 else None,
                                        "nc": rng.random() < 0.1, "f": rng.random() < 0.1}, tg))
            elif c == "carry":
                items.append(("carry", {"t": rng.choice(TOBS) if rng.random() < 0.15 else None, "f": rng.random() < p_force}, tg))
            else:
                items.append(("recheck", {"m": rng.choice(METHODS) if rng.random() < 0.5 else None, "f": rng.random() < p_force}, tg))
    return cfg, items
